#!/usr/bin/env python3
"""rs2coq, part 8: the role-link building of src/model/assertion.rs (Assertion::build_role_links,
Assertion::build_incremental_role_links) and the store mutators / link builders of
src/model/default_model.rs (add_policy, add_policies, remove_policy, remove_policies, clear_policy,
build_role_links, build_incremental_role_links of `impl Model for DefaultModel`)
-> coq/Gen/LinksGen.v over coq/Gen/RustVec.v + coq/Gen/LinksPrims.v; proved equal to the model
(link_rules / build_links_am / incremental_links, m_add_policy .. m_clear_policy of Model/Engine.v) for all
inputs in coq/PinChecks/PcLinksGen.v (lemmas in coq/Proofs/RustLinksP.v).
Kept in its own module; rs2coq.py's main() calls main() here.

Built on part 3 (rs2coq_store: parser SP3, emitter Emit3, flow / rs_for).  What is new:

  functions with STATE.  Every translated function returns `option (state.., value)` (None = panic):
    Assertion methods          state = (v_self : assertion, st_rm : rmgr)       `&mut self`, the manager behind `rm`
    DefaultModel link builders state = (st_model : model, st_rm : rmgr)
    clear_policy               state = st_model                                  (value: none)
    add/remove_policy/policies state = st_policy (the rule list of the addressed assertion; part-3 style lookups:
                               `gen_f` when (sec, ptype) names an assertion, `gen_f_absent` when a lookup fails)
  Result<()> as `lerr`          Ok(()) -> LOk;  Err(ModelError::..(..).into()) -> LErr EModel;
                               Err(PolicyError::..(..).into()) -> LErr EPolicy;  e? -> leave with LErr c when e is LErr c
  calls with an effect          rm.write().add_link(a, b, d)            st_rm := rs_rm_add_link st_rm a b d
                               rm.write().delete_link(a, b, d)         (st_rm, r) := rs_rm_delete_link ..   (r : lerr; ERbac)
                               X.policy.insert(r) / .remove(r) / .clear()   on the rule list of X; value = was new / was there
                               X.build_role_links(rm) / X.build_incremental_role_links(rm, d)   the translated Assertion methods
                               self.rm = e;
    They are moved in front of the let / return / if condition / expression statement they occur in; this is
    accepted only when nothing but `!` and `?` stands between the call and the whole expression (so no read of
    the state can come before it); an effect anywhere else is Untranslatable.
  borrows                      `if let Some(x) = self.model.get_mut(k) {..}` and `for a in x.values_mut() {..}` bind
                               local copies that are written back (rs_model_set / rs_value_set) at the end of their
                               scope, at the end of every iteration and before every `return`;
                               `self.model.get_mut(a).and_then(|m| m.get_mut(b))` is a first-class borrow (rs_ast_borrow),
                               written back right after a method call on it
  expressions                  match d { EventData::..(..) [| ..] [if guard] => e, .. , _ => e }   (d : EventData)
                               Some(e) None Ok(()) Err(..) () vec![e, ..] e.len() < > <= >= s.matches('c').count()
                               X.policy.contains(r)  Arc::clone(&rm)  `if let Some(x) / Some((x, y)) = e { .. }`
"""
import os
import re
import sys

sys.path.insert(0, os.path.dirname(os.path.abspath(__file__)))
import pins  # noqa: E402
import rs2coq  # noqa: E402
from rs2coq import Untranslatable, coq_text, coq_char  # noqa: E402
import rs2coq_store as P3  # noqa: E402
from rs2coq_store import SP3, Emit3, TV, V2, rust_type, tyname3, coq_ty  # noqa: E402

V1 = ("vec", "text")

# ------------------------------------------------------------------ lexer
LTOK = re.compile(r'''\s*(?:(//[^\n]*)|(/\*.*?\*/)|r(\#+)"(.*?)"\3|("(?:[^"\\]|\\.)*")|('(?:[^'\\]|\\.)')|(\d+)'''
                  r'''|([A-Za-z_]\w*(?:::[A-Za-z_]\w*)*(?:!(?!=))?)'''
                  r'''|(\|\||&&|==|!=|>=|<=|=>|->|\.\.|[{}()\[\];=!&.,<>*+\-:?|]))''', re.S)


def llex(src):
    out = []
    i = 0
    while i < len(src):
        if src[i:].strip() == "":
            break
        m = LTOK.match(src, i)
        if not m:
            raise Untranslatable("cannot tokenise at: %r" % src[i:i + 30])
        i = m.end()
        if m.group(1) or m.group(2):
            continue
        if m.group(3) is not None:
            out.append(("rawstr", m.group(4)))
            continue
        for k, kind in ((5, "str"), (6, "chr"), (7, "int"), (8, "id"), (9, "op")):
            if m.group(k) is not None:
                out.append((kind, m.group(k)))
                break
    return out


# ------------------------------------------------------------------ parser
class SP8(SP3):
    """part-3 AST plus
       stmt  = ("fassign", field, e)                      self.field = e;
       cond  = ("iflet", x | (x, y, ..), e)               if let Some(x) / Some((x, y)) = e
       e     = ("cmpn", op, a, b) | ("try", e) | ("some", e) | ("none",) | ("ok", e) | ("err", e) | ("unit",)
             | ("veclit", [e]) | ("match", e, [([pattern], guard | None, e)])
       pattern = ("wild",) | ("bind", x) | ("ctor", path, [pattern])"""

    def cmp(self):
        a = self.add()
        kind, v = self.peek()
        if kind == "op" and v in ("==", "!="):
            self.eat()
            return ("eq", a, self.add(), v == "!=")
        if kind == "op" and v in ("<", ">", "<=", ">="):
            self.eat()
            return ("cmpn", v, a, self.add())
        return a

    def postfix(self):
        e = self.primary()
        while True:
            if self.peek() == ("op", "."):
                self.eat()
                kind, name = self.eat()
                if kind != "id" or "::" in name or name.endswith("!"):
                    raise Untranslatable("method / field name " + name)
                if self.peek() != ("op", "("):
                    e = ("field", e, name)
                    continue
                self.eat("(")
                args = []
                while self.peek() != ("op", ")"):
                    args.append(self.expr())
                    if self.peek() == ("op", ","):
                        self.eat()
                self.eat(")")
                e = ("call", name, e, args)
            elif self.peek() == ("op", "["):
                self.eat()
                ix = self.expr()
                self.eat("]")
                e = ("index", e, ix)
            elif self.peek() == ("op", "?"):
                self.eat()
                e = ("try", e)
            else:
                return e

    def ident(self, what):
        kind, x = self.eat()
        if kind != "id" or "::" in x or x.endswith("!"):
            raise Untranslatable("%s %s" % (what, x))
        return x

    def primary(self):
        kind, v = self.peek()
        if kind == "rawstr":
            self.eat()
            return ("str", v)
        if kind == "op" and v == "(" and self.peek(1) == ("op", ")"):
            self.eat()
            self.eat()
            return ("unit",)
        if kind == "op" and v == "{":
            blk = self.block()
            if blk[0] or blk[1] is None:
                raise Untranslatable("a block with statements in expression position")
            return blk[1]
        if kind == "op" and v == "|":
            self.eat()
            params = []
            while self.peek() != ("op", "|"):
                mutable = False
                if self.peek() == ("id", "mut"):
                    self.eat()
                    mutable = True
                params.append((self.ident("closure parameter"), mutable))
                if self.peek() == ("op", ","):
                    self.eat()
            self.eat("|")
            if self.peek() == ("op", "{"):
                return ("closure", params, self.block())
            return ("closure", params, ([], self.expr()))
        if kind == "id":
            if v in ("Some", "Ok", "Err") and self.peek(1) == ("op", "("):
                self.eat()
                self.eat("(")
                e = self.expr()
                self.eat(")")
                return ({"Some": "some", "Ok": "ok", "Err": "err"}[v], e)
            if v == "None":
                self.eat()
                return ("none",)
            if v == "match":
                return self.match_()
            if v == "vec!":
                self.eat()
                self.eat("[")
                items = []
                while self.peek() != ("op", "]"):
                    items.append(self.expr())
                    if self.peek() == ("op", ","):
                        self.eat()
                self.eat("]")
                return ("veclit", items) if items else ("vecnew",)
        return SP3.primary(self)

    def pattern(self):
        kind, v = self.eat()
        if kind != "id" or v.endswith("!"):
            raise Untranslatable("pattern " + v)
        if v == "_":
            return ("wild",)
        while v in ("ref", "mut"):
            kind, v = self.eat()
            if kind != "id":
                raise Untranslatable("pattern " + v)
        if "::" in v:
            subs = []
            if self.peek() == ("op", "("):
                self.eat()
                while self.peek() != ("op", ")"):
                    subs.append(self.pattern())
                    if self.peek() == ("op", ","):
                        self.eat()
                self.eat(")")
            return ("ctor", v, subs)
        if v in ("true", "false", "Some", "None", "Ok", "Err"):
            raise Untranslatable("pattern " + v)
        return ("bind", v)

    def match_(self):
        self.eat("match")
        scrut = self.expr()
        self.eat("{")
        arms = []
        while self.peek() != ("op", "}"):
            if self.peek() == ("op", "|"):
                self.eat()
            pats = [self.pattern()]
            while self.peek() == ("op", "|"):
                self.eat()
                pats.append(self.pattern())
            guard = None
            if self.peek() == ("id", "if"):
                self.eat()
                guard = self.expr()
            self.eat("=>")
            body = self.expr()
            if self.peek() == ("op", ","):
                self.eat()
            arms.append((pats, guard, body))
        self.eat("}")
        return ("match", scrut, arms)

    def if_(self):
        self.eat("if")
        if self.peek() == ("id", "let"):
            self.eat()
            self.eat("Some")
            self.eat("(")
            if self.peek() == ("op", "("):
                self.eat()
                names = []
                while self.peek() != ("op", ")"):
                    names.append(self.ident("pattern"))
                    if self.peek() == ("op", ","):
                        self.eat()
                self.eat(")")
                pat = tuple(names)
            else:
                pat = self.ident("pattern Some(..)")
            self.eat(")")
            self.eat("=")
            cond = ("iflet", pat, self.expr())
        else:
            cond = ("cond", self.expr())
        th = self.block()
        el = None
        if self.peek() == ("id", "else"):
            self.eat()
            if self.peek() == ("id", "if"):
                el = ([self.if_()], None)
            else:
                el = self.block()
        return ("if", cond, th, el)

    def seq(self, closer):
        stmts, final = [], None
        while self.peek()[1] != closer and self.peek()[0] != "eof":
            if final is not None:
                raise Untranslatable("statement after the value of a block")
            kind, v = self.peek()
            if (kind, v) == ("id", "let"):
                self.eat()
                mutable = False
                if self.peek() == ("id", "mut"):
                    self.eat()
                    mutable = True
                x = self.ident("let pattern")
                ty = None
                if self.peek() == ("op", ":"):
                    self.eat()
                    toks = []
                    while self.peek() != ("op", "=") and self.peek()[0] != "eof":
                        toks.append(self.eat()[1])
                    ty = rust_type(toks)
                self.eat("=")
                e = self.expr()
                self.eat(";")
                stmts.append(("let", mutable, x, ty, e))
            elif (kind, v) == ("id", "return"):
                self.eat()
                e = ("unit",) if self.peek() == ("op", ";") else self.expr()
                if self.peek() == ("op", ";"):
                    self.eat()
                stmts.append(("ret", e))
            elif (kind, v) == ("id", "break"):
                self.eat()
                self.eat(";")
                stmts.append(("break",))
            elif (kind, v) == ("id", "if"):
                stmts.append(self.if_())
                if self.peek() == ("op", ";"):
                    self.eat()
            elif (kind, v) == ("id", "for"):
                self.eat()
                if self.peek() == ("op", "("):
                    self.eat()
                    i = self.ident("for pattern")
                    self.eat(",")
                    x = self.ident("for pattern")
                    self.eat(")")
                    pat = ("enum", i, x)
                else:
                    pat = ("v", self.ident("for pattern"))
                self.eat("in")
                it = self.expr()
                stmts.append(("for", pat, it, self.block()))
            elif (kind, v) == ("id", "self") and self.peek(1) == ("op", ".") and self.peek(2)[0] == "id" \
                    and self.peek(3) == ("op", "="):
                self.eat()
                self.eat()
                f = self.ident("field")
                self.eat("=")
                e = self.expr()
                self.eat(";")
                stmts.append(("fassign", f, e))
            elif kind == "id" and self.peek(1) == ("op", "=") and "::" not in v:
                self.eat()
                self.eat("=")
                e = self.expr()
                self.eat(";")
                stmts.append(("assign", v, e))
            else:
                e = self.expr()
                if self.peek() == ("op", ";"):
                    self.eat()
                    if e[0] not in ("call", "try"):
                        raise Untranslatable("expression statement")
                    stmts.append(("do", e))
                else:
                    final = e
        return (stmts, final)


# ------------------------------------------------------------------ types
def res8(t):
    while isinstance(t, TV) and t.t is not None:
        t = t.t
    if isinstance(t, tuple) and t:
        if t[0] in ("vec", "opt"):
            return (t[0], res8(t[1]))
        if t[0] == "tuple":
            return ("tuple", tuple(res8(x) for x in t[1]))
    return t


def unify8(a, b):
    a, b = res8(a), res8(b)
    if isinstance(a, TV):
        if a is not b:
            a.t = b
        return True
    if isinstance(b, TV):
        b.t = a
        return True
    if isinstance(a, tuple) and isinstance(b, tuple) and a and b and a[0] == b[0]:
        if a[0] in ("vec", "opt"):
            return unify8(a[1], b[1])
        if a[0] == "tuple":
            return len(a[1]) == len(b[1]) and all(unify8(x, y) for x, y in zip(a[1], b[1]))
    return a == b


def tyname8(t):
    t = res8(t)
    if isinstance(t, TV):
        return "_"
    if isinstance(t, tuple) and t and t[0] == "opt":
        return "Option<%s>" % tyname8(t[1])
    if isinstance(t, tuple) and t and t[0] == "vec":
        return "Vec<%s>" % tyname8(t[1])
    if isinstance(t, tuple) and t and t[0] == "tuple":
        return "(%s)" % ", ".join(tyname8(x) for x in t[1])
    if isinstance(t, tuple) and t and t[0] == "error":
        return "an error of class " + t[1]
    return str(t)


STATE_CV = {"<policy>": "st_policy", "<rm>": "st_rm", "<model>": "st_model"}
# EventData constructor -> (constructor of the model's `event`, argument types); None = no counterpart
EV_CTORS = {"EventData::AddPolicy": ("EvAdd", ("text", "text", V1)),
            "EventData::AddPolicies": ("EvAddMany", ("text", "text", V2)),
            "EventData::RemovePolicy": ("EvRemove", ("text", "text", V1)),
            "EventData::RemovePolicies": ("EvRemoveMany", ("text", "text", V2)),
            "EventData::RemoveFilteredPolicy": ("EvRemoveFiltered", ("text", "text", V2)),
            "EventData::SavePolicy": ("EvSave", (V2,)),
            "EventData::ClearPolicy": ("EvClear", ()),
            "EventData::ClearCache": None}
# error enum -> class of the model (src/error.rs: each enum is one variant of Error)
ERR_CLASS = {"ModelError": "EModel", "PolicyError": "EPolicy", "RbacError": "ERbac", "RequestError": "ERequest",
             "AdapterError": "EAdapter"}
AST_METHODS = {"build_role_links": ("gen_ast_build_role_links", ("rmref",)),
               "build_incremental_role_links": ("gen_ast_build_incremental_role_links", ("rmref", "event"))}


def children(x):
    """the sub-expressions of an expression node"""
    out = []
    if not isinstance(x, tuple) or not x:
        return out
    if x[0] == "closure":
        return [("block", x[2])]
    if x[0] == "match":
        out.append(x[1])
        for _pats, guard, body in x[2]:
            if guard is not None:
                out.append(guard)
            out.append(body)
        return out
    for f in x[1:]:
        if isinstance(f, tuple) and f and isinstance(f[0], str):
            out.append(f)
        elif isinstance(f, list):
            out.extend(y for y in f if isinstance(y, tuple) and y and isinstance(y[0], str))
    return out


def effect_kind(e):
    if not isinstance(e, tuple) or not e or e[0] != "call":
        return None
    name, recv = e[1], e[2]
    if recv[0] == "call" and recv[1] == "write" and not recv[3] and name in ("add_link", "delete_link"):
        return "rm"
    if recv[0] == "field" and recv[2] == "policy" and name in ("insert", "remove", "clear"):
        return "oset"
    if name in AST_METHODS and recv[0] == "var":
        return "astcall"
    return None


def has_effect(e):
    if isinstance(e, tuple) and e and e[0] == "block":
        return block_has_effect(e[1])
    if effect_kind(e) or (isinstance(e, tuple) and e and e[0] == "try"):
        return True
    return any(has_effect(c) for c in children(e))


def block_has_effect(blk):
    for st in blk[0]:
        k = st[0]
        if k == "let" and has_effect(st[4]):
            return True
        if k in ("assign", "fassign") and has_effect(st[2]):
            return True
        if k == "fassign":
            return True
        if k in ("do", "ret") and has_effect(st[1]):
            return True
        if k == "if":
            if has_effect(st[1][-1]) or block_has_effect(st[2]) or (st[3] is not None and block_has_effect(st[3])):
                return True
        if k == "for" and (has_effect(st[2]) or block_has_effect(st[3])):
            return True
    return blk[1] is not None and has_effect(blk[1])


def is_model_lookup(e):
    """self.model.get_mut(k) / self.model.get(k)"""
    return e[0] == "call" and e[1] in ("get_mut", "get") and len(e[3]) == 1 and \
        e[2] == ("field", ("self",), "model")


class Emit8(Emit3):
    """env: Rust name (or state pseudo-name) -> [type, mutable].  style: "store" | "assertion" | "model"."""

    def __init__(self, ret, style, mode, state):
        Emit3.__init__(self, ret, True, mode)
        self.style = style
        self.state = state        # the names wrapped, in this order, into every returned value
        self.borrows = []         # active `&mut` borrows, outermost first
        self.nt = 0

    def tmp(self, prefix):
        self.nt += 1
        return "%s%d" % (prefix, self.nt)

    @staticmethod
    def cv(x):
        return STATE_CV.get(x, "v_" + x)

    def wrap(self, v):
        parts = [self.cv(s) for s in self.state]
        if v is not None:
            parts.append(v)
        if not parts:
            return "tt"
        return parts[0] if len(parts) == 1 else "(%s)" % ", ".join(parts)

    # ---- borrows
    def wb(self, b, term):
        if not b["dirty"]:
            return term
        p = self.cv(b["parent"])
        if b["kind"] == "model":
            return "(let %s := rs_model_set %s %s %s in\n %s)" % (p, p, b["key"], self.cv(b["var"]), term)
        return "(let %s := rs_value_set %s %s %s in\n %s)" % (p, p, b["key"], self.cv(b["var"]), term)

    def wb_from(self, depth, term):
        """write back, innermost first, the borrows opened at loop depth >= depth"""
        for b in self.borrows:
            if b["depth"] >= depth:
                term = self.wb(b, term)
        return term

    def returning(self, v):
        if None in self.loops:
            raise Untranslatable("return inside a closure")
        return self.wb_from(0, "(LReturn %s)" % self.wrap(v))

    def loop_exit(self, kind):
        if not self.loops or self.loops[-1] is None:
            raise Untranslatable("break outside a for loop")
        return self.wb_from(len(self.loops), "(%s %s)" % (kind, self.tup(self.loops[-1])))

    # ---- which names a block may assign
    def expr_assigned(self, e, declared):
        out = set()
        if isinstance(e, tuple) and e and e[0] == "block":
            return self.assigned(e[1], declared)
        ek = effect_kind(e)
        if ek == "rm":
            out.add("<rm>")
        elif ek == "oset":
            x = e[2][1]
            if self.style == "store":
                out.add("<policy>")
            elif x == ("self",):
                out.add("self")
            elif x[0] == "var":
                out.add(x[1])
            else:
                raise Untranslatable("the rule list of something that is not a variable")
        elif ek == "astcall":
            out.add(e[2][1])
            out.add("<rm>")
        for c in children(e):
            out |= self.expr_assigned(c, declared)
        return out - set(declared)

    def assigned(self, block, declared=()):
        out = set()
        declared = set(declared)
        for st in block[0]:
            k = st[0]
            if k == "let":
                out |= self.expr_assigned(st[4], declared)
                declared.add(st[2])
            elif k == "assign":
                out |= self.expr_assigned(st[2], declared)
                if st[1] not in declared:
                    out.add(st[1])
            elif k == "fassign":
                out |= self.expr_assigned(st[2], declared)
                out.add("self")
            elif k == "do":
                e = st[1]
                out |= self.expr_assigned(e, declared)
                if e[0] == "call" and e[2][0] == "var" and e[1] in ("push", "insert") and e[2][1] not in declared:
                    out.add(e[2][1])
            elif k == "ret":
                out |= self.expr_assigned(st[1], declared)
            elif k == "if":
                cond = st[1]
                out |= self.expr_assigned(cond[-1], declared)
                th = self.assigned(st[2], declared)
                if cond[0] == "iflet":
                    names = [cond[1]] if isinstance(cond[1], str) else list(cond[1])
                    for x in names:
                        if x in th:
                            th.discard(x)
                            if self.style == "model":      # a `&mut` into the model
                                th.add("<model>")
                out |= th
                if st[3] is not None:
                    out |= self.assigned(st[3], declared)
            elif k == "for":
                pat, it, body = st[1], st[2], st[3]
                out |= self.expr_assigned(it, declared)
                inner = self.assigned(body, declared)
                pv = pat[-1]
                if pv in inner:
                    inner.discard(pv)
                    if it[0] == "call" and it[1] == "values_mut" and it[2][0] == "var":
                        if it[2][1] not in declared:
                            inner.add(it[2][1])
                    else:
                        raise Untranslatable("mutation of the loop variable " + pv)
                for x in pat[1:]:
                    inner.discard(x)
                out |= inner
        if block[1] is not None:
            out |= self.expr_assigned(block[1], declared)
        return out

    def mutable_in(self, env, names):
        out = []
        for x in sorted(names):
            if x in env:
                if not env[x][1]:
                    raise Untranslatable("assignment to %s, which is not mutable" % x)
                out.append(x)
            elif x == "<policy>" and self.mode != "found":
                continue              # a lookup fails: the block is never run
            else:
                raise Untranslatable("mutation of " + x)
        return out

    def plain_block(self, block):
        """let / assignment / push / total effects / such ifs, with total expressions"""
        if block is None:
            return True
        if block[1] is not None:
            return False
        for st in block[0]:
            k = st[0]
            if k in ("for", "break", "ret"):
                return False
            es = [st[4]] if k == "let" else [st[2]] if k in ("assign", "fassign") else [st[1]] if k == "do" else []
            for e in es:
                if P3.has_partial(e) or self.abrupt(e):
                    return False
            if k == "if":
                if st[1][0] != "cond" or P3.has_partial(st[1][1]) or self.abrupt(st[1][1]) \
                        or not self.plain_block(st[2]) or not self.plain_block(st[3]):
                    return False
        return True

    def abrupt(self, e):
        """can evaluating e leave the function (a `?`, a call of a translated method that may panic)"""
        if isinstance(e, tuple) and e and (e[0] == "try" or effect_kind(e) == "astcall"):
            return True
        if isinstance(e, tuple) and e and e[0] == "block":
            return True
        return any(self.abrupt(c) for c in children(e))

    # ---- effects: hoisted out of the expression, in evaluation order
    def hoist(self, e, env):
        """e -> (effect steps in evaluation order, the expression with every effect replaced by its value).
           An effect is accepted only when nothing but `!` and `?` stands between it and the whole expression and
           its own arguments are free of effects, so that moving it in front of the expression keeps the order of
           evaluation (no read of the state can come before it)."""
        steps = []

        def go(x, top):
            if not isinstance(x, tuple) or not x or not isinstance(x[0], str):
                return x
            ek = effect_kind(x)
            if ek:
                if not top:
                    raise Untranslatable("a call with an effect inside a larger expression (.%s)" % x[1])
                if any(has_effect(a) for a in x[3]):
                    raise Untranslatable("a call with an effect in the arguments of .%s" % x[1])
                name = self.tmp("eff_")
                steps.append((ek, x[1], x[2], list(x[3]), name))
                ty = {"add_link": "unit", "delete_link": "lerr", "insert": "bool", "remove": "bool", "clear": "unit"}.get(x[1], "lerr")
                return ("tmp", name, ty)
            k = x[0]
            if k == "try":
                inner = go(x[1], top)
                steps.append(("try", inner))
                return ("unit",)
            if k == "not":
                return ("not", go(x[1], top))
            if has_effect(x):
                raise Untranslatable("a call with an effect inside a larger expression (%s)" % k)
            return x
        return steps, go(e, True)

    def bind_flow(self, parts, build):
        """parts: [(term, partial)], evaluated left to right in statement position; None = panic"""
        names, wrapl = [], []
        for term, partial in parts:
            if partial:
                x = self.fresh()
                wrapl.append((x, term))
                names.append(x)
            else:
                names.append(term)
        out = build(names)
        for x, term in reversed(wrapl):
            out = "(match %s with Some %s => %s | None => LPanic end)" % (term, x, out)
        return out

    def policy_place(self, x, env):
        """the rule list of assertion x: (term, setter(new term, rest))"""
        t, a, p = self.ex(x, env)
        if p:
            raise Untranslatable("the rule list of an expression that can panic")
        if t == "assertion" and self.style == "store":
            if self.mode != "found":
                raise Untranslatable("internal: rule list without an assertion")
            return "st_policy", (lambda new, rest: "(let st_policy := %s in\n %s)" % (new, rest))
        if t == "astrec" and (x == ("self",) or x[0] == "var"):
            name = "self" if x == ("self",) else x[1]
            if not env[name][1]:
                raise Untranslatable("%s is not mutable" % name)
            return "(a_policy %s)" % a, (lambda new, rest: "(let %s := rs_ast_set_policy %s %s in\n %s)" % (a, a, new, rest))
        raise Untranslatable("the rule list of a %s" % tyname8(t))

    def effects(self, steps, env, k):
        if not steps:
            return k(env)
        s, rest = steps[0], steps[1:]

        def nxt():
            return self.effects(rest, env, k)
        if s[0] == "try":
            t, a, p = self.ex(s[1], env)
            if t != "lerr" or p:
                raise Untranslatable("? on a %s" % tyname8(t))
            e = self.tmp("e_")
            return "(match %s with\n | LOk => %s\n | LErr %s => %s end)" % (a, nxt(), e, self.returning_value("(LErr %s)" % e, "lerr"))
        ek, name, recv, args, tmp = s
        tr = [self.ex(x, env) for x in args]
        if ek == "rm":
            r = recv[2]
            if r[0] != "var" or env.get(r[1], [None])[0] != "rmref" or r[1] != self.rmparam:
                raise Untranslatable(".write() on something that is not the role manager parameter")
            if len(tr) != 3 or not unify8(tr[0][0], "text") or not unify8(tr[1][0], "text") or not unify8(tr[2][0], ("opt", "text")):
                raise Untranslatable("%s(%s)" % (name, ", ".join(tyname8(x[0]) for x in tr)))
            self.mutable_in(env, ["<rm>"])
            if name == "add_link":
                return self.bind_flow([(x[1], x[2]) for x in tr],
                                      lambda xs: "(let st_rm := rs_rm_add_link st_rm %s %s %s in\n %s)" % (xs[0], xs[1], xs[2], nxt()))
            return self.bind_flow([(x[1], x[2]) for x in tr],
                                  lambda xs: "(let '(st_rm, %s) := rs_rm_delete_link st_rm %s %s %s in\n %s)" % (tmp, xs[0], xs[1], xs[2], nxt()))
        if ek == "oset":
            if name == "clear":
                if tr:
                    raise Untranslatable("clear with arguments")
                get, setp = self.policy_place(recv[1], env)
                return setp("rs_oset_clear", nxt())
            if len(tr) != 1 or not unify8(tr[0][0], V1):
                raise Untranslatable("%s(%s) on a rule list" % (name, ", ".join(tyname8(x[0]) for x in tr)))
            get, setp = self.policy_place(recv[1], env)
            if name == "insert":
                return self.bind_flow([(tr[0][1], tr[0][2])], lambda xs: "(let %s := negb (rs_oset_contains %s %s) in\n %s)" % (
                    tmp, get, xs[0], setp("rs_oset_insert %s %s" % (get, xs[0]), nxt())))
            return self.bind_flow([(tr[0][1], tr[0][2])], lambda xs: "(let %s := rs_oset_contains %s %s in\n %s)" % (
                tmp, get, xs[0], setp("rs_oset_remove %s %s" % (get, xs[0]), nxt())))
        if ek == "astcall":
            gen, want = AST_METHODS[name]
            if len(tr) != len(want) or any(not unify8(x[0], w) for x, w in zip(tr, want)) or any(x[2] for x in tr):
                raise Untranslatable("%s(%s)" % (name, ", ".join(tyname8(x[0]) for x in tr)))
            x = recv[1]
            tx = env.get(x, [None])[0]
            if tx not in ("astrec", "astborrow") or not env[x][1]:
                raise Untranslatable("%s on %s, which is not a mutable assertion" % (name, x))
            self.mutable_in(env, ["<rm>"])
            argt = " ".join(y[1] for y in tr)
            if tx == "astrec":
                return "(match %s %s v_%s st_rm with\n | Some (v_%s, st_rm, %s) => %s\n | None => LPanic end)" % (gen, argt, x, x, tmp, nxt())
            self.mutable_in(env, ["<model>"])
            if any(lp is None or "<model>" not in lp for lp in self.loops):
                raise Untranslatable("a method call on a borrowed assertion inside a loop that does not carry the model")
            a = self.tmp("a_")
            return ("(match %s %s (snd v_%s) st_rm with\n | Some (%s, st_rm, %s) => (let v_%s := (fst v_%s, %s) in\n"
                    " (let st_model := rs_ast_write_back st_model v_%s in\n %s))\n | None => LPanic end)"
                    % (gen, argt, x, a, tmp, x, x, a, x, nxt()))
        raise Untranslatable("effect " + ek)

    def returning_value(self, term, t):
        if not unify8(t, self.ret):
            raise Untranslatable("value of type %s where %s is expected" % (tyname8(t), tyname8(self.ret)))
        return self.returning(None if res8(self.ret) == "unit" else term)

    # ---- expressions
    def ex(self, e, env):
        k = e[0]
        if k == "tmp":
            return e[2], ("tt" if e[2] == "unit" else e[1]), False
        if k == "unit":
            return "unit", "tt", False
        if k == "self":
            if self.style == "assertion":
                return "astrec", "v_self", False
            return "self", "", False
        if k == "field":
            t, a, p = self.ex(e[1], env)
            if t == "astrec":
                f = {"value": ("text", "a_value"), "policy": (V2, "a_policy"), "rm": ("rmref", "a_handle")}.get(e[2])
                if f is None:
                    raise Untranslatable("field .%s of an assertion" % e[2])
                term, partial = self.binds([(a, p)], lambda xs: "(%s %s)" % (f[1], xs[0]))
                return f[0], term, partial
            if t == "self" and e[2] == "model" and self.style == "model":
                return "model", "st_model", False
            return Emit3.ex(self, e, env)
        if k == "cmpn":
            ta, a, pa = self.ex(e[2], env)
            tb, b, pb = self.ex(e[3], env)
            if ta != "nat" or tb != "nat":
                raise Untranslatable("%s on %s and %s" % (e[1], tyname8(ta), tyname8(tb)))
            fmt = {"<": "(Nat.ltb %s %s)", "<=": "(Nat.leb %s %s)", ">": "(Nat.ltb %s %s)", ">=": "(Nat.leb %s %s)"}[e[1]]
            swap = e[1] in (">", ">=")
            term, partial = self.binds([(a, pa), (b, pb)], lambda xs: fmt % ((xs[1], xs[0]) if swap else (xs[0], xs[1])))
            return "bool", term, partial
        if k == "some":
            t, a, p = self.ex(e[1], env)
            term, partial = self.binds([(a, p)], lambda xs: "(Some %s)" % xs[0])
            return ("opt", t), term, partial
        if k == "none":
            return ("opt", TV()), "None", False
        if k == "ok":
            t, a, p = self.ex(e[1], env)
            if t != "unit" or p:
                raise Untranslatable("Ok(%s)" % tyname8(t))
            return "lerr", "LOk", False
        if k == "err":
            t, a, p = self.ex(e[1], env)
            t = res8(t)
            if not (isinstance(t, tuple) and t and t[0] == "error") or p:
                raise Untranslatable("Err(%s)" % tyname8(t))
            return "lerr", "(LErr %s)" % t[1], False
        if k == "veclit":
            subs = [self.ex(x, env) for x in e[1]]
            for s in subs[1:]:
                if not unify8(subs[0][0], s[0]):
                    raise Untranslatable("vec! of a %s and a %s" % (tyname8(subs[0][0]), tyname8(s[0])))
            term, partial = self.binds([(s[1], s[2]) for s in subs], lambda xs: "[%s]" % "; ".join(xs))
            return ("vec", subs[0][0]), term, partial
        if k == "tuple":
            subs = [self.ex(x, env) for x in e[1]]
            term, partial = self.binds([(s[1], s[2]) for s in subs], lambda xs: "(%s)" % ", ".join(xs))
            return ("tuple", tuple(s[0] for s in subs)), term, partial
        if k == "pathcall":
            if e[1] == "Arc::clone" and len(e[2]) == 1:
                t, a, p = self.ex(e[2][0], env)
                if t != "rmref":
                    raise Untranslatable("Arc::clone of a " + tyname8(t))
                return t, a, p
            head = e[1].split("::")[0]
            if head in ERR_CLASS and e[1].count("::") == 1:
                for x in e[2]:                       # the payload is not modelled, but it is evaluated
                    if self.ex(x, env)[2]:
                        raise Untranslatable("an error payload that can panic")
                return ("error", ERR_CLASS[head]), "", False
            return Emit3.ex(self, e, env)
        if k == "match":
            return self.match_(e, env)
        if k == "try":
            raise Untranslatable("? in this position")
        if k == "eq":
            ta, a, pa = self.ex(e[1], env)
            tb, b, pb = self.ex(e[2], env)
            if not unify8(ta, tb):
                raise Untranslatable("comparison of %s with %s" % (tyname8(ta), tyname8(tb)))
            ta = res8(ta)
            fn = {"text": "rs_eq", "bool": "Bool.eqb", "nat": "Nat.eqb"}.get(ta) if isinstance(ta, str) else \
                ("rs_vec_eq" if ta == V1 else None)
            if fn is None:
                raise Untranslatable("comparison of two %s" % tyname8(ta))
            neg = e[3]
            term, partial = self.binds([(a, pa), (b, pb)],
                                       lambda xs: ("(negb (%s %s %s))" if neg else "(%s %s %s)") % (fn, xs[0], xs[1]))
            return "bool", term, partial
        return Emit3.ex(self, e, env)

    def call(self, e, env):
        name, recv, args = e[1], e[2], e[3]
        if effect_kind(e):
            raise Untranslatable("internal: an effect that was not hoisted (%s)" % name)
        if name == "count" and not args and recv[0] == "call" and recv[1] == "matches" and len(recv[3]) == 1 \
                and recv[3][0][0] == "chr":
            t, a, p = self.ex(recv[2], env)
            if t != "text":
                raise Untranslatable(".matches(..).count() on a " + tyname8(t))
            c = coq_char(recv[3][0][1])
            term, partial = self.binds([(a, p)], lambda xs: "(rs_count_char %s %s)" % (c, xs[0]))
            return "nat", term, partial
        if name == "contains" and len(args) == 1 and recv[0] == "field" and recv[2] == "policy":
            tr, r, pr = self.ex(args[0], env)
            if not unify8(tr, V1):
                raise Untranslatable("contains(%s) on a rule list" % tyname8(tr))
            tp, pol, pp = self.ex(recv, env)
            if res8(tp) != V2:
                raise Untranslatable(".policy of a " + tyname8(tp))
            term, partial = self.binds([(pol, pp), (r, pr)], lambda xs: "(rs_oset_contains %s %s)" % (xs[0], xs[1]))
            return "bool", term, partial
        if name == "into" and not args:
            t, a, p = self.ex(recv, env)
            t = res8(t)
            if isinstance(t, tuple) and t and t[0] == "error":
                return t, a, p
            raise Untranslatable(".into() on a " + tyname8(t))
        if self.style == "model" and is_model_lookup(e):
            tk, key, pk = self.ex(args[0], env)
            if tk != "text" or pk:
                raise Untranslatable("section key of type " + tyname8(tk))
            return ("opt", "amap"), "(rs_model_get_mut st_model %s)" % key, False
        if self.style == "model" and name == "and_then" and len(args) == 1 and is_model_lookup(recv) \
                and args[0][0] == "closure" and len(args[0][1]) == 1 and not args[0][2][0]:
            x = args[0][1][0][0]
            body = args[0][2][1]
            if body is None or body[0] != "call" or body[1] not in ("get_mut", "get") or body[2] != ("var", x) or len(body[3]) != 1:
                raise Untranslatable("and_then with a closure that is not |m| m.get_mut(key)")
            t1, k1, p1 = self.ex(recv[3][0], env)
            t2, k2, p2 = self.ex(body[3][0], env)
            if t1 != "text" or t2 != "text" or p1 or p2:
                raise Untranslatable("assertion keys of types %s, %s" % (tyname8(t1), tyname8(t2)))
            return ("opt", "astborrow"), "(rs_ast_borrow st_model %s %s)" % (k1, k2), False
        t, a, p = self.ex(recv, env)
        t = res8(t)
        if name == "len" and not args and isinstance(t, tuple) and t[0] == "vec":
            term, partial = self.binds([(a, p)], lambda xs: "(rs_len %s)" % xs[0])
            return "nat", term, partial
        if name in ("clone", "to_owned") and not args and t in ("rmref", "event", "astrec"):
            return t, a, p
        return Emit3.call(self, e, env)

    def pat(self, p, want):
        """pattern against a value of type `want`: (Gallina pattern, {name: type}); None = no counterpart"""
        if p[0] == "wild":
            return "_", {}
        if p[0] == "bind":
            return "v_" + p[1], {p[1]: want}
        if want != "event" or p[1] not in EV_CTORS:
            raise Untranslatable("pattern %s on a %s" % (p[1], tyname8(want)))
        if EV_CTORS[p[1]] is None:
            return None
        ctor, tys = EV_CTORS[p[1]]
        if len(p[2]) != len(tys):
            raise Untranslatable("pattern %s with %d arguments" % (p[1], len(p[2])))
        parts, binds = [ctor], {}
        for sp, ty in zip(p[2], tys):
            r = self.pat(sp, ty)
            if r is None or sp[0] == "ctor":
                raise Untranslatable("nested pattern in " + p[1])
            for x in r[1]:
                if x in binds:
                    raise Untranslatable("pattern binds %s twice" % x)
            binds.update(r[1])
            parts.append(r[0])
        return " ".join(parts), binds

    def match_(self, e, env):
        ts, s, ps = self.ex(e[1], env)
        if ts != "event" or ps:
            raise Untranslatable("match on a " + tyname8(ts))
        arms = e[2]
        rtype = TV()
        out = []
        covered = set()
        i = 0
        while i < len(arms):
            pats, guard, body = arms[i]
            cps, binds = [], None
            wild = False
            for p in pats:
                r = self.pat(p, "event")
                if r is None:
                    continue
                if binds is not None and r[1] != binds:
                    raise Untranslatable("the alternatives of a pattern bind different variables")
                binds = r[1]
                cps.append(r[0])
                if p[0] in ("wild", "bind"):
                    wild = True
                elif guard is None:
                    covered.add(r[0].split(" ")[0])
            if not cps:
                i += 1
                continue
            if wild and guard is None and len(covered) == len([c for c in EV_CTORS.values() if c is not None]):
                break                 # every constructor of the model's event is covered: `_` is ClearCache only
            env2 = dict(env)
            for x, t in binds.items():
                env2[x] = [t, False]
            tb, b, pb = self.ex(body, env2)
            if pb or not unify8(tb, rtype):
                raise Untranslatable("a match arm of type %s (%s expected) or that can panic" % (tyname8(tb), tyname8(rtype)))
            if guard is not None:
                if i + 2 != len(arms) or arms[i + 1][0] != [("wild",)] or arms[i + 1][1] is not None:
                    raise Untranslatable("a guarded arm that is not followed by a final `_` arm")
                tg, g, pg = self.ex(guard, env2)
                if tg != "bool" or pg:
                    raise Untranslatable("guard of type " + tyname8(tg))
                tw, w, pw = self.ex(arms[i + 1][2], env)
                if pw or not unify8(tw, rtype):
                    raise Untranslatable("the `_` arm has type %s (%s expected)" % (tyname8(tw), tyname8(rtype)))
                b = "(if %s then %s else %s)" % (g, b, w)
            out.append("| %s => %s" % (" | ".join(cps), b))
            i += 1
        if not out:
            raise Untranslatable("match without arms")
        return res8(rtype), "(match %s with\n %s\n end)" % (s, "\n ".join(out)), False

    # ---- statements
    def ret_term(self, e, env):
        pre, e2 = self.hoist(e, env)

        def after(en):
            t, a, p = self.ex(e2, en)
            if not unify8(t, self.ret):
                raise Untranslatable("value of type %s where %s is expected" % (tyname8(t), tyname8(self.ret)))
            unit = res8(self.ret) == "unit"
            if p:
                x = self.fresh()
                return "(match %s with Some %s => %s | None => LPanic end)" % (a, x, self.returning(None if unit else x))
            return self.returning(None if unit else a)
        return self.effects(pre, env, after)

    def seq(self, stmts, env, k):
        if not stmts:
            return k(env)
        st, rest = stmts[0], stmts[1:]
        kind = st[0]

        def cont(en):
            return self.seq(rest, en, k)
        if kind == "let":
            pre, e2 = self.hoist(st[4], env)

            def after(en):
                t, a, p = self.ex(e2, en)
                if st[3] is not None and not unify8(t, st[3]):
                    raise Untranslatable("let %s: %s = a %s" % (st[2], tyname8(st[3]), tyname8(t)))
                rt = res8(t)
                if rt in ("self", "model", "astmap", "assertion", "key:sec", "key:ptype", "rmguard", "unit") or \
                        (isinstance(rt, tuple) and rt and rt[0] == "error"):
                    raise Untranslatable("let of a %s" % tyname8(rt))
                if any(b["var"] == st[2] for b in self.borrows):
                    raise Untranslatable("let shadows the borrowed " + st[2])
                env2 = dict(en)
                env2[st[2]] = [t, st[1]]
                return self.bind_stmt("v_" + st[2], a, p, cont(env2))
            return self.effects(pre, env, after)
        if kind == "assign":
            pre, e2 = self.hoist(st[2], env)

            def after(en):
                self.mutable_in(en, [st[1]])
                t, a, p = self.ex(e2, en)
                if not unify8(t, en[st[1]][0]):
                    raise Untranslatable("assignment of a %s to %s: %s" % (tyname8(t), st[1], tyname8(en[st[1]][0])))
                return self.bind_stmt("v_" + st[1], a, p, cont(en))
            return self.effects(pre, env, after)
        if kind == "fassign":
            if self.style != "assertion" or st[1] != "rm":
                raise Untranslatable("assignment to self." + st[1])
            pre, e2 = self.hoist(st[2], env)

            def after(en):
                self.mutable_in(en, ["self"])
                t, a, p = self.ex(e2, en)
                if t != "rmref" or p:
                    raise Untranslatable("self.rm = a " + tyname8(t))
                return "(let v_self := rs_ast_set_rm v_self %s in\n %s)" % (a, cont(en))
            return self.effects(pre, env, after)
        if kind == "do":
            pre, e2 = self.hoist(st[1], env)

            def after(en):
                if e2[0] in ("tmp", "unit"):
                    return cont(en)
                if e2[0] == "call" and e2[2][0] == "var" and e2[1] in ("push", "insert") and len(e2[3]) == 1:
                    return Emit3.seq(self, [("do", e2)], en, cont)
                raise Untranslatable("statement .%s(..)" % e2[1] if e2[0] == "call" else "expression statement")
            return self.effects(pre, env, after)
        if kind == "break":
            if rest:
                raise Untranslatable("code after break")
            return self.loop_exit("LBreak")
        if kind == "ret":
            if rest:
                raise Untranslatable("code after return")
            return self.ret_term(st[1], env)
        if kind == "if":
            return self.if_(st, env, cont)
        if kind == "for":
            return self.for_(st, env, cont)
        raise Untranslatable("statement " + kind)

    def if_(self, st, env, cont):
        cond, th, el = st[1], st[2], st[3]
        if th[1] is not None or (el is not None and el[1] is not None):
            raise Untranslatable("if with a value in statement position")
        if cond[0] == "iflet":
            return self.iflet(st, env, cont)
        pre, c2 = self.hoist(cond[1], env)

        def after(en):
            t, c, p = self.ex(c2, en)
            if t != "bool":
                raise Untranslatable("condition of type " + tyname8(t))
            els = el[0] if el is not None else []
            if self.plain_block(th) and self.plain_block(el) and not p:
                names = self.mutable_in(en, self.assigned(th) | (self.assigned(el) if el is not None else set()))
                if not names:
                    return cont(en)
                a = self.seq(th[0], dict(en), lambda e_: self.tup(names))
                b = self.seq(els, dict(en), lambda e_: self.tup(names))
                pat = self.tup(names) if len(names) == 1 else "'" + self.tup(names)
                return "(let %s := (if %s then %s else %s) in\n %s)" % (pat, c, a, b, cont(en))
            a = self.seq(th[0], dict(en), lambda e_: cont(en))
            b = self.seq(els, dict(en), lambda e_: cont(en))
            if p:
                return "(match %s with\n | Some true => %s\n | Some false => %s\n | None => LPanic end)" % (c, a, b)
            return "(if %s\n then %s\n else %s)" % (c, a, b)
        return self.effects(pre, env, after)

    def iflet(self, st, env, cont):
        cond, th, el = st[1], st[2], st[3]
        pat, e = cond[1], cond[2]
        if self.style == "store" and isinstance(pat, str) and e[0] == "call" and e[1] in ("get", "get_mut"):
            return Emit3.lookup(self, st, env, cont)
        pre, e2 = self.hoist(e, env)

        def after(en):
            t, a, p = self.ex(e2, en)
            t = res8(t)
            if not (isinstance(t, tuple) and t and t[0] == "opt") or isinstance(t[1], TV) or p:
                raise Untranslatable("if let Some(..) on a %s" % tyname8(t))
            inner = t[1]
            if isinstance(pat, str):
                names, tys, cp = [pat], [inner], "v_" + pat
            else:
                if not (isinstance(inner, tuple) and inner[0] == "tuple" and len(inner[1]) == len(pat)):
                    raise Untranslatable("pattern (%s) on a %s" % (", ".join(pat), tyname8(inner)))
                names, tys, cp = list(pat), list(inner[1]), "(%s)" % ", ".join("v_" + x for x in pat)
            env2 = dict(en)
            for x, tx in zip(names, tys):
                if any(b["var"] == x for b in self.borrows):
                    raise Untranslatable("pattern shadows the borrowed " + x)
                env2[x] = [tx, tx in ("amap", "astborrow")]
            borrow = None
            if is_model_lookup(e) and inner == "amap":
                key = self.ex(e[3][0], en)[1]
                borrow = {"var": pat, "parent": "<model>", "kind": "model", "key": key, "depth": len(self.loops),
                          "dirty": pat in self.assigned(th)}
                if borrow["dirty"]:
                    self.mutable_in(en, ["<model>"])

            def leave(e_):
                if borrow is None:
                    return cont(en)
                self.borrows.pop()
                c = cont(en)
                self.borrows.append(borrow)
                return self.wb(borrow, c)
            if borrow is not None:
                self.borrows.append(borrow)
            yes = self.seq(th[0], env2, leave)
            if borrow is not None:
                self.borrows.pop()
            no = self.seq(el[0], dict(en), lambda e_: cont(en)) if el is not None else cont(en)
            return "(match %s with\n | Some %s => %s\n | None => %s end)" % (a, cp, yes, no)
        return self.effects(pre, env, after)

    def for_(self, st, env, cont):
        pat, it, body = st[1], st[2], st[3]
        if body[1] is not None:
            raise Untranslatable("loop body with a value")
        if has_effect(it):
            raise Untranslatable("a call with an effect in the iterated expression")
        for x in pat[1:]:
            if any(b["var"] == x for b in self.borrows):
                raise Untranslatable("loop variable shadows the borrowed " + x)
        carried = self.mutable_in(env, self.assigned(([st], None)))
        env2 = dict(env)
        borrow = None
        if it[0] == "call" and it[1] == "values_mut" and not it[3]:
            x = it[2]
            if x[0] != "var" or env.get(x[1], [None])[0] != "amap" or pat[0] != "v":
                raise Untranslatable(".values_mut() on something that is not a borrowed section")
            pos = self.tmp("pos_")
            borrow = {"var": pat[1], "parent": x[1], "kind": "values", "key": pos, "depth": len(self.loops) + 1,
                      "dirty": pat[1] in self.assigned(body)}
            env2[pat[1]] = ["astrec", True]
            lp = "'(%s, v_%s)" % (pos, pat[1])
            a = "(rs_values_mut v_%s)" % x[1]
        else:
            enum = False
            if it[0] == "call" and it[1] == "enumerate" and not it[3]:
                enum, it = True, it[2]
            t, a, p = self.ex(it, env)
            t = res8(t)
            if p or not (isinstance(t, tuple) and t and t[0] == "vec") or isinstance(t[1], TV):
                raise Untranslatable("for over a %s" % tyname8(t))
            if enum != (pat[0] == "enum"):
                raise Untranslatable("for pattern does not fit the iterator")
            if enum:
                env2[pat[1]] = ["nat", False]
                env2[pat[2]] = [t[1], False]
                lp = "'(v_%s, v_%s)" % (pat[1], pat[2])
                a = "(rs_enumerate %s)" % a
            else:
                env2[pat[1]] = [t[1], False]
                lp = "v_" + pat[1]
        self.loops.append(carried)
        if borrow is not None:
            self.borrows.append(borrow)
        b = self.seq(body[0], env2, lambda en: self.loop_exit("LNext"))
        if borrow is not None:
            self.borrows.pop()
        self.loops.pop()
        return ("(match rs_for (fun %s %s =>\n %s)\n %s %s with\n | Done %s => %s\n | Returned ret_ => LReturn ret_\n | Panicked => LPanic end)"
                % (lp, self.lam_pat(carried), b, a, self.tup(carried), self.match_pat(carried), cont(env)))

    def function(self, blk, env):
        stmts, final = blk

        def end(en):
            if final is None:
                if res8(self.ret) != "unit":
                    raise Untranslatable("control reaches the end of the function without a value")
                return self.returning(None)
            return self.ret_term(final, en)
        return self.seq(stmts, env, end)


# ------------------------------------------------------------------ the functions
ASSERTION_FILE = "src/model/assertion.rs"
MODEL_FILE = "src/model/default_model.rs"
COQ_TY = {"rmref": "handle", "event": "event", "text": "text", "nat": "nat", "bool": "bool"}
STATE_TY = {"self": ("v_self", "assertion"), "<rm>": ("st_rm", "rmgr"), "<model>": ("st_model", "model"),
            "<policy>": ("st_policy", "list rule")}
RET_TY = {"lerr": "lerr", "bool": "bool"}

# Rust name, file, impl anchor, Coq name, style, parameter types (after sec, ptype in store style), return type
LINK_FUNCS = (
    ("build_role_links", ASSERTION_FILE, r"impl\s+Assertion\b", "gen_ast_build_role_links", "assertion", ("rmref",), "lerr"),
    ("build_incremental_role_links", ASSERTION_FILE, r"impl\s+Assertion\b", "gen_ast_build_incremental_role_links",
     "assertion", ("rmref", "event"), "lerr"),
    ("build_role_links", MODEL_FILE, r"impl\s+Model\s+for\s+DefaultModel", "gen_model_build_role_links", "model", ("rmref",), "lerr"),
    ("build_incremental_role_links", MODEL_FILE, r"impl\s+Model\s+for\s+DefaultModel", "gen_model_build_incremental_role_links",
     "model", ("rmref", "event"), "lerr"),
    ("add_policy", MODEL_FILE, r"impl\s+Model\s+for\s+DefaultModel", "gen_add_policy", "store", (V1,), "bool"),
    ("add_policies", MODEL_FILE, r"impl\s+Model\s+for\s+DefaultModel", "gen_add_policies", "store", (V2,), "bool"),
    ("remove_policy", MODEL_FILE, r"impl\s+Model\s+for\s+DefaultModel", "gen_remove_policy", "store", (V1,), "bool"),
    ("remove_policies", MODEL_FILE, r"impl\s+Model\s+for\s+DefaultModel", "gen_remove_policies", "store", (V2,), "bool"),
    ("clear_policy", MODEL_FILE, r"impl\s+Model\s+for\s+DefaultModel", "gen_clear_policy", "model", (), "unit"),
)


def param_type(s):
    s = re.sub(r"\s+", "", s)
    if s == "Arc<RwLock<dynRoleManager>>":
        return "rmref"
    if s == "EventData":
        return "event"
    return rust_type([s])


def coq_param_ty(t):
    return COQ_TY[t] if isinstance(t, str) and t in COQ_TY else coq_ty(t)


def state_of(style, ptypes, mode):
    if style == "assertion":
        return ["self", "<rm>"]
    if style == "model":
        return ["<model>"] + (["<rm>"] if "rmref" in ptypes else [])
    return ["<policy>"] if mode == "found" else []


def result_ty(style, ptypes, mode, ret):
    parts = [STATE_TY[s][1] for s in state_of(style, ptypes, mode)]
    if ret != "unit":
        parts.append(RET_TY[ret])
    if not parts:
        return "unit"
    parts = [p if " " not in p else "(%s)" % p for p in parts]
    return parts[0] if len(parts) == 1 else "(%s)" % " * ".join(parts)


def translate_link_fn(src, start, name, gen, style, ptypes, ret):
    hdr = r"fn\s+%s\s*\(([^)]*)\)\s*(?:->\s*([^{;]+?))?\s*(?=\{)" % name
    m = re.compile(hdr).search(src, start)
    if not m:
        raise Untranslatable("%s: signature not found" % name)
    params = [x.strip() for x in m.group(1).split(",") if x.strip()]
    if not params or re.sub(r"\s+", "", params[0]) != "&mutself":
        raise Untranslatable("%s: receiver %r" % (name, params[0] if params else ""))
    names = []
    for prm in params[1:]:
        pm = re.match(r"(?:mut\s+)?(\w+)\s*:\s*(.+)$", prm, re.S)
        if not pm:
            raise Untranslatable("%s: parameter %r" % (name, prm))
        names.append((pm.group(1), param_type(pm.group(2))))
    env = {}
    if style == "store":
        if [x[0] for x in names[:2]] != ["sec", "ptype"] or [x[1] for x in names[:2]] != ["text", "text"]:
            raise Untranslatable("%s: the first two parameters are not sec: &str, ptype: &str" % name)
        env["sec"] = ["key:sec", False]
        env["ptype"] = ["key:ptype", False]
        names = names[2:]
    if tuple(x[1] for x in names) != tuple(ptypes):
        raise Untranslatable("%s: parameter types %s" % (name, ", ".join(tyname8(x[1]) for x in names)))
    rt = re.sub(r"\s+", "", m.group(2) or "")
    got = {"": "unit", "Result<()>": "lerr", "bool": "bool"}.get(rt)
    if got != ret:
        raise Untranslatable("%s: return type %s" % (name, m.group(2)))
    for x, t in names:
        env[x] = [t, False]
    body = pins.fn_body(src, hdr, start)
    if body is None:
        raise Untranslatable("%s: body not found" % name)
    p = SP8(llex(body.strip()[1:-1]))
    blk = p.seq("}")
    if p.peek()[0] != "eof":
        raise Untranslatable("%s: trailing tokens" % name)
    binders = " ".join("(v_%s : %s)" % (x, coq_param_ty(t)) for x, t in names)
    rmparams = [x for x, t in names if t == "rmref"]

    def run(mode):
        em = Emit8(ret, style, mode, state_of(style, ptypes, mode))
        em.rmparam = rmparams[0] if rmparams else None
        en = dict(env)
        for s in em.state:
            en[s] = [{"self": "astrec", "<rm>": "rmgr", "<model>": "model", "<policy>": V2}[s], True]
        return P3.fill_nils(em.function(blk, en))
    if style != "store":
        st = " ".join("(%s : %s)" % STATE_TY[s] for s in state_of(style, ptypes, "found"))
        return "Definition %s %s : option %s :=\n rs_fn %s.\n" % (
            gen, (binders + " " + st).strip(), result_ty(style, ptypes, "found", ret), run("found"))
    found, nosec, noptype = run("found"), run("nosec"), run("noptype")
    if nosec != noptype:
        raise Untranslatable("%s: an unknown section and an unknown policy type are treated differently" % name)
    return ("Definition %s %s (st_policy : list rule) : option %s :=\n rs_fn %s.\n\n"
            "Definition %s_absent %s : option %s :=\n rs_fn %s.\n"
            % (gen, binders, result_ty(style, ptypes, "found", ret), found,
               gen, binders, result_ty(style, ptypes, "absent", ret), nosec))


def stub(gen, style, ptypes, ret):
    binders = " ".join("(_ : %s)" % coq_param_ty(t) for t in ptypes)
    if style != "store":
        st = " ".join("(_ : %s)" % STATE_TY[s][1] for s in state_of(style, ptypes, "found"))
        return "Definition %s %s : option %s := None.\n" % (gen, (binders + " " + st).strip(), result_ty(style, ptypes, "found", ret))
    return ("Definition %s %s (_ : list rule) : option %s := None.\n\nDefinition %s_absent %s : option %s := None.\n"
            % (gen, binders, result_ty(style, ptypes, "found", ret), gen, binders, result_ty(style, ptypes, "absent", ret)))


def generate():
    out = ["(* GENERATED on every run by tools/rs2coq_links.py (rs2coq part 8) from /repo/src/model/assertion.rs",
           "   (Assertion::build_role_links, ::build_incremental_role_links) and /repo/src/model/default_model.rs",
           "   (build_role_links, build_incremental_role_links, add_policy, add_policies, remove_policy, remove_policies,",
           "   clear_policy of impl Model for DefaultModel) - do not edit.",
           "   v_self = the assertion (`&mut self`), st_rm = the role manager behind the parameter `rm`, st_model = self.model,",
           "   st_policy = the rule list of the (sec, ptype) assertion; gen_f_absent = the section or the policy type is unknown.",
           "   Every function returns the final state with its value; None = panic. *)",
           "From CV Require Import Model.Base Model.RoleGraph Model.Enforce Model.Engine.",
           "From CV Require Import Gen.RustStr Gen.RustVec Gen.LinksPrims.", ""]
    ok = True
    srcs = {}
    for name, rel, anchor, gen, style, ptypes, ret in LINK_FUNCS:
        try:
            if rel not in srcs:
                srcs[rel] = pins.read(rel)
            src = srcs[rel]
            imp = re.search(anchor, src or "")
            if not imp:
                raise Untranslatable("%s not found in %s" % (anchor, rel))
            del P3.NILS[:]
            out.append(translate_link_fn(src, imp.start(), name, gen, style, ptypes, ret))
        except Exception as ex:   # noqa
            ok = False
            msg = str(ex) if isinstance(ex, Untranslatable) else "%s: %s" % (type(ex).__name__, ex)
            out.append("(* translation of %s (%s) failed: %s *)" % (name, gen, msg.replace("*)", "* )").replace("(*", "( *")))
            out.append(stub(gen, style, ptypes, ret))
    out.append("Definition gen_links_translated : bool := %s." % ("true" if ok else "false"))
    return "\n".join(out) + "\n", ok


def main(dst_dir=None):
    dst_dir = dst_dir or "/verif/coq/Gen"
    txt, ok = generate()
    rs2coq.write_if_changed(os.path.join(dst_dir, "LinksGen.v"), txt, ok)


if __name__ == "__main__":
    main(sys.argv[1] if len(sys.argv) > 1 else None)
