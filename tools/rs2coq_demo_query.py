#!/usr/bin/env python3
"""Robustness / sensitivity demonstration for part 13 of rs2coq (tools/rs2coq_query.py: the read side of
src/rbac_api.rs and src/management_api.rs -> coq/Gen/QueryGen.v, obligations in coq/PinChecks/PcQueryGen.v).

For every variant: copy /repo/src to a scratch directory (tempfile.mkdtemp(), outside /repo and /verif), replace
the body of one function, run rs2coq_query on the scratch copy, rebuild PinChecks/PcQueryGen.vo and compare the
outcome with the expectation (meaning-preserving rewrite -> the proofs pass unchanged; change of meaning -> a proof
fails or the function leaves the translated subset).  For a failing variant that was translated, a battery of
concrete queries is evaluated by vm_compute on the translated functions and on the model's `ask`, and the first
difference is reported (so that a failed proof is seen to be a change of meaning, not a weak tactic).  The pristine
generated file is restored at the end and the scratch directory removed.

usage: python3 tools/rs2coq_demo_query.py [label-prefix ..]
"""
import os
import re
import shutil
import subprocess
import sys
import tempfile

HERE = os.path.dirname(os.path.abspath(__file__))
ROOT = os.path.dirname(HERE)
COQ = os.path.join(ROOT, "coq")
SCRATCH = tempfile.mkdtemp(prefix="rs2coq_demo_query_")
sys.path.insert(0, HERE)
import pins  # noqa: E402

RBAC = "src/rbac_api.rs"
MGMT = "src/management_api.rs"

IMPLICIT_ROLES = """{
        let mut res: HashSet<String> = HashSet::new();
        let mut q: Vec<String> = vec![name.to_owned()];
        while !q.is_empty() {
            %s
            let roles = self.get_role_manager().read().get_roles(&name, domain);
            for r in roles.into_iter() {
                %s
            }
        }
        res.into_iter().collect()
    }"""
TAKE = "let name = q.swap_remove(0);"
VISIT = """if res.insert(r.to_owned()) {
                    q.push(r);
                }"""

IMPLICIT_PERMS = """{
        %s

        let mut res = vec![];

        for role in roles.iter() {
            let permissions = self.get_permissions_for_user(role, domain);
            res.extend(permissions);
        }
        res
    }"""

IMPLICIT_USERS = """{
        let mut subjects = self.get_all_subjects();
        let roles = self.get_all_roles();

        subjects.extend(roles.iter().flat_map(|role| {
            self.get_role_manager().read().get_users(role, None)
        }));

        let users: Vec<String> = subjects
            .into_iter()
            %s
            .collect();

        let mut res: Vec<String> = vec![];
        for user in users.iter() {
            let mut req = permission.clone();
            req.insert(0, user.to_string());
            %s
        }
        res
    }"""
IU_FILTER = ".filter(|subject| !roles.contains(subject))"
IU_CHECK = """if let Ok(r) = self.enforce(req) {
                if r && !res.contains(user) {
                    res.push(user.to_owned());
                }
            }"""

# (label, expectation, file, function, new body)
VARIANTS = [
    ("P0 the pristine source", "pass", None, None, None),
    ("P1 get_implicit_roles_for_user: q.remove(0) (a FIFO queue) instead of q.swap_remove(0)", "pass", RBAC,
     "get_implicit_roles_for_user", IMPLICIT_ROLES % ("let name = q.remove(0);", VISIT)),
    ("P2 get_implicit_roles_for_user: q.pop().unwrap() (a stack) instead of q.swap_remove(0)", "pass", RBAC,
     "get_implicit_roles_for_user", IMPLICIT_ROLES % ("let name = q.pop().unwrap();", VISIT)),
    ("P3 get_implicit_roles_for_user: `if !res.contains(&r) { res.insert(r.clone()); q.push(r); }`", "pass", RBAC,
     "get_implicit_roles_for_user", IMPLICIT_ROLES % (TAKE, """if !res.contains(&r) {
                    res.insert(r.clone());
                    q.push(r);
                }""")),
    ("P4 has_role_for_user as roles.iter().any(|r| r == role)", "pass", RBAC, "has_role_for_user", """{
        let roles = self.get_roles_for_user(name, domain);
        roles.iter().any(|r| r == role)
    }"""),
    ("P5 has_role_for_user as self.get_roles_for_user(..).contains(&role.to_string())", "pass", RBAC, "has_role_for_user", """{
        self.get_roles_for_user(name, domain).contains(&role.to_string())
    }"""),
    ("P6 has_role_for_user returning from inside the loop", "pass", RBAC, "has_role_for_user", """{
        for r in self.get_roles_for_user(name, domain) {
            if r == role {
                return true;
            }
        }
        false
    }"""),
    ("P7 get_roles_for_user with early returns (the shape of get_users_for_role)", "pass", RBAC, "get_roles_for_user", """{
        if let Some(t1) = self.get_model().get_model().get("g") {
            if let Some(t2) = t1.get("g") {
                return t2.rm.read().get_roles(name, domain);
            }
        }
        vec![]
    }"""),
    ("P8 get_users_for_role with a mutable local and a match (the shape of get_roles_for_user)", "pass", RBAC,
     "get_users_for_role", """{
        let mut users = vec![];
        match self.get_model().get_model().get("g") {
            Some(t1) => {
                if let Some(t2) = t1.get("g") {
                    users = t2.rm.read().get_users(name, domain);
                }
            }
            None => {}
        }
        users
    }"""),
    ("P9 get_permissions_for_user with match domain / vec![..]", "pass", RBAC, "get_permissions_for_user", """{
        let filter = match domain {
            Some(d) => vec![user.to_string(), d.to_string()],
            None => vec![user.to_string()],
        };
        self.get_filtered_policy(0, filter)
    }"""),
    ("P10 has_permission_for_user building vec![user] and extending it with the permission", "pass", RBAC,
     "has_permission_for_user", """{
        let mut p = vec![user.to_string()];
        p.extend(permission);
        self.has_policy(p)
    }"""),
    ("P11 get_implicit_permissions_for_user: roles = vec![user] extended by the implicit roles", "pass", RBAC,
     "get_implicit_permissions_for_user", IMPLICIT_PERMS % """let mut roles = vec![user.to_owned()];
        roles.extend(self.get_implicit_roles_for_user(user, domain));"""),
    ("P12 get_implicit_users_for_permission: match on the Result, nested ifs", "pass", RBAC,
     "get_implicit_users_for_permission", IMPLICIT_USERS % (IU_FILTER, """match self.enforce(req) {
                Ok(r) => {
                    if r {
                        if !res.contains(user) {
                            res.push(user.to_owned());
                        }
                    }
                }
                Err(_) => {}
            }""")),
    ("P13 get_all_roles / get_filtered_policy naming the same literals through a let", "pass", MGMT, "get_all_roles", """{
        let ptype = "g";
        self.get_all_named_roles(ptype)
    }"""),
    # ---- changes of meaning
    ("N1 (i) get_implicit_roles_for_user stops after the first level (no q.push)", "fail", RBAC,
     "get_implicit_roles_for_user", IMPLICIT_ROLES % (TAKE, "res.insert(r.to_owned());")),
    ("N2 (ii) get_implicit_roles_for_user pushes r even when res.insert returned false", "fail", RBAC,
     "get_implicit_roles_for_user", IMPLICIT_ROLES % (TAKE, """res.insert(r.to_owned());
                q.push(r);""")),
    ("N3 (iii) get_implicit_permissions_for_user without the user's own permissions (no insert(0, user))", "fail", RBAC,
     "get_implicit_permissions_for_user", IMPLICIT_PERMS % "let roles = self.get_implicit_roles_for_user(user, domain);"),
    ("N4 (iv) get_permissions_for_user filters at field index 1", "fail", RBAC, "get_permissions_for_user", """{
        self.get_filtered_policy(1, {
            if let Some(domain) = domain {
                [user, domain].iter().map(|s| (*s).to_string()).collect()
            } else {
                [user].iter().map(|s| (*s).to_string()).collect()
            }
        })
    }"""),
    ("N5 (v) has_permission_for_user appends the user at the END", "fail", RBAC, "has_permission_for_user", """{
        let mut permission = permission;
        permission.push(user.to_string());
        self.has_policy(permission)
    }"""),
    ("N6 (vi) get_users_for_role reads get_roles", "fail", RBAC, "get_users_for_role", """{
        if let Some(t1) = self.get_model().get_model().get("g") {
            if let Some(t2) = t1.get("g") {
                return t2.rm.read().get_roles(name, domain);
            }
        }
        vec![]
    }"""),
    ("N7a (vii) get_all_named_objects uses field index 2", "fail", MGMT, "get_all_named_objects", """{
        self.get_model()
            .get_values_for_field_in_policy("p", ptype, 2)
    }"""),
    ("N7b (vii) get_all_roles reads section \"p\"", "fail", MGMT, "get_all_roles", """{
        self.get_all_named_subjects("g")
    }"""),
    ("N7c (vii) get_all_named_roles reads section \"p\" of the store", "fail", MGMT, "get_all_named_roles", """{
        self.get_model()
            .get_values_for_field_in_policy("p", ptype, 1)
    }"""),
    ("N8 (viii) get_filtered_grouping_policy delegates with type \"g2\"", "fail", MGMT, "get_filtered_grouping_policy", """{
        self.get_filtered_named_grouping_policy("g2", field_index, field_values)
    }"""),
    ("N9 (ix) get_implicit_users_for_permission keeps the role names among the candidates", "fail", RBAC,
     "get_implicit_users_for_permission", IMPLICIT_USERS % ("", IU_CHECK)),
    ("N10 get_roles_for_user reads get_role_manager() instead of the manager of assertion g/g", "fail", RBAC,
     "get_roles_for_user", """{
        self.get_role_manager().read().get_roles(name, domain)
    }"""),
    ("N11 get_implicit_users_for_permission lists a user twice (no `!res.contains(user)`): invisible in the SET answer of "
     "`ask`, caught by the NoDup part of the specification", "fail", RBAC,
     "get_implicit_users_for_permission", IMPLICIT_USERS % (IU_FILTER, """if let Ok(r) = self.enforce(req) {
                if r {
                    res.push(user.to_owned());
                }
            }""")),
    ("N12 has_role_for_user answers true when the listing is non-empty", "fail", RBAC, "has_role_for_user", """{
        !self.get_roles_for_user(name, domain).is_empty()
    }"""),
    ("N13 get_all_policy prefixes the rules by the type only", "fail", MGMT, "get_all_policy", """{
        let mut res: Vec<Vec<String>> = vec![];
        let sec = "p";
        if let Some(ast_map) = self.get_model().get_model().get(sec) {
            for (ptype, ast) in ast_map {
                res.extend(ast.get_policy().clone().into_iter().map(|mut x| {
                    x.insert(0, ptype.clone());
                    x
                }))
            }
        }

        res
    }"""),
    ("N14 get_implicit_roles_for_user as `while let Some(name) = q.pop()` (outside the subset: rejected)", "fail", RBAC,
     "get_implicit_roles_for_user", """{
        let mut res: HashSet<String> = HashSet::new();
        let mut q: Vec<String> = vec![name.to_owned()];
        while let Some(name) = q.pop() {
            let roles = self.get_role_manager().read().get_roles(&name, domain);
            for r in roles.into_iter() {
                if res.insert(r.to_owned()) {
                    q.push(r);
                }
            }
        }
        res.into_iter().collect()
    }"""),
]


def run(cmd, **kw):
    return subprocess.run(cmd, stdout=subprocess.PIPE, stderr=subprocess.STDOUT, text=True, **kw)


# ---- a battery of concrete comparisons between the translated functions and the model's answers
# ex1 (Proofs/C13P.v): alice -> r1, r2 -> r3 -> r1 (a diamond with a cycle), 4 permissions; exF: ex1 after
# enable_auto_build_role_links(false); set_role_manager(..): the assertion g/g still points at the OLD manager
# while the enforcer's current manager is empty; exD: a DAG (no cycle)
BATTERY = [
    ("get_roles_for_user(alice)", "ans_nameset (genq_get_roles_for_user S alice None)", "QRolesFor alice None", "ex1"),
    ("get_roles_for_user(alice) after set_role_manager without rebuilding the links",
     "ans_nameset (genq_get_roles_for_user S alice None)", "QRolesFor alice None", "exF"),
    ("get_users_for_role(r3)", "ans_nameset (genq_get_users_for_role S (T \"r3\") None)", "QUsersFor (T \"r3\") None", "ex1"),
    ("has_role_for_user(alice, r2)", "ans_bool (genq_has_role_for_user S alice (T \"r2\") None)", "QHasRole alice (T \"r2\") None", "ex1"),
    ("has_role_for_user(alice, r3)", "ans_bool (genq_has_role_for_user S alice (T \"r3\") None)", "QHasRole alice (T \"r3\") None", "ex1"),
    ("get_permissions_for_user(alice)", "ans_rules (genq_get_permissions_for_user S alice None)", "QPermsFor alice None", "ex1"),
    ("has_permission_for_user(alice, [data, own])", "ans_bool (genq_has_permission_for_user S alice [T \"data\"; T \"own\"])",
     "QHasPolicy s_p s_p [alice; T \"data\"; T \"own\"]", "ex1"),
    ("get_implicit_roles_for_user(alice) (diamond + cycle, the model's fuel)",
     "ans_nameset (genq_get_implicit_roles_for_user S alice None)", "QImplicitRoles alice None", "ex1"),
    ("get_implicit_roles_for_user(alice) on a DAG", "ans_nameset (genq_get_implicit_roles_for_user S alice None)",
     "QImplicitRoles alice None", "exD"),
    ("get_implicit_permissions_for_user(alice)", "ans_bag (genq_get_implicit_permissions_for_user S alice None)",
     "QImplicitPerms alice None", "ex1"),
    ("get_implicit_users_for_permission([data, read])",
     "ans_nameset (genq_get_implicit_users_for_permission S [T \"data\"; T \"read\"])", "QImplicitUsers [T \"data\"; T \"read\"]", "ex1"),
    ("get_implicit_users_for_permission([x, y])",
     "ans_nameset (genq_get_implicit_users_for_permission S [T \"x\"; T \"y\"])", "QImplicitUsers [T \"x\"; T \"y\"]", "ex1"),
    ("get_policy()", "ans_rules (genq_get_policy S)", "QGetPolicy s_p s_p", "ex1"),
    ("get_grouping_policy()", "ans_rules (genq_get_grouping_policy S)", "QGetPolicy s_g s_g", "ex1"),
    ("get_all_policy()", "ans_rules (genq_get_all_policy S)", "QGetAll s_p", "ex1"),
    ("get_all_grouping_policy()", "ans_rules (genq_get_all_grouping_policy S)", "QGetAll s_g", "ex1"),
    ("get_filtered_policy(1, [data])", "ans_rules (genq_get_filtered_policy S 1 [T \"data\"])", "QGetFiltered s_p s_p 1 [T \"data\"]", "ex1"),
    ("get_filtered_grouping_policy(1, [r3])", "ans_rules (genq_get_filtered_grouping_policy S 1 [T \"r3\"])",
     "QGetFiltered s_g s_g 1 [T \"r3\"]", "ex1"),
    ("has_policy([bob, data2, write])", "ans_bool (genq_has_policy S [T \"bob\"; T \"data2\"; T \"write\"])",
     "QHasPolicy s_p s_p [T \"bob\"; T \"data2\"; T \"write\"]", "ex1"),
    ("has_grouping_policy([alice, r1])", "ans_bool (genq_has_grouping_policy S [alice; T \"r1\"])", "QHasPolicy s_g s_g [alice; T \"r1\"]", "ex1"),
    ("get_all_subjects()", "ans_names (genq_get_all_subjects S)", "QValues s_p s_p 0", "ex1"),
    ("get_all_objects()", "ans_names (genq_get_all_objects S)", "QValues s_p s_p 1", "ex1"),
    ("get_all_actions()", "ans_names (genq_get_all_actions S)", "QValues s_p s_p 2", "ex1"),
    ("get_all_roles()", "ans_names (genq_get_all_roles S)", "QValues s_g s_g 1", "ex1"),
    # not an answer of `ask` (a name SET): the listing itself has no name twice (alice is a subject and a user of r1)
    ("get_implicit_users_for_permission([data, own]) lists no name twice",
     "match genq_get_implicit_users_for_permission S [T \"data\"; T \"own\"] with "
     "Some l => Nat.eqb (length l) (length (dedup l [])) | None => false end", None, "ex1"),
]
WITNESS_HEAD = r"""
From CV Require Import Model.Base Model.RoleGraph Model.Expr Model.Enforce Model.Engine Model.SpecC13 Model.SpecC18.
From CV Require Import Gen.RustStr Gen.RustVec Gen.RustIter Gen.QueryRt Gen.QueryGen.
From CV Require Import Proofs.C13P.
Definition ans_rules (o : option (list rule)) : answer := match o with Some l => AnsRules l | None => AnsPanic end.
Definition ans_bag (o : option (list rule)) : answer := match o with Some l => AnsRuleBag l | None => AnsPanic end.
Definition ans_names (o : option (list text)) : answer := match o with Some l => AnsNames l | None => AnsPanic end.
Definition ans_nameset (o : option (list text)) : answer := match o with Some l => AnsNameSet l | None => AnsPanic end.
Definition ans_bool (o : option bool) : answer := match o with Some b => AnsBool b | None => AnsPanic end.
Definition alice := T "alice".
Definition exF : estate := run_ops ex1 [OEnableAutoBuild false; OSetRoleManager 10].
Definition exD : estate := run_ops ex0 [ORbac (RAddRole alice (T "r1") None); ORbac (RAddRole alice (T "r2") None);
                                        ORbac (RAddRole (T "r1") (T "r3") None); ORbac (RAddRole (T "r2") (T "r3") None)].
Definition fuel_of (s : estate) : nat := S (S (graph_size (f_rm (e_fs s)) None)).
"""


def gen_call(gen_txt, term, state):
    """`genq_f S args` -> the call with the implicit parameters the generated definition has"""
    def one(m):
        fn = m.group(1)
        mm = re.search(r"Definition %s (.*?) : option " % fn, gen_txt)
        binders = mm.group(1) if mm else ""
        extra = (" ptab0" if "(ptab :" in binders else "") + (" (@rev text)" if "(ord :" in binders else "") + \
                ((" (fuel_of %s)" % state) if "(fuel :" in binders else "")
        return "%s%s %s" % (fn, extra, state)
    return re.sub(r"\b(genq_\w+) S\b", one, term)


def witness(extra_eval=None):
    gen = open(os.path.join(COQ, "Gen", "QueryGen.v")).read()
    items = [("answer_eqb (%s) (ask ptab0 %s (%s))" % (gen_call(gen, t, st), st, q)) if q is not None else gen_call(gen, t, st)
             for _, t, q, st in BATTERY]
    txt = WITNESS_HEAD + "Eval vm_compute in\n  [%s].\n" % ";\n   ".join(items)
    if extra_eval:
        txt += extra_eval(gen)
    path = os.path.join(SCRATCH, "Witness.v")
    open(path, "w").write(txt)
    r = run(["timeout", "300", "coqc", "-Q", ".", "CV", path], cwd=COQ)
    m = re.search(r"=\s*\[([^\]]*)\]\s*:\s*list bool", r.stdout)
    if r.returncode != 0 or not m:
        em = re.search(r"Error:(.*?)(?:\n\n|\Z)", r.stdout, re.S)
        return "the battery does not typecheck any more (%s)" % (" ".join(em.group(1).split())[:110] if em else "?"), ""
    vals = [x.strip() for x in m.group(1).split(";")]
    bad = [b[0] for b, v in zip(BATTERY, vals) if v == "false"]
    rest = r.stdout[m.end():]
    return (("translated code and model differ on: " + "; ".join(bad[:3])) if bad else "no difference on the fixed inputs"), rest


def n2_extra(gen):
    """what unconditional pushing does: on a cycle the work list never empties, on a DAG the result is right"""
    call = gen_call(gen, "genq_get_implicit_roles_for_user S alice None", "XX")
    c6 = call.replace("(fuel_of XX)", "6").replace("XX", "ex1")
    c500 = call.replace("(fuel_of XX)", "500").replace("XX", "ex1")
    cd = call.replace("(fuel_of XX)", "500").replace("XX", "exD")
    return ("Eval vm_compute in (match %s with None => 0 | Some _ => 1 end, match %s with None => 0 | Some _ => 1 end,\n"
            "  answer_eqb (ans_nameset (%s)) (ask ptab0 exD (QImplicitRoles alice None))).\n" % (c6, c500, cd))


def replace_body(rel, fn, body):
    path = os.path.join(SCRATCH, rel)
    src = open(path, encoding="utf-8").read()
    old = pins.fn_body(src, r"fn\s+%s\s*\(" % fn, 0)
    assert old is not None and src.count(old) == 1, fn
    open(path, "w", encoding="utf-8").write(src.replace(old, body))


def regenerate(repo):
    env = dict(os.environ, VERIF_REPO=repo)
    return run([sys.executable, os.path.join(HERE, "rs2coq_query.py"), os.path.join(COQ, "Gen")], env=env)


def main():
    only = sys.argv[1:]
    results = []
    part = "PcQueryGen"
    for label, expect, rel, fn, body in VARIANTS:
        if only and not any(label.startswith(o) for o in only):
            continue
        shutil.rmtree(SCRATCH, ignore_errors=True)
        shutil.copytree("/repo/src", os.path.join(SCRATCH, "src"))
        if fn is not None:
            replace_body(rel, fn, body)
        regenerate(SCRATCH)
        mk = run(["timeout", "900", "make", "PinChecks/%s.vo" % part], cwd=COQ)
        ok = mk.returncode == 0
        why = ""
        if not ok:
            m = re.search(r'File "\./PinChecks/%s\.v", line (\d+).*?\n(Error:.*?)(?:\n\n|\nmake)' % part, mk.stdout, re.S)
            if m:
                thm = ""
                lines = open(os.path.join(COQ, "PinChecks", part + ".v")).read().split("\n")
                for k in range(int(m.group(1)) - 1, -1, -1):
                    mm = re.match(r"(?:Theorem|Lemma|Example|Corollary)\s+(\w+)", lines[k])
                    if mm:
                        thm = mm.group(1)
                        break
                why = "%s: %s" % (thm, " ".join(m.group(2).split())[:90])
            else:
                why = " ".join(mk.stdout.strip().split("\n")[-3:])[:200]
        gen = open(os.path.join(COQ, "Gen", "QueryGen.v")).read()
        note = ""
        fm = re.search(r"\(\* translation of (\w+) \([^)]*\) failed: (.*?) \*\)", gen, re.S)
        if fm:
            note = " [untranslatable %s: %s]" % (fm.group(1), fm.group(2))
        if not ok and not fm:
            w, rest = witness(n2_extra if label.startswith("N2") else None)
            note += " [witness: %s]" % w
            if label.startswith("N2"):
                mm = re.search(r"=\s*\((\d), (\d), (\w+)\)", rest)
                if mm:
                    note += (" [on the cycle of ex1 the translated loop is %s within the model's fuel 6 and %s within 500 "
                             "iterations (the work list never empties: the real function would not return); on a DAG with "
                             "fuel 500 its result %s the model's]"
                             % ("Done" if mm.group(1) == "1" else "NOT done", "Done" if mm.group(2) == "1" else "NOT done",
                                "equals" if mm.group(3) == "true" else "differs from"))
        verdict = "pass" if ok else "fail"
        flag = "as expected" if verdict == expect else "UNEXPECTED"
        print("%-4s (%s) %s%s%s" % (verdict.upper(), flag, label, (" -> " + str(why)) if why else "", note))
        sys.stdout.flush()
        results.append(verdict == expect)
    regenerate("/repo")
    mk = run(["timeout", "900", "make", "PinChecks/%s.vo" % part, "Properties/QueryGen.vo"], cwd=COQ)
    print("restored from /repo:", "build ok" if mk.returncode == 0 else "BUILD FAILED")
    shutil.rmtree(SCRATCH, ignore_errors=True)
    print("%d/%d variants behaved as expected" % (sum(results), len(results)))
    return 0 if all(results) and mk.returncode == 0 else 1


if __name__ == "__main__":
    sys.exit(main())
