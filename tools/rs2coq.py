#!/usr/bin/env python3
"""rs2coq: a deliberately small Rust -> Gallina translator for src/effector.rs.

On every run the bodies of `DefaultEffectStream::push_effect`, `::next` and the
`match expr` of `DefaultEffector::new_stream` are re-read from /repo and
translated, statement by statement, into Gallina definitions over a record
that mirrors the Rust struct (coq/Gen/EffectorGen.v).  coq/PinChecks/PcEffectorGen.v
then PROVES that the translated functions coincide with the hand-written model
(Model/Effector.v) on every state, effect, expression text and capacity - so
for this file the theorems of C02 are about a model derived from the source,
and a semantics-preserving rewrite inside the supported subset (re-ordered
branches, merged conditions, renamed locals) keeps every obligation green,
unlike a body-hash pin.

Supported subset (anything else makes the translation fail, which shows up as
a definition `gen_untranslatable : bool := false` and a broken obligation):
  statements  if c {..} [else if c {..}]* [else {..}]   self.f = e;   self.f += e;
              name!(..) [;]  (push_index_if_explain! ignored, assert!(c) kept)
              a final expression (the return value)
  expressions || && == != + literals "str" 123 true false  self.f  params
              EffectKind::{Allow,Indeterminate,Deny}  parentheses
"""
import os
import re
import sys

sys.path.insert(0, os.path.dirname(os.path.abspath(__file__)))
import pins  # noqa: E402  (fn_body / balanced / read)

FIELDS = {"done": "bool", "res": "bool", "expr": "text", "idx": "nat", "cap": "nat"}


class Untranslatable(Exception):
    pass


# ------------------------------------------------------------------ lexer
TOK = re.compile(r'''\s*(?:(//[^\n]*)|("(?:[^"\\]|\\.)*")|(\d+)|(EffectKind::\w+)|(self\.\w+)|([A-Za-z_]\w*!?)|(\|\||&&|==|!=|\+=|[{}();=+!<>,]))''')


def lex(src):
    out = []
    i = 0
    while i < len(src):
        if src[i:].strip() == "":
            break
        m = TOK.match(src, i)
        if not m:
            raise Untranslatable("cannot tokenise at: %r" % src[i:i + 30])
        i = m.end()
        if m.group(1):
            continue
        for k, kind in ((2, "str"), (3, "int"), (4, "eff"), (5, "field"), (6, "id"), (7, "op")):
            if m.group(k) is not None:
                out.append((kind, m.group(k)))
                break
    return out


# ------------------------------------------------------------------ parser
class P:
    def __init__(self, toks, params):
        self.t = toks
        self.i = 0
        self.params = params      # name -> type

    def peek(self, k=0):
        return self.t[self.i + k] if self.i + k < len(self.t) else ("eof", "")

    def eat(self, val=None):
        tk = self.peek()
        if val is not None and tk[1] != val:
            raise Untranslatable("expected %r, found %r" % (val, tk[1]))
        self.i += 1
        return tk

    # expr := or ; or := and ('||' and)* ; and := cmp ('&&' cmp)* ; cmp := add (('=='|'!=') add)? ; add := atom ('+' atom)*
    def expr(self):
        e = self.and_()
        while self.peek()[1] == "||":
            self.eat()
            r = self.and_()
            e = ("bool", "(%s || %s)" % (e[1], r[1]))
        return e

    def and_(self):
        e = self.cmp()
        while self.peek()[1] == "&&":
            self.eat()
            r = self.cmp()
            e = ("bool", "(%s && %s)" % (e[1], r[1]))
        return e

    def cmp(self):
        a = self.add()
        op = self.peek()[1]
        if op in ("==", "!="):
            self.eat()
            b = self.add()
            if a[0] != b[0]:
                raise Untranslatable("comparison of %s with %s" % (a[0], b[0]))
            eq = {"text": "teqb", "eff": "eff_eqb", "nat": "Nat.eqb", "bool": "Bool.eqb"}[a[0]]
            c = "(%s %s %s)" % (eq, a[1], b[1])
            return ("bool", c if op == "==" else "(negb %s)" % c)
        return a

    def add(self):
        a = self.atom()
        while self.peek()[1] == "+":
            self.eat()
            b = self.atom()
            if a[0] != "nat" or b[0] != "nat":
                raise Untranslatable("+ on non-numbers")
            a = ("nat", "(%s + %s)" % (a[1], b[1]))
        return a

    def atom(self):
        kind, v = self.eat()
        if kind == "str":
            return ("text", "(T %s)" % pins.coq_str(pins.rust_unescape(v[1:-1])))
        if kind == "int":
            return ("nat", v)
        if kind == "eff":
            n = v.split("::")[1]
            m = {"Allow": "Allow", "Indeterminate": "Indet", "Deny": "Deny"}
            if n not in m:
                raise Untranslatable("effect " + n)
            return ("eff", m[n])
        if kind == "field":
            f = v[5:]
            if f not in FIELDS:
                raise Untranslatable("field " + f)
            return (FIELDS[f], "(g_%s s)" % f)
        if kind == "id":
            if v in ("true", "false"):
                return ("bool", v)
            if v in self.params:
                return (self.params[v], v)
            raise Untranslatable("identifier " + v)
        if v == "(":
            e = self.expr()
            self.eat(")")
            return e
        if v == "!":
            e = self.atom()
            if e[0] != "bool":
                raise Untranslatable("! on non-bool")
            return ("bool", "(negb %s)" % e[1])
        raise Untranslatable("unexpected token " + v)

    # block := '{' stmt* '}' ; returns a Gallina term of type gstate built on the variable `s`
    def block(self):
        self.eat("{")
        body, ret = self.stmts("}")
        self.eat("}")
        if ret is not None:
            raise Untranslatable("value-producing block")
        return body

    def stmts(self, closer):
        """sequence of statements; returns (gallina state term over `s`, final expression or None)"""
        steps = []
        ret = None
        while self.peek()[1] != closer and self.peek()[0] != "eof":
            kind, v = self.peek()
            if kind == "id" and v == "if":
                steps.append(self.if_())
            elif kind == "id" and v.endswith("!"):
                self.eat()
                self.eat("(")
                if v == "assert!":
                    c = self.expr()
                    self.eat(")")
                    steps.append(("assert", c[1]))
                else:
                    if v != "push_index_if_explain!":
                        raise Untranslatable("macro " + v)
                    depth = 1
                    while depth:
                        t = self.eat()[1]
                        depth += (t == "(") - (t == ")")
                if self.peek()[1] == ";":
                    self.eat()
            elif kind == "field" and self.peek(1)[1] in ("=", "+="):
                f = self.eat()[1][5:]
                op = self.eat()[1]
                e = self.expr()
                self.eat(";")
                if f not in FIELDS or e[0] != FIELDS[f]:
                    raise Untranslatable("assignment to %s of a %s" % (f, e[0]))
                val = e[1] if op == "=" else "(g_%s s + %s)" % (f, e[1])
                steps.append(("set", f, val))
            else:
                e = self.expr()
                if self.peek()[1] == ";":
                    raise Untranslatable("expression statement")
                ret = e
                break
        return steps, ret

    def if_(self):
        self.eat("if")
        c = self.expr()
        if c[0] != "bool":
            raise Untranslatable("non-boolean condition")
        th = self.block()
        el = []
        if self.peek() == ("id", "else"):
            self.eat()
            if self.peek() == ("id", "if"):
                el = [self.if_()]
            else:
                el = self.block()
        return ("if", c[1], th, el)


def emit_steps(steps, k):
    """continuation-passing emission: `k` is the Gallina term (over `s`) that follows the steps; every step rebinds s.
    assertions turn the whole term into an option (None = the assertion fails = panic)"""
    out = k
    for st in reversed(steps):
        if st[0] == "set":
            flds = "; ".join("g_%s := %s" % (f, st[2] if f == st[1] else "g_%s s" % f) for f in FIELDS)
            out = "(let s := {| %s |} in\n %s)" % (flds, out)
        elif st[0] == "assert":
            out = "(if %s then %s else None)" % (st[1], out)
        elif st[0] == "if":
            # both branches end in the same continuation: bind the branch result first
            th = emit_steps(st[2], "s")
            el = emit_steps(st[3], "s")
            out = "(let s := (if %s then %s else %s) in\n %s)" % (st[1], th, el, out)
    return out


def translate_fn(body, params, ret_kind):
    toks = lex(body.strip()[1:-1])
    p = P(toks, params)
    steps, ret = p.stmts("}")
    if p.peek()[0] != "eof":
        raise Untranslatable("trailing tokens")
    has_assert = any(s[0] == "assert" for s in steps)
    if ret is None:
        raise Untranslatable("no return value")
    k = "(s, %s)" % ret[1] if ret_kind == "state+value" else ret[1]
    if has_assert:
        k = "Some %s" % k
    return emit_steps(steps, k), has_assert


def translate_new_stream(body):
    """assert!(cap > 0); let res = match expr { "a" | "b" => false, "c" => true, _ => panic!(..) }; Box::new(Stream { done: false, res, expr: .., cap, idx: 0 })"""
    if not re.search(r"assert!\(\s*cap\s*>\s*0\s*\)", body):
        raise Untranslatable("new_stream: capacity assertion not found")
    m = re.search(r"let\s+res\s*=\s*match\s+expr\s*\{(.*?)\n\s*\};", body, re.S)
    if not m:
        raise Untranslatable("new_stream: match on expr not found")
    arms = []
    rest = m.group(1)
    for arm in re.finditer(r"((?:\s*\|?\s*" + pins.STR + r")+)\s*=>\s*(true|false)\s*,", rest):
        lits = [pins.rust_unescape(x) for x in re.findall(pins.STR, arm.group(1))]
        arms.append((lits, arm.group(3)))
    if not re.search(r"_\s*=>\s*panic!", rest):
        raise Untranslatable("new_stream: default arm is not a panic")
    sm = re.search(r"DefaultEffectStream\s*\{(.*?)\}", body, re.S)
    if not sm:
        raise Untranslatable("new_stream: struct literal not found")
    init = {}
    for fld in re.finditer(r"(\w+)\s*(?::\s*([^,]+))?,", re.sub(r"#\[cfg[^\]]*\]\s*\w+\s*:[^,]+,", "", sm.group(1) + ",")):
        init[fld.group(1)] = (fld.group(2) or fld.group(1)).strip()
    want = {"done": "false", "res": "res", "cap": "cap", "idx": "0"}
    for f, v in want.items():
        if init.get(f) != v:
            raise Untranslatable("new_stream: field %s initialised with %r" % (f, init.get(f)))
    if "expr" not in init or not re.match(r"expr(\.to_owned\(\)|\.to_string\(\)|\.into\(\))?$", init["expr"]):
        raise Untranslatable("new_stream: field expr")
    term = "None"
    for lits, val in reversed(arms):
        cond = " || ".join("teqb expr (T %s)" % pins.coq_str(x) for x in lits)
        term = "if %s then Some %s else\n    %s" % (cond, val, term)
    return ("Definition gen_init_res (expr : text) : option bool :=\n    %s.\n"
            "Definition gen_new_stream (expr : text) (cap : nat) : option gstate :=\n"
            "  if Nat.ltb 0 cap then\n"
            "    match gen_init_res expr with\n"
            "    | Some res => Some {| g_done := false; g_res := res; g_expr := expr; g_idx := 0; g_cap := cap |}\n"
            "    | None => None\n    end\n  else None.\n" % term)


def generate():
    src = pins.read("src/effector.rs")
    out = ["(* GENERATED on every run by tools/rs2coq.py from /repo/src/effector.rs - do not edit. *)",
           "From CV Require Import Model.Base Model.Effector.", "",
           "(* mirrors struct DefaultEffectStream (the explain-only field left out) *)",
           "Record gstate := { g_done : bool; g_res : bool; g_expr : text; g_idx : nat; g_cap : nat }.", ""]
    ok = True
    try:
        imp = re.search(r"impl\s+EffectorStream\s+for\s+DefaultEffectStream", src)
        start = imp.start() if imp else 0
        body = pins.fn_body(src, r"fn\s+push_effect\s*\(", start)
        term, has_assert = translate_fn(body, {"eft": "eff"}, "state+value")
        if has_assert:
            raise Untranslatable("assertion inside push_effect")
        out.append("Definition gen_push_effect (s : gstate) (eft : eff) : gstate * bool :=\n %s.\n" % term)
        body = pins.fn_body(src, r"fn\s+next\s*\(", start)
        term, has_assert = translate_fn(body, {}, "value")
        out.append("Definition gen_next (s : gstate) : %s :=\n %s.\n" % ("option bool" if has_assert else "bool", term))
        out.append("Definition gen_next_asserts : bool := %s.\n" % ("true" if has_assert else "false"))
        body = pins.fn_body(src, r"fn\s+new_stream\s*\(", src.find("impl Effector for DefaultEffector"))
        out.append(translate_new_stream(body))
    except Exception as ex:   # noqa
        ok = False
        out.append("(* translation failed: %s *)" % str(ex).replace("*)", "* )"))
    out.append("Definition gen_translated : bool := %s." % ("true" if ok else "false"))
    return "\n".join(out) + "\n", ok


def main():
    dst = sys.argv[1] if len(sys.argv) > 1 else "/verif/coq/Gen/EffectorGen.v"
    txt, ok = generate()
    os.makedirs(os.path.dirname(dst), exist_ok=True)
    old = None
    try:
        old = open(dst, encoding="utf-8").read()
    except OSError:
        pass
    if old != txt:
        open(dst, "w", encoding="utf-8").write(txt)
        print("rs2coq: rewritten", dst, "(translated)" if ok else "(UNTRANSLATABLE)")
    else:
        print("rs2coq: unchanged")


if __name__ == "__main__":
    main()
