#!/usr/bin/env python3
"""rs2coq: a deliberately small Rust -> Gallina translator for src/effector.rs
(part 1, below), for four small string functions - key_match / key_get of
src/model/function_map.rs, csv_field / remove_comment of src/util.rs - (part 2:
coq/Gen/StrFnGen.v, proved equal to the model in coq/PinChecks/PcStrFnGen.v)
and for the five management entry points of src/internal_api.rs (part 4, last
third of this file: coq/Gen/InternalGen.v, proved equal to step_add ..
step_remove_filtered of Model/Engine.v in coq/PinChecks/PcInternalGen.v).
main() writes the three generated files.

Part 1.

On every run the bodies of `DefaultEffectStream::push_effect`, `::next` and the
`match expr` of `DefaultEffector::new_stream` are re-read from /repo and
translated, statement by statement, into Gallina definitions over a record
that mirrors the Rust struct (coq/Gen/EffectorGen.v).  coq/PinChecks/PcEffectorGen.v
then PROVES that the translated functions coincide with the hand-written model
(Model/Effector.v) on every state, effect, expression text and capacity - so
for this file the theorems of C02 are about a model derived from the source,
and a semantics-preserving rewrite inside the supported subset (re-ordered
branches, merged conditions, renamed locals) keeps every obligation green,
unlike a body-hash pin.

Supported subset (anything else makes the translation fail, which shows up as
a definition `gen_untranslatable : bool := false` and a broken obligation):
  statements  if c {..} [else if c {..}]* [else {..}]   self.f = e;   self.f += e;
              name!(..) [;]  (push_index_if_explain! ignored, assert!(c) kept)
              a final expression (the return value)
  expressions || && == != + literals "str" 123 true false  self.f  params
              EffectKind::{Allow,Indeterminate,Deny}  parentheses
"""
import os
import re
import sys

sys.path.insert(0, os.path.dirname(os.path.abspath(__file__)))
import pins  # noqa: E402  (fn_body / balanced / read)

FIELDS = {"done": "bool", "res": "bool", "expr": "text", "idx": "nat", "cap": "nat"}


class Untranslatable(Exception):
    pass


# ------------------------------------------------------------------ lexer
TOK = re.compile(r'''\s*(?:(//[^\n]*)|("(?:[^"\\]|\\.)*")|(\d+)|(EffectKind::\w+)|(self\.\w+)|([A-Za-z_]\w*!?)|(\|\||&&|==|!=|\+=|[{}();=+!<>,]))''')


def lex(src):
    out = []
    i = 0
    while i < len(src):
        if src[i:].strip() == "":
            break
        m = TOK.match(src, i)
        if not m:
            raise Untranslatable("cannot tokenise at: %r" % src[i:i + 30])
        i = m.end()
        if m.group(1):
            continue
        for k, kind in ((2, "str"), (3, "int"), (4, "eff"), (5, "field"), (6, "id"), (7, "op")):
            if m.group(k) is not None:
                out.append((kind, m.group(k)))
                break
    return out


# ------------------------------------------------------------------ parser
class P:
    def __init__(self, toks, params):
        self.t = toks
        self.i = 0
        self.params = params      # name -> type

    def peek(self, k=0):
        return self.t[self.i + k] if self.i + k < len(self.t) else ("eof", "")

    def eat(self, val=None):
        tk = self.peek()
        if val is not None and tk[1] != val:
            raise Untranslatable("expected %r, found %r" % (val, tk[1]))
        self.i += 1
        return tk

    # expr := or ; or := and ('||' and)* ; and := cmp ('&&' cmp)* ; cmp := add (('=='|'!=') add)? ; add := atom ('+' atom)*
    def expr(self):
        e = self.and_()
        while self.peek()[1] == "||":
            self.eat()
            r = self.and_()
            e = ("bool", "(%s || %s)" % (e[1], r[1]))
        return e

    def and_(self):
        e = self.cmp()
        while self.peek()[1] == "&&":
            self.eat()
            r = self.cmp()
            e = ("bool", "(%s && %s)" % (e[1], r[1]))
        return e

    def cmp(self):
        a = self.add()
        op = self.peek()[1]
        if op in ("==", "!="):
            self.eat()
            b = self.add()
            if a[0] != b[0]:
                raise Untranslatable("comparison of %s with %s" % (a[0], b[0]))
            eq = {"text": "teqb", "eff": "eff_eqb", "nat": "Nat.eqb", "bool": "Bool.eqb"}[a[0]]
            c = "(%s %s %s)" % (eq, a[1], b[1])
            return ("bool", c if op == "==" else "(negb %s)" % c)
        return a

    def add(self):
        a = self.atom()
        while self.peek()[1] == "+":
            self.eat()
            b = self.atom()
            if a[0] != "nat" or b[0] != "nat":
                raise Untranslatable("+ on non-numbers")
            a = ("nat", "(%s + %s)" % (a[1], b[1]))
        return a

    def atom(self):
        kind, v = self.eat()
        if kind == "str":
            return ("text", "(T %s)" % pins.coq_str(pins.rust_unescape(v[1:-1])))
        if kind == "int":
            return ("nat", v)
        if kind == "eff":
            n = v.split("::")[1]
            m = {"Allow": "Allow", "Indeterminate": "Indet", "Deny": "Deny"}
            if n not in m:
                raise Untranslatable("effect " + n)
            return ("eff", m[n])
        if kind == "field":
            f = v[5:]
            if f not in FIELDS:
                raise Untranslatable("field " + f)
            return (FIELDS[f], "(g_%s s)" % f)
        if kind == "id":
            if v in ("true", "false"):
                return ("bool", v)
            if v in self.params:
                return (self.params[v], v)
            raise Untranslatable("identifier " + v)
        if v == "(":
            e = self.expr()
            self.eat(")")
            return e
        if v == "!":
            e = self.atom()
            if e[0] != "bool":
                raise Untranslatable("! on non-bool")
            return ("bool", "(negb %s)" % e[1])
        raise Untranslatable("unexpected token " + v)

    # block := '{' stmt* '}' ; returns a Gallina term of type gstate built on the variable `s`
    def block(self):
        self.eat("{")
        body, ret = self.stmts("}")
        self.eat("}")
        if ret is not None:
            raise Untranslatable("value-producing block")
        return body

    def stmts(self, closer):
        """sequence of statements; returns (gallina state term over `s`, final expression or None)"""
        steps = []
        ret = None
        while self.peek()[1] != closer and self.peek()[0] != "eof":
            kind, v = self.peek()
            if kind == "id" and v == "if":
                steps.append(self.if_())
            elif kind == "id" and v.endswith("!"):
                self.eat()
                self.eat("(")
                if v == "assert!":
                    c = self.expr()
                    self.eat(")")
                    steps.append(("assert", c[1]))
                else:
                    if v != "push_index_if_explain!":
                        raise Untranslatable("macro " + v)
                    depth = 1
                    while depth:
                        t = self.eat()[1]
                        depth += (t == "(") - (t == ")")
                if self.peek()[1] == ";":
                    self.eat()
            elif kind == "field" and self.peek(1)[1] in ("=", "+="):
                f = self.eat()[1][5:]
                op = self.eat()[1]
                e = self.expr()
                self.eat(";")
                if f not in FIELDS or e[0] != FIELDS[f]:
                    raise Untranslatable("assignment to %s of a %s" % (f, e[0]))
                val = e[1] if op == "=" else "(g_%s s + %s)" % (f, e[1])
                steps.append(("set", f, val))
            else:
                e = self.expr()
                if self.peek()[1] == ";":
                    raise Untranslatable("expression statement")
                ret = e
                break
        return steps, ret

    def if_(self):
        self.eat("if")
        c = self.expr()
        if c[0] != "bool":
            raise Untranslatable("non-boolean condition")
        th = self.block()
        el = []
        if self.peek() == ("id", "else"):
            self.eat()
            if self.peek() == ("id", "if"):
                el = [self.if_()]
            else:
                el = self.block()
        return ("if", c[1], th, el)


def emit_steps(steps, k):
    """continuation-passing emission: `k` is the Gallina term (over `s`) that follows the steps; every step rebinds s.
    assertions turn the whole term into an option (None = the assertion fails = panic)"""
    out = k
    for st in reversed(steps):
        if st[0] == "set":
            flds = "; ".join("g_%s := %s" % (f, st[2] if f == st[1] else "g_%s s" % f) for f in FIELDS)
            out = "(let s := {| %s |} in\n %s)" % (flds, out)
        elif st[0] == "assert":
            out = "(if %s then %s else None)" % (st[1], out)
        elif st[0] == "if":
            # both branches end in the same continuation: bind the branch result first
            th = emit_steps(st[2], "s")
            el = emit_steps(st[3], "s")
            out = "(let s := (if %s then %s else %s) in\n %s)" % (st[1], th, el, out)
    return out


def translate_fn(body, params, ret_kind):
    toks = lex(body.strip()[1:-1])
    p = P(toks, params)
    steps, ret = p.stmts("}")
    if p.peek()[0] != "eof":
        raise Untranslatable("trailing tokens")
    has_assert = any(s[0] == "assert" for s in steps)
    if ret is None:
        raise Untranslatable("no return value")
    k = "(s, %s)" % ret[1] if ret_kind == "state+value" else ret[1]
    if has_assert:
        k = "Some %s" % k
    return emit_steps(steps, k), has_assert


def translate_new_stream(body):
    """assert!(cap > 0); let res = match expr { "a" | "b" => false, "c" => true, _ => panic!(..) }; Box::new(Stream { done: false, res, expr: .., cap, idx: 0 })"""
    if not re.search(r"assert!\(\s*cap\s*>\s*0\s*\)", body):
        raise Untranslatable("new_stream: capacity assertion not found")
    m = re.search(r"let\s+res\s*=\s*match\s+expr\s*\{(.*?)\n\s*\};", body, re.S)
    if not m:
        raise Untranslatable("new_stream: match on expr not found")
    arms = []
    rest = m.group(1)
    for arm in re.finditer(r"((?:\s*\|?\s*" + pins.STR + r")+)\s*=>\s*(true|false)\s*,", rest):
        lits = [pins.rust_unescape(x) for x in re.findall(pins.STR, arm.group(1))]
        arms.append((lits, arm.group(3)))
    if not re.search(r"_\s*=>\s*panic!", rest):
        raise Untranslatable("new_stream: default arm is not a panic")
    sm = re.search(r"DefaultEffectStream\s*\{(.*?)\}", body, re.S)
    if not sm:
        raise Untranslatable("new_stream: struct literal not found")
    init = {}
    for fld in re.finditer(r"(\w+)\s*(?::\s*([^,]+))?,", re.sub(r"#\[cfg[^\]]*\]\s*\w+\s*:[^,]+,", "", sm.group(1) + ",")):
        init[fld.group(1)] = (fld.group(2) or fld.group(1)).strip()
    want = {"done": "false", "res": "res", "cap": "cap", "idx": "0"}
    for f, v in want.items():
        if init.get(f) != v:
            raise Untranslatable("new_stream: field %s initialised with %r" % (f, init.get(f)))
    if "expr" not in init or not re.match(r"expr(\.to_owned\(\)|\.to_string\(\)|\.into\(\))?$", init["expr"]):
        raise Untranslatable("new_stream: field expr")
    term = "None"
    for lits, val in reversed(arms):
        cond = " || ".join("teqb expr (T %s)" % pins.coq_str(x) for x in lits)
        term = "if %s then Some %s else\n    %s" % (cond, val, term)
    return ("Definition gen_init_res (expr : text) : option bool :=\n    %s.\n"
            "Definition gen_new_stream (expr : text) (cap : nat) : option gstate :=\n"
            "  if Nat.ltb 0 cap then\n"
            "    match gen_init_res expr with\n"
            "    | Some res => Some {| g_done := false; g_res := res; g_expr := expr; g_idx := 0; g_cap := cap |}\n"
            "    | None => None\n    end\n  else None.\n" % term)


def generate():
    src = pins.read("src/effector.rs")
    out = ["(* GENERATED on every run by tools/rs2coq.py from /repo/src/effector.rs - do not edit. *)",
           "From CV Require Import Model.Base Model.Effector.", "",
           "(* mirrors struct DefaultEffectStream (the explain-only field left out) *)",
           "Record gstate := { g_done : bool; g_res : bool; g_expr : text; g_idx : nat; g_cap : nat }.", ""]
    ok = True
    try:
        imp = re.search(r"impl\s+EffectorStream\s+for\s+DefaultEffectStream", src)
        start = imp.start() if imp else 0
        body = pins.fn_body(src, r"fn\s+push_effect\s*\(", start)
        term, has_assert = translate_fn(body, {"eft": "eff"}, "state+value")
        if has_assert:
            raise Untranslatable("assertion inside push_effect")
        out.append("Definition gen_push_effect (s : gstate) (eft : eff) : gstate * bool :=\n %s.\n" % term)
        body = pins.fn_body(src, r"fn\s+next\s*\(", start)
        term, has_assert = translate_fn(body, {}, "value")
        out.append("Definition gen_next (s : gstate) : %s :=\n %s.\n" % ("option bool" if has_assert else "bool", term))
        out.append("Definition gen_next_asserts : bool := %s.\n" % ("true" if has_assert else "false"))
        body = pins.fn_body(src, r"fn\s+new_stream\s*\(", src.find("impl Effector for DefaultEffector"))
        out.append(translate_new_stream(body))
    except Exception as ex:   # noqa
        ok = False
        out.append("(* translation failed: %s *)" % str(ex).replace("*)", "* )"))
    out.append("Definition gen_translated : bool := %s." % ("true" if ok else "false"))
    return "\n".join(out) + "\n", ok


# ====================================================================== part 2
# Small string functions: key_match / key_get (src/model/function_map.rs) and
# csv_field / remove_comment (src/util.rs) -> coq/Gen/StrFnGen.v over the
# operations of coq/Gen/RustStr.v.  coq/PinChecks/PcStrFnGen.v proves the four
# translated functions equal to the hand-written model for all inputs.
#
# Supported subset (anything else: Untranslatable -> `gen_str_translated := false`)
#   statements   let x = e;      return e;      if .. { .. } [else [if ..] { .. }]
#                if let Some(x) = e.find('c') { .. } [else { .. }]
#                if let Some(x) = e.strip_prefix(e2) { .. } [else { .. }]
#                a final expression (also an if / if let whose branches have values)
#   expressions  parameters and bound variables, "literals", true, false, &e, (e), &e[..i],
#                e.starts_with(e2)  e.is_empty()  e.contains('c')  e.trim_end()
#                e == e2  e != e2  !e  e && e2  e || e2
#                .to_string() .to_owned() .into() .as_str() .clone()
#                Cow::Owned(e) Cow::Borrowed(e) String::from(e)      (identity on text)
#                format!("..{}..", e)   if-expressions with value blocks
# `&e[..i]` is accepted only when i was bound by `if let Some(i) = e.find('c')`
# on the same e (so the slice cannot panic; RustStr.rs_slice_to has no panic case).
#
# Translation of control flow: a block in TAIL position (its value is the value
# of the function) becomes a term of the result type R; a block in STATEMENT
# position becomes a term of type `option R` - Some v when it executes
# `return v`, None when it falls through - and the enclosing sequence continues
# with `match <block> with Some ret_ => ret_ | None => <what follows> end`.

STOK = re.compile(r"""\s*(?:(//[^\n]*)|(/\*.*?\*/)|("(?:[^"\\]|\\.)*")|('(?:[^'\\]|\\.)')|(\d+)"""
                  r"""|([A-Za-z_]\w*(?:::[A-Za-z_]\w*)*!?)|(\|\||&&|==|!=|\.\.|[{}()\[\];=!&.,<>*+\-:?|]))""", re.S)

IDENTITY_METHODS = ("to_string", "to_owned", "into", "as_str", "clone")
IDENTITY_CTORS = ("Cow::Owned", "Cow::Borrowed", "String::from")


def slex(src):
    out = []
    i = 0
    while i < len(src):
        if src[i:].strip() == "":
            break
        m = STOK.match(src, i)
        if not m:
            raise Untranslatable("cannot tokenise at: %r" % src[i:i + 30])
        i = m.end()
        if m.group(1) or m.group(2):
            continue
        for k, kind in ((3, "str"), (4, "chr"), (5, "int"), (6, "id"), (7, "op")):
            if m.group(k) is not None:
                out.append((kind, m.group(k)))
                break
    return out


class SP:
    """parser of the string-function subset; produces a small AST
       block  = (stmts, final-expression | None)
       stmt   = ("let", x, e) | ("ret", e) | ("if", cond, block, block | None)
       cond   = ("cond", e) | ("iflet", x, e)
       e      = ("var", x) | ("str", s) | ("chr", c) | ("lit", "true"|"false") | ("idtext", e) | ("not", e) | ("eq", a, b, negated) | ("and", a, b) | ("or", a, b)
              | ("call", method, receiver, args) | ("slice", e, index) | ("fmt", pre, post, e) | ("ifv", if-stmt)"""

    def __init__(self, toks):
        self.t = toks
        self.i = 0

    def peek(self, k=0):
        return self.t[self.i + k] if self.i + k < len(self.t) else ("eof", "")

    def eat(self, val=None):
        tk = self.peek()
        if val is not None and tk[1] != val:
            raise Untranslatable("expected %r, found %r" % (val, tk[1]))
        if tk[0] == "eof":
            raise Untranslatable("unexpected end of the body")
        self.i += 1
        return tk

    # ---- expressions
    def expr(self):
        e = self.and_()
        while self.peek() == ("op", "||"):
            self.eat()
            e = ("or", e, self.and_())
        return e

    def and_(self):
        e = self.cmp()
        while self.peek() == ("op", "&&"):
            self.eat()
            e = ("and", e, self.cmp())
        return e

    def cmp(self):
        a = self.unary()
        if self.peek() in (("op", "=="), ("op", "!=")):
            op = self.eat()[1]
            return ("eq", a, self.unary(), op == "!=")
        return a

    def unary(self):
        if self.peek() == ("op", "!"):
            self.eat()
            return ("not", self.unary())
        if self.peek() == ("op", "&"):          # a reference: identity on text
            self.eat()
            return self.unary()
        return self.postfix()

    def postfix(self):
        e = self.primary()
        while True:
            if self.peek() == ("op", "."):
                self.eat()
                kind, name = self.eat()
                if kind != "id" or "::" in name or name.endswith("!"):
                    raise Untranslatable("method name " + name)
                self.eat("(")
                args = []
                while self.peek() != ("op", ")"):
                    args.append(self.expr())
                    if self.peek() == ("op", ","):
                        self.eat()
                self.eat(")")
                e = ("call", name, e, args)
            elif self.peek() == ("op", "["):
                self.eat()
                self.eat("..")
                ix = self.expr()
                self.eat("]")
                e = ("slice", e, ix)
            else:
                return e

    def primary(self):
        kind, v = self.peek()
        if kind == "str":
            self.eat()
            return ("str", pins.rust_unescape(v[1:-1]))
        if kind == "chr":
            self.eat()
            c = pins.rust_unescape(v[1:-1])
            if len(c) != 1:
                raise Untranslatable("character literal " + v)
            return ("chr", c)
        if kind == "op" and v == "(":
            self.eat()
            e = self.expr()
            self.eat(")")
            return e
        if kind == "id":
            if v == "if":
                return ("ifv", self.if_())
            if v == "format!":
                self.eat()
                self.eat("(")
                k2, lit = self.eat()
                if k2 != "str":
                    raise Untranslatable("format! without a literal format string")
                fmt = pins.rust_unescape(lit[1:-1])
                parts = fmt.split("{}")
                if len(parts) != 2 or "{" in parts[0] + parts[1] or "}" in parts[0] + parts[1]:
                    raise Untranslatable("format string %r (exactly one {} is supported)" % fmt)
                self.eat(",")
                e = self.expr()
                if self.peek() == ("op", ","):
                    self.eat()
                self.eat(")")
                return ("fmt", parts[0], parts[1], e)
            if v in IDENTITY_CTORS:
                self.eat()
                self.eat("(")
                e = self.expr()
                self.eat(")")
                return ("idtext", e)
            if v in ("true", "false"):
                self.eat()
                return ("lit", v)
            if v in ("let", "return", "else", "match", "while", "for", "loop", "mut") \
                    or "::" in v or v.endswith("!"):
                raise Untranslatable("unsupported " + v)
            self.eat()
            return ("var", v)
        raise Untranslatable("unexpected token " + (v or "end of body"))

    # ---- statements
    def if_(self):
        self.eat("if")
        if self.peek() == ("id", "let"):
            self.eat()
            self.eat("Some")
            self.eat("(")
            kind, x = self.eat()
            if kind != "id" or "::" in x or x.endswith("!"):
                raise Untranslatable("pattern Some(%s)" % x)
            self.eat(")")
            self.eat("=")
            cond = ("iflet", x, self.expr())
        else:
            cond = ("cond", self.expr())
        th = self.block()
        el = None
        if self.peek() == ("id", "else"):
            self.eat()
            if self.peek() == ("id", "if"):
                el = close_block([self.if_()], None)
            else:
                el = self.block()
        return ("if", cond, th, el)

    def block(self):
        self.eat("{")
        b = self.seq("}")
        self.eat("}")
        return b

    def seq(self, closer):
        stmts, final = [], None
        while self.peek()[1] != closer and self.peek()[0] != "eof":
            if final is not None:
                raise Untranslatable("statement after the value of a block")
            kind, v = self.peek()
            if (kind, v) == ("id", "let"):
                self.eat()
                k2, x = self.eat()
                if k2 != "id" or "::" in x or x.endswith("!") or x == "mut":
                    raise Untranslatable("let pattern " + x)
                self.eat("=")
                e = self.expr()
                self.eat(";")
                stmts.append(("let", x, e))
            elif (kind, v) == ("id", "return"):
                self.eat()
                e = self.expr()
                if self.peek() == ("op", ";"):
                    self.eat()
                stmts.append(("ret", e))
            elif (kind, v) == ("id", "if"):
                stmts.append(self.if_())
                if self.peek() == ("op", ";"):
                    self.eat()
            else:
                e = self.expr()
                if self.peek() == ("op", ";"):
                    raise Untranslatable("expression statement")
                final = e
        return close_block(stmts, final)


def is_value_if(node):
    return node[3] is not None and (node[2][1] is not None or node[3][1] is not None)


def close_block(stmts, final):
    """an if in last position whose branches have values is the value of the block"""
    if final is None and stmts and stmts[-1][0] == "if" and is_value_if(stmts[-1]):
        return (stmts[:-1], ("ifv", stmts[-1]))
    return (stmts, final)


def coq_char(c):
    n = ord(c)
    if n >= 128:
        raise Untranslatable("non-ASCII character literal (str::find would search a byte sequence)")
    if c == '"':
        return '""""%char'
    if 32 <= n < 127:
        return '"%s"%%char' % c
    return "(ascii_of_nat %d)" % n


def coq_text(s):
    if any(not (32 <= ord(c) < 127) for c in s):
        raise Untranslatable("string literal with non-printable or non-ASCII characters")
    return "(T %s)" % pins.coq_str(s)


def tyname(t):
    return t if isinstance(t, str) else "Option<%s>" % t[1]


def shadow(env, x):
    """copy of env for a scope that rebinds x: an index found in a string whose term mentions the old x
       is no longer known to belong to the string now called x"""
    out = {}
    for y, t in env.items():
        if isinstance(t, tuple) and "nat" in t[:-1] and t[-1] is not None \
                and re.search(r"\bv_%s\b" % re.escape(x), t[-1]):
            t = t[:-1] + (None,)
        out[y] = t
    return out


class Emit:
    """type-directed emission; env: Rust variable -> type, where a type is
       "text" | "bool" | ("opt", "text") | ("nat", origin) | ("opt", "nat", origin)
       (origin = the Gallina term of the string the index was found in)"""

    def __init__(self, ret):
        self.ret = ret

    def ex(self, e, env):
        k = e[0]
        if k == "var":
            if e[1] not in env:
                raise Untranslatable("identifier " + e[1])
            return env[e[1]], "v_" + e[1]
        if k == "str":
            return "text", coq_text(e[1])
        if k == "lit":
            return "bool", e[1]
        if k == "chr":
            raise Untranslatable("character literal outside find / contains")
        if k == "idtext":
            t, a = self.ex(e[1], env)
            if t != "text":
                raise Untranslatable("string constructor applied to a " + tyname(t))
            return t, a
        if k == "not":
            t, a = self.ex(e[1], env)
            if t != "bool":
                raise Untranslatable("! on a " + tyname(t))
            return "bool", "(negb %s)" % a
        if k in ("and", "or"):
            ta, a = self.ex(e[1], env)
            tb, b = self.ex(e[2], env)
            if ta != "bool" or tb != "bool":
                raise Untranslatable("%s on non-booleans" % k)
            return "bool", "(%s %s %s)" % (a, "&&" if k == "and" else "||", b)
        if k == "eq":
            ta, a = self.ex(e[1], env)
            tb, b = self.ex(e[2], env)
            if ta != tb or ta not in ("text", "bool"):
                raise Untranslatable("comparison of %s with %s" % (tyname(ta), tyname(tb)))
            c = "(%s %s %s)" % ("rs_eq" if ta == "text" else "Bool.eqb", a, b)
            return "bool", ("(negb %s)" % c if e[3] else c)
        if k == "fmt":
            t, a = self.ex(e[3], env)
            if t != "text":
                raise Untranslatable("format! of a " + tyname(t))
            return "text", "(rs_format1 %s %s %s)" % (coq_text(e[1]), coq_text(e[2]), a)
        if k == "slice":
            t, a = self.ex(e[1], env)
            if t != "text":
                raise Untranslatable("slice of a " + tyname(t))
            ti, ix = self.ex(e[2], env)
            if not (isinstance(ti, tuple) and ti[0] == "nat"):
                raise Untranslatable("slice bound is not an index")
            if e[2][0] != "var" or ti[1] != a:
                raise Untranslatable("slice bound %s was not found in the sliced string (could panic)" % ix)
            return "text", "(rs_slice_to %s %s)" % (a, ix)
        if k == "call":
            name, recv, args = e[1], e[2], e[3]
            t, a = self.ex(recv, env)
            if t != "text":
                raise Untranslatable("method .%s on a %s" % (name, tyname(t)))
            if name in IDENTITY_METHODS and not args:
                return "text", a
            if name in ("is_empty", "trim_end") and not args:
                return ("bool", "(rs_is_empty %s)" % a) if name == "is_empty" else ("text", "(rs_trim_end %s)" % a)
            if name in ("find", "contains") and len(args) == 1 and args[0][0] == "chr":
                c = coq_char(args[0][1])
                if name == "find":
                    return ("opt", "nat", a), "(rs_find_char %s %s)" % (c, a)
                return "bool", "(rs_contains_char %s %s)" % (c, a)
            if name in ("starts_with", "strip_prefix") and len(args) == 1:
                tb, b = self.ex(args[0], env)
                if tb != "text":
                    raise Untranslatable(".%s of a %s" % (name, tyname(tb)))
                if name == "starts_with":
                    return "bool", "(rs_starts_with %s %s)" % (a, b)
                return ("opt", "text"), "(rs_strip_prefix %s %s)" % (a, b)
            raise Untranslatable("method .%s with %d argument(s)" % (name, len(args)))
        if k == "ifv":
            # an if in expression position that is not the value of the function: pure value blocks
            holder = []

            def pure(blk, env2):
                ty, term = self.value(blk, env2)
                holder.append(ty)
                return term
            node = e[1]
            if node[3] is None:
                raise Untranslatable("if-expression without else")
            term = self.branch(node, env, lambda en: pure(node[2], en), lambda en: pure(node[3], en))
            if holder[0] != holder[1]:
                raise Untranslatable("if-expression with branches of type %s and %s" % (tyname(holder[0]), tyname(holder[1])))
            return holder[0], term
        raise Untranslatable("expression " + k)

    def branch(self, node, env, fa, fb):
        cond = node[1]
        if cond[0] == "cond":
            t, c = self.ex(cond[1], env)
            if t != "bool":
                raise Untranslatable("condition of type " + tyname(t))
            return "(if %s then %s else %s)" % (c, fa(env), fb(env))
        t, c = self.ex(cond[2], env)
        if not (isinstance(t, tuple) and t[0] == "opt"):
            raise Untranslatable("if let Some(..) on a " + tyname(t))
        inner = "text" if t[1] == "text" else ("nat", t[2])
        env2 = shadow(env, cond[1])
        env2[cond[1]] = inner
        return "(match %s with Some v_%s => %s | None => %s end)" % (c, cond[1], fa(env2), fb(env))

    def bind(self, st, env):
        t, a = self.ex(st[2], env)
        env2 = shadow(env, st[1])
        env2[st[1]] = t
        return env2, "v_" + st[1], a

    def value(self, blk, env):
        """a block without return: lets and a final expression -> (type, term)"""
        stmts, final = blk
        if final is None:
            raise Untranslatable("block without a value in expression position")
        if not stmts:
            return self.ex(final, env)
        st = stmts[0]
        if st[0] != "let":
            raise Untranslatable("only let is supported inside an if-expression that is not in tail position")
        env2, x, a = self.bind(st, env)
        t, rest = self.value((stmts[1:], final), env2)
        return t, "(let %s := %s in %s)" % (x, a, rest)

    def tail(self, blk, env):
        """a block whose value is the value of the function -> term of type R"""
        stmts, final = blk
        if not stmts:
            if final is None:
                raise Untranslatable("control reaches the end of the function without a value")
            if final[0] == "ifv":
                node = final[1]
                return self.branch(node, env, lambda en: self.tail(node[2], en), lambda en: self.tail(node[3], en))
            t, a = self.ex(final, env)
            if t != self.ret:
                raise Untranslatable("value of type %s where %s is expected" % (tyname(t), self.ret))
            return a
        st, rest = stmts[0], (stmts[1:], final)
        if st[0] == "let":
            env2, x, a = self.bind(st, env)
            return "(let %s := %s in\n %s)" % (x, a, self.tail(rest, env2))
        if st[0] == "ret":
            if rest != ([], None):
                raise Untranslatable("code after return")
            return self.returned(st, env)
        return "(match %s with Some ret_ => ret_ | None =>\n %s end)" % (self.opt_if(st, env), self.tail(rest, env))

    def returned(self, st, env):
        t, a = self.ex(st[1], env)
        if t != self.ret:
            raise Untranslatable("return of a %s where %s is expected" % (tyname(t), self.ret))
        return a

    def opt(self, blk, env):
        """a block in statement position -> term of type option R (Some v = it returned v)"""
        stmts, final = blk
        if final is not None:
            raise Untranslatable("value in statement position")
        if not stmts:
            return "None"
        st, rest = stmts[0], (stmts[1:], None)
        if st[0] == "let":
            env2, x, a = self.bind(st, env)
            return "(let %s := %s in %s)" % (x, a, self.opt(rest, env2))
        if st[0] == "ret":
            if stmts[1:]:
                raise Untranslatable("code after return")
            return "(Some %s)" % self.returned(st, env)
        o = self.opt_if(st, env)
        if not stmts[1:]:
            return o
        return "(match %s with Some ret_ => Some ret_ | None => %s end)" % (o, self.opt(rest, env))

    def opt_if(self, node, env):
        return self.branch(node, env, lambda en: self.opt(node[2], en),
                           lambda en: self.opt(node[3] if node[3] is not None else ([], None), en))


STR_FUNCS = (("src/model/function_map.rs", "key_match", 2, "bool"),
             ("src/model/function_map.rs", "key_get", 2, "text"),
             ("src/util.rs", "csv_field", 1, "text"),
             ("src/util.rs", "remove_comment", 1, "text"))


def translate_str_fn(src, name, arity, ret):
    hdr = r"pub\s+fn\s+%s\s*(?:<[^>]*>)?\s*\(([^)]*)\)\s*->\s*([^{;]+?)\s*(?=\{)" % name
    m = re.search(hdr, src)
    if not m:
        raise Untranslatable("%s: signature not found" % name)
    params = []
    for prm in [x.strip() for x in m.group(1).split(",") if x.strip()]:
        pm = re.match(r"(\w+)\s*:\s*(.+)$", prm, re.S)
        if not pm or not re.match(r"&\s*(?:'\w+\s+)?str$|&?\s*String$", pm.group(2).strip()):
            raise Untranslatable("%s: parameter %r is not a string" % (name, prm))
        params.append(pm.group(1))
    if len(params) != arity:
        raise Untranslatable("%s: %d parameters, expected %d" % (name, len(params), arity))
    rt = re.sub(r"\s+", "", m.group(2))
    got = "bool" if rt == "bool" else "text" if re.match(r"(String|&(?:'\w+)?str|Cow<(?:'\w+,)?str>)$", rt) else None
    if got != ret:
        raise Untranslatable("%s: return type %s" % (name, rt))
    body = pins.fn_body(src, hdr)
    if body is None:
        raise Untranslatable("%s: body not found" % name)
    p = SP(slex(body.strip()[1:-1]))
    blk = p.seq("}")
    if p.peek()[0] != "eof":
        raise Untranslatable("%s: trailing tokens" % name)
    term = Emit(ret).tail(blk, {x: "text" for x in params})
    return "Definition gen_%s %s : %s :=\n %s.\n" % (
        name, " ".join("(v_%s : text)" % x for x in params), ret, term)


def generate_str():
    out = ["(* GENERATED on every run by tools/rs2coq.py from /repo/src/model/function_map.rs (key_match, key_get)",
           "   and /repo/src/util.rs (csv_field, remove_comment) - do not edit. *)",
           "From CV Require Import Model.Base Gen.RustStr.", ""]
    ok = True
    for rel, name, arity, ret in STR_FUNCS:
        try:
            src = pins.read(rel)
            if src is None:
                raise Untranslatable("cannot read " + rel)
            out.append(translate_str_fn(src, name, arity, ret))
        except Exception as ex:   # noqa
            ok = False
            out.append("(* translation of %s failed: %s *)" % (name, str(ex).replace("*)", "* )").replace("(*", "( *")))
            out.append("Definition gen_%s %s : %s := %s.\n" % (
                name, " ".join("(_ : text)" for _ in range(arity)), ret, "false" if ret == "bool" else "[]"))
    out.append("Definition gen_str_translated : bool := %s." % ("true" if ok else "false"))
    return "\n".join(out) + "\n", ok


# ====================================================================== part 4
# The five management entry points of `impl<T> InternalApi for T`
# (src/internal_api.rs) -> coq/Gen/InternalGen.v, programs over the primitives of
# Model/Engine.v and coq/Gen/InternalPrims.v.  coq/PinChecks/PcInternalGen.v proves
# each of them equal to the hand-written step of the model for all states and
# arguments.
#
# 1. cfg resolution.  `#[cfg(pred)] { .. }` in statement or expression position
#    is kept (as a plain block) when pred holds for the build under
#    verification (FEATURES below) and dropped otherwise; pred is
#    feature = "x" | any(..) | all(..) | not(..).  A cfg on anything but a block,
#    or an unknown feature, is Untranslatable.
# 2. parsing into a small AST
#      block = (stmts, final expression | None)
#      stmt  = ("let", pattern, e) | ("ret", e) | ("if", e, block, block | None) | ("expr", e) | ("block", block)
#      e     = ("var", x) | ("str", s) | ("lit", b) | ("not", e) | ("and", a, b) | ("or", a, b) | ("eq", a, b, negated)
#            | ("mcall", receiver, method, args) | ("await", e) | ("try", e) | ("path", name, args | None)
#            | ("tuple", es) | ("vec", es) | ("blockv", block)
# 3. recognition of the calls, by pattern (everything else is Untranslatable):
#      self.has_auto_save_enabled() / has_auto_notify_watcher_enabled() / has_auto_build_role_links_enabled()
#                                                      -> e_auto_save s / e_auto_notify s / e_auto_build s   (the CURRENT state)
#      self.get_mut_adapter().M(sec, ptype, x).await?  -> ad_add / ad_add_many / ad_remove / ad_remove_many / ad_remove_filtered
#                                                         + upd_adapter; Err and Panic leave the function
#      self.get_mut_model().M(sec, ptype, x)           -> m_add_policy / .. / m_remove_filtered + upd_model (None = panic)
#      EventData::AddPolicy(a, b, c) ..                -> EvAdd a b c ..    (the arguments in the order of the source)
#      self.emit(Event::PolicyChange, d)               -> emit s d
#      self.emit(Event::ClearCache, EventData::ClearCache) -> clear_cache s (the hook; identity for the plain enforcer)
#      self.build_incremental_role_links(d)?           -> build_incremental_role_links s d; LErr leaves the function
#      self.build_role_links()?                        -> build_role_links s
#      sec != "g"  !e  a && b  a || b  (short-circuit: an operand with an effect is only run when reached)
#      x.clone() .to_owned() .to_string() .into()  &e    -> identity
#      Ok(b)  Ok((b, rules))  return e;  let x = e;  let (x, y) = e;  if c { .. } [else { .. }]
# 4. emission in continuation-passing style; the Gallina variable `s` is always
#    the current enforcer state (every effect rebinds it).  Where two paths join
#    (an `if` without a returning branch, a short-circuit operator with an
#    effectful operand) the branches are emitted as `estate * flow A`
#    (InternalPrims.flow) and matched once, so no continuation is duplicated.

FEATURES = {"incremental": True, "watcher": True, "cached": True, "logging": False, "explain": False}

ITOK = re.compile(r"""\s*(?:(//[^\n]*)|(/\*.*?\*/)|("(?:[^"\\]|\\.)*")|(\d+)"""
                  r"""|([A-Za-z_]\w*(?:::[A-Za-z_]\w*)*!?)|(\|\||&&|==|!=|[#{}()\[\];=!&.,<>?|])|(\S))""", re.S)


def ilex(src):
    out = []
    i = 0
    while i < len(src):
        if src[i:].strip() == "":
            break
        m = ITOK.match(src, i)
        if not m:
            raise Untranslatable("cannot tokenise at: %r" % src[i:i + 30])
        i = m.end()
        if m.group(1) or m.group(2):
            continue
        if m.group(7) is not None:
            raise Untranslatable("unexpected character %r" % m.group(7))
        for k, kind in ((3, "str"), (4, "int"), (5, "id"), (6, "op")):
            if m.group(k) is not None:
                out.append((kind, m.group(k)))
                break
    return out


I_IDENTITY = ("clone", "to_owned", "to_string", "into")
I_KEYWORDS = ("let", "return", "else", "match", "while", "for", "loop", "mut", "fn", "async", "move", "ref", "in", "as")


class IP:
    """parser of the entry-point subset, with cfg resolution"""

    def __init__(self, toks, features):
        self.t = toks
        self.i = 0
        self.features = features

    def peek(self, k=0):
        return self.t[self.i + k] if self.i + k < len(self.t) else ("eof", "")

    def eat(self, val=None):
        tk = self.peek()
        if val is not None and tk[1] != val:
            raise Untranslatable("expected %r, found %r" % (val, tk[1] or "end of body"))
        if tk[0] == "eof":
            raise Untranslatable("unexpected end of the body")
        self.i += 1
        return tk

    # ---- cfg
    def cfg(self):
        """# [ cfg ( pred ) ] -> bool"""
        self.eat("#")
        self.eat("[")
        if self.peek() != ("id", "cfg"):
            raise Untranslatable("attribute #[%s..]" % self.peek()[1])
        self.eat()
        self.eat("(")
        v = self.pred()
        if self.peek() == ("op", ","):
            self.eat()
        self.eat(")")
        self.eat("]")
        return v

    def pred(self):
        kind, v = self.eat()
        if (kind, v) == ("id", "feature"):
            self.eat("=")
            k2, lit = self.eat()
            if k2 != "str":
                raise Untranslatable("cfg(feature = %s)" % lit)
            name = lit[1:-1]
            if name not in self.features:
                raise Untranslatable("cfg on the unknown feature %r" % name)
            return self.features[name]
        if kind == "id" and v in ("any", "all", "not"):
            self.eat("(")
            vals = []
            while self.peek() != ("op", ")"):
                vals.append(self.pred())
                if self.peek() == ("op", ","):
                    self.eat()
                elif self.peek() != ("op", ")"):
                    raise Untranslatable("cfg predicate near %r" % self.peek()[1])
            self.eat(")")
            if v == "not":
                if len(vals) != 1:
                    raise Untranslatable("cfg(not(..)) with %d operands" % len(vals))
                return not vals[0]
            return any(vals) if v == "any" else all(vals)
        raise Untranslatable("cfg predicate %r" % v)

    # ---- expressions
    def expr(self):
        e = self.and_()
        while self.peek() == ("op", "||"):
            self.eat()
            e = ("or", e, self.and_())
        return e

    def and_(self):
        e = self.cmp()
        while self.peek() == ("op", "&&"):
            self.eat()
            e = ("and", e, self.cmp())
        return e

    def cmp(self):
        a = self.unary()
        if self.peek() in (("op", "=="), ("op", "!=")):
            op = self.eat()[1]
            return ("eq", a, self.unary(), op == "!=")
        return a

    def unary(self):
        if self.peek() == ("op", "!"):
            self.eat()
            return ("not", self.unary())
        if self.peek() == ("op", "&"):
            self.eat()
            if self.peek() == ("id", "mut"):
                raise Untranslatable("&mut borrow")
            return self.unary()
        return self.postfix()

    def args(self, closer=")"):
        out = []
        while self.peek() != ("op", closer):
            out.append(self.expr())
            if self.peek() == ("op", ","):
                self.eat()
            elif self.peek() != ("op", closer):
                raise Untranslatable("argument list near %r" % self.peek()[1])
        self.eat(closer)
        return out

    def postfix(self):
        e = self.primary()
        while True:
            if self.peek() == ("op", "."):
                self.eat()
                kind, name = self.eat()
                if kind != "id" or "::" in name or name.endswith("!"):
                    raise Untranslatable("method name " + name)
                if name == "await":
                    e = ("await", e)
                    continue
                self.eat("(")
                e = ("mcall", e, name, self.args())
            elif self.peek() == ("op", "?"):
                self.eat()
                e = ("try", e)
            else:
                return e

    def primary(self):
        kind, v = self.peek()
        if kind == "str":
            self.eat()
            return ("str", pins.rust_unescape(v[1:-1]))
        if kind == "op" and v == "(":
            self.eat()
            es = []
            trailing = False
            while self.peek() != ("op", ")"):
                es.append(self.expr())
                trailing = False
                if self.peek() == ("op", ","):
                    self.eat()
                    trailing = True
                elif self.peek() != ("op", ")"):
                    raise Untranslatable("parenthesised expression near %r" % self.peek()[1])
            self.eat(")")
            if len(es) == 1 and not trailing:
                return es[0]
            return ("tuple", es)
        if kind == "op" and v == "{":
            return ("blockv", self.block())
        if kind == "op" and v == "#":
            # cfg-selected alternatives in expression position must be inside a block
            raise Untranslatable("attribute in expression position outside a block")
        if kind == "id":
            if v == "vec!":
                self.eat()
                closer = {"[": "]", "(": ")"}.get(self.peek()[1])
                if closer is None:
                    raise Untranslatable("vec! delimiter")
                self.eat()
                return ("vec", self.args(closer))
            if v in ("true", "false"):
                self.eat()
                return ("lit", v)
            if v.endswith("!") or v in I_KEYWORDS or v == "if":
                raise Untranslatable("unsupported %s in an expression" % v)
            self.eat()
            if "::" in v or v == "Ok" or v == "Err" or v == "Some":
                if self.peek() == ("op", "("):
                    self.eat()
                    return ("path", v, self.args())
                return ("path", v, None)
            return ("var", v)
        raise Untranslatable("unexpected token " + (v or "end of body"))

    # ---- statements
    def block(self):
        self.eat("{")
        b = self.seq()
        self.eat("}")
        return b

    def if_(self):
        self.eat("if")
        if self.peek() == ("id", "let"):
            raise Untranslatable("if let")
        c = self.expr()
        th = self.block()
        el = None
        if self.peek() == ("id", "else"):
            self.eat()
            if self.peek() == ("id", "if"):
                el = ([self.if_()], None)
            else:
                el = self.block()
        return ("if", c, th, el)

    def seq(self):
        stmts, final = [], None
        while self.peek() != ("op", "}") and self.peek()[0] != "eof":
            if final is not None:
                raise Untranslatable("statement after the value of a block")
            kind, v = self.peek()
            if (kind, v) == ("op", "#"):
                keep = self.cfg()
                if self.peek() != ("op", "{"):
                    raise Untranslatable("#[cfg] on something that is not a block")
                b = self.block()
                if keep:
                    stmts.append(("block", b))
            elif (kind, v) == ("op", "{"):
                stmts.append(("block", self.block()))
            elif (kind, v) == ("id", "let"):
                self.eat()
                if self.peek() == ("op", "("):
                    self.eat()
                    names = []
                    while self.peek() != ("op", ")"):
                        k2, x = self.eat()
                        if k2 != "id" or "::" in x or x.endswith("!") or x in I_KEYWORDS:
                            raise Untranslatable("let pattern " + x)
                        names.append(x)
                        if self.peek() == ("op", ","):
                            self.eat()
                    self.eat(")")
                    pat = ("tup", names)
                else:
                    k2, x = self.eat()
                    if k2 != "id" or "::" in x or x.endswith("!") or x in I_KEYWORDS:
                        raise Untranslatable("let pattern " + x)
                    pat = ("v", x)
                self.eat("=")
                e = self.expr()
                self.eat(";")
                stmts.append(("let", pat, e))
            elif (kind, v) == ("id", "return"):
                self.eat()
                e = self.expr()
                if self.peek() == ("op", ";"):
                    self.eat()
                stmts.append(("ret", e))
            elif (kind, v) == ("id", "if"):
                stmts.append(self.if_())
                if self.peek() == ("op", ";"):
                    self.eat()
            else:
                e = self.expr()
                if self.peek() == ("op", ";"):
                    self.eat()
                    stmts.append(("expr", e))
                else:
                    final = e
        # a cfg-selected / nested block in last position that has a value is the value of the block
        if final is None and stmts and stmts[-1][0] == "block" and stmts[-1][1][1] is not None:
            final = ("blockv", stmts[-1][1])
            stmts = stmts[:-1]
        return (stmts, final)


def i_nodes(node):
    """every tuple node of an AST fragment (blocks are (list, node|None) pairs)"""
    if isinstance(node, tuple):
        if node and isinstance(node[0], str):
            yield node
        for x in node:
            for y in i_nodes(x):
                yield y
    elif isinstance(node, list):
        for x in node:
            for y in i_nodes(x):
                yield y


I_EFFECT_METHODS = ("get_mut_adapter", "get_adapter", "get_mut_model", "emit", "build_role_links",
                    "build_incremental_role_links")


def i_effectful(e):
    return any(n[0] in ("try", "await") or (n[0] == "mcall" and n[2] in I_EFFECT_METHODS) for n in i_nodes(e))


def i_may_exit(x):
    return any(n[0] in ("ret", "try") or (n[0] == "mcall" and n[2] == "remove_filtered_policy"
                                           and n[1][0] == "mcall" and n[1][2] == "get_mut_model")
               for n in i_nodes(x))


def i_always_exits(blk):
    stmts, final = blk
    if final is not None or not stmts:
        return False
    st = stmts[-1]
    if st[0] == "ret":
        return True
    if st[0] == "block":
        return i_always_exits(st[1])
    if st[0] == "if":
        return st[3] is not None and i_always_exits(st[2]) and i_always_exits(st[3])
    return False


I_ADAPTER = {"add_policy": ("ad_add", ("text", "text", "rule")),
             "add_policies": ("ad_add_many", ("text", "text", "rules")),
             "remove_policy": ("ad_remove", ("text", "text", "rule")),
             "remove_policies": ("ad_remove_many", ("text", "text", "rules")),
             "remove_filtered_policy": ("ad_remove_filtered", ("text", "text", "nat", "rule"))}
I_MODEL = {"add_policy": ("m_add_policy", ("text", "text", "rule")),
           "add_policies": ("m_add_policies", ("text", "text", "rules")),
           "remove_policy": ("m_remove_policy", ("text", "text", "rule")),
           "remove_policies": ("m_remove_policies", ("text", "text", "rules"))}
I_EVENTS = {"EventData::AddPolicy": ("EvAdd", ("text", "text", "rule")),
            "EventData::AddPolicies": ("EvAddMany", ("text", "text", "rules")),
            "EventData::RemovePolicy": ("EvRemove", ("text", "text", "rule")),
            "EventData::RemovePolicies": ("EvRemoveMany", ("text", "text", "rules")),
            "EventData::RemoveFilteredPolicy": ("EvRemoveFiltered", ("text", "text", "rules"))}
I_FLAGS = {"has_auto_save_enabled": "e_auto_save", "has_auto_notify_watcher_enabled": "e_auto_notify",
           "has_auto_build_role_links_enabled": "e_auto_build"}
I_SELF = ("var", "self")


class IE:
    """emission; a value is (type, term) with type in
       bool text rule rules nat event unit result emptyvec evkind:<K> ccdata ("tuple", [values])"""

    def __init__(self, ret):
        self.ret = ret            # "bool" | "bool+rules"
        self.n = 0
        self.exitf = lambda o: "(s, %s)" % o

    def fresh(self, base):
        self.n += 1
        return "%s_%d" % (base, self.n)

    def flow(self, f):
        """run f with exits wrapped for a join point"""
        old = self.exitf
        self.exitf = lambda o: "(s, Exit %s)" % o
        try:
            return f()
        finally:
            self.exitf = old

    def join(self, flow_term, k):
        """match a term of type estate * flow A once; k receives the name bound to the value"""
        o, c = self.fresh("o"), self.fresh("c")
        return "match %s with\n| (s, Exit %s) => %s\n| (s, Next %s) =>\n%s\nend" % (
            flow_term, o, self.exitf(o), c, k(c))

    @staticmethod
    def upd(x, rest):
        return x if rest == "s" else "let s := %s in\n%s" % (x, rest)

    def pure(self, e, env, what):
        if i_effectful(e):
            raise Untranslatable("%s with an effect" % what)
        box = []

        def k(v):
            box.append(v)
            return ""
        self.ev(e, env, k)
        if len(box) != 1:
            raise Untranslatable("%s could not be evaluated" % what)
        return box[0]

    def typed_args(self, what, args, tys, env):
        if len(args) != len(tys):
            raise Untranslatable("%s with %d argument(s), expected %d" % (what, len(args), len(tys)))
        out = []
        for a, ty in zip(args, tys):
            t, term = self.pure(a, env, "argument of " + what)
            if t == "emptyvec" and ty in ("rule", "rules"):
                t = ty
            if t != ty:
                raise Untranslatable("argument of %s: a %s where a %s is expected" % (what, tyname4(t), ty))
            out.append(term)
        return out

    # ---- expressions (continuation-passing; k is called exactly once, with a value)
    def ev(self, e, env, k):
        kind = e[0]
        if kind == "var":
            if e[1] not in env:
                raise Untranslatable("identifier " + e[1])
            return k(env[e[1]])
        if kind == "str":
            return k(("text", coq_text(e[1])))
        if kind == "lit":
            return k(("bool", e[1]))
        if kind == "not":
            def knot(v):
                if v[0] != "bool":
                    raise Untranslatable("! on a " + tyname4(v[0]))
                return k(("bool", "(negb %s)" % v[1]))
            return self.ev(e[1], env, knot)
        if kind in ("and", "or"):
            return self.ev_short(e, env, k)
        if kind == "eq":
            ta, a = self.pure(e[1], env, "operand of a comparison")
            tb, b = self.pure(e[2], env, "operand of a comparison")
            if ta != tb or ta not in ("text", "bool"):
                raise Untranslatable("comparison of %s with %s" % (tyname4(ta), tyname4(tb)))
            c = "(%s %s %s)" % ("teqb" if ta == "text" else "Bool.eqb", a, b)
            return k(("bool", "(negb %s)" % c if e[3] else c))
        if kind == "blockv":
            stmts, final = e[1]
            if stmts or final is None:
                raise Untranslatable("block expression with statements")
            return self.ev(final, env, k)
        if kind == "tuple":
            return k(("tuple", [self.pure(x, env, "tuple component") for x in e[1]]))
        if kind == "vec":
            if e[1]:
                raise Untranslatable("non-empty vec!")
            return k(("emptyvec", "[]"))
        if kind == "path":
            return self.ev_path(e, env, k)
        if kind == "try":
            inner = e[1]
            awaited = inner[0] == "await"
            if awaited:
                inner = inner[1]
            return self.ev_try(inner, awaited, env, k)
        if kind == "await":
            raise Untranslatable(".await whose Result is not consumed by `?`")
        if kind == "mcall":
            return self.ev_mcall(e, env, k)
        raise Untranslatable("expression " + kind)

    def ev_short(self, e, env, k):
        op = e[0]
        sym = "&&" if op == "and" else "||"

        def chk(v):
            if v[0] != "bool":
                raise Untranslatable("%s on a %s" % (sym, tyname4(v[0])))
            return v[1]
        if not i_effectful(e[2]):
            return self.ev(e[1], env, lambda va: self.ev(
                e[2], env, lambda vb: k(("bool", "(%s %s %s)" % (chk(va), sym, chk(vb))))))

        # the right operand has an effect: it only runs when the left one does not decide
        def ka(va):
            a = chk(va)
            rhs = self.flow(lambda: self.ev(e[2], env, lambda vb: "(s, Next %s)" % chk(vb)))
            if op == "and":
                term = "(if %s then\n%s\nelse (s, Next false))" % (a, rhs)
            else:
                term = "(if %s then (s, Next true) else\n%s)" % (a, rhs)
            return self.join(term, lambda c: k(("bool", c)))
        return self.ev(e[1], env, ka)

    def ev_path(self, e, env, k):
        name, args = e[1], e[2]
        if name in I_EVENTS:
            ctor, tys = I_EVENTS[name]
            if args is None:
                raise Untranslatable(name + " without arguments")
            ts = self.typed_args(name, args, tys, env)
            return k(("event", "(%s %s)" % (ctor, " ".join(ts))))
        if name == "EventData::ClearCache" and args is None:
            return k(("ccdata", ""))
        if name in ("Event::PolicyChange", "Event::ClearCache") and args is None:
            return k(("evkind:" + name.split("::")[1], ""))
        if name == "Ok" and args is not None and len(args) == 1:
            t, term = self.pure(args[0], env, "operand of Ok")
            if t == "bool" and self.ret == "bool":
                return k(("result", "(Ok %s)" % term))
            if t == "tuple" and self.ret == "bool+rules" and len(term) == 2 \
                    and term[0][0] == "bool" and term[1][0] in ("rules", "emptyvec"):
                # the model's step type keeps the flag only (Engine.step_remove_filtered)
                return k(("result", "(Ok %s)" % term[0][1]))
            raise Untranslatable("Ok of a %s in a function returning %s" % (tyname4(t), self.ret))
        raise Untranslatable("path " + name + ("(..)" if args is not None else ""))

    def ev_try(self, inner, awaited, env, k):
        if inner[0] != "mcall":
            raise Untranslatable("`?` on an unrecognised expression")
        recv, name, args = inner[1], inner[2], inner[3]
        if recv[0] == "mcall" and recv[1] == I_SELF and recv[2] == "get_mut_adapter" and not recv[3]:
            if not awaited:
                raise Untranslatable("adapter call without .await")
            if name not in I_ADAPTER:
                raise Untranslatable("adapter method " + name)
            fn, tys = I_ADAPTER[name]
            ts = self.typed_args("adapter." + name, args, tys, env)
            ad, ares, b, err = self.fresh("ad"), self.fresh("ares"), self.fresh("b"), self.fresh("e")
            return ("let (%s, %s) := %s (e_adapter s) %s in\nlet s := upd_adapter s %s in\nmatch %s with\n"
                    "| Ok %s =>\n%s\n| Err %s => %s\n| Panic => %s\nend" % (
                        ad, ares, fn, " ".join(ts), ad, ares, b, k(("bool", b)),
                        err, self.exitf("(Err %s)" % err), self.exitf("Panic")))
        if awaited:
            raise Untranslatable(".await on " + name)
        if recv == I_SELF and name in ("build_incremental_role_links", "build_role_links"):
            if name == "build_incremental_role_links":
                (t, d), = [self.pure(a, env, "argument of " + name) for a in args] if len(args) == 1 else [(None, None)]
                if t != "event":
                    raise Untranslatable("build_incremental_role_links expects one EventData")
                call = "build_incremental_role_links s %s" % d
            else:
                if args:
                    raise Untranslatable("build_role_links with arguments")
                call = "build_role_links s"
            le, err = self.fresh("le"), self.fresh("e")
            return "let (s, %s) := %s in\nmatch %s with\n| LOk =>\n%s\n| LErr %s => %s\nend" % (
                le, call, le, k(("unit", "tt")), err, self.exitf("(Err %s)" % err))
        raise Untranslatable("`?` on %s" % name)

    def ev_mcall(self, e, env, k):
        recv, name, args = e[1], e[2], e[3]
        if recv == I_SELF:
            if name in I_FLAGS and not args:
                return k(("bool", "(%s s)" % I_FLAGS[name]))
            if name == "emit" and len(args) == 2:
                tk, _ = self.pure(args[0], env, "event kind")
                td, d = self.pure(args[1], env, "event data")
                if tk == "evkind:PolicyChange" and td == "event":
                    return self.upd("emit s %s" % d, k(("unit", "tt")))
                if tk == "evkind:ClearCache" and td == "ccdata":
                    return self.upd("clear_cache s", k(("unit", "tt")))
                raise Untranslatable("emit(%s, %s)" % (tyname4(tk), tyname4(td)))
            if name in ("build_incremental_role_links", "build_role_links"):
                raise Untranslatable("the Result of %s is not consumed by `?`" % name)
            raise Untranslatable("self.%s(..)" % name)
        if recv[0] == "mcall" and recv[1] == I_SELF and recv[2] == "get_mut_model" and not recv[3]:
            if name in I_MODEL:
                fn, tys = I_MODEL[name]
                ts = self.typed_args("model." + name, args, tys, env)
                md, chg = self.fresh("md"), self.fresh("chg")
                return "let (%s, %s) := %s (e_model s) %s in\nlet s := upd_model s %s in\n%s" % (
                    md, chg, fn, " ".join(ts), md, k(("bool", chg)))
            if name == "remove_filtered_policy":
                ts = self.typed_args("model." + name, args, ("text", "text", "nat", "rule"), env)
                md, chg, rs = self.fresh("md"), self.fresh("chg"), self.fresh("rs")
                return ("match m_remove_filtered (e_model s) %s with\n| None => %s\n| Some (%s, %s, %s) =>\n"
                        "let s := upd_model s %s in\n%s\nend" % (
                            " ".join(ts), self.exitf("Panic"), md, chg, rs, md,
                            k(("tuple", [("bool", chg), ("rules", rs)]))))
            raise Untranslatable("model method " + name)
        if recv[0] == "mcall" and recv[1] == I_SELF and recv[2] in ("get_mut_adapter", "get_adapter"):
            raise Untranslatable("adapter call that is not `get_mut_adapter().m(..).await?`")
        if name in I_IDENTITY and not args:
            def kid(v):
                if v[0] not in ("text", "rule", "rules"):
                    raise Untranslatable(".%s() on a %s" % (name, tyname4(v[0])))
                return k(v)
            return self.ev(recv, env, kid)
        raise Untranslatable("method .%s(..)" % name)

    # ---- statements; k receives the environment at the end of the sequence
    def run(self, stmts, env, k):
        if not stmts:
            return k(env)
        st, rest = stmts[0], stmts[1:]
        if st[0] == "let":
            def klet(v):
                env2 = dict(env)
                if st[1][0] == "v":
                    if v[0] in ("unit", "result") or v[0].startswith("evkind") or v[0] == "ccdata":
                        raise Untranslatable("let of a " + tyname4(v[0]))
                    if v[0] == "tuple":
                        raise Untranslatable("let of a tuple without a tuple pattern")
                    x = "v_" + st[1][1]
                    env2[st[1][1]] = (v[0], x)
                    return "let %s := %s in\n%s" % (x, v[1], self.run(rest, env2, k))
                if v[0] != "tuple" or len(v[1]) != len(st[1][1]):
                    raise Untranslatable("tuple pattern on a " + tyname4(v[0]))
                out = ""
                for x, (t, term) in zip(st[1][1], v[1]):
                    env2[x] = (t, "v_" + x)
                    out += "let v_%s := %s in\n" % (x, term)
                return out + self.run(rest, env2, k)
            return self.ev(st[2], env, klet)
        if st[0] == "ret":
            if rest:
                raise Untranslatable("code after return")

            def kret(v):
                if v[0] != "result":
                    raise Untranslatable("return of a " + tyname4(v[0]))
                return self.exitf(v[1])
            return self.ev(st[1], env, kret)
        if st[0] == "expr":
            def kex(v):
                if v[0] != "unit":
                    raise Untranslatable("expression statement of type " + tyname4(v[0]))
                return self.run(rest, env, k)
            return self.ev(st[1], env, kex)
        if st[0] == "block":
            if st[1][1] is not None:
                raise Untranslatable("value of a block in statement position")
            return self.run(st[1][0], env, lambda _e: self.run(rest, env, k))
        if st[0] == "if":
            return self.run_if(st, rest, env, k)
        raise Untranslatable("statement " + st[0])

    def body_of(self, blk):
        if blk is None:
            return []
        if blk[1] is not None:
            raise Untranslatable("value of a block in statement position")
        return blk[0]

    def run_if(self, st, rest, env, k):
        th, el = st[2], st[3] if st[3] is not None else ([], None)
        a_th, a_el = i_always_exits(th), i_always_exits(el)

        def dead(_e):
            raise Untranslatable("internal: continuation of a block that always returns")

        def kc(v):
            if v[0] != "bool":
                raise Untranslatable("condition of type " + tyname4(v[0]))
            c = v[1]
            if a_th and a_el:
                if rest:
                    raise Untranslatable("code after an if whose branches both return")
                return "if %s then\n%s\nelse\n%s" % (c, self.run(self.body_of(th), env, dead),
                                                    self.run(self.body_of(el), env, dead))
            follow = lambda _e: self.run(rest, env, k)   # noqa: E731
            if a_th:
                return "if %s then\n%s\nelse\n%s" % (c, self.run(self.body_of(th), env, dead),
                                                    self.run(self.body_of(el), env, follow))
            if a_el:
                return "if %s then\n%s\nelse\n%s" % (c, self.run(self.body_of(th), env, follow),
                                                    self.run(self.body_of(el), env, dead))
            if not i_may_exit(th) and not i_may_exit(el):
                # state updates only
                t1 = self.run(self.body_of(th), env, lambda _e: "s")
                t2 = self.run(self.body_of(el), env, lambda _e: "s")
                return "let s := (if %s then\n%s\nelse\n%s) in\n%s" % (c, t1, t2, self.run(rest, env, k))
            t1 = self.flow(lambda: self.run(self.body_of(th), env, lambda _e: "(s, Next tt)"))
            t2 = self.flow(lambda: self.run(self.body_of(el), env, lambda _e: "(s, Next tt)"))
            return self.join("(if %s then\n%s\nelse\n%s)" % (c, t1, t2), lambda _c: self.run(rest, env, k))
        return self.ev(st[1], env, kc)

    def function(self, blk, env):
        stmts, final = blk

        def kend(env2):
            if final is None:
                raise Untranslatable("control reaches the end of the function without a value")

            def kfin(v):
                if v[0] != "result":
                    raise Untranslatable("the function ends in a " + tyname4(v[0]))
                return self.exitf(v[1])
            return self.ev(final, env2, kfin)
        if final is None and not i_always_exits(blk):
            raise Untranslatable("control reaches the end of the function without a value")
        return self.run(stmts, env, kend)


def tyname4(t):
    return t if isinstance(t, str) else "tuple"


def i_indent(term, base=2):
    """re-indent a term emitted one construct per line: depth = open parentheses + open matches
       (+1 for the two branches of an `if` written over several lines)"""
    out = []
    depth = 0
    for line in term.split("\n"):
        line = line.strip()
        if not line:
            continue
        d = depth
        if line.startswith("|") or line.startswith("end") or line.startswith(")"):
            d = max(0, d - 1)
        out.append(" " * (base + 2 * d) + line)
        for w in re.findall(r"\bmatch\b|\bend\b|[()]", re.sub(r'"[^"]*"', '""', line)):
            depth += 1 if w in ("match", "(") else -1
    return "\n".join(out)


I_FUNCS = (("add_policy_internal", ("text", "text", "rule"), "bool"),
           ("add_policies_internal", ("text", "text", "rules"), "bool"),
           ("remove_policy_internal", ("text", "text", "rule"), "bool"),
           ("remove_policies_internal", ("text", "text", "rules"), "bool"),
           ("remove_filtered_policy_internal", ("text", "text", "nat", "rule"), "bool+rules"))
I_COQ_TY = {"text": "text", "rule": "rule", "rules": "list rule", "nat": "nat"}
# what emit(Event::ClearCache, ..) does is a parameter of every generated program
I_HOOK = "(clear_cache : estate -> estate)"


def i_rust_type(t):
    t = re.sub(r"\s+", "", t)
    return {"&str": "text", "Vec<String>": "rule", "Vec<Vec<String>>": "rules", "usize": "nat"}.get(t)


def translate_internal_fn(src, start, name, want_tys, want_ret):
    hdr = r"async\s+fn\s+%s\s*\(([^)]*)\)\s*->\s*([^{;]+?)\s*(?=[{;])" % name
    m = None
    for mm in re.finditer(hdr, src[start:]):
        if src[start + mm.end()] == "{":
            m = mm
            break
    if m is None:
        raise Untranslatable("%s: definition not found" % name)
    prms = [x.strip() for x in m.group(1).split(",") if x.strip()]
    if not prms or re.sub(r"\s+", "", prms[0]) != "&mutself":
        raise Untranslatable("%s: receiver is not &mut self" % name)
    params = []
    for prm in prms[1:]:
        pm = re.match(r"(\w+)\s*:\s*(.+)$", prm, re.S)
        ty = i_rust_type(pm.group(2)) if pm else None
        if ty is None:
            raise Untranslatable("%s: parameter %r" % (name, prm))
        params.append((pm.group(1), ty))
    if tuple(t for _, t in params) != tuple(want_tys):
        raise Untranslatable("%s: parameter types %s" % (name, [t for _, t in params]))
    rt = re.sub(r"\s+", "", m.group(2))
    ret = {"Result<bool>": "bool", "Result<(bool,Vec<Vec<String>>)>": "bool+rules"}.get(rt)
    if ret != want_ret:
        raise Untranslatable("%s: return type %s" % (name, rt))
    body = pins.balanced(src, start + m.end())
    if body is None:
        raise Untranslatable("%s: body not found" % name)
    p = IP(ilex(body.strip()[1:-1]), FEATURES)
    blk = p.seq()
    if p.peek()[0] != "eof":
        raise Untranslatable("%s: trailing tokens" % name)
    env = {x: (t, "v_" + x) for x, t in params}
    term = IE(ret).function(blk, env)
    binders = " ".join("(v_%s : %s)" % (x, I_COQ_TY[t]) for x, t in params)
    return "Definition gen_%s_cc %s (s : estate) %s : estate * outcome bool :=\n%s.\n" % (
        name, I_HOOK, binders, i_indent(term))


def generate_internal():
    out = ["(* GENERATED on every run by tools/rs2coq.py (part 4) from /repo/src/internal_api.rs",
           "   (impl<T> InternalApi for T; cfg resolved for the features %s) - do not edit. *)" % (
               ", ".join("%s%s" % ("" if v else "!", f) for f, v in sorted(FEATURES.items()))),
           "From CV Require Import Model.Base Model.Enforce Model.Engine Gen.InternalPrims.", "",
           "(* gen_.._cc clear_cache: the entry point, with what emit(Event::ClearCache, ..) does as a parameter;",
           "   gen_.. (below): the plain enforcer, for which it does nothing (InternalPrims.emit_clear_cache) *)", ""]
    ok = True
    src = pins.read("src/internal_api.rs")
    imp = re.search(r"impl\s*<\s*T\s*>\s*InternalApi\s+for\s+T", src or "")
    for name, tys, ret in I_FUNCS:
        try:
            if imp is None:
                raise Untranslatable("impl<T> InternalApi for T not found")
            out.append(translate_internal_fn(src, imp.end(), name, tys, ret))
        except Exception as ex:   # noqa
            ok = False
            msg = str(ex) if isinstance(ex, Untranslatable) else "%s: %s" % (type(ex).__name__, ex)
            out.append("(* translation of %s failed: %s *)" % (name, msg.replace("*)", "* )").replace("(*", "( *")))
            out.append("Definition gen_%s_cc %s (s : estate) %s : estate * outcome bool := (s, Panic).\n" % (
                name, I_HOOK, " ".join("(_ : %s)" % I_COQ_TY[t] for t in tys)))
    for name, _tys, _ret in I_FUNCS:
        out.append("Definition gen_%s := gen_%s_cc emit_clear_cache." % (name, name))
    out.append("\nDefinition gen_internal_translated : bool := %s." % ("true" if ok else "false"))
    return "\n".join(out) + "\n", ok


def write_if_changed(dst, txt, ok):
    os.makedirs(os.path.dirname(dst), exist_ok=True)
    old = None
    try:
        old = open(dst, encoding="utf-8").read()
    except OSError:
        pass
    if old != txt:
        open(dst, "w", encoding="utf-8").write(txt)
        print("rs2coq: rewritten", dst, "(translated)" if ok else "(UNTRANSLATABLE)")
    else:
        print("rs2coq: unchanged", dst)


def main():
    dst = sys.argv[1] if len(sys.argv) > 1 else "/verif/coq/Gen/EffectorGen.v"
    txt, ok = generate()
    write_if_changed(dst, txt, ok)
    txt2, ok2 = generate_str()
    write_if_changed(os.path.join(os.path.dirname(dst), "StrFnGen.v"), txt2, ok2)
    txt4, ok4 = generate_internal()
    write_if_changed(os.path.join(os.path.dirname(dst), "InternalGen.v"), txt4, ok4)
    import rs2coq_store          # part 3 (policy-store loops) lives in its own module
    rs2coq_store.main(os.path.dirname(dst))
    import rs2coq_api            # part 5: management / RBAC API helpers -> Gen/ApiGen.v
    rs2coq_api.main(os.path.join(os.path.dirname(dst), "ApiGen.v"))
    import rs2coq_cached         # part 6: CachedEnforcer -> Gen/CachedGen.v
    rs2coq_cached.main(os.path.dirname(dst))
    import rs2coq_enf            # part 7: the sequencing methods of impl CoreApi for Enforcer -> Gen/EnforcerGen.v
    rs2coq_enf.main(os.path.join(os.path.dirname(dst), "EnforcerGen.v"))
    import rs2coq_links          # part 8: role links + store mutators -> Gen/LinksGen.v
    rs2coq_links.main(os.path.dirname(dst))
    import rs2coq_loop           # part 10: the two enforcement loops -> Gen/EnforceGen.v
    rs2coq_loop.main(os.path.dirname(dst))
    import rs2coq_adapters       # part 9: the bundled adapters -> Gen/AdaptersGen.v
    rs2coq_adapters.main(os.path.dirname(dst))
    import rs2coq_query          # part 13: read side of the RBAC / management API -> Gen/QueryGen.v
    rs2coq_query.main(os.path.dirname(dst))
    import rs2coq_regex          # part 14: regex-based functions of util.rs (+ key_match2/3 up to regex_match) -> Gen/RegexGen.v
    rs2coq_regex.main(os.path.dirname(dst))
    import rs2coq_enf2           # part 15: register_g_functions, new_raw / new, enforce wrappers, on / off / emit, emitter.rs -> Gen/Enforcer2Gen.v
    rs2coq_enf2.main(os.path.dirname(dst))
    import rs2coq_ini            # part 12: config.rs + the loading half of default_model.rs + to_text -> Gen/IniGen.v
    rs2coq_ini.main(os.path.dirname(dst))
    import rs2coq_fmap           # part 16: function_map.rs regex_match, key_match2..5, key_get2/3 with the run-time Regex::new -> Gen/FmapGen.v
    rs2coq_fmap.main(os.path.dirname(dst))
    import rs2coq_fsave          # part 17: file / string adapters, write side + file reading -> Gen/FsaveGen.v
    rs2coq_fsave.main(os.path.dirname(dst))
    import rs2coq_model2         # part 18: the policy store as whole functions, macros.rs, convert.rs, default_cache.rs, error.rs -> Gen/Model2Gen.v
    rs2coq_model2.main(os.path.dirname(dst))
    import rs2coq_locks          # part 19: the lock discipline (skeletons of every function that reaches the role-manager lock) -> Gen/LocksGen.v
    rs2coq_locks.main(os.path.dirname(dst))
    import rs2coq_misc           # part 22: null_adapter.rs, FunctionMap default / add_function / get_functions, register_function, Assertion accessors, frontend.rs -> Gen/MiscGen.v
    rs2coq_misc.main(os.path.dirname(dst))
    import rs2coq_rm             # part 11: DefaultRoleManager + bounded BFS -> Gen/RoleManagerGen.v
    rs2coq_rm.main(os.path.dirname(dst))
    import rs2coq_rmcache        # part 23: DefaultRoleManager with feature "cached" ON (the has_link cache) -> Gen/RmCacheGen.v
    rs2coq_rmcache.main(os.path.dirname(dst))


if __name__ == "__main__":
    main()
