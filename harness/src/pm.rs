// C15 / C06: the exported matcher functions of casbin::function_map
use crate::codec::*;
use casbin::function_map as fm;

// pm <fn> <key> <pattern> [<var>]
pub fn run_pm(toks: &[&str]) -> String {
    let k1 = dec(toks[2]);
    let k2 = dec(toks[3]);
    match toks[1] {
        "km" => b01(fm::key_match(&k1, &k2)).to_string(),
        "kg" => format!("t.{}", enc(&fm::key_get(&k1, &k2))),
        "km2" => b01(fm::key_match2(&k1, &k2)).to_string(),
        "kg2" => format!("t.{}", enc(&fm::key_get2(&k1, &k2, &dec(toks[4])))),
        "km3" => b01(fm::key_match3(&k1, &k2)).to_string(),
        "kg3" => format!("t.{}", enc(&fm::key_get3(&k1, &k2, &dec(toks[4])))),
        "km4" => b01(fm::key_match4(&k1, &k2)).to_string(),
        "km5" => b01(fm::key_match5(&k1, &k2)).to_string(),
        "rm" => b01(fm::regex_match(&k1, &k2)).to_string(),
        _ => panic!("bad pm fn"),
    }
}
