// Engine cases: a whole enforcer driven through a history of management,
// RBAC, load/save/clear, reconfiguration and toggle calls interleaved with
// queries.  `eng` = Enforcer, `engc` = CachedEnforcer, `twin` = both in
// lock-step.
use crate::codec::*;
use async_trait::async_trait;
use casbin::prelude::*;
use casbin::rhai::{Dynamic, Map};
use casbin::{
    Adapter, CachedEnforcer, CoreApi, DefaultModel, DefaultRoleManager, EventData, Filter,
    MemoryAdapter, MgmtApi, Model, NullAdapter, RbacApi, StringAdapter, Watcher,
};
use std::panic::{catch_unwind, AssertUnwindSafe};
use std::sync::atomic::{AtomicUsize, Ordering};
use std::sync::{Arc, Mutex};

static TMP_COUNTER: AtomicUsize = AtomicUsize::new(0);

pub fn rt() -> tokio::runtime::Runtime {
    tokio::runtime::Builder::new_current_thread().build().unwrap()
}

// ------------------------------------------------------------------ values
#[derive(Clone, Debug, Hash, PartialEq)]
pub enum Val {
    S(String),
    I(i32),
    B(bool),
    M(Vec<(String, Val)>),
}
impl From<Val> for Dynamic {
    fn from(v: Val) -> Dynamic {
        match v {
            Val::S(s) => Dynamic::from(s),
            Val::I(i) => Dynamic::from(i),
            Val::B(b) => Dynamic::from(b),
            Val::M(fs) => {
                let mut m = Map::new();
                for (k, v) in fs {
                    m.insert(k.into(), v.into());
                }
                Dynamic::from(m)
            }
        }
    }
}
// the tuple form of EnforceArgs goes through serde (rhai::serde::to_dynamic): Val serialises to the same
// string / integer / boolean / map a caller's own types would
impl serde::Serialize for Val {
    fn serialize<S: serde::Serializer>(&self, ser: S) -> std::result::Result<S::Ok, S::Error> {
        use serde::ser::SerializeMap;
        match self {
            Val::S(s) => ser.serialize_str(s),
            Val::I(i) => ser.serialize_i32(*i),
            Val::B(b) => ser.serialize_bool(*b),
            Val::M(fs) => {
                let mut m = ser.serialize_map(Some(fs.len()))?;
                for (k, v) in fs {
                    m.serialize_entry(k, v)?;
                }
                m.end()
            }
        }
    }
}

/// enforce through the TUPLE implementation of EnforceArgs (arity 1..=6; other arities through the Vec form)
pub fn enforce_tuple<E: casbin::CoreApi>(e: &E, v: Vec<Val>) -> casbin::Result<bool> {
    let mut it = v.clone().into_iter();
    let mut nx = || it.next().unwrap();
    match v.len() {
        1 => e.enforce((nx(),)),
        2 => e.enforce((nx(), nx())),
        3 => e.enforce((nx(), nx(), nx())),
        4 => e.enforce((nx(), nx(), nx(), nx())),
        5 => e.enforce((nx(), nx(), nx(), nx(), nx())),
        6 => e.enforce((nx(), nx(), nx(), nx(), nx(), nx())),
        _ => e.enforce(v),
    }
}

fn parse_scalar(s: &str) -> Val {
    let (t, r) = s.split_at(2);
    match t {
        "s." => Val::S(dec(r)),
        "i." => Val::I(r.parse().unwrap()),
        "b." => Val::B(r == "1"),
        _ => panic!("bad scalar {}", s),
    }
}
pub fn parse_val(s: &str) -> Val {
    if let Some(r) = s.strip_prefix("m.") {
        let mut fs = vec![];
        if !r.is_empty() {
            for kv in r.split('&') {
                let (k, v) = kv.split_once('=').unwrap();
                fs.push((dec(k), parse_scalar(v)));
            }
        }
        Val::M(fs)
    } else {
        parse_scalar(s)
    }
}
pub fn parse_vals(s: &str) -> Vec<Val> {
    if s == "!" {
        vec![]
    } else {
        s.split(',').map(parse_val).collect()
    }
}

// ------------------------------------------------------------- model spec
// r=sub,obj,act;p=sub,obj,act,eft;g=2;e=AO;m=<enc matcher text>  (after prep)
pub fn effect_text(tag: &str) -> String {
    match tag {
        "AO" => "some(where (p.eft == allow))".to_string(),
        "DO" => "!some(where (p.eft == deny))".to_string(),
        "AD" => "some(where (p.eft == allow)) && !some(where (p.eft == deny))".to_string(),
        "PR" => "priority(p.eft) || deny".to_string(),
        other => dec(other.strip_prefix("X").expect("effect tag")),
    }
}
pub fn conf_of_spec(spec: &str) -> String {
    let mut secs: Vec<(String, Vec<String>)> = vec![
        ("request_definition".into(), vec![]),
        ("policy_definition".into(), vec![]),
        ("role_definition".into(), vec![]),
        ("policy_effect".into(), vec![]),
        ("matchers".into(), vec![]),
    ];
    for kv in spec.split(';') {
        if kv.is_empty() {
            continue;
        }
        let (k, v) = kv.split_once('=').expect("model spec kv");
        let (idx, val) = match k.as_bytes()[0] {
            b'r' => (0, v.split(',').map(dec).collect::<Vec<_>>().join(", ")),
            b'p' => (1, v.split(',').map(dec).collect::<Vec<_>>().join(", ")),
            b'g' => {
                let n: usize = v.parse().unwrap();
                (2, vec!["_"; n].join(", "))
            }
            b'e' => (3, effect_text(v)),
            b'm' => (4, dec(v)),
            _ => panic!("bad section {}", k),
        };
        secs[idx].1.push(format!("{} = {}", k, val));
    }
    let mut out = String::new();
    for (name, lines) in secs {
        if lines.is_empty() && name == "role_definition" {
            continue;
        }
        out.push_str(&format!("[{}]\n", name));
        for l in lines {
            out.push_str(&l);
            out.push('\n');
        }
        out.push('\n');
    }
    out
}

// --------------------------------------------------------------- adapters
#[derive(Clone, Copy, Debug, PartialEq)]
enum Resp {
    Pass,
    Refuse,
    Fail,
    FailLate,
    FailPartial,
}
struct Scripted {
    inner: Box<dyn Adapter>,
    script: std::collections::VecDeque<Resp>,
}
fn adapter_err() -> casbin::Error {
    casbin::Error::AdapterError(casbin::error::AdapterError("scripted failure".to_string().into()))
}
impl Scripted {
    fn pop(&mut self) -> Resp {
        self.script.pop_front().unwrap_or(Resp::Pass)
    }
}
fn clear_g(m: &mut dyn Model) {
    if let Some(am) = m.get_mut_model().get_mut("g") {
        for a in am.values_mut() {
            a.get_mut_policy().clear();
        }
    }
}
#[async_trait]
impl Adapter for Scripted {
    async fn load_policy(&mut self, m: &mut dyn Model) -> casbin::Result<()> {
        match self.pop() {
            Resp::Pass => self.inner.load_policy(m).await,
            Resp::FailLate => {
                let _ = self.inner.load_policy(m).await;
                Err(adapter_err())
            }
            Resp::FailPartial => {
                let _ = self.inner.load_policy(m).await;
                clear_g(m);
                Err(adapter_err())
            }
            _ => Err(adapter_err()),
        }
    }
    async fn load_filtered_policy<'a>(&mut self, m: &mut dyn Model, f: Filter<'a>) -> casbin::Result<()> {
        match self.pop() {
            Resp::Pass => self.inner.load_filtered_policy(m, f).await,
            Resp::FailLate => {
                let _ = self.inner.load_filtered_policy(m, f).await;
                Err(adapter_err())
            }
            Resp::FailPartial => {
                let _ = self.inner.load_filtered_policy(m, f).await;
                clear_g(m);
                Err(adapter_err())
            }
            _ => Err(adapter_err()),
        }
    }
    async fn save_policy(&mut self, m: &mut dyn Model) -> casbin::Result<()> {
        match self.pop() {
            Resp::Pass => self.inner.save_policy(m).await,
            _ => Err(adapter_err()),
        }
    }
    async fn clear_policy(&mut self) -> casbin::Result<()> {
        match self.pop() {
            Resp::Pass => self.inner.clear_policy().await,
            _ => Err(adapter_err()),
        }
    }
    fn is_filtered(&self) -> bool {
        self.inner.is_filtered()
    }
    async fn add_policy(&mut self, sec: &str, ptype: &str, rule: Vec<String>) -> casbin::Result<bool> {
        match self.pop() {
            Resp::Pass => self.inner.add_policy(sec, ptype, rule).await,
            Resp::Refuse => Ok(false),
            _ => Err(adapter_err()),
        }
    }
    async fn add_policies(&mut self, sec: &str, ptype: &str, rules: Vec<Vec<String>>) -> casbin::Result<bool> {
        match self.pop() {
            Resp::Pass => self.inner.add_policies(sec, ptype, rules).await,
            Resp::Refuse => Ok(false),
            _ => Err(adapter_err()),
        }
    }
    async fn remove_policy(&mut self, sec: &str, ptype: &str, rule: Vec<String>) -> casbin::Result<bool> {
        match self.pop() {
            Resp::Pass => self.inner.remove_policy(sec, ptype, rule).await,
            Resp::Refuse => Ok(false),
            _ => Err(adapter_err()),
        }
    }
    async fn remove_policies(&mut self, sec: &str, ptype: &str, rules: Vec<Vec<String>>) -> casbin::Result<bool> {
        match self.pop() {
            Resp::Pass => self.inner.remove_policies(sec, ptype, rules).await,
            Resp::Refuse => Ok(false),
            _ => Err(adapter_err()),
        }
    }
    async fn remove_filtered_policy(
        &mut self,
        sec: &str,
        ptype: &str,
        field_index: usize,
        field_values: Vec<String>,
    ) -> casbin::Result<bool> {
        match self.pop() {
            Resp::Pass => self.inner.remove_filtered_policy(sec, ptype, field_index, field_values).await,
            Resp::Refuse => Ok(false),
            _ => Err(adapter_err()),
        }
    }
}

// Box<dyn Adapter> is not itself an Adapter: delegate
pub struct Boxed(pub Box<dyn Adapter>);
#[async_trait]
impl Adapter for Boxed {
    async fn load_policy(&mut self, m: &mut dyn Model) -> casbin::Result<()> {
        self.0.load_policy(m).await
    }
    async fn load_filtered_policy<'a>(&mut self, m: &mut dyn Model, f: Filter<'a>) -> casbin::Result<()> {
        self.0.load_filtered_policy(m, f).await
    }
    async fn save_policy(&mut self, m: &mut dyn Model) -> casbin::Result<()> {
        self.0.save_policy(m).await
    }
    async fn clear_policy(&mut self) -> casbin::Result<()> {
        self.0.clear_policy().await
    }
    fn is_filtered(&self) -> bool {
        self.0.is_filtered()
    }
    async fn add_policy(&mut self, sec: &str, ptype: &str, rule: Vec<String>) -> casbin::Result<bool> {
        self.0.add_policy(sec, ptype, rule).await
    }
    async fn add_policies(&mut self, sec: &str, ptype: &str, rules: Vec<Vec<String>>) -> casbin::Result<bool> {
        self.0.add_policies(sec, ptype, rules).await
    }
    async fn remove_policy(&mut self, sec: &str, ptype: &str, rule: Vec<String>) -> casbin::Result<bool> {
        self.0.remove_policy(sec, ptype, rule).await
    }
    async fn remove_policies(&mut self, sec: &str, ptype: &str, rules: Vec<Vec<String>>) -> casbin::Result<bool> {
        self.0.remove_policies(sec, ptype, rules).await
    }
    async fn remove_filtered_policy(
        &mut self,
        sec: &str,
        ptype: &str,
        field_index: usize,
        field_values: Vec<String>,
    ) -> casbin::Result<bool> {
        self.0.remove_filtered_policy(sec, ptype, field_index, field_values).await
    }
}

pub fn csv_line(fields: &[String], sep: &str) -> String {
    fields
        .iter()
        .map(|v| if v.contains(',') { format!("\"{}\"", v) } else { v.clone() })
        .collect::<Vec<_>>()
        .join(sep)
}

pub struct TmpFiles(pub Vec<String>);
impl Drop for TmpFiles {
    fn drop(&mut self) {
        for f in &self.0 {
            let _ = std::fs::remove_file(f);
            let _ = std::fs::remove_file(format!("{}.tmp", f));
        }
    }
}

fn tmp_path() -> String {
    let dir = std::env::var("CVH_TMP").unwrap_or_else(|_| "/verif/.build/tmp".to_string());
    let _ = std::fs::create_dir_all(&dir);
    format!("{}/p{}_{}.csv", dir, std::process::id(), TMP_COUNTER.fetch_add(1, Ordering::SeqCst))
}

// N | M@lines@f | F@lines@f | S@lines@f | X@<inner spec>@script
pub fn build_adapter(spec: &str, tmps: &mut TmpFiles, rt: &tokio::runtime::Runtime) -> Box<dyn Adapter> {
    let parts: Vec<&str> = spec.split('@').collect();
    match parts[0] {
        "N" => Box::new(NullAdapter),
        "M" => {
            let mut a = MemoryAdapter::default();
            for l in dec_rules(parts[1]) {
                rt.block_on(a.add_policy(&l[0], &l[1], l[2..].to_vec())).unwrap();
            }
            Box::new(a)
        }
        "F" => {
            let path = tmp_path();
            let mut text = String::new();
            for l in dec_rules(parts[1]) {
                text.push_str(&csv_line(&l, ", "));
                text.push('\n');
            }
            std::fs::write(&path, text).unwrap();
            tmps.0.push(path.clone());
            if parts[2] == "1" {
                Box::new(casbin::FileAdapter::new_filtered_adapter(path))
            } else {
                Box::new(casbin::FileAdapter::new(path))
            }
        }
        "S" => {
            let mut text = String::new();
            for l in dec_rules(parts[1]) {
                text.push_str(&csv_line(&l, ", "));
                text.push('\n');
            }
            Box::new(StringAdapter::new(text))
        }
        // raw policy text: T@<enc text> = StringAdapter, Ft@<enc text> = FileAdapter
        "T" => Box::new(StringAdapter::new(dec(parts[1]))),
        "Ft" => {
            let path = tmp_path();
            std::fs::write(&path, dec(parts[1])).unwrap();
            tmps.0.push(path.clone());
            Box::new(casbin::FileAdapter::new(path))
        }
        "X" => {
            let n = parts.len();
            let inner = build_adapter(&parts[1..n - 1].join("@"), tmps, rt);
            let mut script = std::collections::VecDeque::new();
            if parts[n - 1] != "-" {
                for c in parts[n - 1].chars() {
                    script.push_back(match c {
                        'p' => Resp::Pass,
                        'r' => Resp::Refuse,
                        'f' => Resp::Fail,
                        'l' => Resp::FailLate,
                        'h' => Resp::FailPartial,
                        _ => panic!("bad script"),
                    });
                }
            }
            Box::new(Scripted { inner, script })
        }
        _ => panic!("bad adapter spec {}", spec),
    }
}

// ---------------------------------------------------------------- watcher
#[derive(Clone)]
struct RecWatcher(Arc<Mutex<Vec<EventData>>>);
impl Watcher for RecWatcher {
    fn set_update_callback(&mut self, _cb: Box<dyn FnMut() + Send + Sync>) {}
    fn update(&mut self, d: EventData) {
        self.0.lock().unwrap().push(d);
    }
}
fn event_str(d: &EventData) -> String {
    match d {
        EventData::AddPolicy(s, p, r) => format!("EA^{}^{}^{}", enc(s), enc(p), enc_rule(r)),
        EventData::AddPolicies(s, p, r) => format!("EAM^{}^{}^{}", enc(s), enc(p), enc_rules(r)),
        EventData::RemovePolicy(s, p, r) => format!("ER^{}^{}^{}", enc(s), enc(p), enc_rule(r)),
        EventData::RemovePolicies(s, p, r) => format!("ERM^{}^{}^{}", enc(s), enc(p), enc_rules(r)),
        EventData::RemoveFilteredPolicy(s, p, r) => format!("ERF^{}^{}^{}", enc(s), enc(p), enc_rules(r)),
        EventData::SavePolicy(r) => format!("ES^{}", enc_rules(r)),
        EventData::ClearPolicy => "EC".to_string(),
        EventData::ClearCache => "ECC".to_string(),
    }
}

// ---------------------------------------------------------------- results
fn err_class(e: &casbin::Error) -> &'static str {
    match e {
        casbin::Error::IoError(_) => "EI",
        casbin::Error::ModelError(_) => "EM",
        casbin::Error::PolicyError(_) => "EP",
        casbin::Error::RbacError(_) => "EB",
        casbin::Error::RhaiError(_) => "EV",
        casbin::Error::RhaiParseError(_) => "EV",
        casbin::Error::RequestError(_) => "ER",
        casbin::Error::AdapterError(_) => "EA",
    }
}
fn res_bool(r: casbin::Result<bool>) -> String {
    match r {
        Ok(b) => b01(b).to_string(),
        Err(e) => err_class(&e).to_string(),
    }
}
fn res_unit(r: casbin::Result<()>) -> String {
    match r {
        Ok(()) => "1".to_string(),
        Err(e) => err_class(&e).to_string(),
    }
}
fn names(v: Vec<String>) -> String {
    enc_rule(&v)
}
fn name_set(mut v: Vec<String>) -> String {
    v.sort();
    enc_rule(&v)
}
fn rule_bag(mut v: Vec<Vec<String>>) -> String {
    v.sort();
    enc_rules(&v)
}
fn opt_dec(s: &str) -> Option<String> {
    if s == "-" {
        None
    } else {
        Some(dec(s))
    }
}
fn ufun_of(tag: &str) -> casbin::function_map::OperatorFunction {
    use casbin::function_map::OperatorFunction as OF;
    use casbin::rhai::ImmutableString as IS;
    match tag {
        "eq" => OF::Arg2(|a: IS, b: IS| (a == b).into()),
        "neq" => OF::Arg2(|a: IS, b: IS| (a != b).into()),
        "prefix" => OF::Arg2(|a: IS, b: IS| a.starts_with(b.as_str()).into()),
        "true" => OF::Arg1(|_a: IS| true.into()),
        _ => panic!("bad ufun"),
    }
}

pub struct Ctx<'a> {
    pub rt: &'a tokio::runtime::Runtime,
    pub tmps: &'a mut TmpFiles,
    pub wlog: Arc<Mutex<Vec<EventData>>>,
    // what a freshly built twin needs (C18): model spec, adapter spec as last set, components
    pub cur_spec: String,
    pub cur_adapter: String,
    pub cur_file: Option<String>,
    pub ufuns: Vec<(String, String)>,
    pub rm_max: usize,
    pub flags: [bool; 4], // enabled, auto_save, auto_build, auto_notify
}

// the fresh twin: same model text, a copy of the adapter's file, same components
fn build_fresh(cx: &mut Ctx) -> Option<Enforcer> {
    let rt = cx.rt;
    let conf = conf_of_spec(&cx.cur_spec);
    let model = rt.block_on(DefaultModel::from_str(&conf)).ok()?;
    let adapter: Box<dyn Adapter> = match &cx.cur_file {
        Some(path) => {
            let copy = format!("{}.fresh", path);
            std::fs::copy(path, &copy).ok()?;
            cx.tmps.0.push(copy.clone());
            Box::new(casbin::FileAdapter::new(copy))
        }
        None => {
            if cx.cur_adapter == "N" {
                Box::new(NullAdapter)
            } else {
                panic!("FRESH needs a file or null adapter")
            }
        }
    };
    let mut e = rt.block_on(Enforcer::new(model, Boxed(adapter))).ok()?;
    if cx.rm_max != 10 {
        let rm = Arc::new(parking_lot::RwLock::new(DefaultRoleManager::new(cx.rm_max)));
        e.set_role_manager(rm).ok()?;
    }
    for (n, t) in &cx.ufuns {
        e.add_function(n, ufun_of(t));
    }
    e.enable_auto_save(cx.flags[1]);
    e.enable_auto_build_role_links(cx.flags[2]);
    e.enable_auto_notify_watcher(cx.flags[3]);
    e.enable_enforce(cx.flags[0]);
    Some(e)
}

// one step (operation or query) against any enforcer type
macro_rules! do_step {
    ($e:expr, $f:expr, $cx:expr) => {{
        let f: &Vec<&str> = $f;
        let rt = $cx.rt;
        match f[0] {
            "A" => {
                let pt = dec(f[2]);
                let r = dec_rule(f[3]);
                res_bool(if f[1] == "g" {
                    rt.block_on($e.add_named_grouping_policy(&pt, r))
                } else {
                    rt.block_on($e.add_named_policy(&pt, r))
                })
            }
            "AM" => {
                let pt = dec(f[2]);
                let r = dec_rules(f[3]);
                res_bool(if f[1] == "g" {
                    rt.block_on($e.add_named_grouping_policies(&pt, r))
                } else {
                    rt.block_on($e.add_named_policies(&pt, r))
                })
            }
            "R" => {
                let pt = dec(f[2]);
                let r = dec_rule(f[3]);
                res_bool(if f[1] == "g" {
                    rt.block_on($e.remove_named_grouping_policy(&pt, r))
                } else {
                    rt.block_on($e.remove_named_policy(&pt, r))
                })
            }
            "RM" => {
                let pt = dec(f[2]);
                let r = dec_rules(f[3]);
                res_bool(if f[1] == "g" {
                    rt.block_on($e.remove_named_grouping_policies(&pt, r))
                } else {
                    rt.block_on($e.remove_named_policies(&pt, r))
                })
            }
            "RF" => {
                let pt = dec(f[2]);
                let idx: usize = f[3].parse().unwrap();
                let v = dec_rule(f[4]);
                res_bool(if f[1] == "g" {
                    rt.block_on($e.remove_filtered_named_grouping_policy(&pt, idx, v))
                } else {
                    rt.block_on($e.remove_filtered_named_policy(&pt, idx, v))
                })
            }
            "ap" => res_bool(rt.block_on($e.add_permission_for_user(&dec(f[1]), dec_rule(f[2])))),
            "aps" => res_bool(rt.block_on($e.add_permissions_for_user(&dec(f[1]), dec_rules(f[2])))),
            "ar" => {
                let d = opt_dec(f[3]);
                res_bool(rt.block_on($e.add_role_for_user(&dec(f[1]), &dec(f[2]), d.as_deref())))
            }
            "ars" => {
                let d = opt_dec(f[3]);
                res_bool(rt.block_on($e.add_roles_for_user(&dec(f[1]), dec_rule(f[2]), d.as_deref())))
            }
            "dr" => {
                let d = opt_dec(f[3]);
                res_bool(rt.block_on($e.delete_role_for_user(&dec(f[1]), &dec(f[2]), d.as_deref())))
            }
            "drs" => {
                let d = opt_dec(f[2]);
                res_bool(rt.block_on($e.delete_roles_for_user(&dec(f[1]), d.as_deref())))
            }
            "du" => res_bool(rt.block_on($e.delete_user(&dec(f[1])))),
            "dra" => res_bool(rt.block_on($e.delete_role(&dec(f[1])))),
            "dp" => res_bool(rt.block_on($e.delete_permission(dec_rule(f[1])))),
            "dpf" => res_bool(rt.block_on($e.delete_permission_for_user(&dec(f[1]), dec_rule(f[2])))),
            "dpsf" => res_bool(rt.block_on($e.delete_permissions_for_user(&dec(f[1])))),
            "CL" => res_unit(rt.block_on($e.clear_policy())),
            "LD" => res_unit(rt.block_on($e.load_policy())),
            "LF" => {
                let fp = dec_rule(f[1]);
                let fg = dec_rule(f[2]);
                let flt = Filter { p: fp.iter().map(|s| s.as_str()).collect(), g: fg.iter().map(|s| s.as_str()).collect() };
                res_unit(rt.block_on($e.load_filtered_policy(flt)))
            }
            "SV" => res_unit(rt.block_on($e.save_policy())),
            "BR" => res_unit($e.build_role_links()),
            "SM" => {
                let conf = conf_of_spec(f[1]);
                match rt.block_on(DefaultModel::from_str(&conf)) {
                    Ok(m) => res_unit(rt.block_on($e.set_model(m))),
                    Err(e) => err_class(&e).to_string(),
                }
            }
            "SMR" => {
                // set_model with a model that ALREADY carries rules (added through Model::add_policy before the call):
                // the reconfigured enforcer must end up with the adapter's contents only, like a freshly built one
                let conf = conf_of_spec(f[1]);
                match rt.block_on(DefaultModel::from_str(&conf)) {
                    Ok(mut m) => {
                        for l in dec_rules(f[2]) {
                            if l.len() >= 2 {
                                m.add_policy(&l[0], &l[1], l[2..].to_vec());
                            }
                        }
                        res_unit(rt.block_on($e.set_model(m)))
                    }
                    Err(e) => err_class(&e).to_string(),
                }
            }
            "SA" => {
                let a = Boxed(build_adapter(f[1], $cx.tmps, rt));
                res_unit(rt.block_on($e.set_adapter(a)))
            }
            "SR" => {
                let rm = Arc::new(parking_lot::RwLock::new(DefaultRoleManager::new(f[1].parse().unwrap())));
                res_unit($e.set_role_manager(rm))
            }
            "SRP" => {
                // a replacement manager that already holds links of its own (filled by hand / taken over from another enforcer);
                // the generators emit this step only with auto-build on, where set_role_manager rebuilds the links from the
                // stored rules, so what the incoming manager held must not survive
                use casbin::RoleManager as _;
                let mut m = DefaultRoleManager::new(f[1].parse().unwrap());
                for l in dec_rules(f[2]) {
                    match l.len() {
                        2 => m.add_link(&l[0], &l[1], None),
                        3 => m.add_link(&l[0], &l[1], Some(&l[2])),
                        _ => panic!("SRP link arity"),
                    }
                }
                let rm = Arc::new(parking_lot::RwLock::new(m));
                res_unit($e.set_role_manager(rm))
            }
            "SE" => {
                $e.set_effector(Box::new(casbin::DefaultEffector));
                "1".to_string()
            }
            "AF" => {
                $e.add_function(&dec(f[1]), ufun_of(f[2]));
                "1".to_string()
            }
            "EE" => {
                $e.enable_enforce(f[1] == "1");
                "1".to_string()
            }
            "ES" => {
                $e.enable_auto_save(f[1] == "1");
                "1".to_string()
            }
            "EB" => {
                $e.enable_auto_build_role_links(f[1] == "1");
                "1".to_string()
            }
            "EN" => {
                $e.enable_auto_notify_watcher(f[1] == "1");
                "1".to_string()
            }
            // ---- queries ----
            "?e" => res_bool($e.enforce(parse_vals(f[1]))),
            "?em" => res_bool($e.enforce_mut(parse_vals(f[1]))),
            "?et" => res_bool(enforce_tuple(&*$e, parse_vals(f[1]))),
            "?ec" => res_bool($e.enforce_with_context(casbin::EnforceContext::new(&dec(f[1])), parse_vals(f[2]))),
            "?c4" => res_bool($e.enforce_with_context(
                casbin::EnforceContext { r_type: dec(f[1]), p_type: dec(f[2]), e_type: dec(f[3]), m_type: dec(f[4]) },
                parse_vals(f[5]),
            )),
            "?gp" => enc_rules(&if f[1] == "g" { $e.get_named_grouping_policy(&dec(f[2])) } else { $e.get_named_policy(&dec(f[2])) }),
            "?ga" => enc_rules(&if f[1] == "g" { $e.get_all_grouping_policy() } else { $e.get_all_policy() }),
            "?hp" => b01(if f[1] == "g" {
                $e.has_grouping_named_policy(&dec(f[2]), dec_rule(f[3]))
            } else {
                $e.has_named_policy(&dec(f[2]), dec_rule(f[3]))
            })
            .to_string(),
            "?gf" => enc_rules(&if f[1] == "g" {
                $e.get_filtered_named_grouping_policy(&dec(f[2]), f[3].parse().unwrap(), dec_rule(f[4]))
            } else {
                $e.get_filtered_named_policy(&dec(f[2]), f[3].parse().unwrap(), dec_rule(f[4]))
            }),
            "?vl" => names($e.get_model().get_values_for_field_in_policy(f[1], &dec(f[2]), f[3].parse().unwrap())),
            "?rf" => {
                let d = opt_dec(f[2]);
                name_set($e.get_roles_for_user(&dec(f[1]), d.as_deref()))
            }
            "?uf" => {
                let d = opt_dec(f[2]);
                name_set($e.get_users_for_role(&dec(f[1]), d.as_deref()))
            }
            "?hr" => {
                let d = opt_dec(f[3]);
                b01($e.has_role_for_user(&dec(f[1]), &dec(f[2]), d.as_deref())).to_string()
            }
            "?ir" => {
                let d = opt_dec(f[2]);
                name_set($e.get_implicit_roles_for_user(&dec(f[1]), d.as_deref()))
            }
            "?pf" => {
                let d = opt_dec(f[2]);
                enc_rules(&$e.get_permissions_for_user(&dec(f[1]), d.as_deref()))
            }
            "?ip" => {
                let d = opt_dec(f[2]);
                rule_bag($e.get_implicit_permissions_for_user(&dec(f[1]), d.as_deref()))
            }
            "?iu" => name_set(rt.block_on($e.get_implicit_users_for_permission(dec_rule(f[1])))),
            "?if" => b01($e.is_filtered()).to_string(),
            "?hl" => {
                let d = opt_dec(f[3]);
                b01($e.get_role_manager().read().has_link(&dec(f[1]), &dec(f[2]), d.as_deref())).to_string()
            }
            "?rv" => {
                // reload view: load the adapter into a scratch copy of the model
                let mut scratch = DefaultModel::default();
                for (sec, am) in $e.get_model().get_model() {
                    for (k, a) in am {
                        let mut ast = a.clone();
                        ast.policy.clear();
                        scratch.get_mut_model().entry(sec.clone()).or_default().insert(k.clone(), ast);
                    }
                }
                let r = rt.block_on($e.get_mut_adapter().load_policy(&mut scratch));
                match r {
                    Ok(()) => {
                        let mut out = vec![];
                        for sec in ["p", "g"] {
                            if let Some(am) = scratch.get_model().get(sec) {
                                for (k, a) in am {
                                    for r in a.get_policy() {
                                        let mut x = r.clone();
                                        x.insert(0, k.clone());
                                        x.insert(0, sec.to_string());
                                        out.push(x);
                                    }
                                }
                            }
                        }
                        enc_rules(&out)
                    }
                    Err(e) => err_class(&e).to_string(),
                }
            }
            "?wl" => {
                let l = $cx.wlog.lock().unwrap();
                if l.is_empty() {
                    "-".to_string()
                } else {
                    l.iter().map(event_str).collect::<Vec<_>>().join("+")
                }
            }
            other => panic!("bad step {}", other),
        }
    }};
}

fn run_history<E: CoreApi + MgmtApi + RbacApi>(e: &mut E, steps: &str, cx: &mut Ctx) -> String {
    let mut out: Vec<String> = vec![];
    let mut poisoned = false;
    let mut fresh: Option<Enforcer> = None;
    if steps != "-" {
        for st in steps.split('|') {
            if poisoned {
                out.push("X".to_string());
                continue;
            }
            let mut f: Vec<&str> = st.split(':').collect();
            // configuration tracking for the fresh twin
            match f[0] {
                "SM" | "SMR" => cx.cur_spec = f[1].to_string(),
                "SA" => cx.cur_adapter = f[1].to_string(),
                "SR" => cx.rm_max = f[1].parse().unwrap(),
                "SRP" => {
                    assert!(cx.flags[2], "SRP step with auto-build off: the generator must not emit it there");
                    cx.rm_max = f[1].parse().unwrap()
                }
                "AF" => cx.ufuns.push((dec(f[1]), f[2].to_string())),
                "EE" => cx.flags[0] = f[1] == "1",
                "ES" => cx.flags[1] = f[1] == "1",
                "EB" => cx.flags[2] = f[1] == "1",
                "EN" => cx.flags[3] = f[1] == "1",
                _ => {}
            }
            // file-system fault injection for file adapters: make the policy file unavailable / available again
            if f[0] == "FX" || f[0] == "FO" {
                let r = match &cx.cur_file {
                    Some(path) => {
                        let gone = format!("{}.gone", path);
                        let res = if f[0] == "FX" { std::fs::rename(path, &gone) } else { std::fs::rename(&gone, path) };
                        cx.tmps.0.push(gone);
                        if res.is_ok() { "1" } else { "E" }
                    }
                    None => "E",
                };
                out.push(r.to_string());
                continue;
            }
            if f[0] == "MK" {
                // a marker for the predicates; no effect
                out.push("1".to_string());
                continue;
            }
            if f[0] == "FRESH" {
                fresh = build_fresh(cx);
                out.push(if fresh.is_some() { "1".to_string() } else { "E".to_string() });
                continue;
            }
            if f[0].starts_with("?2") {
                let q = format!("?{}", &f[0][2..]);
                f[0] = &q;
                let r = match fresh.as_mut() {
                    Some(fe) => catch_unwind(AssertUnwindSafe(|| do_step!(fe, &f, cx))).unwrap_or_else(|_| "P".to_string()),
                    None => "NOFRESH".to_string(),
                };
                out.push(r);
                continue;
            }
            let n_tmp_before = cx.tmps.0.len();
            let r = catch_unwind(AssertUnwindSafe(|| do_step!(e, &f, cx)));
            if f[0] == "SA" {
                // a file adapter just created is the last temporary file
                cx.cur_file = if cx.tmps.0.len() > n_tmp_before && (f[1].starts_with("F@") || f[1].starts_with("Ft@")) {
                    cx.tmps.0.last().cloned()
                } else {
                    None
                };
            }
            match r {
                Ok(s) => out.push(s),
                Err(_) => {
                    out.push("P".to_string());
                    // the state after an unwinding management call is unspecified
                    // (save_policy's filtered-adapter assertion fires before anything is touched)
                    if !f[0].starts_with('?') && f[0] != "SV" {
                        poisoned = true;
                    }
                }
            }
        }
    }
    out.join("|")
}

// eng <modelspec> <adapterspec> <flags: w=watcher> <steps>
pub fn run_eng(toks: &[&str], cached: bool) -> String {
    let rt = rt();
    let mut tmps = TmpFiles(vec![]);
    let conf = conf_of_spec(toks[1]);
    let model = match rt.block_on(DefaultModel::from_str(&conf)) {
        Ok(m) => m,
        Err(e) => return format!("new={}", err_class(&e)),
    };
    let adapter = Boxed(build_adapter(toks[2], &mut tmps, &rt));
    let wlog = Arc::new(Mutex::new(vec![]));
    let cur_file = if toks[2].starts_with("F@") || toks[2].starts_with("Ft@") { tmps.0.last().cloned() } else { None };
    let mut cx = Ctx {
        rt: &rt,
        tmps: &mut tmps,
        wlog: wlog.clone(),
        cur_spec: toks[1].to_string(),
        cur_adapter: toks[2].to_string(),
        cur_file,
        ufuns: vec![],
        rm_max: 10,
        flags: [true, true, true, true],
    };
    if cached {
        match rt.block_on(CachedEnforcer::new(model, adapter)) {
            Err(e) => format!("new={}", err_class(&e)),
            Ok(mut e) => {
                if toks[3].contains('w') {
                    e.set_watcher(Box::new(RecWatcher(wlog.clone())));
                }
                format!("new=1 r={}", run_history(&mut e, toks[4], &mut cx))
            }
        }
    } else {
        match rt.block_on(Enforcer::new(model, adapter)) {
            Err(e) => format!("new={}", err_class(&e)),
            Ok(mut e) => {
                if toks[3].contains('w') {
                    e.set_watcher(Box::new(RecWatcher(wlog.clone())));
                }
                format!("new=1 r={}", run_history(&mut e, toks[4], &mut cx))
            }
        }
    }
}

pub fn run_twin(toks: &[&str]) -> String {
    let a = run_eng(toks, false);
    let b = run_eng(toks, true);
    format!("{} ## {}", a, b)
}
