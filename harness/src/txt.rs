// C16 / C09: text-level functions, through the cfg(casbin_verif) hooks
use crate::codec::*;
use casbin::prelude::*;
use casbin::verif_hooks as vh;
use casbin::Model;

pub fn run_txt(toks: &[&str]) -> String {
    let t = dec(toks[1]);
    match toks[0] {
        "csv" | "csvx" => match vh::parse_csv_line(&t) {
            None => "N".to_string(),
            Some(v) => enc_rule(&v),
        },
        "esc" => format!("t.{}", enc(&vh::escape_assertion(&t))),
        "rmc" => format!("t.{}", enc(&vh::remove_comment(&t))),
        "csvf" => format!("t.{}", enc(&vh::csv_field(&t))),
        "ini" => {
            let rt = crate::eng::rt();
            match rt.block_on(vh::config_entries(&t)) {
                Err(_) => "E".to_string(),
                Ok(es) => {
                    if es.is_empty() {
                        "-".to_string()
                    } else {
                        es.iter().map(|(s, k, v)| format!("{}^{}^{}", enc(s), enc(k), enc(v))).collect::<Vec<_>>().join("+")
                    }
                }
            }
        }
        "mdl2" | "tt" => {
            // mdl2 <plain> <layout>: both dumps; tt <text>: dump, and dump of from_str(to_text(..))
            let rt = crate::eng::rt();
            let dump = |m: &DefaultModel| -> String {
                let mut out = vec![];
                for sec in ["r", "p", "e", "m", "g"] {
                    if let Some(am) = m.get_model().get(sec) {
                        for (k, a) in am {
                            out.push(format!("{}^{}^{}^{}", sec, enc(k), enc(&a.value), enc_rule(&a.tokens)));
                        }
                    }
                }
                if out.is_empty() { "-".to_string() } else { out.join("+") }
            };
            let a = rt.block_on(DefaultModel::from_str(&t));
            let second_text = if toks[0] == "mdl2" {
                Some(dec(toks[2]))
            } else {
                a.as_ref().ok().map(|m| m.to_text())
            };
            let b = match second_text {
                Some(t2) => rt.block_on(DefaultModel::from_str(&t2)).map(|m| dump(&m)).unwrap_or_else(|_| "E".to_string()),
                None => "E".to_string(),
            };
            let a = a.map(|m| dump(&m)).unwrap_or_else(|_| "E".to_string());
            format!("{} ## {}", a, b)
        }
        "mdl" | "totext" => {
            let rt = crate::eng::rt();
            match rt.block_on(DefaultModel::from_str(&t)) {
                Err(_) => "E".to_string(),
                Ok(m) => {
                    if toks[0] == "totext" {
                        return format!("t.{}", enc(&m.to_text()));
                    }
                    let mut out = vec![];
                    for sec in ["r", "p", "e", "m", "g"] {
                        if let Some(am) = m.get_model().get(sec) {
                            for (k, a) in am {
                                out.push(format!("{}^{}^{}^{}", sec, enc(k), enc(&a.value), enc_rule(&a.tokens)));
                            }
                        }
                    }
                    if out.is_empty() {
                        "-".to_string()
                    } else {
                        out.join("+")
                    }
                }
            }
        }
        _ => panic!("bad txt"),
    }
}
