// C16 / C09: text-level functions, through the cfg(casbin_verif) hooks
use crate::codec::*;
use casbin::prelude::*;
use casbin::verif_hooks as vh;
use casbin::Model;

pub fn run_txt(toks: &[&str]) -> String {
    let t = dec(toks[1]);
    match toks[0] {
        "csv" => match vh::parse_csv_line(&t) {
            None => "N".to_string(),
            Some(v) => enc_rule(&v),
        },
        "esc" => format!("t.{}", enc(&vh::escape_assertion(&t))),
        "rmc" => format!("t.{}", enc(&vh::remove_comment(&t))),
        "csvf" => format!("t.{}", enc(&vh::csv_field(&t))),
        "ini" => {
            let rt = crate::eng::rt();
            match rt.block_on(vh::config_entries(&t)) {
                Err(_) => "E".to_string(),
                Ok(es) => {
                    if es.is_empty() {
                        "-".to_string()
                    } else {
                        es.iter().map(|(s, k, v)| format!("{}^{}^{}", enc(s), enc(k), enc(v))).collect::<Vec<_>>().join("+")
                    }
                }
            }
        }
        "mdl" | "totext" => {
            let rt = crate::eng::rt();
            match rt.block_on(DefaultModel::from_str(&t)) {
                Err(_) => "E".to_string(),
                Ok(m) => {
                    if toks[0] == "totext" {
                        return format!("t.{}", enc(&m.to_text()));
                    }
                    let mut out = vec![];
                    for sec in ["r", "p", "e", "m", "g"] {
                        if let Some(am) = m.get_model().get(sec) {
                            for (k, a) in am {
                                out.push(format!("{}^{}^{}^{}", sec, enc(k), enc(&a.value), enc_rule(&a.tokens)));
                            }
                        }
                    }
                    if out.is_empty() {
                        "-".to_string()
                    } else {
                        out.join("+")
                    }
                }
            }
        }
        _ => panic!("bad txt"),
    }
}
