// C03: DefaultRoleManager histories and queries
use crate::codec::*;
use casbin::{DefaultRoleManager, RoleManager};

pub fn opt(s: &str) -> Option<String> {
    if s == "-" {
        None
    } else {
        Some(dec(s))
    }
}

pub fn names_str(mut v: Vec<String>) -> String {
    v.sort();
    if v.is_empty() {
        "-".to_string()
    } else {
        v.iter().map(|x| enc(x)).collect::<Vec<_>>().join(",")
    }
}

pub fn run_rm(toks: &[&str]) -> String {
    let maxd: usize = toks[1].parse().unwrap();
    let mut rm = DefaultRoleManager::new(maxd);
    let mut opres = String::new();
    if toks[2] != "-" {
        for o in toks[2].split('|') {
            let f: Vec<&str> = o.split(',').collect();
            match f[0] {
                "C" => {
                    rm.clear();
                    opres.push('1');
                }
                "A" => {
                    let d = opt(f[3]);
                    rm.add_link(&dec(f[1]), &dec(f[2]), d.as_deref());
                    opres.push('1');
                }
                "D" => {
                    let d = opt(f[3]);
                    let r = rm.delete_link(&dec(f[1]), &dec(f[2]), d.as_deref());
                    opres.push_str(b01(r.is_ok()));
                }
                // a has_link question asked in the middle of the history (whatever the manager remembers of its answers
                // must not outlive the next mutation)
                "H" => {
                    let d = opt(f[3]);
                    opres.push_str(b01(rm.has_link(&dec(f[1]), &dec(f[2]), d.as_deref())));
                }
                _ => panic!("bad op"),
            }
        }
    }
    let mut ans: Vec<String> = vec![];
    for q in toks[3].split('|') {
        let f: Vec<&str> = q.split(',').collect();
        match f[0] {
            "H" => {
                let d = opt(f[3]);
                ans.push(b01(rm.has_link(&dec(f[1]), &dec(f[2]), d.as_deref())).to_string());
            }
            "R" => {
                let d = opt(f[2]);
                ans.push(names_str(rm.get_roles(&dec(f[1]), d.as_deref())));
            }
            "U" => {
                let d = opt(f[2]);
                ans.push(names_str(rm.get_users(&dec(f[1]), d.as_deref())));
            }
            _ => panic!("bad query"),
        }
    }
    format!("ops={} q={}", if opres.is_empty() { "-" } else { &opres }, ans.join("|"))
}
