// token coding shared with extracted/modelrun.ml
#![allow(dead_code)]

fn is_safe(c: u8) -> bool {
    c.is_ascii_alphanumeric() || c == b'_' || c == b'.' || c == b'/' || c == b'*'
}

pub fn enc(s: &str) -> String {
    if s.is_empty() {
        return "~".to_string();
    }
    let mut o = String::new();
    for &b in s.as_bytes() {
        if is_safe(b) {
            o.push(b as char);
        } else {
            o.push_str(&format!("%{:02X}", b));
        }
    }
    o
}

pub fn dec(s: &str) -> String {
    if s == "~" {
        return String::new();
    }
    let b = s.as_bytes();
    let mut o: Vec<u8> = Vec::new();
    let mut i = 0;
    while i < b.len() {
        if b[i] == b'%' {
            let h = std::str::from_utf8(&b[i + 1..i + 3]).unwrap();
            o.push(u8::from_str_radix(h, 16).unwrap());
            i += 3;
        } else {
            o.push(b[i]);
            i += 1;
        }
    }
    String::from_utf8(o).expect("case strings are valid UTF-8")
}

pub fn dec_rule(s: &str) -> Vec<String> {
    if s == "!" {
        vec![]
    } else {
        s.split(',').map(dec).collect()
    }
}
pub fn enc_rule(r: &[String]) -> String {
    if r.is_empty() {
        "!".to_string()
    } else {
        r.iter().map(|x| enc(x)).collect::<Vec<_>>().join(",")
    }
}
pub fn dec_rules(s: &str) -> Vec<Vec<String>> {
    if s == "-" {
        vec![]
    } else {
        s.split(';').map(dec_rule).collect()
    }
}
pub fn enc_rules(rs: &[Vec<String>]) -> String {
    if rs.is_empty() {
        "-".to_string()
    } else {
        rs.iter().map(|r| enc_rule(r)).collect::<Vec<_>>().join(";")
    }
}
pub fn b01(b: bool) -> &'static str {
    if b {
        "1"
    } else {
        "0"
    }
}
