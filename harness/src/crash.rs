// C10 (save clause): FileAdapter::save_policy with a write failure injected
// after k bytes by a file-size limit in a child process.
use crate::codec::*;
use casbin::prelude::*;
use casbin::{Adapter, Model};

const CONF: &str = "[request_definition]\nr = sub, obj, act\n[policy_definition]\np = sub, obj, act\n[role_definition]\ng = _, _\n[policy_effect]\ne = some(where (p.eft == allow))\n[matchers]\nm = g(r.sub, p.sub) && r.obj == p.obj && r.act == p.act\n";

fn model_with(rt: &tokio::runtime::Runtime, lines: &[Vec<String>]) -> DefaultModel {
    let mut m = rt.block_on(DefaultModel::from_str(CONF)).unwrap();
    for l in lines {
        let sec = &l[0][..1];
        m.add_policy(sec, &l[0], l[1..].to_vec());
    }
    m
}

fn read_back(rt: &tokio::runtime::Runtime, path: &str) -> String {
    let mut m = rt.block_on(DefaultModel::from_str(CONF)).unwrap();
    let mut a = casbin::FileAdapter::new(path.to_string());
    match rt.block_on(a.load_policy(&mut m)) {
        Err(_) => "ERR".to_string(),
        Ok(()) => {
            let mut out: Vec<Vec<String>> = vec![];
            for sec in ["p", "g"] {
                if let Some(am) = m.get_model().get(sec) {
                    for (k, ast) in am {
                        for r in ast.get_policy() {
                            let mut x = r.clone();
                            x.insert(0, k.clone());
                            out.push(x);
                        }
                    }
                }
            }
            enc_rules(&out)
        }
    }
}

// child: savechild <path> <new lines> <limit>
pub fn run_child(args: &[String]) -> i32 {
    let rt = crate::eng::rt();
    let path = args[0].clone();
    let lines = dec_rules(&args[1]);
    if args[2] != "unlimited" {
        let limit: u64 = args[2].parse().unwrap();
        unsafe {
            libc::signal(libc::SIGXFSZ, libc::SIG_IGN);
            let lim = libc::rlimit { rlim_cur: limit, rlim_max: limit };
            libc::setrlimit(libc::RLIMIT_FSIZE, &lim);
        }
    }
    let mut m = model_with(&rt, &lines);
    let mut a = casbin::FileAdapter::new(path);
    match rt.block_on(a.save_policy(&mut m)) {
        Ok(()) => 0,
        Err(_) => 3,
    }
}

// savesys <old lines> <new lines> <syscall> <when> <err|kill>
// FileAdapter::save_policy in a child process run under `strace`, which makes the <when>-th call of <syscall> fail with
// EIO (err) or kills the process when it enters that call (kill): a fault / crash at a system-call boundary. Afterwards
// the file is read back through a fresh FileAdapter.
pub fn run_savesys(toks: &[&str]) -> String {
    let rt = crate::eng::rt();
    let dir = std::env::var("CVH_TMP").unwrap_or_else(|_| "/verif/.build/tmp".to_string());
    let _ = std::fs::create_dir_all(&dir);
    let path = format!("{}/sys{}_{}_{}_{}.csv", dir, std::process::id(), toks[3], toks[4], toks[5]);
    {
        let mut m = model_with(&rt, &dec_rules(toks[1]));
        let mut a = casbin::FileAdapter::new(path.clone());
        rt.block_on(a.save_policy(&mut m)).unwrap();
    }
    let exe = std::env::current_exe().unwrap();
    let inject = if toks[5] == "kill" {
        format!("inject={}:signal=SIGKILL:when={}", toks[3], toks[4])
    } else {
        format!("inject={}:error=EIO:when={}", toks[3], toks[4])
    };
    // only calls that name the policy file or its temporary sibling count (-P), so the occurrence
    // numbers do not depend on what the runtime does at start-up
    let st = std::process::Command::new("strace")
        .args(["-f", "-qq", "-o", "/dev/null", "-P", &path, "-P", &format!("{}.tmp", path), "-e", &format!("trace={}", toks[3]), "-e", &inject])
        .arg(exe)
        .args(["savechild", &path, toks[2], "unlimited"])
        .status();
    let res = match st {
        Ok(s) => match s.code() {
            Some(0) => "ok".to_string(),
            Some(3) => "err".to_string(),
            Some(c) => format!("exit{}", c),
            None => "signal".to_string(),
        },
        Err(_) => "nostrace".to_string(),
    };
    let back = read_back(&rt, &path);
    let leftover = std::path::Path::new(&format!("{}.tmp", path)).exists();
    let _ = std::fs::remove_file(&path);
    let _ = std::fs::remove_file(format!("{}.tmp", path));
    format!("res={} file={} tmp={}", res, back, b01(leftover))
}

// savetrace <old lines> <new lines>
// the sequence of file-system calls a successful save issues on the policy file and its temporary sibling, read off an
// strace log: C:<f> (open with O_CREAT / O_TRUNC), W:<f>:<bytes> (consecutive writes summed), R:<f>:<g> (rename),
// U:<f> (unlink), T:<f> (truncate), with f, g in {path, tmp}.  Compared with Model/FileSave.v's `save_new`.
pub fn run_savetrace(toks: &[&str]) -> String {
    let rt = crate::eng::rt();
    let dir = std::env::var("CVH_TMP").unwrap_or_else(|_| "/verif/.build/tmp".to_string());
    let _ = std::fs::create_dir_all(&dir);
    let path = format!("{}/trace{}.csv", dir, std::process::id());
    let log = format!("{}.strace", path);
    {
        let mut m = model_with(&rt, &dec_rules(toks[1]));
        let mut a = casbin::FileAdapter::new(path.clone());
        rt.block_on(a.save_policy(&mut m)).unwrap();
    }
    let exe = std::env::current_exe().unwrap();
    let tmp = format!("{}.tmp", path);
    let st = std::process::Command::new("strace")
        .args(["-f", "-qq", "-y", "-o", &log, "-P", &path, "-P", &tmp, "-e",
               "trace=open,openat,creat,write,pwrite64,writev,rename,renameat,renameat2,unlink,unlinkat,truncate,ftruncate"])
        .arg(exe)
        .args(["savechild", &path, toks[2], "unlimited"])
        .status();
    let name = |s: &str| -> Option<&'static str> {
        if s.contains(&format!("{}\"", tmp)) || s.contains(&format!("{}>", tmp)) { Some("tmp") }
        else if s.contains(&format!("{}\"", path)) || s.contains(&format!("{}>", path)) { Some("path") }
        else { None }
    };
    let mut ops: Vec<String> = vec![];
    if let (Ok(_), Ok(text)) = (st, std::fs::read_to_string(&log)) {
        for line in text.lines() {
            let l = line.trim_start_matches(|c: char| c.is_ascii_digit() || c == ' ');
            let call = l.split('(').next().unwrap_or("");
            let okres = l.rsplit(" = ").next().map(|r| !r.starts_with("-1")).unwrap_or(false);
            if !okres { continue; }
            match call {
                "open" | "openat" | "creat" => {
                    // C = created empty (O_TRUNC / creat); O = opened for writing WITHOUT truncation
                    if l.contains("O_TRUNC") || call == "creat" {
                        if let Some(f) = name(l) { ops.push(format!("C:{}", f)); }
                    } else if l.contains("O_WRONLY") || l.contains("O_RDWR") {
                        if let Some(f) = name(l) { ops.push(format!("O:{}", f)); }
                    }
                }
                "write" | "pwrite64" | "writev" => {
                    let n: usize = l.rsplit(" = ").next().and_then(|r| r.trim().parse().ok()).unwrap_or(0);
                    if let Some(f) = name(l) {
                        if let Some(last) = ops.last_mut() {
                            if let Some(rest) = last.strip_prefix(&format!("W:{}:", f)) {
                                let prev: usize = rest.parse().unwrap_or(0);
                                *last = format!("W:{}:{}", f, prev + n);
                                continue;
                            }
                        }
                        ops.push(format!("W:{}:{}", f, n));
                    }
                }
                "rename" | "renameat" | "renameat2" => {
                    // source first, destination second
                    let a = l.find(&format!("{}\"", tmp));
                    let b = l.rfind(&format!("{}\"", path));
                    match (a, b) {
                        (Some(x), Some(y)) if x < y => ops.push("R:tmp:path".to_string()),
                        _ => ops.push("R:?".to_string()),
                    }
                }
                "unlink" | "unlinkat" => { if let Some(f) = name(l) { ops.push(format!("U:{}", f)); } }
                "truncate" | "ftruncate" => { if let Some(f) = name(l) { ops.push(format!("T:{}", f)); } }
                _ => {}
            }
        }
    } else {
        ops.push("nostrace".to_string());
    }
    let _ = std::fs::remove_file(&path);
    let _ = std::fs::remove_file(&tmp);
    let _ = std::fs::remove_file(&log);
    if ops.is_empty() { "-".to_string() } else { ops.join("|") }
}

// savecrash <old lines> <new lines> <limit>
pub fn run_savecrash(toks: &[&str]) -> String {
    let rt = crate::eng::rt();
    let dir = std::env::var("CVH_TMP").unwrap_or_else(|_| "/verif/.build/tmp".to_string());
    let _ = std::fs::create_dir_all(&dir);
    let path = format!("{}/crash{}_{}.csv", dir, std::process::id(), toks[3]);
    // the old policy, written by the adapter itself
    {
        let mut m = model_with(&rt, &dec_rules(toks[1]));
        let mut a = casbin::FileAdapter::new(path.clone());
        rt.block_on(a.save_policy(&mut m)).unwrap();
    }
    // "stale<n>": a temporary file of n bytes left behind by an earlier, interrupted save; no write limit
    let mut limit = toks[3].to_string();
    if let Some(n) = toks[3].strip_prefix("stale") {
        let n: usize = n.parse().unwrap();
        let junk = "p, stale, left, over\n".repeat(n / 21 + 1);
        std::fs::write(format!("{}.tmp", path), &junk.as_bytes()[..n]).unwrap();
        limit = "unlimited".to_string();
    }
    let exe = std::env::current_exe().unwrap();
    let st = std::process::Command::new(exe)
        .args(["savechild", &path, toks[2], &limit])
        .status();
    let res = match st {
        Ok(s) => match s.code() {
            Some(0) => "ok".to_string(),
            Some(3) => "err".to_string(),
            Some(c) => format!("exit{}", c),
            None => "signal".to_string(),
        },
        Err(_) => "spawnfail".to_string(),
    };
    let back = read_back(&rt, &path);
    let leftover = std::path::Path::new(&format!("{}.tmp", path)).exists();
    let _ = std::fs::remove_file(&path);
    let _ = std::fs::remove_file(format!("{}.tmp", path));
    format!("res={} file={} tmp={}", res, back, b01(leftover))
}
