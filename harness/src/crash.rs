// C10 (save clause): FileAdapter::save_policy with a write failure injected
// after k bytes by a file-size limit in a child process.
use crate::codec::*;
use casbin::prelude::*;
use casbin::{Adapter, Model};

const CONF: &str = "[request_definition]\nr = sub, obj, act\n[policy_definition]\np = sub, obj, act\n[role_definition]\ng = _, _\n[policy_effect]\ne = some(where (p.eft == allow))\n[matchers]\nm = g(r.sub, p.sub) && r.obj == p.obj && r.act == p.act\n";

fn model_with(rt: &tokio::runtime::Runtime, lines: &[Vec<String>]) -> DefaultModel {
    let mut m = rt.block_on(DefaultModel::from_str(CONF)).unwrap();
    for l in lines {
        let sec = &l[0][..1];
        m.add_policy(sec, &l[0], l[1..].to_vec());
    }
    m
}

fn read_back(rt: &tokio::runtime::Runtime, path: &str) -> String {
    let mut m = rt.block_on(DefaultModel::from_str(CONF)).unwrap();
    let mut a = casbin::FileAdapter::new(path.to_string());
    match rt.block_on(a.load_policy(&mut m)) {
        Err(_) => "ERR".to_string(),
        Ok(()) => {
            let mut out: Vec<Vec<String>> = vec![];
            for sec in ["p", "g"] {
                if let Some(am) = m.get_model().get(sec) {
                    for (k, ast) in am {
                        for r in ast.get_policy() {
                            let mut x = r.clone();
                            x.insert(0, k.clone());
                            out.push(x);
                        }
                    }
                }
            }
            enc_rules(&out)
        }
    }
}

// child: savechild <path> <new lines> <limit>
pub fn run_child(args: &[String]) -> i32 {
    let rt = crate::eng::rt();
    let path = args[0].clone();
    let lines = dec_rules(&args[1]);
    if args[2] != "unlimited" {
        let limit: u64 = args[2].parse().unwrap();
        unsafe {
            libc::signal(libc::SIGXFSZ, libc::SIG_IGN);
            let lim = libc::rlimit { rlim_cur: limit, rlim_max: limit };
            libc::setrlimit(libc::RLIMIT_FSIZE, &lim);
        }
    }
    let mut m = model_with(&rt, &lines);
    let mut a = casbin::FileAdapter::new(path);
    match rt.block_on(a.save_policy(&mut m)) {
        Ok(()) => 0,
        Err(_) => 3,
    }
}

// savesys <old lines> <new lines> <syscall> <when> <err|kill>
// FileAdapter::save_policy in a child process run under `strace`, which makes the <when>-th call of <syscall> fail with
// EIO (err) or kills the process when it enters that call (kill): a fault / crash at a system-call boundary. Afterwards
// the file is read back through a fresh FileAdapter.
pub fn run_savesys(toks: &[&str]) -> String {
    let rt = crate::eng::rt();
    let dir = std::env::var("CVH_TMP").unwrap_or_else(|_| "/verif/.build/tmp".to_string());
    let _ = std::fs::create_dir_all(&dir);
    let path = format!("{}/sys{}_{}_{}_{}.csv", dir, std::process::id(), toks[3], toks[4], toks[5]);
    {
        let mut m = model_with(&rt, &dec_rules(toks[1]));
        let mut a = casbin::FileAdapter::new(path.clone());
        rt.block_on(a.save_policy(&mut m)).unwrap();
    }
    let exe = std::env::current_exe().unwrap();
    let inject = if toks[5] == "kill" {
        format!("inject={}:signal=SIGKILL:when={}", toks[3], toks[4])
    } else {
        format!("inject={}:error=EIO:when={}", toks[3], toks[4])
    };
    // only calls that name the policy file or its temporary sibling count (-P), so the occurrence
    // numbers do not depend on what the runtime does at start-up
    let st = std::process::Command::new("strace")
        .args(["-f", "-qq", "-o", "/dev/null", "-P", &path, "-P", &format!("{}.tmp", path), "-e", &format!("trace={}", toks[3]), "-e", &inject])
        .arg(exe)
        .args(["savechild", &path, toks[2], "unlimited"])
        .status();
    let res = match st {
        Ok(s) => match s.code() {
            Some(0) => "ok".to_string(),
            Some(3) => "err".to_string(),
            Some(c) => format!("exit{}", c),
            None => "signal".to_string(),
        },
        Err(_) => "nostrace".to_string(),
    };
    let back = read_back(&rt, &path);
    let leftover = std::path::Path::new(&format!("{}.tmp", path)).exists();
    let _ = std::fs::remove_file(&path);
    let _ = std::fs::remove_file(format!("{}.tmp", path));
    format!("res={} file={} tmp={}", res, back, b01(leftover))
}

// savecrash <old lines> <new lines> <limit>
pub fn run_savecrash(toks: &[&str]) -> String {
    let rt = crate::eng::rt();
    let dir = std::env::var("CVH_TMP").unwrap_or_else(|_| "/verif/.build/tmp".to_string());
    let _ = std::fs::create_dir_all(&dir);
    let path = format!("{}/crash{}_{}.csv", dir, std::process::id(), toks[3]);
    // the old policy, written by the adapter itself
    {
        let mut m = model_with(&rt, &dec_rules(toks[1]));
        let mut a = casbin::FileAdapter::new(path.clone());
        rt.block_on(a.save_policy(&mut m)).unwrap();
    }
    let exe = std::env::current_exe().unwrap();
    let st = std::process::Command::new(exe)
        .args(["savechild", &path, toks[2], toks[3]])
        .status();
    let res = match st {
        Ok(s) => match s.code() {
            Some(0) => "ok".to_string(),
            Some(3) => "err".to_string(),
            Some(c) => format!("exit{}", c),
            None => "signal".to_string(),
        },
        Err(_) => "spawnfail".to_string(),
    };
    let back = read_back(&rt, &path);
    let leftover = std::path::Path::new(&format!("{}.tmp", path)).exists();
    let _ = std::fs::remove_file(&path);
    let _ = std::fs::remove_file(format!("{}.tmp", path));
    format!("res={} file={} tmp={}", res, back, b01(leftover))
}
