// C03 (extended): DefaultRoleManager histories WITH role / domain matching
// functions installed through RoleManager::matching_fn.
use crate::codec::*;
use crate::rm::{names_str, opt};
use casbin::function_map::{key_match, key_match2, key_match3};
use casbin::{DefaultRoleManager, MatchingFn, RoleManager};

fn first_eq(a: &str, b: &str) -> bool {
    match (a.as_bytes().first(), b.as_bytes().first()) {
        (Some(x), Some(y)) => x == y,
        _ => false,
    }
}

fn mfn(id: &str) -> Option<MatchingFn> {
    match id {
        "-" => None,
        "km" => Some(key_match),
        "km2" => Some(key_match2),
        "km3" => Some(key_match3),
        "fe" => Some(first_eq),
        _ => panic!("bad matching fn id"),
    }
}

pub fn run_rmm(toks: &[&str]) -> String {
    let maxd: usize = toks[1].parse().unwrap();
    let mut rm = DefaultRoleManager::new(maxd);
    let mut opres = String::new();
    if toks[2] != "-" {
        for o in toks[2].split('|') {
            let f: Vec<&str> = o.split(',').collect();
            match f[0] {
                "C" => {
                    rm.clear();
                    opres.push('1');
                }
                "A" => {
                    let d = opt(f[3]);
                    rm.add_link(&dec(f[1]), &dec(f[2]), d.as_deref());
                    opres.push('1');
                }
                "D" => {
                    let d = opt(f[3]);
                    let r = rm.delete_link(&dec(f[1]), &dec(f[2]), d.as_deref());
                    opres.push_str(b01(r.is_ok()));
                }
                "F" => {
                    rm.matching_fn(mfn(f[1]), mfn(f[2]));
                    opres.push('1');
                }
                _ => panic!("bad op"),
            }
        }
    }
    let mut ans: Vec<String> = vec![];
    for q in toks[3].split('|') {
        let f: Vec<&str> = q.split(',').collect();
        match f[0] {
            "H" => {
                let d = opt(f[3]);
                ans.push(b01(rm.has_link(&dec(f[1]), &dec(f[2]), d.as_deref())).to_string());
            }
            "R" => {
                let d = opt(f[2]);
                let mut v = rm.get_roles(&dec(f[1]), d.as_deref());
                v.sort();
                v.dedup();
                ans.push(names_str(v));
            }
            "U" => {
                let d = opt(f[2]);
                let mut v = rm.get_users(&dec(f[1]), d.as_deref());
                v.sort();
                v.dedup();
                ans.push(names_str(v));
            }
            _ => panic!("bad query"),
        }
    }
    format!("ops={} q={}", if opres.is_empty() { "-" } else { &opres }, ans.join("|"))
}
