// C20: concurrent enforcement against a serial oracle, under a watchdog.
// stress <threads> <cached> <writer> <handle> <seed> <iters>
use casbin::prelude::*;
use casbin::{CachedEnforcer, CoreApi, MgmtApi, RbacApi};
use std::sync::atomic::{AtomicBool, Ordering};
use std::sync::{Arc, RwLock};
use std::time::{Duration, Instant};

const CONF: &str = "[request_definition]\nr = sub, obj, act\n[policy_definition]\np = sub, obj, act\n[role_definition]\ng = _, _\n[policy_effect]\ne = some(where (p.eft == allow))\n[matchers]\nm = g(r.sub, p.sub) && r.obj == p.obj && r.act == p.act\nm2 = r.sub == p.sub && r.act == p.act\n";

fn lcg(s: &mut u64) -> u64 {
    *s = s.wrapping_mul(6364136223846793005).wrapping_add(1442695040888963407);
    *s >> 33
}

fn requests() -> Vec<Vec<String>> {
    let mut v = vec![];
    for s in ["alice", "bob", "carol", "admin", "root"] {
        for o in ["data1", "data2"] {
            for a in ["read", "write"] {
                v.push(vec![s.to_string(), o.to_string(), a.to_string()]);
            }
        }
    }
    v
}

#[derive(Clone)]
enum WOp {
    AddP(Vec<String>),
    RemP(Vec<String>),
    AddG(Vec<String>),
    RemG(Vec<String>),
}

fn history() -> Vec<WOp> {
    let s = |v: &[&str]| v.iter().map(|x| x.to_string()).collect::<Vec<_>>();
    vec![
        WOp::AddP(s(&["admin", "data1", "read"])),
        WOp::AddG(s(&["alice", "admin"])),
        WOp::AddP(s(&["bob", "data2", "write"])),
        WOp::AddG(s(&["carol", "alice"])),
        WOp::RemG(s(&["alice", "admin"])),
        WOp::AddP(s(&["alice", "data2", "read"])),
        WOp::RemP(s(&["admin", "data1", "read"])),
        WOp::AddG(s(&["alice", "admin"])),
        WOp::AddP(s(&["admin", "data1", "write"])),
        WOp::RemG(s(&["carol", "alice"])),
    ]
}

trait Enf: CoreApi + MgmtApi + Send + Sync + 'static {}
impl<T: CoreApi + MgmtApi + Send + Sync + 'static> Enf for T {}

fn apply<E: Enf>(rt: &tokio::runtime::Runtime, e: &mut E, op: &WOp) {
    match op {
        WOp::AddP(r) => {
            rt.block_on(e.add_policy(r.clone())).unwrap();
        }
        WOp::RemP(r) => {
            rt.block_on(e.remove_policy(r.clone())).unwrap();
        }
        WOp::AddG(r) => {
            rt.block_on(e.add_grouping_policy(r.clone())).unwrap();
        }
        WOp::RemG(r) => {
            rt.block_on(e.remove_grouping_policy(r.clone())).unwrap();
        }
    }
}

static HUNG: AtomicBool = AtomicBool::new(false);

// request i of the oracle: index < n is a plain request, index >= n the same values under the context {r, p, e, m2}
fn decide<E: Enf>(e: &E, reqs: &[Vec<String>], i: usize) -> bool {
    let n = reqs.len();
    if i < n {
        e.enforce(reqs[i].clone()).unwrap()
    } else {
        let ctx = casbin::EnforceContext { r_type: "r".into(), p_type: "p".into(), e_type: "e".into(), m_type: "m2".into() };
        e.enforce_with_context(ctx, reqs[i - n].clone()).unwrap()
    }
}

fn run<E: Enf>(mk: impl Fn(&tokio::runtime::Runtime) -> E, threads: usize, writer: bool, handle_mode: u8, seed: u64, iters: usize) -> String {
    // a hung case leaves blocked threads behind; later cases of this process are not meaningful
    if HUNG.load(Ordering::SeqCst) {
        return "SKIPPED-after-HANG".to_string();
    }
    let handle = handle_mode > 0;
    let rt = crate::eng::rt();
    let reqs = requests();
    // serial oracle: decisions for every request after every prefix of the history
    let hist = if writer { history() } else { vec![] };
    let mut oracle: Vec<Vec<bool>> = vec![];
    {
        let mut e = mk(&rt);
        oracle.push((0..2 * reqs.len()).map(|i| decide(&e, &reqs, i)).collect());
        for op in &hist {
            apply(&rt, &mut e, op);
            oracle.push((0..2 * reqs.len()).map(|i| decide(&e, &reqs, i)).collect());
        }
    }
    let shared = Arc::new(RwLock::new(mk(&rt)));
    let bad = Arc::new(AtomicBool::new(false));
    let stop = Arc::new(AtomicBool::new(false));
    let mut hs = vec![];
    for t in 0..threads {
        let shared = shared.clone();
        let bad = bad.clone();
        let reqs = reqs.clone();
        let oracle = oracle.clone();
        let mut st = seed.wrapping_add(t as u64 * 7919 + 1);
        hs.push(std::thread::spawn(move || {
            let mut lastp = 0usize;
            let rt_q = crate::eng::rt();
            let mut nq = 0usize;
            for _ in 0..iters {
                // now and then a role QUERY that itself enforces (get_implicit_users_for_permission): it must take the role
                // manager's lock only for the moment of each lookup - a guard kept across its inner enforce calls would
                // meet a queued handle writer and never return (the watchdog reports that as HANG)
                nq += 1;
                if nq % 211 == 7 {
                    let g = shared.read().unwrap();
                    let _ = rt_q.block_on(g.get_implicit_users_for_permission(vec!["data1".to_string(), "read".to_string()]));
                }
                // plain and context-qualified requests (another matcher over the same sections) interleave
                let i = (lcg(&mut st) as usize) % (2 * reqs.len());
                let d = {
                    let g = shared.read().unwrap();
                    decide(&*g, &reqs, i)
                };
                // the decision must be the serial decision of SOME prefix state not older than the last one this thread saw
                let mut okp = None;
                for p in lastp..oracle.len() {
                    if oracle[p][i] == d {
                        okp = Some(p);
                        break;
                    }
                }
                match okp {
                    Some(_) => {}
                    None => bad.store(true, Ordering::SeqCst),
                }
                // (prefix indices are only lower bounds here: equal decisions do not identify the state)
                let _ = &mut lastp;
            }
        }));
    }
    if writer {
        let shared = shared.clone();
        let hist = hist.clone();
        hs.push(std::thread::spawn(move || {
            let rt = crate::eng::rt();
            for op in &hist {
                {
                    let mut g = shared.write().unwrap();
                    apply(&rt, &mut *g, op);
                }
                std::thread::sleep(Duration::from_micros(200));
            }
        }));
    }
    if handle {
        let shared = shared.clone();
        let stop2 = stop.clone();
        hs.push(std::thread::spawn(move || {
            let rm = shared.read().unwrap().get_role_manager();
            let mut n = 0u64;
            while !stop2.load(Ordering::SeqCst) {
                let g = rm.read();
                let _ = g.has_link("alice", "admin", None);
                let _ = g.get_roles("carol", None);
                drop(g);
                if handle_mode == 2 {
                    // writes through the handle on names no request and no stored rule mentions:
                    // decisions are unaffected, but a writer now queues on the role-manager lock
                    {
                        let mut w = rm.write();
                        w.add_link("zz_user", "zz_role", None);
                    }
                    {
                        let mut w = rm.write();
                        let _ = w.delete_link("zz_user", "zz_role", None);
                    }
                }
                if handle_mode == 3 {
                    // a LONG critical section through the handle: unrelated links added under ONE write guard that is kept
                    // for 30 ms. A concurrent enforce must wait for it (its decision is still a serial one); it must not
                    // give up and decide without the role graph
                    {
                        let mut w = rm.write();
                        w.add_link("zz_user", "zz_role", None);
                        w.add_link("zz_user2", "zz_role", None);
                        std::thread::sleep(Duration::from_millis(30));
                        let _ = w.delete_link("zz_user", "zz_role", None);
                        let _ = w.delete_link("zz_user2", "zz_role", None);
                    }
                    std::thread::sleep(Duration::from_millis(2));
                }
                n += 1;
                if n % 64 == 0 {
                    std::thread::yield_now();
                }
            }
        }));
    }
    // watchdog
    let deadline = Instant::now() + Duration::from_secs(120);
    let n = hs.len();
    let mut joined = 0;
    let handle_idx = if handle { Some(n - 1) } else { None };
    for (i, h) in hs.into_iter().enumerate() {
        if Some(i) == handle_idx {
            stop.store(true, Ordering::SeqCst);
        }
        loop {
            if h.is_finished() {
                let _ = h.join();
                joined += 1;
                break;
            }
            if Instant::now() > deadline {
                stop.store(true, Ordering::SeqCst);
                HUNG.store(true, Ordering::SeqCst);
                return "HANG".to_string();
            }
            std::thread::sleep(Duration::from_millis(2));
        }
    }
    if joined != n {
        return "HANG".to_string();
    }
    // final state = serial end state
    let g = shared.read().unwrap();
    let fin: Vec<bool> = (0..2 * reqs.len()).map(|i| decide(&*g, &reqs, i)).collect();
    if fin != *oracle.last().unwrap() {
        return "BAD final".to_string();
    }
    if bad.load(Ordering::SeqCst) {
        "BAD decision".to_string()
    } else {
        "ok".to_string()
    }
}

pub fn run_stress(toks: &[&str]) -> String {
    let threads: usize = toks[1].parse().unwrap();
    let cached = toks[2] == "1";
    let writer = toks[3] == "1";
    let handle: u8 = toks[4].parse().unwrap();
    let seed: u64 = toks[5].parse().unwrap();
    let iters: usize = toks[6].parse().unwrap();
    let base = "p, alice, data1, read\np, bob, data1, write\ng, bob, admin\n";
    if cached {
        run(
            |rt| rt.block_on(CachedEnforcer::new(rt.block_on(DefaultModel::from_str(CONF)).unwrap(), StringAdapter::new(base))).map(|mut e| { e.enable_auto_save(false); e }).unwrap(),
            threads, writer, handle, seed, iters,
        )
    } else {
        run(
            |rt| rt.block_on(Enforcer::new(rt.block_on(DefaultModel::from_str(CONF)).unwrap(), StringAdapter::new(base))).map(|mut e| { e.enable_auto_save(false); e }).unwrap(),
            threads, writer, handle, seed, iters,
        )
    }
}

// stressp <threads> <cached> <seed> <iters>: PATTERN-HEAVY model. 200 rules with 400 distinct keyMatch2 / keyMatch3 / regexMatch
// patterns (more than any plausible compiled-pattern cache holds), no writer: every decision of every thread must be the
// decision a single thread obtains. Exercises whatever process-wide state the exported matcher functions keep.
const CONFP: &str = "[request_definition]\nr = sub, obj, act\n[policy_definition]\np = sub, obj, act\n[policy_effect]\ne = some(where (p.eft == allow))\n[matchers]\nm = r.sub == p.sub && keyMatch2(r.obj, p.obj) && !keyMatch3(r.obj, p.obj) && regexMatch(r.act, p.act)\n";

fn runp<E: Enf>(mk: impl Fn(&tokio::runtime::Runtime) -> E, threads: usize, seed: u64, iters: usize, nrules: usize) -> String {
    if HUNG.load(Ordering::SeqCst) {
        return "SKIPPED-after-HANG".to_string();
    }
    let rt = crate::eng::rt();
    let mut reqs: Vec<Vec<String>> = vec![];
    for j in 0..nrules {
        let u = format!("u{}", j % 5);
        reqs.push(vec![u.clone(), format!("/res{}/42", j), "read".to_string()]);
        reqs.push(vec![u.clone(), format!("/res{}/42/x", j), "read".to_string()]);
        reqs.push(vec![u, format!("/res{}/42", j), format!("write{}", j)]);
    }
    let e = mk(&rt);
    let oracle: Vec<bool> = reqs.iter().map(|r| e.enforce(r.clone()).unwrap()).collect();
    let shared = Arc::new(e);
    let bad = Arc::new(AtomicBool::new(false));
    let mut hs = vec![];
    for t in 0..threads {
        let shared = shared.clone();
        let bad = bad.clone();
        let reqs = reqs.clone();
        let oracle = oracle.clone();
        let mut st = seed.wrapping_add(t as u64 * 7919 + 1);
        hs.push(std::thread::spawn(move || {
            for _ in 0..iters {
                let i = (lcg(&mut st) as usize) % reqs.len();
                if shared.enforce(reqs[i].clone()).unwrap() != oracle[i] {
                    bad.store(true, Ordering::SeqCst);
                }
            }
        }));
    }
    let deadline = Instant::now() + Duration::from_secs(240);
    for h in hs {
        loop {
            if h.is_finished() {
                let _ = h.join();
                break;
            }
            if Instant::now() > deadline {
                HUNG.store(true, Ordering::SeqCst);
                return "HANG".to_string();
            }
            std::thread::sleep(Duration::from_millis(2));
        }
    }
    // the serial decisions again, after the concurrent phase
    let fin: Vec<bool> = reqs.iter().map(|r| shared.enforce(r.clone()).unwrap()).collect();
    if fin != oracle {
        return "BAD final".to_string();
    }
    if bad.load(Ordering::SeqCst) { "BAD decision".to_string() } else { "ok".to_string() }
}

pub fn run_stressp(toks: &[&str]) -> String {
    let threads: usize = toks[1].parse().unwrap();
    let cached = toks[2] == "1";
    let seed: u64 = toks[3].parse().unwrap();
    let iters: usize = toks[4].parse().unwrap();
    let nrules = 200usize;
    let mut base = String::new();
    for j in 0..nrules {
        // ':id' is a placeholder for keyMatch2 and plain text for keyMatch3 (a '{id}' pattern would be outside keyMatch2's grammar)
        let obj = format!("/res{}/:id", j);
        base.push_str(&format!("p, u{}, {}, read|write{}\n", j % 5, obj, j));
    }
    if cached {
        runp(|rt| rt.block_on(CachedEnforcer::new(rt.block_on(DefaultModel::from_str(CONFP)).unwrap(), StringAdapter::new(base.clone()))).unwrap(), threads, seed, iters, nrules)
    } else {
        runp(|rt| rt.block_on(Enforcer::new(rt.block_on(DefaultModel::from_str(CONFP)).unwrap(), StringAdapter::new(base.clone()))).unwrap(), threads, seed, iters, nrules)
    }
}
