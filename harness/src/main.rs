// cvh — drives the real casbin crate on the case files the extracted Gallina
// model runs on.  One case per line, first token = engine; one output line per
// case.  Every case runs under catch_unwind; a panic is the outcome `PANIC`.
mod codec;
mod crash;
mod eff;
mod eng;
mod pm;
mod rm;
mod rmm;
mod stress;
mod txt;

use std::io::{BufRead, BufWriter, Write};
use std::panic::{catch_unwind, AssertUnwindSafe};

fn run_case(toks: &[&str]) -> String {
    match toks.first().copied() {
        Some("eff") => eff::run_eff(toks),
        Some("effnew") => eff::run_effnew(toks),
        Some("rm") => rm::run_rm(toks),
        Some("rmm") => rmm::run_rmm(toks),
        Some("pm") => pm::run_pm(toks),
        Some("stress") => stress::run_stress(toks),
        Some("stressp") => stress::run_stressp(toks),
        Some("savecrash") => crash::run_savecrash(toks),
        Some("savesys") => crash::run_savesys(toks),
        Some("savetrace") => crash::run_savetrace(toks),
        Some("csv") | Some("csvx") | Some("mdl2") | Some("tt") | Some("esc") | Some("rmc") | Some("csvf") | Some("ini") | Some("mdl") | Some("totext") => txt::run_txt(toks),
        Some("eng") => eng::run_eng(toks, false),
        Some("engc") => eng::run_eng(toks, true),
        Some("twin") => eng::run_twin(toks),
        _ => "?unknown-case".to_string(),
    }
}

fn main() {
    if std::env::var("CVH_SHOW_PANICS").is_ok() {
        // development aid: keep the default hook so that the panic message is printed
    } else {
        std::panic::set_hook(Box::new(|_| {}));
    }
    let args: Vec<String> = std::env::args().collect();
    if args.len() >= 2 && args[1] == "savechild" {
        std::process::exit(crash::run_child(&args[2..]));
    }
    if args.len() != 3 || args[1] != "run" {
        eprintln!("usage: cvh run <cases>");
        std::process::exit(2);
    }
    let f = std::fs::File::open(&args[2]).expect("open cases");
    let out = std::io::stdout();
    let mut out = BufWriter::new(out.lock());
    for line in std::io::BufReader::new(f).lines() {
        let line = line.expect("read");
        let toks: Vec<&str> = line.split(' ').filter(|t| !t.is_empty()).collect();
        let r = catch_unwind(AssertUnwindSafe(|| run_case(&toks)))
            .unwrap_or_else(|_| "PANIC".to_string());
        writeln!(out, "{}", r).unwrap();
    }
}
