// C02: DefaultEffector streams
use crate::codec::*;
use casbin::{DefaultEffector, EffectKind, Effector};
use std::panic::{catch_unwind, AssertUnwindSafe};

fn expr_of(r: &str) -> &'static str {
    match r {
        "AO" => "some(where (p_eft == allow))",
        "DO" => "!some(where (p_eft == deny))",
        "AD" => "some(where (p_eft == allow)) && !some(where (p_eft == deny))",
        "PR" => "priority(p_eft) || deny",
        _ => panic!("bad rule tag"),
    }
}
fn eff_of(c: char) -> EffectKind {
    match c {
        'a' => EffectKind::Allow,
        'i' => EffectKind::Indeterminate,
        'd' => EffectKind::Deny,
        _ => panic!("bad effect"),
    }
}
fn next_str(s: &dyn casbin::EffectorStream) -> &'static str {
    match catch_unwind(AssertUnwindSafe(|| s.next())) {
        Ok(true) => "1",
        Ok(false) => "0",
        Err(_) => "P",
    }
}

pub fn run_eff(toks: &[&str]) -> String {
    let expr = expr_of(toks[1]);
    let seq: Vec<EffectKind> = toks[2].chars().map(eff_of).collect();
    let e = DefaultEffector;
    // pass 1: push until the first completion signal, as the enforcer does
    let mut s1 = e.new_stream(expr, seq.len());
    for &k in &seq {
        if s1.push_effect(k) {
            break;
        }
    }
    let run = next_str(&*s1);
    // pass 2: push everything, recording the flag after every push
    let mut s2 = e.new_stream(expr, seq.len());
    let mut flags = String::new();
    for &k in &seq {
        flags.push_str(b01(s2.push_effect(k)));
    }
    let all = next_str(&*s2);
    format!("flags={} run={} all={}", flags, run, all)
}

pub fn run_effnew(toks: &[&str]) -> String {
    let expr = dec(toks[1]);
    let cap: usize = toks[2].parse().unwrap();
    let _ = DefaultEffector.new_stream(&expr, cap);
    "ok".to_string()
}
