use casbin::rhai::{Engine, Scope, Dynamic, Map, ImmutableString};
use casbin::rhai::packages::{ArithmeticPackage, BasicArrayPackage, BasicMapPackage, LogicPackage, Package};
fn main() {
    let mut engine = Engine::new_raw();
    engine.register_global_module(ArithmeticPackage::new().as_shared_module());
    engine.register_global_module(LogicPackage::new().as_shared_module());
    engine.register_global_module(BasicArrayPackage::new().as_shared_module());
    engine.register_global_module(BasicMapPackage::new().as_shared_module());
    engine.register_fn("f2", |a: ImmutableString, b: ImmutableString| a == b);
    engine.register_fn("esc", |a: ImmutableString| a.to_string());
    let mut scope = Scope::new();
    scope.push_constant("s", "alice".to_string());
    scope.push_constant("t", "bob".to_string());
    scope.push_constant("e", String::new());
    scope.push_constant_dynamic("i", Dynamic::from(5_i32));
    scope.push_constant_dynamic("j", Dynamic::from(7_i32));
    scope.push_constant_dynamic("b", Dynamic::from(true));
    let mut m = Map::new();
    m.insert("Age".into(), Dynamic::from(30_i32));
    m.insert("Name".into(), Dynamic::from("alice".to_string()));
    scope.push_constant_dynamic("m", Dynamic::from(m));
    scope.push_constant("code", "s == \"alice\"".to_string());
    let args: Vec<String> = std::env::args().skip(1).collect();
    for a in args {
        let r = engine.compile_expression(&a);
        match r {
            Err(e) => println!("{:40} => COMPILE-ERR {}", a, e),
            Ok(ast) => {
                let r = engine.eval_ast_with_scope::<Dynamic>(&mut scope, &ast);
                match r {
                    Ok(v) => println!("{:40} => {:?} [{}]", a, v, v.type_name()),
                    Err(e) => println!("{:40} => EVAL-ERR {}", a, e),
                }
            }
        }
    }
}
