(* C02 — Effect rules combine like their logical definitions.
   Only statements closed by `exact`; proofs live in Proofs/EffectorP.v. *)
From CV Require Import Model.Base Model.Effector Proofs.EffectorP.

(* Stopping at the first completion signal (what the enforcer does) yields the
   declarative result, for every rule and every non-empty sequence, capacity =
   length. *)
Theorem c02_result : forall (r : erule) (l : list eff),
  l <> [] ->
  let s := run (new_stream_r r (length l)) l in
  done s = true /\ next s = Some (decl r l).
Proof. exact run_result. Qed.
Print Assumptions c02_result.

(* Completion signalled strictly before the announced capacity is final: no
   continuation of any length changes the declarative result. *)
Theorem c02_early_final : forall (r : erule) (c : nat) (l1 : list eff) (e : eff),
  let s0 := new_stream_r r c in
  done (run s0 l1) = false ->
  done (push (run s0 l1) e) = true ->
  length l1 + 1 < c ->
  forall l2, decl r (l1 ++ e :: l2) = res (push (run s0 l1) e).
Proof. exact early_final. Qed.
Print Assumptions c02_early_final.

(* Always complete once the announced number of effects has been pushed, also
   when the caller ignores the flag. *)
Theorem c02_cap_complete : forall (r : erule) (l : list eff),
  l <> [] ->
  let sf := push_all (new_stream_r r (length l)) l in
  done (fst sf) = true /\ last (snd sf) false = true.
Proof. exact cap_complete. Qed.
Print Assumptions c02_cap_complete.

(* next() is readable (no assertion failure) exactly when done. *)
Theorem c02_next_readable : forall s : stream,
  (exists b, next s = Some b) <-> done s = true.
Proof. exact next_readable. Qed.
Print Assumptions c02_next_readable.

(* `forced` (used by the executable predicate) means what it says. *)
Theorem c02_forced_sound : forall r p b,
  forced r p = Some b -> forall l, decl r (p ++ l) = b.
Proof. exact forced_sound. Qed.
Print Assumptions c02_forced_sound.

Theorem c02_forced_complete : forall r p,
  forced r p = None -> exists l1 l2, decl r (p ++ l1) <> decl r (p ++ l2).
Proof. exact forced_complete. Qed.
Print Assumptions c02_forced_complete.

(* The model's observation satisfies the executable C02 predicate for every
   input: an implementation observation equal to the model's does too. *)
Theorem c02_pred_holds : forall r l, c02_pred r l (observe_effector r l) = true.
Proof. exact c02_pred_model. Qed.
Print Assumptions c02_pred_holds.

(* the four source texts parse to the four rules *)
Theorem c02_texts : forall r, parse_erule (erule_text r) = Some r.
Proof. exact parse_erule_text. Qed.
Print Assumptions c02_texts.

(* non-vacuity: a mixed length-5 sequence under allow-and-deny completes
   early at the deny in position 3 with result false *)
Example c02_example :
  let l := [Indet; Allow; Deny; Allow; Indet] in
  observe_effector AllowAndDeny l =
  {| o_flags := [false; false; true; true; true]; o_run := Some false; o_all := Some true |}
  /\ decl AllowAndDeny l = false.
Proof. vm_compute. split; reflexivity. Qed.
