(* C15 — Built-in path matchers implement their documented patterns.
   Only statements closed by `exact`; proofs live in Proofs/C15P.v.

   Reading guide.  A pattern of the documented grammar is a list of segments
   (`SLit w` literal word over [A-Za-z0-9_-], `SNamed n` a named segment,
   `SStar` a final '*'); `render2` writes it in the ':name' syntax of
   keyMatch2/keyGet2, `render3` in the '{name}' syntax of keyMatch3/4/5 and
   keyGet3.  `spec_km`, `spec_km4`, `spec_km5`, `spec_get` are the
   segment-wise meaning (no regular expressions); section 5 below says what
   they mean through an inductive relation.  The exported functions of the
   model (`key_match2` ...) run the TEXT pipeline of function_map.rs
   (str::replace, the MAT_B / MAT_P / in-function regex replacements, the
   anchoring) and then the restated regex semantics `amatch`. *)
From CV Require Import Model.Base Model.PathMatch Model.SpecC15 Proofs.BaseP Proofs.C15P.

(* ------------------------------------------------------------------ *)
(* 1. keyMatch / keyGet: the prefix before the first '*', for ALL texts
      (bytes; no UTF-8 hypothesis is needed after the repair)            *)

Theorem key_match_spec : forall k p,
  key_match k p = (let (pre, found) := before_star p in
                   if found then is_prefix pre k else teqb k p).
Proof. exact key_match_def. Qed.
Print Assumptions key_match_spec.

(* keyMatch holds exactly when the key begins with the pattern's text before
   its first '*', or, without '*', equals the pattern *)
Theorem c15_key_match : forall k p,
  key_match k p = true <->
  (exists pre rest, p = pre ++ star :: rest /\ ~ In star pre /\ exists t, k = pre ++ t)
  \/ (~ In star p /\ k = p).
Proof. exact key_match_char. Qed.
Print Assumptions c15_key_match.

(* keyGet returns the text after that prefix ... *)
Theorem key_get_spec : forall k p t, t <> [] ->
  (key_get k p = t <->
   exists pre rest, p = pre ++ star :: rest /\ ~ In star pre /\ k = pre ++ t).
Proof. exact key_get_char. Qed.
Print Assumptions key_get_spec.
Theorem c15_key_get_match : forall k pre rest t, ~ In star pre -> k = pre ++ t ->
  key_get k (pre ++ star :: rest) = t.
Proof. exact key_get_match. Qed.
Print Assumptions c15_key_get_match.
(* ... and the empty text otherwise *)
Theorem c15_key_get_nomatch : forall k pre rest, ~ In star pre -> (forall t, k <> pre ++ t) ->
  key_get k (pre ++ star :: rest) = [].
Proof. exact key_get_nomatch. Qed.
Print Assumptions c15_key_get_nomatch.
Theorem c15_key_get_nostar : forall k p, ~ In star p -> key_get k p = [].
Proof. exact key_get_nostar. Qed.
Print Assumptions c15_key_get_nostar.
(* a non-empty keyGet implies keyMatch *)
Theorem c15_key_get_implies_match : forall k p, key_get k p <> [] -> key_match k p = true.
Proof. exact key_get_implies_match. Qed.
Print Assumptions c15_key_get_implies_match.

(* ------------------------------------------------------------------ *)
(* 2. The rewriting pipelines: on every grammar pattern the rewritten text
      reads back as exactly the regular expression the pattern denotes
      (`compile cap lazy p`: '/' + literal bytes; '/' + [^/]+ with or without
      (lazy) capture group; "/.*"), and the names are those of the named
      segments in order.  Includes: the fuel of the reader suffices.        *)

Theorem c15_rewrite_km2 : forall p, grammar p = true ->
  parse_regex (rewrite_km2 (render2 p)) = Some (compile false false p).
Proof. exact parse_km2. Qed.
Print Assumptions c15_rewrite_km2.
Theorem c15_rewrite_km3 : forall p, grammar p = true ->
  parse_regex (rewrite_km3 (render3 p)) = Some (compile false false p).
Proof. exact parse_km3. Qed.
Print Assumptions c15_rewrite_km3.
Theorem c15_rewrite_km5 : forall p, grammar p = true ->
  parse_regex (rewrite_km5 (render3 p)) = Some (compile false false p).
Proof. exact parse_km5. Qed.
Print Assumptions c15_rewrite_km5.
Theorem c15_rewrite_kg2 : forall p, grammar p = true ->
  parse_regex (fst (rewrite_kg2 (render2 p))) = Some (compile true false p) /\
  snd (rewrite_kg2 (render2 p)) = names p.
Proof. exact parse_kg2. Qed.
Print Assumptions c15_rewrite_kg2.
Theorem c15_rewrite_kg3 : forall p, grammar p = true ->
  parse_regex (fst (rewrite_kg3 (render3 p))) = Some (compile true true p) /\
  snd (rewrite_kg3 (render3 p)) = names p.
Proof. exact parse_kg3. Qed.
Print Assumptions c15_rewrite_kg3.
Theorem c15_rewrite_km4 : forall p, grammar p = true ->
  parse_regex (fst (rewrite_km4 (render3 p))) = Some (compile true false p) /\
  snd (rewrite_km4 (render3 p)) = names p.
Proof. exact parse_km4. Qed.
Print Assumptions c15_rewrite_km4.

(* ------------------------------------------------------------------ *)
(* 3. Matching: the denoted regular expression decides exactly the
      segment-wise specification on EVERY key (empty, not starting with '/',
      with empty segments, with line feeds, any bytes), whether the groups
      capture or not, greedy or lazy; and the captures of a successful match
      are the texts bound to the named segments, in order.                  *)

Theorem c15_amatch_decides : forall cap lz p k, grammar p = true ->
  is_some (amatch (compile cap lz p) k) = spec_km p k.
Proof. exact is_some_amatch. Qed.
Print Assumptions c15_amatch_decides.

Theorem c15_amatch_captures : forall lz p k, grammar p = true -> p <> [] ->
  amatch (compile true lz p) k =
  match key_segments k with
  | Some ks => option_map (map snd) (spec_match p ks)
  | None => None
  end.
Proof. exact amatch_captures. Qed.
Print Assumptions c15_amatch_captures.

(* [^/]+ followed by '/' or the end consumes exactly one non-empty slash-free
   segment: the per-atom lemma behind the induction *)
Theorem c15_seg_atom : forall cap lz q a b,
  qhead (amatch q) -> sfree a -> bnd b ->
  amatch (ASeg cap lz :: q) (a ++ b) = seg_res cap (amatch q) a b.
Proof. exact amatch_seg_spec. Qed.
Print Assumptions c15_seg_atom.

(* ------------------------------------------------------------------ *)
(* 4. The exported functions, on every grammar pattern (the empty pattern
      included: it matches only the empty key) and every key                *)

(* keyMatch2: ':name' is one non-empty segment, '/*' any remainder *)
Theorem c15_km2 : forall k p, grammar p = true -> key_match2 k (render2 p) = Some (spec_km p k).
Proof. exact km2_spec. Qed.
Print Assumptions c15_km2.
(* keyMatch3: the same with '{name}' *)
Theorem c15_km3 : forall k p, grammar p = true -> key_match3 k (render3 p) = Some (spec_km p k).
Proof. exact km3_spec. Qed.
Print Assumptions c15_km3.
(* keyMatch5: the same after cutting the key at its first '?' *)
Theorem c15_km5 : forall k p, grammar p = true -> key_match5 k (render3 p) = Some (spec_km5 p k).
Proof. exact km5_spec. Qed.
Print Assumptions c15_km5.
(* keyMatch4: additionally repeated names must bind equal text *)
Theorem c15_km4 : forall k p, grammar p = true -> key_match4 k (render3 p) = Some (spec_km4 p k).
Proof. exact km4_spec. Qed.
Print Assumptions c15_km4.
(* keyGet2 / keyGet3: the text bound to the (first) segment named v when the
   key matches, the empty text otherwise.  No restriction on repeated names:
   the implementation's "first capture whose name equals v" is the first
   binding of v. *)
Theorem c15_kg2 : forall k p v, grammar p = true -> key_get2 k (render2 p) v = Some (spec_get p k v).
Proof. exact kg2_spec. Qed.
Print Assumptions c15_kg2.
Theorem c15_kg3 : forall k p v, grammar p = true -> key_get3 k (render3 p) v = Some (spec_get p k v).
Proof. exact kg3_spec. Qed.
Print Assumptions c15_kg3.

(* the empty pattern text: the regular expression is "^$" *)
Theorem c15_empty_pattern_text : rewrite_km2 [] = T "^$".
Proof. exact rewrite_km2_empty. Qed.
Print Assumptions c15_empty_pattern_text.
Theorem c15_km2_empty : forall k, key_match2 k [] = Some (teqb k []).
Proof. exact km2_empty. Qed.
Print Assumptions c15_km2_empty.
Theorem c15_km3_empty : forall k, key_match3 k [] = Some (teqb k []).
Proof. exact km3_empty. Qed.
Print Assumptions c15_km3_empty.

(* the executable predicates (the checks the test driver applies to the REAL
   functions' outputs) hold of the model's own outputs *)
Theorem c15_pred_holds : forall f p k, c15_pred f p k (c15_observe f p k) = true.
Proof. exact c15_pred_model. Qed.
Print Assumptions c15_pred_holds.
Theorem c15_pred_text_holds : forall k p, c15_pred_text k p (key_match k p) (key_get k p) = true.
Proof. exact c15_pred_text_model. Qed.
Print Assumptions c15_pred_text_holds.
Theorem c15_key_get_is_spec_kg : forall k p, key_get k p = spec_kg k p.
Proof. exact key_get_spec_kg. Qed.
Print Assumptions c15_key_get_is_spec_kg.

(* ------------------------------------------------------------------ *)
(* 5. What the specification means (so that it is not just another program) *)

(* on slash-free segment lists spec_match is the inductive relation
   segs_match (literal: equal; named: non-empty, no slash, bound; star last:
   any non-empty list of remaining segments without line feed) *)
Theorem c15_spec_match_meaning : forall p ks b, Forall (fun s => ~ In slash s) ks ->
  (spec_match p ks = Some b <-> segs_match p ks b).
Proof. exact spec_match_meaning. Qed.
Print Assumptions c15_spec_match_meaning.

(* key_segments inverts joining slash-free segments with '/' *)
Theorem c15_key_segments_join : forall ks, ks <> [] -> Forall (fun s => ~ In slash s) ks ->
  key_segments (slash :: intercalate [slash] ks) = Some ks.
Proof. exact key_segments_join. Qed.
Print Assumptions c15_key_segments_join.
Theorem c15_key_segments_split : forall k ks, key_segments k = Some ks ->
  ks <> [] /\ Forall (fun s => ~ In slash s) ks /\ k = slash :: intercalate [slash] ks.
Proof. exact key_segments_split. Qed.
Print Assumptions c15_key_segments_split.

(* a key matches iff it is "/" ++ its segments joined by "/" and the segments
   match the pattern *)
Theorem c15_spec_km_meaning : forall p k, p <> [] ->
  (spec_km p k = true <->
   exists ks b, Forall (fun s => ~ In slash s) ks /\
                k = slash :: intercalate [slash] ks /\ segs_match p ks b).
Proof. exact spec_km_meaning. Qed.
Print Assumptions c15_spec_km_meaning.
(* for a grammar pattern the witness segments need not be slash-free (the
   remainder taken by '*' may be cut anywhere): the statement in its plainest form *)
Theorem c15_spec_km_meaning_gen : forall p k, grammar p = true -> p <> [] ->
  (spec_km p k = true <->
   exists ks b, k = slash :: intercalate [slash] ks /\ segs_match p ks b).
Proof. exact spec_km_meaning_gen. Qed.
Print Assumptions c15_spec_km_meaning_gen.
Theorem c15_spec_get_meaning_gen : forall p ks b v, grammar p = true -> segs_match p ks b -> ks <> [] ->
  spec_get p (slash :: intercalate [slash] ks) v =
  match assoc v b with Some t => t | None => [] end.
Proof. exact spec_get_meaning_gen. Qed.
Print Assumptions c15_spec_get_meaning_gen.
Theorem c15_spec_km_empty : forall k, spec_km [] k = true <-> k = [].
Proof. exact spec_km_empty. Qed.
Print Assumptions c15_spec_km_empty.

Theorem c15_spec_km4_meaning : forall p k, p <> [] ->
  (spec_km4 p k = true <->
   exists ks b, Forall (fun s => ~ In slash s) ks /\
                k = slash :: intercalate [slash] ks /\ segs_match p ks b /\
                bindings_consistent b [] = true).
Proof. exact spec_km4_meaning. Qed.
Print Assumptions c15_spec_km4_meaning.

Theorem c15_spec_get_meaning : forall p ks b v,
  Forall (fun s => ~ In slash s) ks -> segs_match p ks b -> ks <> [] ->
  spec_get p (slash :: intercalate [slash] ks) v =
  match assoc v b with Some t => t | None => [] end.
Proof. exact spec_get_meaning. Qed.
Print Assumptions c15_spec_get_meaning.
Theorem c15_spec_get_nomatch : forall p k v, spec_km p k = false -> p <> [] -> spec_get p k v = [].
Proof. exact spec_get_nomatch. Qed.
Print Assumptions c15_spec_get_nomatch.

(* the bindings are a function of pattern and key *)
Theorem c15_bindings_unique : forall p ks b1 b2, Forall (fun s => ~ In slash s) ks ->
  segs_match p ks b1 -> segs_match p ks b2 -> b1 = b2.
Proof. exact segs_match_fun. Qed.
Print Assumptions c15_bindings_unique.

(* ------------------------------------------------------------------ *)
(* 6. Outside the class: the hypotheses are necessary                       *)

(* a literal segment containing '.' is outside the modelled class: the model
   declines (None).  (In the real code the '.' reaches the regex unescaped
   and acts as a wildcard: "/a.b" also matches "/axb".) *)
Example c15_dot_literal_refuted :
  safe_word (T "a.b") = false /\
  key_match2 (T "/axb") (render2 [SLit (T "a.b")]) = None /\
  key_match2 (T "/a.b") (render2 [SLit (T "a.b")]) = None.
Proof. vm_compute. auto. Qed.

(* '*' must be the last segment: in the middle ".*" spans segments, which the
   documented segment-wise reading does not say *)
Example c15_needs_star_last :
  let p := [SLit (T "a"); SStar; SLit (T "b")] in
  grammar p = false /\
  key_match2 (T "/a/x/y/b") (render2 p) = Some true /\ spec_km p (T "/a/x/y/b") = false.
Proof. vm_compute. auto. Qed.

(* a literal containing ':' is not a literal for keyMatch2: the colon swallows
   the rest of the segment *)
Example c15_needs_safe_literal :
  let p := [SLit (T "a:b")] in
  grammar p = false /\
  key_match2 (T "/aZZZ") (render2 p) = Some true /\ spec_km p (T "/aZZZ") = false.
Proof. vm_compute. auto. Qed.

(* line feeds: '.' does not match LF (so "/a/*" rejects a remainder with LF)
   but [^/]+ does (a named segment accepts it) *)
Example c15_line_feed :
  key_match2 (T "/a/b" ++ [lf]) (render2 [SLit (T "a"); SStar]) = Some false /\
  key_match2 (T "/a/b" ++ [lf]) (render2 [SLit (T "a"); SNamed (T "x")]) = Some true.
Proof. vm_compute. auto. Qed.

(* ------------------------------------------------------------------ *)
(* 7. Non-vacuity                                                           *)

Definition ex_foo : list seg := [SLit (T "foo"); SNamed (T "bar"); SLit (T "foo")].
Example c15_ex_foo_grammar : grammar ex_foo = true /\ render2 ex_foo = T "/foo/:bar/foo".
Proof. vm_compute. auto. Qed.
Example c15_ex_foo :
  key_match2 (T "/foo/x1/foo") (render2 ex_foo) = Some true /\
  key_match2 (T "/foo//foo") (render2 ex_foo) = Some false /\
  key_match2 (T "/foo/x1/foo/") (render2 ex_foo) = Some false /\
  key_match2 (T "foo/x1/foo") (render2 ex_foo) = Some false /\
  key_get2 (T "/foo/x1/foo") (render2 ex_foo) (T "bar") = Some (T "x1") /\
  key_get2 (T "/foo/x1/foo") (render2 ex_foo) (T "baz") = Some [] /\
  key_get2 (T "/foo/x1/fo") (render2 ex_foo) (T "bar") = Some [].
Proof. vm_compute. repeat split. Qed.

Definition ex_proj : list seg :=
  [SLit (T "proj"); SNamed (T "id"); SLit (T "res"); SNamed (T "id")].
Example c15_ex_proj_grammar : grammar ex_proj = true /\ render3 ex_proj = T "/proj/{id}/res/{id}".
Proof. vm_compute. auto. Qed.
Example c15_ex_proj :
  key_match4 (T "/proj/1/res/1") (render3 ex_proj) = Some true /\
  key_match4 (T "/proj/1/res/2") (render3 ex_proj) = Some false /\
  key_match3 (T "/proj/1/res/2") (render3 ex_proj) = Some true /\
  key_match5 (T "/proj/1/res/2?x=/y") (render3 ex_proj) = Some true /\
  key_match3 (T "/proj/1/res/2?x=/y") (render3 ex_proj) = Some false /\
  key_get3 (T "/proj/1/res/2") (render3 ex_proj) (T "id") = Some (T "1").
Proof. vm_compute. repeat split. Qed.

Definition ex_star : list seg := [SLit (T "a"); SStar].
Example c15_ex_star_grammar : grammar ex_star = true /\ render2 ex_star = T "/a/*".
Proof. vm_compute. auto. Qed.
Example c15_ex_star :
  key_match2 (T "/a/") (render2 ex_star) = Some true /\
  key_match2 (T "/a/b/c") (render2 ex_star) = Some true /\
  key_match2 (T "/a") (render2 ex_star) = Some false /\
  key_match3 (T "/a/b/c") (render3 ex_star) = Some true /\
  key_match2 (T "/ab/c") (render2 ex_star) = Some false.
Proof. vm_compute. repeat split. Qed.

(* keyMatch / keyGet, with a multi-byte key (U+00E9 = C3 A9): no slicing of
   the key at a byte offset of the pattern any more *)
Definition e_acute : text := [ascii_of_nat 195; ascii_of_nat 169].
Example c15_ex_key_match :
  key_match (T "/foo/bar") (T "/foo/*") = true /\
  key_get (T "/foo/bar/foo") (T "/foo/*") = T "bar/foo" /\
  key_match (T "/foo") (T "/foo/*") = false /\
  key_get (T "/foo/") (T "/foo/*") = [] /\
  key_match (slash :: e_acute) (T "/a*") = false /\
  key_match (slash :: e_acute ++ T "a") (slash :: e_acute ++ [star]) = true /\
  key_get (slash :: e_acute ++ T "a") (slash :: e_acute ++ [star]) = T "a" /\
  key_get (T "/" ++ e_acute) (T "/*") = e_acute /\
  key_match (T "/a*b") (T "/a*b") = true /\ key_match (T "/aXYZ") (T "/a*b") = true.
Proof. vm_compute. repeat split. Qed.

(* the relation of section 5 is inhabited by a non-trivial instance *)
Example c15_ex_segs_match :
  segs_match ex_foo [T "foo"; T "x1"; T "foo"] [(T "bar", T "x1")].
Proof.
  unfold ex_foo. constructor. constructor; [discriminate| |].
  - vm_compute. intros [H|[H|[]]]; discriminate.
  - constructor. constructor.
Qed.
