(* C01 stated about the TRANSLATED SOURCE.  The generated functions: gen_private_enforce /
   gen_private_enforce_with_context of Gen/EnforceGen.v, regenerated every run from Enforcer::private_enforce /
   private_enforce_with_context of src/enforcer.rs (with the lookup macros of src/macros.rs); on an enforcer state
   they are src_enforce / src_enforce_with_ctx / src_enforce_with_ctx4 (Proofs/SrcStepP.v).  The effect stream they
   drive is tied to src/effector.rs by PinChecks/PcEffectorGen.v (Properties/C02src.v).
   Statements only; proofs in Proofs/C01SrcP.v (Properties/C01.v composed with PinChecks/PcEnforceGen.v). *)
From CV Require Import Model.Base Model.Effector Model.Expr Model.Enforce Model.Engine Model.SpecC01.
From CV Require Import Gen.RustStr Gen.RustVec Gen.RustEnf Gen.EnforceGen.
From CV Require Import Proofs.ExModels Proofs.SrcStepP Proofs.C01SrcP.

(* the translated enforcement loop returns exactly the PERM reference decision, for every parse table, enabled flag,
   model store, matcher table, function state, four section keys and request *)
Theorem c01_src_enforce_is_perm : forall ptab enabled md mexprs fs rk pk ek mk rvals,
  gen_private_enforce_with_context ptab enabled md mexprs fs rk pk ek mk rvals =
  perm_ref ptab enabled md mexprs fs rk pk ek mk (tok pk s_eft) rvals.
Proof. exact src_c01_enforce_is_perm. Qed.
Print Assumptions c01_src_enforce_is_perm.

Theorem c01_src_enforce_plain_is_perm : forall ptab enabled md mexprs fs rvals,
  gen_private_enforce ptab enabled md mexprs fs rvals =
  perm_ref ptab enabled md mexprs fs s_r s_p s_e s_m (tok s_p s_eft) rvals.
Proof. exact src_c01_enforce_plain_is_perm. Qed.
Print Assumptions c01_src_enforce_plain_is_perm.

(* the same at the level of an enforcer state *)
Theorem c01_src_state_plain : forall ptab s rv, src_enforce ptab s rv = perm_ref_plain ptab s rv.
Proof. exact src_c01_state_plain. Qed.
Print Assumptions c01_src_state_plain.

Theorem c01_src_state_ctx : forall ptab s k rv, src_enforce_with_ctx ptab s k rv = perm_ref_ctx ptab s k rv.
Proof. exact src_c01_state_ctx. Qed.
Print Assumptions c01_src_state_ctx.

Theorem c01_src_state_ctx4 : forall ptab s rk pk ek mk rv,
  src_enforce_with_ctx4 ptab s rk pk ek mk rv = perm_ref_ctx4 ptab s rk pk ek mk rv.
Proof. exact src_c01_state_ctx4. Qed.
Print Assumptions c01_src_state_ctx4.

(* never grants what the semantics deny, never denies what they grant *)
Theorem c01_src_no_false_grant : forall ptab en md mx fs rk pk ek mk rv,
  gen_private_enforce_with_context ptab en md mx fs rk pk ek mk rv = Ok true ->
  perm_ref ptab en md mx fs rk pk ek mk (tok pk s_eft) rv = Ok true.
Proof. exact src_c01_no_false_grant. Qed.
Print Assumptions c01_src_no_false_grant.

Theorem c01_src_no_false_deny : forall ptab en md mx fs rk pk ek mk rv,
  gen_private_enforce_with_context ptab en md mx fs rk pk ek mk rv = Ok false ->
  perm_ref ptab en md mx fs rk pk ek mk (tok pk s_eft) rv = Ok false.
Proof. exact src_c01_no_false_deny. Qed.
Print Assumptions c01_src_no_false_deny.

(* non-vacuity: the translated loop grants and denies on a concrete ACL enforcer (both premises occur) *)
Example c01_src_example :
  let s := mk acl_def (mem [pl alice data1 read; pl bob data2 write]) in
  src_enforce no_ptab s (req alice data1 read) = Ok true /\
  src_enforce no_ptab s (req alice data1 write) = Ok false /\
  perm_ref_plain no_ptab s (req alice data1 read) = Ok true.
Proof. vm_compute. repeat split; reflexivity. Qed.
