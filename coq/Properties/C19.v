(* C19 — Role definitions are independent relations.
   Only statements closed by `exact`; proofs live in Proofs/C19P.v.

   THE PROPERTY IS FALSE OF THE CODE (finding D7: all role definitions share
   one role manager).  This file states
     - the full desired statement and its refutation on reachable states,
     - the exact partial statement that does hold, with a decidable classifier
       of the cases where it may fail,
     - the store-level independence that always holds.
   Specification: `enforce_indep` (Model/SpecC19.v) evaluates gK(a, b[, d]) as
   reflexive-transitive reachability in the links of definition K alone, read
   off K's stored grouping rules; everything else as `enforce`. *)
From CV Require Import Model.Base Model.Effector Model.RoleGraph Model.PathMatch Model.Expr
     Model.Enforce Model.Engine Model.SpecC08 Model.SpecC19.
From CV Require Import Proofs.BaseP Proofs.RoleGraphP Proofs.C08P Proofs.C19P.

(* ---------- the full statement, refuted ---------- *)
Definition c19_full_statement : Prop :=
  forall ptab (d : modeldef) (ops : list op) (rv : list value),
    let s := run_ops (fst (new_enforcer d ANull false)) ops in
    enforce ptab s rv = enforce_indep ptab s rv.

Theorem c19_full_statement_refuted : ~ c19_full_statement.
Proof. exact C19P.c19_full_statement_refuted. Qed.
Print Assumptions c19_full_statement_refuted.

(* user roles g + resource roles g2, matcher
   g(r.sub, p.sub) && g2(r.obj, p.obj) && r.act == p.act, policy (y, data, read);
   ONLY the resource-role link g2: x -> y is stored.  Request (x, data, read)
   needs the user-role test g(x, y): the code grants, the specification denies.
   Nothing is wrong with the state (disjoint vocabularies, manager in sync):
   the request alone triggers the cross-talk. *)
Example c19_shared_rm_refuted :
  snd (new_enforcer (ex_def s_allow_override p3 g_two m_two) ANull false) = Ok true /\
  per_def_links two_s1 (T "g") DEFAULT_DOMAIN = [] /\
  per_def_links two_s1 (T "g2") DEFAULT_DOMAIN = [(T "x", T "y")] /\
  enforce no_ptab two_s1 (req "x" "data" "read") = Ok true /\
  enforce_indep no_ptab two_s1 (req "x" "data" "read") = Ok false /\
  Known_shared_rm two_s1 = false /\ graph_in_sync two_s1 = true /\
  crosstalk_case no_ptab two_s1 (req "x" "data" "read") = true.
Proof. exact shared_rm_refuted. Qed.

(* the link (a, b) under both definitions; remove_grouping_policy under g
   deletes the shared edge although g2 still stores (a, b): the code now DENIES
   a request the specification grants (and the code itself granted before),
   the manager is out of sync with the store, and an explicit build_role_links
   flips the decision back *)
Example c19_shared_rm_remove_refuted :
  let '(s3, o) := step two_s2 (ORemove s_g (T "g") [T "a"; T "b"]) in
  let '(s4, o') := step s3 OBuildRoleLinks in
  o = Ok true /\ o' = Ok true /\
  Known_shared_rm two_s2 = true /\
  enforce no_ptab two_s2 (req "u" "a" "read") = Ok true /\
  per_def_links s3 (T "g2") DEFAULT_DOMAIN = [(T "a", T "b")] /\
  enforce no_ptab s3 (req "u" "a" "read") = Ok false /\
  enforce_indep no_ptab s3 (req "u" "a" "read") = Ok true /\
  graph_in_sync s3 = false /\ known_shared_rm_case no_ptab s3 (req "u" "a" "read") = true /\
  crosstalk_case no_ptab s3 (req "u" "a" "read") = false /\
  enforce no_ptab s4 (req "u" "a" "read") = Ok true /\
  graph_in_sync s4 = true.
Proof. exact shared_rm_remove_refuted. Qed.

(* ---------- the partial statement that holds ---------- *)

(* shared manager well-formed, every role function bound to it, manager in sync
   with the stored rules (its edges are the union of the definitions' links),
   hierarchy shallow, and the evaluation of THIS request performs no role call
   that the union answers differently from the definition's own links: the
   decision is the per-definition decision *)
Theorem c19_independent_partial : forall s,
  wf (f_rm (e_fs s)) -> all_cur (e_fs s) = true -> in_sync s -> shallow_state s = true ->
  forall ptab rv,
  enforce_probe ptab s rv <> Panic -> enforce ptab s rv = enforce_indep ptab s rv.
Proof. exact independent_partial. Qed.
Print Assumptions c19_independent_partial.

(* all side conditions executable: a case the classifier does not flag agrees *)
Theorem c19_independent_classified : forall ptab s rv,
  wf (f_rm (e_fs s)) -> all_cur (e_fs s) = true -> shallow_state s = true ->
  known_shared_rm_case ptab s rv = false ->
  enforce ptab s rv = enforce_indep ptab s rv.
Proof. exact independent_classified. Qed.
Print Assumptions c19_independent_classified.

Theorem c19_graph_in_sync_sound : forall s, graph_in_sync s = true -> in_sync s.
Proof. exact graph_in_sync_sound. Qed.

(* "in sync" is what build_role_links establishes, from any state *)
Theorem c19_build_in_sync : forall s s', build_role_links s = (s', LOk) -> in_sync s'.
Proof. exact build_role_links_in_sync. Qed.
Print Assumptions c19_build_in_sync.

(* hence, after ANY history followed by a successful build_role_links *)
Theorem c19_independent_after_build : forall ptab d ad w ops s' rv,
  step (run_ops (fst (new_enforcer d ad w)) ops) OBuildRoleLinks = (s', Ok true) ->
  all_cur (e_fs s') = true -> shallow_state s' = true ->
  crosstalk_case ptab s' rv = false ->
  enforce ptab s' rv = enforce_indep ptab s' rv.
Proof. exact independent_after_build. Qed.
Print Assumptions c19_independent_after_build.

(* what the state-level class Known_shared_rm buys: with pairwise disjoint
   vocabularies a cross-talk call gK(a, b) has BOTH arguments in the vocabulary
   of one other definition, which links them.  So cross-talk then needs a
   request (or policy rule) that passes, e.g., resource names to the user-role
   function. *)
Theorem c19_cross_call_needs_foreign_names : forall s,
  Known_shared_rm s = false ->
  forall key a b dk, cross_call s key a b dk = true ->
  a <> b /\
  exists kl, In kl (all_def_links s) /\ fst kl <> key /\
             reachable (links_in dk (snd kl)) a b = true /\
             In (dk, a) (vocab (snd kl)) /\ In (dk, b) (vocab (snd kl)).
Proof. exact cross_call_needs_foreign_names. Qed.
Print Assumptions c19_cross_call_needs_foreign_names.

(* with a shared name transitivity crosses definitions (g: a->b, g2: b->c gives
   g(a, c)) and no single definition explains the answer *)
Example c19_shared_name_crosses :
  Known_shared_rm two_s6 = true /\
  cross_call two_s6 (T "g") (T "a") (T "c") DEFAULT_DOMAIN = true /\
  reachable (per_def_links two_s6 (T "g") DEFAULT_DOMAIN) (T "a") (T "c") = false /\
  reachable (per_def_links two_s6 (T "g2") DEFAULT_DOMAIN) (T "a") (T "c") = false /\
  has_link 10 (f_rm (e_fs two_s6)) (T "a") (T "c") None = true.
Proof. exact shared_name_crosses. Qed.

(* the executable predicate holds of the model on unclassified cases *)
Theorem c19_pred_holds : forall ptab s rv,
  wf (f_rm (e_fs s)) -> all_cur (e_fs s) = true -> shallow_state s = true ->
  known_shared_rm_case ptab s rv = false ->
  c19_pred ptab s rv (enforce ptab s rv) = true.
Proof. exact c19_pred_model. Qed.
Print Assumptions c19_pred_holds.

(* shallowness is necessary: the specification is unbounded reachability, the
   code stops at the hierarchy limit (this is C03's bound, not the shared
   manager); note that every role function is bound to the current manager
   again after set_role_manager *)
Example c19_independent_needs_shallow :
  all_cur (e_fs two_s7) = true /\ graph_in_sync two_s7 = true /\
  crosstalk_case no_ptab two_s7 (req "a" "data" "read") = false /\
  shallow_state two_s7 = false /\
  enforce no_ptab two_s7 (req "a" "data" "read") = Ok false /\
  enforce_indep no_ptab two_s7 (req "a" "data" "read") = Ok true.
Proof. exact independent_needs_shallow. Qed.

(* non-vacuity: user roles and resource roles over disjoint names *)
Example c19_ex_wf : wf (f_rm (e_fs two_s5)).
Proof. exact two_s5_wf. Qed.
Example c19_independent_partial_nonvacuous :
  all_cur (e_fs two_s5) = true /\ shallow_state two_s5 = true /\
  Known_shared_rm two_s5 = false /\
  map (known_shared_rm_case no_ptab two_s5) two_reqs = [false; false; false; false; false] /\
  map (enforce no_ptab two_s5) two_reqs = [Ok true; Ok false; Ok false; Ok true; Ok false] /\
  map (enforce_indep no_ptab two_s5) two_reqs = [Ok true; Ok false; Ok false; Ok true; Ok false].
Proof. exact independent_partial_nonvacuous. Qed.

(* ---------- store-level independence: always true ---------- *)

(* an add / remove / filtered remove addressed to one definition leaves every
   other definition's assertion (rules, text, tokens, handle) as it was *)
Theorem c19_store_independent : forall s o sec pt sec' pt',
  op_target o = Some (sec, pt) -> sec <> sec' \/ pt <> pt' ->
  get_ast (e_model (fst (step s o))) sec' pt' = get_ast (e_model s) sec' pt'.
Proof. exact store_independent. Qed.
Print Assumptions c19_store_independent.

Theorem c19_store_independent_run : forall sec' pt' ops s,
  Forall (fun o => exists sec pt, op_target o = Some (sec, pt) /\ (sec <> sec' \/ pt <> pt')) ops ->
  get_ast (e_model (run_ops s ops)) sec' pt' = get_ast (e_model s) sec' pt'.
Proof. exact store_independent_run. Qed.
Print Assumptions c19_store_independent_run.

(* removing a link under one definition leaves the other's link set intact *)
Theorem c19_per_def_links_untouched : forall s o sec pt key dk,
  op_target o = Some (sec, pt) -> sec <> s_g \/ pt <> key ->
  per_def_links (fst (step s o)) key dk = per_def_links s key dk.
Proof. exact per_def_links_untouched. Qed.
Print Assumptions c19_per_def_links_untouched.

(* the incremental link maintenance never changes any stored rule *)
Theorem c19_incremental_links_policy : forall s pt ins rs sec' pt',
  m_get_policy (e_model (fst (incremental_links s pt ins rs))) sec' pt' =
  m_get_policy (e_model s) sec' pt'.
Proof. exact incremental_links_policy. Qed.
Print Assumptions c19_incremental_links_policy.
