(* rs2coq part 18 - the policy store of DefaultModel as whole functions on the model map, the lookup macros, convert.rs,
   the decision cache over mini-moka, the error enums: TRANSLATED from /repo on every run (Gen/Model2Gen.v) and equal to
   the model.  Only statements closed by `exact`; proofs live in PinChecks/PcModel2Gen.v and Proofs/Model2P.v. *)
From CV Require Import Model.Base Model.Expr Model.Enforce Model.Engine Model.Cached Model.SpecC11.
From CV Require Import Gen.RustStr Gen.RustVec Gen.RustIter Gen.LinksPrims Gen.StoreGen Gen.LinksGen.
From CV Require Import Gen.Model2Rt Gen.MokaRt Gen.Model2Gen Gen.Enforcer2Gen.
From CV Require Import Proofs.C11P Proofs.Model2P PinChecks.PcStoreGen PinChecks.PcModel2Gen.

Theorem model2_translated : gen_model2_translated = true.
Proof. exact gen_model2_translated_ok. Qed.
Print Assumptions model2_translated.

(* ---- (A) impl Model for DefaultModel: the nine policy-store methods, for ALL maps and arguments ---- *)
Theorem model2_get_policy : forall md sec pt, gen_m_get_policy md sec pt = Some (m_get_policy md sec pt).
Proof. exact gen_m_get_policy_ok. Qed.
Print Assumptions model2_get_policy.

Theorem model2_has_policy : forall md sec pt r, gen_m_has_policy md sec pt r = Some (m_has_policy md sec pt r).
Proof. exact gen_m_has_policy_ok. Qed.
Print Assumptions model2_has_policy.

Theorem model2_get_filtered_policy : forall md sec pt idx vals,
  gen_m_get_filtered_policy md sec pt idx vals = m_get_filtered md sec pt idx vals.
Proof. exact gen_m_get_filtered_policy_ok. Qed.
Print Assumptions model2_get_filtered_policy.

Theorem model2_get_values_for_field_in_policy : forall md sec pt idx,
  gen_m_get_values_for_field_in_policy md sec pt idx = m_values md sec pt idx.
Proof. exact gen_m_get_values_for_field_in_policy_ok. Qed.
Print Assumptions model2_get_values_for_field_in_policy.

Theorem model2_add_policy : forall md sec pt r, gen_m_add_policy md sec pt r = Some (m_add_policy md sec pt r).
Proof. exact gen_m_add_policy_ok. Qed.
Print Assumptions model2_add_policy.

Theorem model2_add_policies : forall md sec pt rs, gen_m_add_policies md sec pt rs = Some (m_add_policies md sec pt rs).
Proof. exact gen_m_add_policies_ok. Qed.
Print Assumptions model2_add_policies.

Theorem model2_remove_policy : forall md sec pt r, gen_m_remove_policy md sec pt r = Some (m_remove_policy md sec pt r).
Proof. exact gen_m_remove_policy_ok. Qed.
Print Assumptions model2_remove_policy.

Theorem model2_remove_policies : forall md sec pt rs,
  gen_m_remove_policies md sec pt rs = Some (m_remove_policies md sec pt rs).
Proof. exact gen_m_remove_policies_ok. Qed.
Print Assumptions model2_remove_policies.

Theorem model2_remove_filtered_policy : forall md sec pt idx vals,
  gen_m_remove_filtered_policy md sec pt idx vals = option_map rf_shape (m_remove_filtered md sec pt idx vals).
Proof. exact gen_m_remove_filtered_policy_ok. Qed.
Print Assumptions model2_remove_filtered_policy.

(* a missing section or policy type: what the source returns; nothing is created *)
Theorem model2_missing_assertion : forall md sec pt, get_ast md sec pt = None ->
  (forall r, gen_m_add_policy md sec pt r = Some (md, false)) /\
  (forall rs, gen_m_add_policies md sec pt rs = Some (md, false)) /\
  (forall r, gen_m_remove_policy md sec pt r = Some (md, false)) /\
  (forall rs, gen_m_remove_policies md sec pt rs = Some (md, false)) /\
  (forall idx vals, gen_m_remove_filtered_policy md sec pt idx vals = Some (md, (false, []))) /\
  gen_m_get_policy md sec pt = Some [] /\
  (forall idx vals, gen_m_get_filtered_policy md sec pt idx vals = Some []) /\
  (forall r, gen_m_has_policy md sec pt r = Some false) /\
  (forall idx, gen_m_get_values_for_field_in_policy md sec pt idx = Some []).
Proof. exact gen_m_missing_assertion. Qed.
Print Assumptions model2_missing_assertion.
Example model2_missing_assertion_ex : get_ast ex_md (T "p") (T "p3") = None /\ get_ast ex_md (T "q") (T "p") = None.
Proof. vm_compute. split; reflexivity. Qed.

(* where the source panics *)
Theorem model2_never_panics : forall md sec pt,
  gen_m_get_policy md sec pt <> None /\
  (forall r, gen_m_has_policy md sec pt r <> None) /\
  (forall r, gen_m_add_policy md sec pt r <> None) /\
  (forall rs, gen_m_add_policies md sec pt rs <> None) /\
  (forall r, gen_m_remove_policy md sec pt r <> None) /\
  (forall rs, gen_m_remove_policies md sec pt rs <> None).
Proof. exact gen_m_never_panics. Qed.
Print Assumptions model2_never_panics.

Theorem model2_get_filtered_policy_panics : forall md sec pt idx vals,
  gen_m_get_filtered_policy md sec pt idx vals = None <->
  exists a l1 r l2, get_ast md sec pt = Some a /\ a_policy a = l1 ++ r :: l2 /\ rule_panics idx vals r /\
                    (forall y, In y l1 -> ~ rule_panics idx vals y).
Proof. exact gen_m_get_filtered_policy_panics. Qed.
Print Assumptions model2_get_filtered_policy_panics.

Theorem model2_remove_filtered_policy_panics : forall md sec pt idx vals,
  gen_m_remove_filtered_policy md sec pt idx vals = None <->
  vals <> [] /\ gen_m_get_filtered_policy md sec pt idx vals = None.
Proof. exact gen_m_remove_filtered_policy_panics. Qed.
Print Assumptions model2_remove_filtered_policy_panics.

Theorem model2_get_values_panics : forall md sec pt idx,
  gen_m_get_values_for_field_in_policy md sec pt idx = None <->
  exists a r, get_ast md sec pt = Some a /\ In r (a_policy a) /\ length r <= idx.
Proof. exact gen_m_get_values_panics. Qed.
Print Assumptions model2_get_values_panics.

Example model2_store_ex :
  gen_m_get_policy ex_md (T "p") (T "p2") = Some [[T "carol"]] /\
  gen_m_get_policy ex_md (T "p") (T "p9") = Some [] /\
  gen_m_get_policy ex_md (T "x") (T "p") = Some [] /\
  gen_m_get_policy ex_md (T "g") (T "g") = Some [[T "alice"; T "admin"]] /\
  gen_m_get_policy ex_md (T "g") (T "p") = Some [] /\
  gen_m_has_policy ex_md (T "p") (T "p") [T "bob"; T "data2"; T "write"] = Some true /\
  gen_m_has_policy ex_md (T "p") (T "p2") [T "bob"; T "data2"; T "write"] = Some false /\
  gen_m_get_filtered_policy ex_md (T "p") (T "p") 1 [T "data2"] = Some [[T "bob"; T "data2"; T "write"]] /\
  gen_m_get_filtered_policy ex_md (T "p") (T "p2") 1 [T "data2"] = None /\
  gen_m_get_values_for_field_in_policy ex_md (T "p") (T "p") 0 = Some [T "alice"; T "bob"] /\
  gen_m_get_values_for_field_in_policy ex_md (T "p") (T "p2") 1 = None.
Proof. exact gen_m_store_ex. Qed.

Example model2_mutators_ex :
  gen_m_add_policy ex_md (T "p") (T "p2") [T "carol"] = Some (ex_md, false) /\
  gen_m_add_policy ex_md (T "p") (T "p3") [T "dave"] = Some (ex_md, false) /\
  option_map (fun x => (m_get_policy (fst x) (T "p") (T "p2"), snd x)) (gen_m_add_policy ex_md (T "p") (T "p2") [T "dave"]) =
    Some ([[T "carol"]; [T "dave"]], true) /\
  gen_m_remove_filtered_policy ex_md (T "p") (T "p2") 1 [T "x"] = None.
Proof. vm_compute. repeat split. Qed.

(* ---- (B) src/macros.rs ---- *)
Theorem model2_get_or_err : forall md key (err : text -> gen_ModelError) msg,
  res_outcome (gen_get_or_err gen_Error_from_ModelError md key err msg) =
  match get_ast md key key with Some a => Ok a | None => Err EModel end.
Proof. exact gen_get_or_err_model. Qed.
Print Assumptions model2_get_or_err.

Theorem model2_get_or_err_with_context : forall md key ctx (err : text -> gen_ModelError) msg,
  res_outcome (gen_get_or_err_with_context gen_Error_from_ModelError md key ctx err msg) =
  match get_ast md key ctx with Some a => Ok a | None => Err EModel end.
Proof. exact gen_get_or_err_with_context_model. Qed.
Print Assumptions model2_get_or_err_with_context.

(* the exact value: which of the two messages, wrapped by which constructor *)
Theorem model2_get_or_err_value : forall (X : Type) (from_X : X -> gen_Error) md key (err : text -> X) msg,
  gen_get_or_err from_X md key err msg =
  match assoc key md with
  | None => RErr (from_X (err (T "Missing " ++ msg ++ T " definition in conf file")))
  | Some am => match assoc key am with
               | None => RErr (from_X (err (T "Missing " ++ msg ++ T " section in conf file")))
               | Some a => ROk a
               end
  end.
Proof. exact gen_get_or_err_ok. Qed.
Print Assumptions model2_get_or_err_value.

Theorem model2_macros_inventory :
  gen_macros_inventory = [(T "get_or_err", T "here"); (T "get_or_err_with_context", T "here");
                          (T "register_g_function", T "elsewhere"); (T "push_index_if_explain", T "empty")] /\
  gen_enforcer2_translated = true.
Proof. exact gen_macros_inventory_ok. Qed.
Print Assumptions model2_macros_inventory.

Example model2_get_or_err_ex :
  gen_get_or_err gen_Error_from_ModelError ex_md (T "m") GModelError_M (T "matcher") =
    RErr (GError_ModelError (GModelError_M (T "Missing matcher definition in conf file"))) /\
  gen_get_or_err gen_Error_from_ModelError [(T "m", [(T "m2", ex_ast [] [])])] (T "m") GModelError_M (T "matcher") =
    RErr (GError_ModelError (GModelError_M (T "Missing matcher section in conf file"))) /\
  gen_get_or_err_with_context gen_Error_from_ModelError ex_md (T "p") (T "p2") GModelError_P (T "policy") = ROk (ex_ast (T "sub, act") [[T "carol"]]).
Proof. vm_compute. repeat split. Qed.

(* ---- (E) src/error.rs ---- *)
Theorem model2_error_class : forall e,
  gen_error_class e = Some match e with
                           | GError_IoError _ => EIo
                           | GError_ModelError _ => EModel
                           | GError_PolicyError _ => EPolicy
                           | GError_RbacError _ => ERbac
                           | GError_RhaiError _ => EEvalc
                           | GError_RhaiParseError _ => EEvalc
                           | GError_RequestError _ => ERequest
                           | GError_AdapterError _ => EAdapter
                           end.
Proof. exact gen_error_class_ok. Qed.
Print Assumptions model2_error_class.

(* ---- (C) src/convert.rs ---- *)
Theorem model2_try_into_built :
  (forall (M : Type) (m : M), gen_try_into_model_built M m = ROk m) /\
  (forall (A : Type) (a : A), gen_try_into_adapter_built A a = ROk a).
Proof. exact gen_try_into_built_ok. Qed.
Print Assumptions model2_try_into_built.

Theorem model2_try_into_option :
  (forall (M T : Type) (dflt : M) (inner : T -> rs_result M gen_Error) o,
     gen_try_into_model_option M T dflt inner o = match o with Some x => inner x | None => ROk dflt end) /\
  (forall (A T : Type) (null : A) (inner : T -> rs_result A gen_Error) o,
     gen_try_into_adapter_option A T null inner o = match o with Some x => inner x | None => ROk null end) /\
  (forall (A : Type) (null : A) u, gen_try_into_adapter_unit A null u = ROk null).
Proof. exact gen_try_into_option_ok. Qed.
Print Assumptions model2_try_into_option.

Theorem model2_try_into_str :
  (forall (M : Type) (from_file : text -> rs_result M gen_Error) p, gen_try_into_model_str M from_file p = from_file p) /\
  (forall (A : Type) (file_adapter : text -> A) p, gen_try_into_adapter_str A file_adapter p = ROk (file_adapter p)).
Proof. exact gen_try_into_str_ok. Qed.
Print Assumptions model2_try_into_str.

Theorem model2_vec_try_into_vec : forall (S D : Type) (into : S -> D) v,
  gen_vec_try_into_vec S D into v = ROk (map into v).
Proof. exact gen_vec_try_into_vec_ok. Qed.
Print Assumptions model2_vec_try_into_vec.

Theorem model2_tuple_try_into_vec : forall (S D : Type) (f : S -> rs_result D ext_eval_error) vals,
  gen_tuple_try_into_vec S D f vals =
  if Nat.leb (length vals) 20 then Some (res_mapM (to_dynamic_q f) vals) else None.
Proof. exact gen_tuple_try_into_vec_ok. Qed.
Print Assumptions model2_tuple_try_into_vec.

Theorem model2_tuple_in_order : forall (S D : Type) (f : S -> rs_result D ext_eval_error) (g : S -> D) vals,
  length vals <= 20 -> (forall x, In x vals -> f x = ROk (g x)) ->
  gen_tuple_try_into_vec S D f vals = Some (ROk (map g vals)).
Proof. exact gen_tuple_try_into_vec_in_order. Qed.
Print Assumptions model2_tuple_in_order.
Example model2_tuple_in_order_ex :
  let f := fun n : nat => if Nat.eqb n 7 then RErr ExtEvalError else ROk (n * 10) in
  length [1; 2; 3] <= 20 /\ (forall x, In x [1; 2; 3] -> f x = ROk (x * 10)) /\
  gen_tuple_try_into_vec nat nat f [3; 2; 1] = Some (ROk [30; 20; 10]) /\
  gen_tuple_try_into_vec nat nat f [1; 7; 3] = Some (RErr (GError_RhaiError ExtEvalError)) /\
  gen_tuple_try_into_vec nat nat f (seq 10 21) = None.
Proof. exact gen_tuple_in_order_ex. Qed.

Theorem model2_cache_key_injective : forall (S : Type) (a b : list S),
  (gen_vec_cache_key S a = gen_vec_cache_key S b -> a = b) /\
  (length a <= 20 -> length b <= 20 -> gen_tuple_cache_key S a = gen_tuple_cache_key S b -> a = b).
Proof. exact gen_cache_key_injective. Qed.
Print Assumptions model2_cache_key_injective.

(* ---- (D) src/cache/default_cache.rs over mini-moka ---- *)
Theorem model2_cache_get : forall (m : moka ckey bool) k,
  let (m', r) := gen_cache_get ckey bool ckey_eqb m k in
  sub_cache (mk_entries m') (mk_entries m) /\ r = cache_get k (mk_entries m').
Proof. exact gen_cache_get_ok. Qed.
Print Assumptions model2_cache_get.

Theorem model2_cache_get_sound : forall (m : moka ckey bool) k b,
  snd (gen_cache_get ckey bool ckey_eqb m k) = Some b -> cache_get k (mk_entries m) = Some b.
Proof. exact gen_cache_get_sound. Qed.
Print Assumptions model2_cache_get_sound.

Theorem model2_cache_has : forall (m : moka ckey bool) k,
  gen_cache_has ckey bool ckey_eqb m k =
  (fst (gen_cache_get ckey bool ckey_eqb m k), rs_is_some (snd (gen_cache_get ckey bool ckey_eqb m k))).
Proof. exact gen_cache_has_ok. Qed.
Print Assumptions model2_cache_has.

Theorem model2_cache_set : forall (m : moka ckey bool) k v,
  sub_cache (mk_entries (gen_cache_set ckey bool ckey_eqb m k v)) ((k, v) :: mk_entries m) /\
  (mk_sched m = [] -> forall k', cache_get k' (mk_entries (gen_cache_set ckey bool ckey_eqb m k v)) = cache_get k' ((k, v) :: mk_entries m)) /\
  cache_get k (mk_entries (gen_cache_set ckey bool ckey_eqb m k v)) = Some v.
Proof. exact gen_cache_set_ok. Qed.
Print Assumptions model2_cache_set.

Theorem model2_cache_clear : forall (m : moka ckey bool), mk_entries (gen_cache_clear ckey bool ckey_eqb m) = [].
Proof. exact gen_cache_clear_ok. Qed.
Print Assumptions model2_cache_clear.

(* every history, every capacity, EVERY eviction schedule: the decisions of the uncached enforcer *)
Theorem model2_cache_same_decisions : forall ptab h s sched cap,
  mrun ptab {| ms_inner := s; ms_cache := gen_cache_new ckey bool sched cap |} h = prun ptab s h.
Proof. exact gen_cache_same_decisions. Qed.
Print Assumptions model2_cache_same_decisions.

Example model2_cache_ex :
  let k1 := CKPlain [VStr (T "alice")] in let k2 := CKPlain [VStr (T "bob")] in
  let m2 := gen_cache_set ckey bool ckey_eqb (gen_cache_set ckey bool ckey_eqb (gen_cache_new ckey bool [] 200) k1 true) k2 false in
  snd (gen_cache_get ckey bool ckey_eqb m2 k1) = Some true /\
  snd (gen_cache_has ckey bool ckey_eqb (gen_cache_clear ckey bool ckey_eqb m2) k1) = false /\
  let forgetful := {| mk_cap := 200; mk_entries := mk_entries m2; mk_sched := [fun k => negb (ckey_eqb k k1)] |} in
  snd (gen_cache_get ckey bool ckey_eqb forgetful k1) = None /\
  snd (gen_cache_get ckey bool ckey_eqb forgetful k2) = Some false.
Proof. vm_compute. repeat split. Qed.
