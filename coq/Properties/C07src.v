(* C07 stated about the TRANSLATED SOURCE.  `src_step` / `src_run_ops` (Proofs/SrcStepP.v) dispatch every engine
   operation to the Gallina regenerated every run from the Rust text: Gen/InternalGen.v (src/internal_api.rs),
   Gen/ApiGen.v (src/rbac_api.rs, src/management_api.rs), Gen/EnforcerGen.v (src/enforcer.rs); `src_enforce` is the
   translated enforcement loop of Gen/EnforceGen.v (src/enforcer.rs, private_enforce); `src_ask`
   (Proofs/SrcQueryP.v) is the query interface deciding through it.
   Scope, `view`, `confined`, `foreign` as in Properties/C07.v.
   Statements only; proofs in Proofs/C07SrcP.v (Properties/C07.v composed with Properties/SrcStep.v). *)
From CV Require Import Model.Base Model.Effector Model.RoleGraph Model.PathMatch Model.Expr
     Model.Enforce Model.Engine Model.SpecC13 Model.SpecC07.
From CV Require Import Proofs.BaseP Proofs.RoleGraphP Proofs.C13P Proofs.C07P.
From CV Require Import Proofs.SrcStepP Proofs.SrcQueryP Proofs.C07SrcP.

(* ---- one translated call of another tenant ---- *)
(* whatever its outcome (accepted, refused by the adapter, failing, panicking), an operation confined to d' <> d
   leaves the view of d untouched *)
Theorem c07_src_view_preserved : forall s o d d',
  rbac_dom_any s = true -> confined d' o = true -> d' <> d ->
  view d (fst (src_step s o)) = view d s.
Proof. exact src_c07_view_preserved. Qed.
Print Assumptions c07_src_view_preserved.

(* ---- decisions are functions of the view ---- *)
(* two configurations with the same definitions that store the same things for d decide every request of d alike *)
Theorem c07_src_decided_by_view : forall ptab s1 s2 d,
  rbac_dom_any s1 = true -> rbac_dom_any s2 = true -> same_conf s1 s2 ->
  p_arity_ok s1 -> p_arity_ok s2 ->
  view d s1 = view d s2 -> d <> [] ->
  forall sub obj act,
    src_enforce ptab s1 [VStr sub; VStr d; VStr obj; VStr act] =
    src_enforce ptab s2 [VStr sub; VStr d; VStr obj; VStr act].
Proof. exact src_c07_decided_by_view. Qed.
Print Assumptions c07_src_decided_by_view.

(* ---- isolation over histories ---- *)
(* any history in which every operation is confined to some domain other than d keeps the view of d and the scope *)
Theorem c07_src_isolation_view : forall d ops s,
  rbac_dom_any s = true -> Forall (foreign d) ops ->
  view d (src_run_ops s ops) = view d s /\ rbac_dom_any (src_run_ops s ops) = true /\
  same_conf s (src_run_ops s ops).
Proof. exact src_c07_isolation_view. Qed.
Print Assumptions c07_src_isolation_view.

(* hence every decision and every role query of d is unchanged *)
Theorem c07_src_isolation : forall ptab d ops s,
  rbac_dom_any s = true -> Forall (foreign d) ops -> d <> [] ->
  let s' := src_run_ops s ops in
  (p_arity_ok s -> p_arity_ok s' ->
   forall sub obj act,
     src_enforce ptab s' [VStr sub; VStr d; VStr obj; VStr act] =
     src_enforce ptab s [VStr sub; VStr d; VStr obj; VStr act]) /\
  (forall n, roles_for_user s' n (Some d) = roles_for_user s n (Some d) /\
             users_for_role s' n (Some d) = users_for_role s n (Some d) /\
             implicit_roles s' n (Some d) = implicit_roles s n (Some d)) /\
  (forall a b, has_link (f_rm_max (e_fs s')) (f_rm (e_fs s')) a b (Some d) =
               has_link (f_rm_max (e_fs s)) (f_rm (e_fs s)) a b (Some d)) /\
  (two_fields s -> two_fields s' ->
   forall n, perms_for_user s' n (Some d) = perms_for_user s n (Some d) /\
             implicit_perms s' n (Some d) = implicit_perms s n (Some d)).
Proof. exact src_c07_isolation. Qed.
Print Assumptions c07_src_isolation.

(* ---- the executable predicate ---- *)
Theorem c07_src_query_stable : forall ptab d ops s q,
  rbac_dom_any s = true -> Forall (foreign d) ops -> d <> [] ->
  p_arity_ok s -> p_arity_ok (src_run_ops s ops) ->
  dom_query d q = true ->
  src_ask ptab (src_run_ops s ops) q = src_ask ptab s q.
Proof. exact src_c07_query_stable. Qed.
Print Assumptions c07_src_query_stable.

Theorem c07_src_pred_holds : forall ptab d ops s qs,
  rbac_dom_any s = true -> Forall (foreign d) ops -> d <> [] ->
  p_arity_ok s -> p_arity_ok (src_run_ops s ops) ->
  forallb (dom_query d) qs = true ->
  c07_pred (map (src_ask ptab s) qs) (map (src_ask ptab (src_run_ops s ops)) qs) = true.
Proof. exact src_c07_pred_holds. Qed.
Print Assumptions c07_src_pred_holds.

(* non-vacuity, through the generated code: two tenants with the same user and role names (Properties/C07.v); the
   foreign history changes tenant2's view, not tenant1's, and the translated loop decides *)
Example c07_src_ex_in_scope :
  rbac_dom_any exd1 = true /\ p_arityb 4 exd1 = true /\ length (the_ptoks exd1) = 4.
Proof. vm_compute. repeat split; reflexivity. Qed.
Example c07_src_ex_foreign_history : Forall (foreign d1) exd_foreign.
Proof. exact exd_foreign_confined. Qed.
Example c07_src_ex_history :
  src_run_ops exd1 exd_foreign = exd2 /\ p_arityb 4 (src_run_ops exd1 exd_foreign) = true /\
  view d2 (src_run_ops exd1 exd_foreign) <> view d2 exd1 /\
  view d1 (src_run_ops exd1 exd_foreign) = view d1 exd1 /\
  src_enforce ptab0 (src_run_ops exd1 exd_foreign) [VStr (T "alice"); VStr d1; VStr (T "data"); VStr (T "own")] = Ok true /\
  src_enforce ptab0 (src_run_ops exd1 exd_foreign) [VStr (T "bob"); VStr d1; VStr (T "data"); VStr (T "read")] = Ok false.
Proof.
  split; [vm_compute; reflexivity|]. split; [vm_compute; reflexivity|].
  split; [vm_compute; discriminate|]. split; [vm_compute; reflexivity|].
  split; vm_compute; reflexivity.
Qed.
