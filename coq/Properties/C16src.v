(* C16 (model and policy text formats round-trip), with C16q (quoted values) and C16e (escaping commutes with
   printing), stated about the TRANSLATED SOURCE.
   Source files behind the functions below (Gallina regenerated from the Rust text on every run):
     gen_parse_csv_line      src/util.rs parse_csv_line   (Gen/RegexGen.v, part 14: through the regex semantics of
                                                           Gen/Regex.v, re-validated against the regex crate each run)
     gen_csv_field           src/util.rs csv_field        (Gen/StrFnGen.v, part 2)
     gen_escape_assertion    src/util.rs escape_assertion (Gen/RegexGen.v, part 14)
     gen_str_load_policy     src/adapter/string_adapter.rs load_policy (Gen/AdaptersGen.v, part 9)
     gen_file_load_policy_line (inside src_file_load)      src/adapter/file_adapter.rs (Gen/AdaptersGen.v)
     gen_from_str, gen_get   src/config.rs Config::from_str, Config::get (Gen/IniGen.v, part 12)
     gen_model_from_str      src/model/default_model.rs DefaultModel::from_str (Gen/IniGen.v)
     gen_to_text             src/model/default_model.rs Model::to_text (Gen/IniGen.v)
   src_render_line_* / src_save_text_* (Proofs/SrcTextP.v): the save_policy formatting of the text adapters restated by
   the same text over gen_csv_field (their file / string plumbing is not translated).
   render_row, render_file, render_plain, render_layout are the LAYOUT GENERATORS of the specification
   (Model/SpecC16.v: the space of inputs the theorems quantify over), not code of the source.
   Same quantifiers and hypotheses as Properties/C16.v / C16q.v / C16e.v, plus exactly what the translation theorems
   need (each shown satisfiable below):
     ascii_text t / forallb is_ascii s   the text is ASCII (Rust trims Unicode white space and \b is Unicode-aware;
                                         the model is byte-level: Properties/IniGen.v inigen_from_str_nonascii_refuted)
     length t < fuel                     fuel for the translated loops of parse_buffer (None = not enough fuel)
     small (S (length t))                key suffixes (r2, p2, ..) are printed from a u64
     forall l, ord l = l                 to_text iterates a HashMap of replacements in insertion order: for another
                                         order the text differs (finding of part 12, inigen_to_text_any_order_refuted)
     table_wf md, NoDup (e keys)         hypotheses of inigen_to_text
   gen_parse_csv_line and gen_csv_field need none.
   NOT restated: the model-internal lemmas of C16 (trim_*, column_scan, scan_fuel_enough, escape_app,
   escape_apply_table, c16e_escape_print_piece, c16e_tok_vars ...) - they are about the scanner / the hand model's
   internals, which have no separate counterpart in the translated functions.
   Statements only; proofs in Proofs/C16SrcP.v (Proofs/C16P.v, CsvQP.v, EscPrintP.v composed with
   PinChecks/PcRegexGen.v, PcStrFnGen.v, PcAdaptersGen.v, PcIniGen.v). *)
From CV Require Import Model.Base Model.PathMatch Model.Expr Model.Enforce Model.Engine.
From CV Require Import Model.Csv Model.Ini Model.SpecC16 Model.SpecC16e.
From CV Require Import Proofs.C16P Proofs.CsvQP Proofs.EscPrintP.
From CV Require Import Gen.RustStr Gen.StrFnGen Gen.RustVec Gen.RustIter Gen.Regex Gen.RegexRt Gen.RegexGen.
From CV Require Import Proofs.RegexP Proofs.EscEvalM Proofs.RegexUtilP.
From CV Require Import Gen.AdaptersPrims Gen.AdaptersGen Proofs.AdaptersP.
From CV Require Import Gen.Petgraph Gen.IniRt Gen.IniGen Proofs.IniRtP PinChecks.PcIniGen.
From CV Require Import Proofs.SrcTextP Proofs.C16SrcP.

(* ================================================================== *)
(* A. policy lines (CSV): parse (render x) = x with the translated parser / printer *)
(* ================================================================== *)
(* c16_parse_render_row: a rendered rule, under every spacing / quoting variant *)
Theorem c16_src_parse_render_row : forall fs pt vs,
  ptype_safe pt = true -> forallb csv_safe vs = true -> forallb colfmt_ok fs = true ->
  length fs = S (length vs) ->
  gen_parse_csv_line (render_row fs (pt :: vs)) = Some (Some (pt :: vs)).
Proof. exact src_c16_parse_render_row. Qed.
Print Assumptions c16_src_parse_render_row.

(* c16q_parse_render_row: quoted values keep their inner edge white space *)
Theorem c16q_src_parse_render_row : forall f0 fs pt vs,
  ptype_safe pt = true -> colfmt_ok f0 = true -> length fs = length vs ->
  forallb (fun fv => col_ok (fst fv) (snd fv)) (combine fs vs) = true ->
  gen_parse_csv_line (render_row (f0 :: fs) (pt :: vs)) = Some (Some (pt :: vs)).
Proof. exact src_c16q_parse_render_row. Qed.
Print Assumptions c16q_src_parse_render_row.

(* c16_parse_line_pad *)
Theorem c16_src_parse_line_pad : forall w1 l w2, all_ws w1 = true -> all_ws w2 = true ->
  gen_parse_csv_line (w1 ++ l ++ w2) = gen_parse_csv_line l.
Proof. exact src_c16_parse_line_pad. Qed.
Print Assumptions c16_src_parse_line_pad.

(* c16q_line_file / c16q_line_string: print with the translated csv_field, parse with the translated parser *)
Theorem c16q_src_line_file : forall pt vs,
  ptype_safe pt = true -> forallb csv_safe_r vs = true -> vs <> [] ->
  gen_parse_csv_line (src_render_line_file pt vs) = Some (Some (pt :: vs)).
Proof. exact src_c16q_line_file. Qed.
Print Assumptions c16q_src_line_file.
Theorem c16q_src_line_string : forall pt vs,
  ptype_safe pt = true -> forallb csv_safe_r vs = true -> vs <> [] ->
  gen_parse_csv_line (src_render_line_string pt vs) = Some (Some (pt :: vs)).
Proof. exact src_c16q_line_string. Qed.
Print Assumptions c16q_src_line_string.

(* c16_parsed_lines_file / c16q_parsed_lines_file: a policy file - rows in any col_ok layout, blank lines, comment
   lines, LF or CRLF, last line with or without terminator - loads through the translated adapters as exactly its
   rows, in order *)
Theorem c16q_src_load_file_string : forall items final fl md,
  forallb (fun ib => fitem_ok_q (fst ib)) items = true ->
  (match final with Some it => fitem_ok_q it | None => true end) = true ->
  gen_str_load_policy (render_file items final) fl md =
  Some ((render_file items final, false, fold_left load_line (file_rows items final) md), tt).
Proof. exact src_c16q_load_file_string. Qed.
Print Assumptions c16q_src_load_file_string.
Theorem c16q_src_load_file_file : forall items final md,
  forallb (fun ib => fitem_ok_q (fst ib)) items = true ->
  (match final with Some it => fitem_ok_q it | None => true end) = true ->
  src_file_load (render_file items final) md = fold_left load_line (file_rows items final) md.
Proof. exact src_c16q_load_file_file. Qed.
Print Assumptions c16q_src_load_file_file.

(* c16q_save_file / c16q_save_string: whole store, save ; load *)
Theorem c16q_src_save_load_string : forall md md0 fl, model_text_safe_r md = true ->
  gen_str_load_policy (src_save_text_string md) fl md0 =
  Some ((src_save_text_string md, false, fold_left load_line (text_lines md) md0), tt).
Proof. exact src_c16q_save_load_string. Qed.
Print Assumptions c16q_src_save_load_string.
Theorem c16q_src_save_load_file : forall md md0, model_text_safe_r md = true ->
  src_file_load (src_save_text_file md) md0 = fold_left load_line (text_lines md) md0.
Proof. exact src_c16q_save_load_file. Qed.
Print Assumptions c16q_src_save_load_file.

(* ================================================================== *)
(* B. model text (ini) through the translated Config / DefaultModel      *)
(* ================================================================== *)
(* c16_parse_plain *)
Theorem c16_src_parse_plain : forall fuel secs, plain_ok secs = true ->
  ascii_text (render_plain secs) -> length (render_plain secs) < fuel ->
  exists st, gen_from_str fuel (render_plain secs) = Some (ROk st) /\ conf_ok st (cfg_of_plain secs) /\
    (forall sec opt, plain_key sec -> plain_key opt ->
       gen_get st (sec ++ T "::" ++ opt) = Some (cfg_get (sec, opt) (cfg_of_plain secs))).
Proof. exact src_c16_parse_plain. Qed.
Print Assumptions c16_src_parse_plain.

(* c16_parse_layout: the configuration read is the one the layout stands for *)
Theorem c16_src_parse_layout : forall fuel items, forallb litem_ok items = true ->
  ascii_text (render_layout items) -> length (render_layout items) < fuel ->
  exists st, gen_from_str fuel (render_layout items) = Some (ROk st) /\
    conf_ok st (cfg_of_defs (layout_defs items [])) /\
    (forall sec opt, plain_key sec -> plain_key opt ->
       gen_get st (sec ++ T "::" ++ opt) = Some (cfg_get (sec, opt) (cfg_of_defs (layout_defs items [])))).
Proof. exact src_c16_parse_layout. Qed.
Print Assumptions c16_src_parse_layout.

(* c16_layout_independence: two layouts of the same definitions give the same configuration (every lookup through
   the translated get) and the same model - or neither loads as a model *)
Theorem c16_src_layout_independence : forall fuel fuel' items items',
  forallb litem_ok items = true -> forallb litem_ok items' = true ->
  layout_defs items [] = layout_defs items' [] ->
  ascii_text (render_layout items) -> ascii_text (render_layout items') ->
  length (render_layout items) < fuel -> length (render_layout items') < fuel' ->
  small (S (length (render_layout items))) -> small (S (length (render_layout items'))) ->
  (exists st st', gen_from_str fuel (render_layout items) = Some (ROk st) /\
                  gen_from_str fuel' (render_layout items') = Some (ROk st') /\
                  forall sec opt, plain_key sec -> plain_key opt ->
                    gen_get st (sec ++ T "::" ++ opt) = gen_get st' (sec ++ T "::" ++ opt)) /\
  ((exists m, gen_model_from_str fuel (render_layout items) = Some (ROk m) /\
              gen_model_from_str fuel' (render_layout items') = Some (ROk m)) \/
   (exists e e', gen_model_from_str fuel (render_layout items) = Some (RErr e) /\
                 gen_model_from_str fuel' (render_layout items') = Some (RErr e'))).
Proof. exact src_c16_layout_independence. Qed.
Print Assumptions c16_src_layout_independence.

(* c16_model_layout_breaks: continuation breaks in the matchers only *)
Theorem c16_src_model_layout_breaks : forall fuel fuel' items,
  forallb litem_ok items = true -> breaks_in_matchers_only items [] = true ->
  ascii_text (render_layout items) -> ascii_text (render_layout (map unbreak items)) ->
  length (render_layout items) < fuel -> length (render_layout (map unbreak items)) < fuel' ->
  small (S (length (render_layout items))) -> small (S (length (render_layout (map unbreak items)))) ->
  exists m m', gen_model_from_str fuel (render_layout items) = Some (ROk m) /\
               gen_model_from_str fuel' (render_layout (map unbreak items)) = Some (ROk m') /\
               c16_model_equiv (dump_of (mdefs_of m)) (dump_of (mdefs_of m')) = true.
Proof. exact src_c16_model_layout_breaks. Qed.
Print Assumptions c16_src_model_layout_breaks.

(* ================================================================== *)
(* (8) escape_assertion, translated; C16e                               *)
(* ================================================================== *)
Theorem c16_src_escape_var : forall p f, rp_prefix p = true -> has_site false f = false ->
  forallb is_ascii (p ++ dot :: f) = true ->
  gen_escape_assertion (p ++ dot :: f) = tok p f.
Proof. exact src_c16_escape_var. Qed.
Print Assumptions c16_src_escape_var.
Theorem c16_src_escape_no_site : forall s, has_site false s = false -> forallb is_ascii s = true ->
  gen_escape_assertion s = s.
Proof. exact src_c16_escape_no_site. Qed.
Print Assumptions c16_src_escape_no_site.
Theorem c16_src_escape_idem : forall s, forallb is_ascii s = true ->
  gen_escape_assertion (gen_escape_assertion s) = gen_escape_assertion s.
Proof. exact src_c16_escape_idem. Qed.
Print Assumptions c16_src_escape_idem.

(* c16e_escape_print / c16e_tok_stable: the translated escape_assertion applied to a printed matcher IS the matcher
   printed with variables as tokens *)
Theorem c16e_src_escape_print : forall e, esc_wf e = true -> forallb is_ascii (print_expr e) = true ->
  gen_escape_assertion (print_expr e) = print_expr_tok e.
Proof. exact src_c16e_escape_print. Qed.
Print Assumptions c16e_src_escape_print.
Theorem c16e_src_tok_stable : forall e, esc_wf e = true -> forallb is_ascii (print_expr_tok e) = true ->
  gen_escape_assertion (print_expr_tok e) = print_expr_tok e.
Proof. exact src_c16e_tok_stable. Qed.
Print Assumptions c16e_src_tok_stable.

(* ================================================================== *)
(* (9) to_text ; from_str with the translated printer and the translated loader *)
(* ================================================================== *)
(* c16_to_text_plain *)
Theorem c16_src_to_text_plain : forall ord md, (forall l, ord l = l) -> mdefs_canon md = true -> table_wf md ->
  NoDup (map ad_key (sec_defs md (T "e"))) ->
  gen_to_text ord {| dm_model := model_of_mdefs md |} = Some (render_plain (totext_secs md)).
Proof. exact src_c16_to_text_plain. Qed.
Print Assumptions c16_src_to_text_plain.

(* c16_to_text_roundtrip: print with the translated to_text, load with the translated from_str: the same model *)
Theorem c16_src_to_text_roundtrip : forall ord fuel md,
  (forall l, ord l = l) ->
  totext_wf md = true -> mdefs_canon md = true -> table_ok (token_table md) = true -> totext_defs_ok md = true ->
  table_wf md -> NoDup (map ad_key (sec_defs md (T "e"))) ->
  exists t, gen_to_text ord {| dm_model := model_of_mdefs md |} = Some t /\
    (ascii_text t -> length t < fuel -> small (S (length t)) ->
     gen_model_from_str fuel t = Some (ROk {| dm_model := model_of_mdefs md |})).
Proof. exact src_c16_to_text_roundtrip. Qed.
Print Assumptions c16_src_to_text_roundtrip.

(* the same from a TEXT, entirely in terms of the translated functions: load ; print ; load = load *)
Theorem c16_src_load_print_load : forall ord fuel fuel' t m,
  (forall l, ord l = l) ->
  ascii_text t -> length t < fuel -> small (S (length t)) ->
  gen_model_from_str fuel t = Some (ROk m) ->
  totext_wf (mdefs_of m) = true -> table_ok (token_table (mdefs_of m)) = true ->
  totext_defs_ok (mdefs_of m) = true ->
  table_wf (mdefs_of m) -> NoDup (map ad_key (sec_defs (mdefs_of m) (T "e"))) ->
  exists t', gen_to_text ord m = Some t' /\
    (ascii_text t' -> length t' < fuel' -> small (S (length t')) ->
     gen_model_from_str fuel' t' = Some (ROk m)).
Proof. exact src_c16_load_print_load. Qed.
Print Assumptions c16_src_load_print_load.

(* c16_to_text_reload *)
Theorem c16_src_to_text_reload : forall fuel md, totext_wf md = true ->
  ascii_text (to_text md) -> length (to_text md) < fuel -> small (S (length (to_text md))) ->
  gen_model_from_str fuel (to_text md) = Some (ROk {| dm_model := model_of_mdefs (reload_model md) |}).
Proof. exact src_c16_to_text_reload. Qed.
Print Assumptions c16_src_to_text_reload.

(* ================================================================== *)
(* non-vacuity, through the generated code                              *)
(* ================================================================== *)
(* A: a row with quoted values with inner edge blanks, and a file with quoting, blanks, tabs, comments, CRLF *)
Example c16_src_ex_row_hyps :
  ptype_safe (T "p2") = true /\ colfmt_ok f_sp = true /\ length ex_q_fs = length ex_q_vs /\
  forallb (fun fv => col_ok (fst fv) (snd fv)) (combine ex_q_fs ex_q_vs) = true.
Proof. vm_compute. repeat split; reflexivity. Qed.
Example c16_src_ex_row :
  gen_parse_csv_line (render_row (f_sp :: ex_q_fs) (T "p2" :: ex_q_vs)) = Some (Some (T "p2" :: ex_q_vs)).
Proof. vm_compute. reflexivity. Qed.
Example c16_src_ex_line :
  forallb csv_safe_r [T "x, "; T " ,y "; T "z"] = true /\
  src_render_line_file (T "p") [T "x, "; T " ,y "; T "z"] = T "p, ""x, "","" ,y "",z" /\
  gen_parse_csv_line (src_render_line_file (T "p") [T "x, "; T " ,y "; T "z"]) =
    Some (Some [T "p"; T "x, "; T " ,y "; T "z"]).
Proof. vm_compute. repeat split; reflexivity. Qed.
Example c16_src_ex_file :
  forallb (fun ib => fitem_ok_q (fst ib)) ex_q_items = true /\
  (match ex_q_final with Some it => fitem_ok_q it | None => true end) = true /\
  option_map (fun x => m_get_policy (snd (fst x)) s_p (T "p2"))
             (gen_str_load_policy (render_file ex_q_items ex_q_final) true src_ex_csv_store0) = Some [ex_q_vs] /\
  m_get_policy (src_file_load (render_file ex_q_items ex_q_final) src_ex_csv_store0) s_g (T "g")
    = [[T "alice"; T "admin, "]].
Proof. vm_compute. repeat split; reflexivity. Qed.
Example c16_src_ex_store :
  model_text_safe_r ex_q_store = true /\
  src_save_text_file ex_q_store =
    T "p, alice,""x, "",a b" ++ [nl] ++ T "p, bob,"" ,y "",k=v" ++ [nl] ++ T "g, alice,"" admin, root """ ++ [nl].
Proof. vm_compute. split; reflexivity. Qed.

(* B: the wild layout of Proofs/IniP.v (comments, blank lines, tabs, CR, a matcher over three lines) *)
Example c16_src_ex_layout_hyps :
  forallb litem_ok ex_layout = true /\ breaks_in_matchers_only ex_layout [] = true /\
  ascii_text (render_layout ex_layout) /\ ascii_text (render_layout (map unbreak ex_layout)) /\
  length (render_layout ex_layout) < 600 /\ length (render_layout (map unbreak ex_layout)) < 600 /\
  small (S (length (render_layout ex_layout))) /\ small (S (length (render_layout (map unbreak ex_layout)))).
Proof. vm_compute. repeat split; try reflexivity; repeat constructor. Qed.
Example c16_src_ex_layout_model :
  exists m, gen_model_from_str 600 (render_layout ex_layout) = Some (ROk m) /\
            Some (mdefs_of m) = model_of_text (render_layout ex_layout) /\
            dump_of (mdefs_of m) =
              [ (T "r", T "sub, obj, act", [T "r_sub"; T "r_obj"; T "r_act"]);
                (T "p", T "sub, obj, act", [T "p_sub"; T "p_obj"; T "p_act"]);
                (T "e", T "some(where (p_eft == allow))", []);
                (T "m", T "g(r_sub, p_sub) &&r_obj == p_obj &&r_act == p_act", []);
                (T "g", T "_, _", []) ].
Proof. eexists. split; [vm_compute; reflexivity|]. split; vm_compute; reflexivity. Qed.

(* (8): a matcher through the translated escape_assertion *)
Example c16_src_ex_escape :
  forallb is_ascii (T "g(r.sub, p2.sub) && xr.obj == p.obj") = true /\
  gen_escape_assertion (T "g(r.sub, p2.sub) && xr.obj == p.obj") = T "g(r_sub, p2_sub) && xr.obj == p_obj".
Proof. vm_compute. split; reflexivity. Qed.
Example c16e_src_ex_escape_print :
  let e := EAnd (ECall (T "g") [EVar (T "r") (T "sub"); EVar (T "p") (T "sub")])
                (EEq (EVar (T "r2") (T "obj")) (EProp (EVar (T "p") (T "obj")) (T "owner"))) in
  esc_wf e = true /\ forallb is_ascii (print_expr e) = true /\
  gen_escape_assertion (print_expr e) = T "g(r_sub, p_sub) && r2_obj == p_obj.owner".
Proof. vm_compute. repeat split; reflexivity. Qed.

(* (9): the documented RBAC model (Proofs/ToTextP.v rbac_model_text): every hypothesis of
   c16_src_to_text_roundtrip holds, and the translated printer / loader do round-trip *)
Example c16_src_ex_totext_hyps :
  model_of_text rbac_model_text = Some (src_ex_md rbac_model_text) /\
  src_totext_hyps_b 400 (src_ex_md rbac_model_text) = true /\
  small (S (length (to_text (src_ex_md rbac_model_text)))).
Proof. vm_compute. repeat split; reflexivity. Qed.
Example c16_src_ex_totext_roundtrip :
  gen_model_from_str 400 rbac_model_text = Some (ROk (src_ex_dm rbac_model_text)) /\
  gen_to_text (fun l => l) (src_ex_dm rbac_model_text) = Some (to_text (src_ex_md rbac_model_text)) /\
  gen_model_from_str 400 (to_text (src_ex_md rbac_model_text)) = Some (ROk (src_ex_dm rbac_model_text)).
Proof. vm_compute. repeat split; reflexivity. Qed.
