(* The translated source as one transition function equals the engine model (statements; proofs in Proofs/SrcStepP.v,
   which composes the translation theorems of PinChecks/PcInternalGen.v, PcApiGen.v, PcEnforcerGen.v, PcEnforceGen.v).
   `src_step` / `src_enforce*` are built ONLY from Gallina generated on every run from /repo's Rust text. *)
From CV Require Import Model.Base Model.Effector Model.Expr Model.Enforce Model.Engine Proofs.SrcStepP.

Theorem src_step_ok : forall s o, src_step s o = step s o.
Proof. exact src_step_eq. Qed.
Print Assumptions src_step_ok.

Theorem src_run_ops_ok : forall ops s, src_run_ops s ops = run_ops s ops.
Proof. exact src_run_ops_eq. Qed.
Print Assumptions src_run_ops_ok.

Theorem src_run_results_ok : forall ops s, src_run_results s ops = run_results s ops.
Proof. exact src_run_results_eq. Qed.
Print Assumptions src_run_results_ok.

Theorem src_enforce_ok : forall ptab s rv, src_enforce ptab s rv = enforce ptab s rv.
Proof. exact src_enforce_eq. Qed.
Print Assumptions src_enforce_ok.

Theorem src_enforce_with_ctx_ok : forall ptab s k rv, src_enforce_with_ctx ptab s k rv = enforce_with_ctx ptab s k rv.
Proof. exact src_enforce_with_ctx_eq. Qed.
Print Assumptions src_enforce_with_ctx_ok.

Theorem src_enforce_with_ctx4_ok : forall ptab s rk pk ek mk rv,
  src_enforce_with_ctx4 ptab s rk pk ek mk rv = enforce_with_ctx4 ptab s rk pk ek mk rv.
Proof. exact src_enforce_with_ctx4_eq. Qed.
Print Assumptions src_enforce_with_ctx4_ok.
