(* C10 — Failed storage operations change nothing.
   Only statements closed by `exact`; proofs live in Proofs/C10P.v.
   Reading guide: `upd_adapter s a` is s with the adapter component replaced by
   a and NOTHING else touched (c10_only_adapter spells the components out);
   an adapter `AScripted inner (r :: sc)` answers its next entry point with r. *)
From CV Require Import Model.Base Model.Effector Model.RoleGraph Model.PathMatch
     Model.Expr Model.Enforce Model.Engine Model.FileSave Model.SpecC14.
From CV Require Import Proofs.BaseP Proofs.C10P.

(* ------------------------------------------------------------------ *)
(* (1) refused / failed incremental calls                              *)
(* ------------------------------------------------------------------ *)

(* replacing the adapter component leaves every other component alone *)
Theorem c10_only_adapter : forall s a,
  let s' := upd_adapter s a in
  e_adapter s' = a /\
  e_model s' = e_model s /\ e_mexprs s' = e_mexprs s /\ e_fs s' = e_fs s /\
  e_enabled s' = e_enabled s /\ e_auto_save s' = e_auto_save s /\ e_auto_build s' = e_auto_build s /\
  e_auto_notify s' = e_auto_notify s /\ e_callbacks s' = e_callbacks s /\
  e_watcher s' = e_watcher s /\ e_wlog s' = e_wlog s.
Proof. exact upd_adapter_only. Qed.
Print Assumptions c10_only_adapter.

(* every query (decisions, listings, role queries, is_filtered) reads the
   adapter only through its filtered mark *)
Theorem c10_queries_ignore_script : forall ptab s a q,
  ad_is_filtered a = ad_is_filtered (e_adapter s) ->
  ask ptab (upd_adapter s a) q = ask ptab s q.
Proof. exact ask_upd_adapter. Qed.
Print Assumptions c10_queries_ignore_script.

(* add/add-many/remove/remove-many/remove-filtered and every single-call RBAC
   helper, auto-save on, the adapter made to refuse (Ok(false)) or to fail
   (Err): the call returns Ok(false) resp. Err(adapter) and the state is the
   old one with only the script entry consumed: model, matchers, role graph
   and functions, flags, watcher log, callbacks, inner adapter all unchanged;
   hence every query answers as before *)
Theorem c10_rejected_is_identity : forall ptab s o p i r sc,
  op_prim o = Some p -> e_auto_save s = true -> e_adapter s = AScripted i (r :: sc) ->
  r <> RPass ->
  let s' := fst (step s o) in
  snd (step s o) = (if fail_resp r then Err EAdapter else Ok false) /\
  s' = upd_adapter s (AScripted i sc) /\
  e_model s' = e_model s /\ e_mexprs s' = e_mexprs s /\ e_fs s' = e_fs s /\
  e_wlog s' = e_wlog s /\ e_callbacks s' = e_callbacks s /\
  (forall q, ask ptab s' q = ask ptab s q).
Proof. exact rejected_is_identity. Qed.
Print Assumptions c10_rejected_is_identity.

(* the same at any point of any history *)
Theorem c10_rejected_any_history : forall ptab s0 ops o p i r sc,
  let s := run_ops s0 ops in
  op_prim o = Some p -> e_auto_save s = true -> e_adapter s = AScripted i (r :: sc) -> r <> RPass ->
  fst (step s o) = upd_adapter s (AScripted i sc) /\
  snd (step s o) = (if fail_resp r then Err EAdapter else Ok false) /\
  (forall q, ask ptab (fst (step s o)) q = ask ptab s q).
Proof.
  intros ptab s0 ops o p i r sc s Ho Hs Ha Hr.
  destruct (rejected_is_identity ptab s o p i r sc Ho Hs Ha Hr) as [A [B [_ [_ [_ [_ [_ C]]]]]]].
  split; [exact B|]. split; [exact A|exact C].
Qed.
Print Assumptions c10_rejected_any_history.

(* the two-call helpers delete_user / delete_role(all):
   first adapter call fails -> nothing changes *)
Theorem c10_two_call_first_fails : forall ptab s o p1 p2 i r sc,
  op_two o = Some (p1, p2) -> e_auto_save s = true -> e_adapter s = AScripted i (r :: sc) ->
  fail_resp r = true ->
  step s o = (upd_adapter s (AScripted i sc), Err EAdapter) /\
  (forall q, ask ptab (fst (step s o)) q = ask ptab s q).
Proof. exact two_call_first_fails. Qed.
Print Assumptions c10_two_call_first_fails.

(* first call refused (Ok(false)) -> the helper simply goes on with the second *)
Theorem c10_two_call_first_refused : forall s o p1 p2 i sc,
  op_two o = Some (p1, p2) -> e_auto_save s = true -> e_adapter s = AScripted i (RRefuse :: sc) ->
  step s o = match step_prim (upd_adapter s (AScripted i sc)) p2 with
             | (s', Ok b) => (s', Ok b)
             | other => other
             end.
Proof. exact two_call_first_refused. Qed.
Print Assumptions c10_two_call_first_refused.

(* second call fails -> the call reports the error but the effect of the
   first call (state s1) stays: a genuine PARTIAL EFFECT (see the witness) *)
Theorem c10_two_call_second_fails : forall s o p1 p2 s1 a i r sc,
  op_two o = Some (p1, p2) ->
  step_prim s p1 = (s1, Ok a) ->
  e_auto_save s1 = true -> e_adapter s1 = AScripted i (r :: sc) -> fail_resp r = true ->
  step s o = (upd_adapter s1 (AScripted i sc), Err EAdapter).
Proof. exact two_call_second_fails. Qed.
Print Assumptions c10_two_call_second_fails.

Example c10_two_call_partial_effect :
  let s := ex_st [RPass; RFail] in
  let r := step s (ORbac (RDeleteUser alice)) in
  snd r = Err EAdapter /\
  ask ex_ptab s ex_q1 = AnsDec (Ok true) /\ ask ex_ptab (fst r) ex_q1 = AnsDec (Ok false) /\
  m_get_all (e_model (fst r)) s_g = [] /\
  m_get_all (e_model (fst r)) s_p = m_get_all (e_model s) s_p /\
  e_wlog (fst r) = e_wlog s ++ [EvRemoveFiltered s_g s_g [[alice; admin]]].
Proof. exact two_call_partial_effect. Qed.

(* clear_policy / save_policy with a failing adapter *)
Theorem c10_clear_failed : forall ptab s i r sc,
  e_auto_save s = true -> e_adapter s = AScripted i (r :: sc) -> r <> RPass ->
  step s OClear = (upd_adapter s (AScripted i sc), Err EAdapter) /\
  (forall q, ask ptab (fst (step s OClear)) q = ask ptab s q).
Proof. exact clear_failed. Qed.
Print Assumptions c10_clear_failed.

Theorem c10_save_failed : forall ptab s i r sc,
  e_adapter s = AScripted i (r :: sc) -> r <> RPass -> ad_is_filtered i = false ->
  step s OSave = (upd_adapter s (AScripted i sc), Err EAdapter) /\
  (forall q, ask ptab (fst (step s OSave)) q = ask ptab s q).
Proof. exact save_failed. Qed.
Print Assumptions c10_save_failed.

Theorem c10_save_filtered_panics : forall s,
  ad_is_filtered (e_adapter s) = true -> step s OSave = (s, Panic).
Proof. exact save_filtered_panics. Qed.

(* an unscripted string adapter implements no incremental call: with auto-save
   on every management call (two-call helpers included) fails and changes
   nothing *)
Theorem c10_string_adapter_rejects : forall ptab s o l f,
  is_mgmt o = true -> e_auto_save s = true -> e_adapter s = AString l f ->
  step s o = (upd_adapter s (AString l f), Err EAdapter) /\
  (forall q, ask ptab (fst (step s o)) q = ask ptab s q).
Proof. exact string_adapter_rejects. Qed.
Print Assumptions c10_string_adapter_rejects.

(* ------------------------------------------------------------------ *)
(* (2) failed loads                                                     *)
(* ------------------------------------------------------------------ *)

(* load_policy / load_filtered_policy with the adapter failing before any
   rule (RFail, RRefuse), after all rules (RFailLate) or between the policy
   and the grouping rules (RFailPartial): Err(adapter); model, matchers, role
   graph, flags, log unchanged; the inner adapter keeps its lines (ad_unmark)
   but a late failure may already have reset its filtered mark, so every
   query except is_filtered() answers as before, and ALL do for an early
   failure *)
Theorem c10_failed_load_keeps_policy : forall ptab s o i r sc,
  is_load o = true -> e_adapter s = AScripted i (r :: sc) -> r <> RPass ->
  exists i',
    step s o = (upd_adapter s (AScripted i' sc), Err EAdapter) /\
    ad_unmark i' = ad_unmark i /\
    (r = RFail \/ r = RRefuse -> i' = i) /\
    (forall q, q <> QIsFiltered -> ask ptab (fst (step s o)) q = ask ptab s q) /\
    (r = RFail \/ r = RRefuse -> forall q, ask ptab (fst (step s o)) q = ask ptab s q).
Proof. exact failed_load_keeps_policy. Qed.
Print Assumptions c10_failed_load_keeps_policy.

(* for ANY adapter: a load that reports an adapter error or panics (file
   adapter, filter longer than a line) changed at most the adapter component *)
Theorem c10_load_not_ok_keeps_policy : forall ptab s o,
  is_load o = true ->
  snd (step s o) = Err EAdapter \/ snd (step s o) = Panic ->
  (exists ad, fst (step s o) = upd_adapter s ad) /\
  (forall q, q <> QIsFiltered -> ask ptab (fst (step s o)) q = ask ptab s q).
Proof. exact load_not_ok_keeps_policy. Qed.
Print Assumptions c10_load_not_ok_keeps_policy.

Example c10_failed_load_resets_filtered_mark :
  let s := fst (new_enforcer ex_def (AScripted (AMemory [[s_p; s_p; alice; data1; read]] true) [RFailLate]) true) in
  let r := step s OLoad in
  snd r = Err EAdapter /\
  ask ex_ptab s QIsFiltered = AnsBool true /\ ask ex_ptab (fst r) QIsFiltered = AnsBool false /\
  e_model (fst r) = e_model s.
Proof. exact failed_load_resets_filtered_mark. Qed.

(* ------------------------------------------------------------------ *)
(* (3) what a LATE error leaves behind (not an adapter error)           *)
(* ------------------------------------------------------------------ *)

(* a management call returning an error of any class other than "adapter":
   it can only be a grouping call with auto-build on whose role-link update
   failed AFTER the adapter accepted (ad), the model took the change (md) and
   the notification went out.  Unchanged: matchers, flags, hierarchy limit,
   registered functions.  Possibly inconsistent: the role manager (f_rm). *)
Theorem c10_late_error : forall s o c s' e,
  op_prim o = Some c -> step s o = (s', Err e) -> e <> EAdapter ->
  exists ad md ch ev lrs,
    ad_call s c = (ad, Ok true) /\
    prim_mop c (e_model s) = Some (md, ch, ev, lrs) /\
    prim_sec c = s_g /\ e_auto_build s = true /\ (prim_guarded c = true -> ch = true) /\
    e_adapter s' = ad /\ e_model s' = md /\
    e_wlog s' = e_wlog (emit_mgmt (upd_model (upd_adapter s ad) md) ch ev) /\
    e_mexprs s' = e_mexprs s /\ flags s' = flags s /\ fs_static (e_fs s') = fs_static (e_fs s).
Proof. exact late_error_step. Qed.
Print Assumptions c10_late_error.

Example c10_late_error_witness :
  let s := ex_st [RPass] in
  let r := step s (OAdd s_g s_g [bob]) in
  snd r = Err EPolicy /\
  m_get_all (e_model (fst r)) s_g = [[s_g; s_g; alice; admin]; [s_g; s_g; bob]] /\
  e_adapter (fst r) =
    AScripted (AMemory [[s_p; s_p; admin; data1; read]; [s_p; s_p; alice; data2; write];
                        [s_g; s_g; alice; admin]; [s_g; s_g; bob]] false) [] /\
  e_wlog (fst r) = e_wlog s ++ [EvAdd s_g s_g [bob]].
Proof. exact late_error_witness. Qed.

(* clear_policy failing with a non-adapter error: adapter and model are
   already cleared *)
Theorem c10_clear_late_error : forall s s' e,
  step s OClear = (s', Err e) -> e <> EAdapter ->
  e_auto_build s = true /\
  exists ad s3,
    (if e_auto_save s then ad_clear (e_adapter s) else (e_adapter s, LROk)) = (ad, LROk) /\
    build_role_links (upd_model (upd_adapter s ad) (m_clear_policy (e_model s))) = (s3, LErr e) /\
    s' = s3.
Proof. exact clear_late_error. Qed.
Print Assumptions c10_clear_late_error.

(* a load failing with a non-adapter error: the adapter had succeeded, the
   NEW policy is in force, only the role-link rebuild failed *)
Theorem c10_load_late_error : forall s o s' e,
  is_load o = true -> step s o = (s', Err e) -> e <> EAdapter ->
  e_auto_build s = true /\
  exists ad md,
    match o with
    | OLoadFiltered fp fg => ad_load_filtered (e_adapter s) fp fg (m_clear_policy (e_model s))
    | _ => ad_load (e_adapter s) (m_clear_policy (e_model s))
    end = (ad, md, LROk) /\
    build_role_links (upd_model (upd_adapter s ad) md) = (s', LErr e).
Proof. exact load_late_error. Qed.
Print Assumptions c10_load_late_error.

Example c10_load_late_error_witness :
  let s := ex_new (AMemory [[s_p; s_p; alice; data1; read]] false) in
  let s1 := upd_adapter s (AMemory [[s_p; s_p; bob; data2; write]; [s_g; s_g; bob]] false) in
  let r := step s1 OLoad in
  snd r = Err EPolicy /\
  m_get_all (e_model s1) s_p = [[s_p; s_p; alice; data1; read]] /\
  m_get_all (e_model (fst r)) s_p = [[s_p; s_p; bob; data2; write]].
Proof. exact load_late_error_witness. Qed.

(* ------------------------------------------------------------------ *)
(* (4) file save: atomic at the level of file-system calls              *)
(* ------------------------------------------------------------------ *)
(* Trusted: rename is atomic and replaces its target; create/remove are
   atomic; a write may stop after any prefix.  Nothing about durability. *)

(* new protocol [Create tmp; Append tmp bytes; Rename tmp path], interrupted
   after n complete calls and k bytes of the next write: the policy file
   holds the complete old contents (or still does not exist) or the complete
   new contents *)
Theorem c10_save_atomic : forall tmp path bytes n k fs,
  tmp <> path ->
  let fs' := run_cut (save_new tmp path bytes) n k fs in
  content fs' path = content fs path \/ content fs' path = Some bytes.
Proof. exact save_atomic. Qed.
Print Assumptions c10_save_atomic.

(* the same after the error path's clean-up, which also leaves no temporary *)
Theorem c10_save_atomic_cleanup : forall tmp path bytes n k fs,
  tmp <> path ->
  let fs' := save_new_failed tmp path bytes n k fs in
  (content fs' path = content fs path \/ content fs' path = Some bytes) /\
  content fs' tmp = None.
Proof. exact save_atomic_cleanup. Qed.
Print Assumptions c10_save_atomic_cleanup.

Theorem c10_save_complete : forall tmp path bytes fs,
  tmp <> path ->
  let fs' := run_fops fs (save_new tmp path bytes) in
  content fs' path = Some bytes /\ content fs' tmp = None.
Proof. exact save_new_complete. Qed.

Theorem c10_save_frame : forall tmp path bytes n k fs q,
  q <> tmp -> q <> path ->
  content (run_cut (save_new tmp path bytes) n k fs) q = content fs q.
Proof. exact save_new_frame. Qed.

(* old protocol [Create path; Append path bytes]: a cut point leaves neither
   the old nor the new policy; in fact every prefix of the new contents *)
Theorem c10_old_save_refuted : forall path old bytes fs,
  content fs path = Some old -> old <> [] -> bytes <> [] ->
  exists n k,
    let now := content (run_cut (save_old path bytes) n k fs) path in
    now <> Some old /\ now <> Some bytes.
Proof. exact old_save_refuted. Qed.
Print Assumptions c10_old_save_refuted.

Theorem c10_old_save_truncates : forall path bytes k fs,
  content (run_cut (save_old path bytes) 1 k fs) path = Some (firstn k bytes).
Proof. exact old_save_truncates. Qed.

Example c10_old_save_truncated_witness :
  content (run_cut (save_old ex_path ex_new_bytes) 1 9 ex_fs) ex_path = Some (T "p, alice,")
  /\ complete_policy (Some ex_old_bytes) ex_new_bytes
       (content (run_cut (save_old ex_path ex_new_bytes) 1 9 ex_fs) ex_path) = false.
Proof. exact ex_old_save_truncated. Qed.

(* ------------------------------------------------------------------ *)
(* non-vacuity                                                          *)
(* ------------------------------------------------------------------ *)
Example c10_hyps_satisfiable :
  e_auto_save (ex_st [RFail]) = true /\
  e_adapter (ex_st [RFail]) =
    AScripted (AMemory [[s_p; s_p; admin; data1; read]; [s_p; s_p; alice; data2; write];
                        [s_g; s_g; alice; admin]] false) [RFail] /\
  ask ex_ptab (ex_st [RFail]) ex_q1 = AnsDec (Ok true) /\
  ask ex_ptab (ex_st [RFail]) (QHasLink alice admin None) = AnsBool true.
Proof. exact ex_rejected_hyps. Qed.

Example c10_rejected_run :
  map (fun r => outcome_eqb (snd (step (ex_st [r]) (OAdd s_p s_p [bob; data1; read])))
                            (if fail_resp r then Err EAdapter else Ok false))
      [RRefuse; RFail; RFailLate; RFailPartial] = [true; true; true; true].
Proof. exact ex_rejected_run. Qed.

Example c10_failed_load_run :
  let s := ex_st [RFailPartial] in
  snd (step s OLoad) = Err EAdapter /\
  e_model (fst (step s OLoad)) = e_model s /\ e_fs (fst (step s OLoad)) = e_fs s /\
  ask ex_ptab (fst (step s OLoad)) ex_q1 = AnsDec (Ok true).
Proof. exact ex_failed_load. Qed.

Example c10_string_adapter_run :
  let s := fst (new_enforcer ex_def (AString [[s_p; alice; data1; read]] false) true) in
  e_auto_save s = true /\ m_get_all (e_model s) s_p = [[s_p; s_p; alice; data1; read]] /\
  snd (step s (ORbac (RDeleteUser alice))) = Err EAdapter /\
  snd (step s (OAdd s_p s_p [bob; data1; read])) = Err EAdapter.
Proof. exact ex_string_adapter. Qed.

Example c10_new_save_all_cuts :
  forallb (fun n => forallb (fun k =>
     complete_policy (Some ex_old_bytes) ex_new_bytes
       (content (run_cut (save_new ex_tmp ex_path ex_new_bytes) n k ex_fs) ex_path)
     && complete_policy (Some ex_old_bytes) ex_new_bytes
       (content (save_new_failed ex_tmp ex_path ex_new_bytes n k ex_fs) ex_path))
     (seq 0 (S (length ex_new_bytes)))) (seq 0 5) = true.
Proof. exact ex_new_save_all_cuts. Qed.
