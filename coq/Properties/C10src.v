(* C10 stated about the TRANSLATED SOURCE (parts 1 and 2 of Properties/C10.v; the file-save protocol of part 4 is not
   about the engine's transition function).  `src_step` / `src_run_ops` (Proofs/SrcStepP.v) dispatch every engine
   operation to the Gallina regenerated every run from the Rust text: Gen/InternalGen.v (src/internal_api.rs),
   Gen/ApiGen.v (src/rbac_api.rs, src/management_api.rs), Gen/EnforcerGen.v (src/enforcer.rs: load_policy,
   load_filtered_policy, save_policy, clear_policy); `src_ask` (Proofs/SrcQueryP.v) is the query interface deciding
   through the translated enforcement loops of Gen/EnforceGen.v.
   Statements only; proofs in Proofs/C10SrcP.v (Properties/C10.v composed with Properties/SrcStep.v). *)
From CV Require Import Model.Base Model.Effector Model.RoleGraph Model.PathMatch
     Model.Expr Model.Enforce Model.Engine Model.FileSave Model.SpecC14.
From CV Require Import Proofs.BaseP Proofs.C10P.
From CV Require Import Proofs.SrcStepP Proofs.SrcQueryP Proofs.C10SrcP.

(* add / add-many / remove / remove-many / remove-filtered and every single-call RBAC helper, auto-save on, the
   adapter made to refuse (Ok(false)) or to fail (Err): the translated call returns Ok(false) resp. Err(adapter) and
   the state is the old one with only the script entry consumed; hence every query answers as before *)
Theorem c10_src_rejected_is_identity : forall ptab s o p i r sc,
  op_prim o = Some p -> e_auto_save s = true -> e_adapter s = AScripted i (r :: sc) ->
  r <> RPass ->
  let s' := fst (src_step s o) in
  snd (src_step s o) = (if fail_resp r then Err EAdapter else Ok false) /\
  s' = upd_adapter s (AScripted i sc) /\
  e_model s' = e_model s /\ e_mexprs s' = e_mexprs s /\ e_fs s' = e_fs s /\
  e_wlog s' = e_wlog s /\ e_callbacks s' = e_callbacks s /\
  (forall q, src_ask ptab s' q = src_ask ptab s q).
Proof. exact src_c10_rejected_is_identity. Qed.
Print Assumptions c10_src_rejected_is_identity.

(* the same at any point of any history *)
Theorem c10_src_rejected_any_history : forall ptab s0 ops o p i r sc,
  let s := src_run_ops s0 ops in
  op_prim o = Some p -> e_auto_save s = true -> e_adapter s = AScripted i (r :: sc) -> r <> RPass ->
  fst (src_step s o) = upd_adapter s (AScripted i sc) /\
  snd (src_step s o) = (if fail_resp r then Err EAdapter else Ok false) /\
  (forall q, src_ask ptab (fst (src_step s o)) q = src_ask ptab s q).
Proof. exact src_c10_rejected_any_history. Qed.
Print Assumptions c10_src_rejected_any_history.

(* the two-call helpers delete_user / delete_role: first adapter call fails -> nothing changes *)
Theorem c10_src_two_call_first_fails : forall ptab s o p1 p2 i r sc,
  op_two o = Some (p1, p2) -> e_auto_save s = true -> e_adapter s = AScripted i (r :: sc) ->
  fail_resp r = true ->
  src_step s o = (upd_adapter s (AScripted i sc), Err EAdapter) /\
  (forall q, src_ask ptab (fst (src_step s o)) q = src_ask ptab s q).
Proof. exact src_c10_two_call_first_fails. Qed.
Print Assumptions c10_src_two_call_first_fails.

(* clear_policy / save_policy with a failing adapter *)
Theorem c10_src_clear_failed : forall ptab s i r sc,
  e_auto_save s = true -> e_adapter s = AScripted i (r :: sc) -> r <> RPass ->
  src_step s OClear = (upd_adapter s (AScripted i sc), Err EAdapter) /\
  (forall q, src_ask ptab (fst (src_step s OClear)) q = src_ask ptab s q).
Proof. exact src_c10_clear_failed. Qed.
Print Assumptions c10_src_clear_failed.

Theorem c10_src_save_failed : forall ptab s i r sc,
  e_adapter s = AScripted i (r :: sc) -> r <> RPass -> ad_is_filtered i = false ->
  src_step s OSave = (upd_adapter s (AScripted i sc), Err EAdapter) /\
  (forall q, src_ask ptab (fst (src_step s OSave)) q = src_ask ptab s q).
Proof. exact src_c10_save_failed. Qed.
Print Assumptions c10_src_save_failed.

(* an unscripted string adapter implements no incremental call: with auto-save on every management call fails and
   changes nothing *)
Theorem c10_src_string_adapter_rejects : forall ptab s o l f,
  is_mgmt o = true -> e_auto_save s = true -> e_adapter s = AString l f ->
  src_step s o = (upd_adapter s (AString l f), Err EAdapter) /\
  (forall q, src_ask ptab (fst (src_step s o)) q = src_ask ptab s q).
Proof. exact src_c10_string_adapter_rejects. Qed.
Print Assumptions c10_src_string_adapter_rejects.

(* load_policy / load_filtered_policy with the adapter failing before any rule, after all rules or between the
   policy and the grouping rules: Err(adapter); the previously loaded policy stays in force *)
Theorem c10_src_failed_load_keeps_policy : forall ptab s o i r sc,
  is_load o = true -> e_adapter s = AScripted i (r :: sc) -> r <> RPass ->
  exists i',
    src_step s o = (upd_adapter s (AScripted i' sc), Err EAdapter) /\
    ad_unmark i' = ad_unmark i /\
    (r = RFail \/ r = RRefuse -> i' = i) /\
    (forall q, q <> QIsFiltered -> src_ask ptab (fst (src_step s o)) q = src_ask ptab s q) /\
    (r = RFail \/ r = RRefuse -> forall q, src_ask ptab (fst (src_step s o)) q = src_ask ptab s q).
Proof. exact src_c10_failed_load_keeps_policy. Qed.
Print Assumptions c10_src_failed_load_keeps_policy.

(* for ANY adapter: a load that reports an adapter error or panics changed at most the adapter component *)
Theorem c10_src_load_not_ok_keeps_policy : forall ptab s o,
  is_load o = true ->
  snd (src_step s o) = Err EAdapter \/ snd (src_step s o) = Panic ->
  (exists ad, fst (src_step s o) = upd_adapter s ad) /\
  (forall q, q <> QIsFiltered -> src_ask ptab (fst (src_step s o)) q = src_ask ptab s q).
Proof. exact src_c10_load_not_ok_keeps_policy. Qed.
Print Assumptions c10_src_load_not_ok_keeps_policy.

(* non-vacuity, through the generated code: the hypotheses of c10_src_rejected_is_identity hold of ex_st [RFail]
   (Properties/C10.c10_hyps_satisfiable), every kind of refusal gives the stated answer, and a load failing between
   the policy and the grouping rules keeps the policy *)
Example c10_src_hyps_satisfiable :
  e_auto_save (ex_st [RFail]) = true /\
  (exists i, e_adapter (ex_st [RFail]) = AScripted i [RFail]) /\
  src_ask ex_ptab (ex_st [RFail]) ex_q1 = AnsDec (Ok true).
Proof. split; [vm_compute; reflexivity|]. split; [eexists; vm_compute; reflexivity|vm_compute; reflexivity]. Qed.
Example c10_src_rejected_run :
  map (fun r => outcome_eqb (snd (src_step (ex_st [r]) (OAdd s_p s_p [bob; data1; read])))
                            (if fail_resp r then Err EAdapter else Ok false))
      [RRefuse; RFail; RFailLate; RFailPartial] = [true; true; true; true].
Proof. vm_compute. reflexivity. Qed.
Example c10_src_failed_load_run :
  let s := ex_st [RFailPartial] in
  snd (src_step s OLoad) = Err EAdapter /\
  e_model (fst (src_step s OLoad)) = e_model s /\ e_fs (fst (src_step s OLoad)) = e_fs s /\
  src_ask ex_ptab (fst (src_step s OLoad)) ex_q1 = AnsDec (Ok true).
Proof. vm_compute. repeat split; reflexivity. Qed.
