(* rs2coq part 14: the translated REGEX-based functions of src/util.rs (Gen/RegexGen.v, generated from
   /repo/src/util.rs by tools/rs2coq_regex.py through the regex matcher of Gen/Regex.v) equal the hand models
   Model/Csv.v (parse_csv_line), Model/Expr.v (escape_assertion) and Proofs/EscEvalM.v (escape_eval).
   Statements only; the proofs are in PinChecks/PcRegexGen.v (lemmas in Proofs/RegexP.v, Proofs/RegexUtilP.v).
   is_ascii / nota / span are defined in Proofs/RegexUtilP.v and Proofs/RegexP.v. *)
From CV Require Import Model.Base Model.Csv Model.Expr.
From CV Require Import Gen.RustStr Gen.RustVec Gen.RustIter Gen.Regex Gen.RegexRt Gen.RegexGen.
From CV Require Import Proofs.RegexP Proofs.EscEvalM Proofs.RegexUtilP PinChecks.PcRegexGen.

Theorem regexgen_translated : gen_regex_translated = true.
Proof. exact gen_regex_translated_ok. Qed.
Print Assumptions regexgen_translated.

(* the three expressions are in the subset of Gen/Regex.v validated against the crate *)
Theorem regexgen_wf : rx_wf gen_esc_a && rx_wf gen_esc_c && rx_wf gen_esc_e = true.
Proof. exact gen_regex_wf. Qed.
Print Assumptions regexgen_wf.

(* general facts about the matcher: greedy star of a byte class = the span *)
Theorem regex_star_class_cut : forall neg items p, (forall x, class_mem neg items x = p x) ->
  forall k, (forall b x s c, p x = true -> k b (x :: s) c = None) ->
  forall b s c, mt (RStar true (RSet neg items)) b s c k = k (rev (fst (span p s)) ++ b) (snd (span p s)) c.
Proof. exact mt_star_class_cut. Qed.
Print Assumptions regex_star_class_cut.
Theorem regex_star_class_ok : forall neg items p, (forall x, class_mem neg items x = p x) ->
  forall k b s c r, k (rev (fst (span p s)) ++ b) (snd (span p s)) c = Some r ->
  mt (RStar true (RSet neg items)) b s c k = Some r.
Proof. exact mt_star_class_ok. Qed.
Print Assumptions regex_star_class_ok.
Example regex_star_class_cut_ex :
  mt (RCat (RStar true (RSet false [IDigit])) (RChar "."%char)) [] (T "12.x") [] kfin = Some (T ".21", T "x", []).
Proof. vm_compute. reflexivity. Qed.

(* ESC_C, tried at ANY position of ANY text, matches exactly the span of the hand scanner esc_c_match *)
Theorem regexgen_esc_c_match : forall s b,
  mt gen_esc_c b s [] kfin =
  Some (rev (fst (esc_c_match s)) ++ b, snd (esc_c_match s), [(1, fst (esc_c_match s))]).
Proof. exact esc_c_mt. Qed.
Print Assumptions regexgen_esc_c_match.

(* parse_csv_line: every text; `Some` = the translated function never panics (slice bounds, usize subtraction) *)
Theorem regexgen_parse_csv_line : forall l, gen_parse_csv_line l = Some (Csv.parse_csv_line l).
Proof. exact gen_parse_csv_line_ok. Qed.
Print Assumptions regexgen_parse_csv_line.
Example regexgen_parse_csv_line_ex :
  gen_parse_csv_line (T "alice, ""domain1, domain2"", data1 , action1") =
  Some (Some [T "alice"; T "domain1, domain2"; T "data1"; T "action1"]).
Proof. vm_compute. reflexivity. Qed.

(* escape_assertion: every ASCII text *)
Theorem regexgen_escape_assertion : forall s, forallb is_ascii s = true ->
  gen_escape_assertion s = escape_assertion s.
Proof. exact gen_escape_assertion_ok. Qed.
Print Assumptions regexgen_escape_assertion.
Example regexgen_escape_assertion_ex :
  forallb is_ascii (T "g(r.sub, p2.sub) && xr.obj == p.obj") = true /\
  gen_escape_assertion (T "g(r.sub, p2.sub) && xr.obj == p.obj") = T "g(r_sub, p2_sub) && xr.obj == p_obj".
Proof. vm_compute. split; reflexivity. Qed.

(* escape_eval: every ASCII text *)
Theorem regexgen_escape_eval : forall m, forallb is_ascii m = true ->
  gen_escape_eval m = escape_eval m.
Proof. exact gen_escape_eval_ok. Qed.
Print Assumptions regexgen_escape_eval.
Example regexgen_escape_eval_ex :
  forallb is_ascii (T "eval(p.sub_rule) && xeval(a) || eval(x") = true /\
  gen_escape_eval (T "eval(p.sub_rule) && xeval(a) || eval(x") = T "eval(escape_assertion(p.sub_rule)) && xeval(a) || eval(x".
Proof. vm_compute. split; reflexivity. Qed.

(* the hand model of escape_eval at a site *)
Theorem escape_eval_at_site : forall arg t, forallb (nota rparen) arg = true ->
  escape_eval (eval_open ++ arg ++ rparen :: t) =
  eval_open_esc ++ arg ++ rparen :: rparen :: esc_eval_go (EScan false) t.
Proof. exact escape_eval_site. Qed.
Print Assumptions escape_eval_at_site.
Example escape_eval_at_site_ex :
  forallb (nota rparen) (T "p.rule") = true /\
  escape_eval (eval_open ++ T "p.rule" ++ rparen :: T " && r.a") = T "eval(escape_assertion(p.rule)) && r.a".
Proof. vm_compute. split; reflexivity. Qed.
