(* C02 stated about the TRANSLATED SOURCE (Gen/EffectorGen.v, regenerated every run from src/effector.rs): for each of
   the four effect expressions (as TEXT, the way the enforcer passes them), every capacity and every sequence of effects,
   the translated new_stream / push_effect / next give the declarative combination, an early completion signal is final,
   and the stream is complete at capacity.  Statements only; proofs in Proofs/C02SrcP.v (composition of the C02 theorems
   with the translation theorems of PinChecks/PcEffectorGen.v). *)
From CV Require Import Model.Base Model.Effector Gen.EffectorGen Proofs.EffectorP PinChecks.PcEffectorGen Proofs.C02SrcP.

Theorem c02_src_result : forall (r : erule) (l : list eff), l <> [] ->
  exists s0, gen_new_stream (erule_text r) (length l) = Some s0 /\
    g_done (gen_run s0 l) = true /\ gen_next (gen_run s0 l) = Some (decl r l).
Proof. exact src_c02_result. Qed.
Print Assumptions c02_src_result.

Theorem c02_src_early_final : forall (r : erule) (c : nat) (l1 : list eff) (e : eff), c <> 0 ->
  exists s0, gen_new_stream (erule_text r) c = Some s0 /\
    (let s1 := fst (gen_push_all s0 l1) in
     g_done s1 = false -> snd (gen_push_effect s1 e) = true -> length l1 + 1 < c ->
     forall l2, decl r (l1 ++ e :: l2) = g_res (fst (gen_push_effect s1 e))).
Proof. exact src_c02_early_final. Qed.
Print Assumptions c02_src_early_final.

Theorem c02_src_cap_complete : forall (r : erule) (l : list eff), l <> [] ->
  exists s0, gen_new_stream (erule_text r) (length l) = Some s0 /\
    g_done (fst (gen_push_all s0 l)) = true /\ last (snd (gen_push_all s0 l)) false = true.
Proof. exact src_c02_cap_complete. Qed.
Print Assumptions c02_src_cap_complete.

(* non-vacuity: allow-and-deny on a mixed sequence, through the generated code *)
Example c02_src_example :
  option_map (fun s0 => gen_next (gen_run s0 [Indet; Allow; Deny; Allow; Indet]))
             (gen_new_stream (erule_text AllowAndDeny) 5) = Some (Some false).
Proof. vm_compute. reflexivity. Qed.
