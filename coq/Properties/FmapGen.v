(* rs2coq part 16: the regex-based matching functions of src/model/function_map.rs - regex_match, key_match2,
   key_match3, key_match4, key_match5, key_get2, key_get3 - translated COMPLETELY (Gen/FmapGen.v; the run-time
   `Regex::new(&format!(..))` is Gen/RegexSyntax.v rx_compile, the TRUSTED restatement of the crate's parser, validated
   against the real crate by Gen/RegexSyntaxExamples.v) equal the hand model Model/PathMatch.v wherever the model
   answers.  Statements only; proofs in PinChecks/PcFmapGen.v, lemmas in Proofs/FmapP.v.
   gen_<f>_r : fres R  (FRet v / FPanic = the source panics / FOutside = syntax outside Gen/RegexSyntax.v);
   gen_<f> = fres_opt (gen_<f>_r ..) : option R.
   Scope: Gen/Regex.v restates the crate on ASCII haystacks; the statements themselves hold for all texts.

   Two errors of the hand MODEL found by this part (confirmed by running /repo through a tiny cargo project) have
   been repaired in Model/PathMatch.v, so that the statements below are unconditional:
     key_match4          the model now answers None where the source panics with "number of tokens is not equal to
                         number of values" (key_match4("/a/b", "/([^/]+)/{id}"): the pattern brings its own group);
     regex_match_words   an anchored BARE alternation (`^GET|POST$`, read by the crate as `(^GET)|(POST$)`:
                         regex_match("GETx", "^GET|POST$") = true) is now outside the model's class. *)
From CV Require Import Model.Base Model.PathMatch Model.SpecC15.
From CV Require Import Gen.Regex Gen.RegexSyntax Gen.FmapRt Gen.FmapGen.
From CV Require Import Proofs.FmapP PinChecks.PcFmapGen.

Theorem fmapgen_translated : gen_fmap_translated = true.
Proof. exact gen_fmap_translated_ok. Qed.
Print Assumptions fmapgen_translated.
(* the translator's regex-literal parser and Gen/RegexSyntax.v agree on every regex literal of the file *)
Theorem fmapgen_literals : map (fun p => rx_parse (fst p)) gen_fmap_literals = map (fun p => Some (snd p)) gen_fmap_literals.
Proof. exact gen_fmap_literals_ok. Qed.
Print Assumptions fmapgen_literals.

(* ---- the parser and the matcher on the model's class *)
Theorem fmapgen_rx_compile_class : forall t atoms, parse_regex t = Some atoms -> rx_compile t = RxOk (whole_rx atoms).
Proof. exact rx_compile_atoms. Qed.
Print Assumptions fmapgen_rx_compile_class.
Example fmapgen_rx_compile_class_ex :
  parse_regex (T "^/a/([^/]+?)_x/\{/.*$") = Some [AByte "/"; AByte "a"; AByte "/"; ASeg true true; AByte "_"; AByte "x";
                                                    AByte "/"; AByte "{"; AByte "/"; AAny]%char.
Proof. vm_compute. reflexivity. Qed.
Theorem fmapgen_rx_is_match_class : forall p k, rx_is_match (whole_rx p) k = is_some (amatch p k).
Proof. exact rx_is_match_whole. Qed.
Print Assumptions fmapgen_rx_is_match_class.

(* ---- regex_match *)
Theorem fmapgen_regex_match : forall k t atoms, parse_regex t = Some atoms ->
  gen_regex_match k t = Some (is_some (amatch atoms k)).
Proof. exact fm_regex_match_opt. Qed.
Print Assumptions fmapgen_regex_match.
Example fmapgen_regex_match_ex :
  parse_regex (T "^/foo/[^/]+$") <> None /\ gen_regex_match (T "/foo/bar") (T "^/foo/[^/]+$") = Some true.
Proof. split; [discriminate|vm_compute; reflexivity]. Qed.
Theorem fmapgen_regex_match_reject : forall k t, rx_compile t = RxBad RxReject -> gen_regex_match_r k t = FPanic.
Proof. exact fm_regex_match_reject. Qed.
Print Assumptions fmapgen_regex_match_reject.
Example fmapgen_regex_match_reject_ex : rx_compile (T "^/foo/{id}$") = RxBad RxReject.
Proof. vm_compute. reflexivity. Qed.
(* against the model of regex_match (regex_match_words: alternatives of literal words, optionally anchored) *)
Theorem fmapgen_regex_match_words : forall k pat b,
  regex_match_words k pat = Some b -> gen_regex_match k pat = Some b.
Proof. exact fm_regex_match_words_opt. Qed.
Print Assumptions fmapgen_regex_match_words.
Example fmapgen_regex_match_words_ex :
  regex_match_words (T "POST") (T "^(GET|POST)$") = Some true /\ regex_match_words (T "xPOSTy") (T "(GET)|(POST)") = Some true /\
  regex_match_words (T "GETx") (T "^GET") = Some true /\ regex_match_words (T "xPOST") (T "POST$") = Some true /\
  regex_match_words (T "GET") (T "^((GET)|(POST))$") = Some true /\ regex_match_words (T "PUT") (T "GET|POST") = Some false.
Proof. repeat split; vm_compute; reflexivity. Qed.
(* an anchored bare alternation is outside the model's class; the source reads it as (^GET)|(POST$) *)
Example fmapgen_regex_match_words_bare_ex :
  regex_match_words (T "GETx") (T "^GET|POST$") = None /\ gen_regex_match (T "GETx") (T "^GET|POST$") = Some true /\
  regex_match_words (T "xPOST") (T "^GET|POST") = None /\ gen_regex_match (T "xPOST") (T "^GET|POST") = Some true.
Proof. repeat split; vm_compute; reflexivity. Qed.

(* ---- key_match2 / key_match3 / key_match5: the rewriting for ALL patterns, the model wherever it answers *)
Theorem fmapgen_key_match2_pipeline : forall k1 k2, gen_key_match2_r k1 k2 = gen_regex_match_r k1 (rewrite_km2 k2).
Proof. exact fm_key_match2_pipeline. Qed.
Print Assumptions fmapgen_key_match2_pipeline.
Theorem fmapgen_key_match3_pipeline : forall k1 k2, gen_key_match3_r k1 k2 = gen_regex_match_r k1 (rewrite_km3 k2).
Proof. exact fm_key_match3_pipeline. Qed.
Print Assumptions fmapgen_key_match3_pipeline.
Theorem fmapgen_key_match5_pipeline : forall k1 k2,
  gen_key_match5_r k1 k2 = gen_regex_match_r (cut_query k1) (rewrite_km5 k2).
Proof. exact fm_key_match5_pipeline. Qed.
Print Assumptions fmapgen_key_match5_pipeline.

Theorem fmapgen_key_match2 : forall k1 k2 b, key_match2 k1 k2 = Some b -> gen_key_match2 k1 k2 = Some b.
Proof. exact fm_key_match2_opt. Qed.
Print Assumptions fmapgen_key_match2.
Example fmapgen_key_match2_ex : key_match2 (T "/foo/baz/x") (T "/foo/:bar/*") = Some true.
Proof. vm_compute. reflexivity. Qed.
Theorem fmapgen_key_match3 : forall k1 k2 b, key_match3 k1 k2 = Some b -> gen_key_match3 k1 k2 = Some b.
Proof. exact fm_key_match3_opt. Qed.
Print Assumptions fmapgen_key_match3.
Example fmapgen_key_match3_ex : key_match3 (T "/foo/baz/foo") (T "/foo/{bar}/foo") = Some true.
Proof. vm_compute. reflexivity. Qed.
Theorem fmapgen_key_match5 : forall k1 k2 b, key_match5 k1 k2 = Some b -> gen_key_match5 k1 k2 = Some b.
Proof. exact fm_key_match5_opt. Qed.
Print Assumptions fmapgen_key_match5.
Example fmapgen_key_match5_ex : key_match5 (T "/parent/child1?status=1") (T "/parent/{x}") = Some true.
Proof. vm_compute. reflexivity. Qed.

(* ---- key_get2 / key_get3 *)
Theorem fmapgen_key_get2 : forall k1 k2 v t, key_get2 k1 k2 v = Some t -> gen_key_get2 k1 k2 v = Some t.
Proof. exact fm_key_get2_opt. Qed.
Print Assumptions fmapgen_key_get2.
Example fmapgen_key_get2_ex : key_get2 (T "/myid/using/myresid") (T "/:id/using/:resId") (T "resId") = Some (T "myresid").
Proof. vm_compute. reflexivity. Qed.
Theorem fmapgen_key_get3 : forall k1 k2 v t, key_get3 k1 k2 v = Some t -> gen_key_get3 k1 k2 v = Some t.
Proof. exact fm_key_get3_opt. Qed.
Print Assumptions fmapgen_key_get3.
Example fmapgen_key_get3_ex :
  key_get3 (T "/api/group1_group_name/project1_admin/info") (T "/api/{g}_{gn}/{proj}_admin/info") (T "gn") = Some (T "group_name").
Proof. vm_compute. reflexivity. Qed.

(* ---- key_match4: the model wherever it answers; on the whole class the option view IS the model (None = the
        panic of the source on its token count) *)
Theorem fmapgen_key_match4 : forall k1 k2 b, key_match4 k1 k2 = Some b -> gen_key_match4 k1 k2 = Some b.
Proof. exact fm_key_match4_opt. Qed.
Print Assumptions fmapgen_key_match4.
Example fmapgen_key_match4_ex :
  key_match4 (T "/parent/123/child/456") (T "/parent/{id}/child/{id}") = Some false /\
  gen_key_match4 (T "/parent/123/child/456") (T "/parent/{id}/child/{id}") = Some false.
Proof. split; vm_compute; reflexivity. Qed.
Theorem fmapgen_key_match4_model : forall k1 k2 atoms, parse_regex (fst (rewrite_km4 k2)) = Some atoms ->
  gen_key_match4 k1 k2 = key_match4 k1 k2.
Proof. exact fm_key_match4_model. Qed.
Print Assumptions fmapgen_key_match4_model.
Example fmapgen_key_match4_model_ex :
  parse_regex (fst (rewrite_km4 (T "/([^/]+)/{id}"))) <> None /\ key_match4 (T "/a/b") (T "/([^/]+)/{id}") = None /\
  gen_key_match4_r (T "/a/b") (T "/([^/]+)/{id}") = FPanic /\ key_match4 (T "/a") (T "/([^/]+)/{id}") = Some false.
Proof. repeat split; try discriminate; vm_compute; reflexivity. Qed.
Theorem fmapgen_key_match4_panics : forall k1 k2 atoms cs,
  parse_regex (fst (rewrite_km4 k2)) = Some atoms -> amatch atoms k1 = Some cs ->
  length (snd (rewrite_km4 k2)) <> ncaps atoms -> gen_key_match4_r k1 k2 = FPanic.
Proof. exact fm_key_match4_panics. Qed.
Print Assumptions fmapgen_key_match4_panics.
Example fmapgen_key_match4_panics_ex : gen_key_match4_r (T "/a/b") (T "/([^/]+)/{id}") = FPanic.
Proof. vm_compute. reflexivity. Qed.

(* ---- where the model answers None: a `{` the crate refuses *)
Theorem fmapgen_rx_compile_lbrace : forall f pre atoms tl,
  parse_atoms f pre = Some atoms -> lex_lbrace (hd_error tl) = RxReject ->
  rx_compile ("^"%char :: pre ++ lbrace :: tl) = RxBad RxReject.
Proof. exact rx_compile_lbrace. Qed.
Print Assumptions fmapgen_rx_compile_lbrace.
Theorem fmapgen_key_match2_lbrace : forall k1 k2 f pre atoms tl,
  mat_b false (slash_star k2) = pre ++ lbrace :: tl -> parse_atoms f pre = Some atoms ->
  lex_lbrace (hd_error tl) = RxReject -> gen_key_match2_r k1 k2 = FPanic.
Proof. exact fm_key_match2_lbrace. Qed.
Print Assumptions fmapgen_key_match2_lbrace.
Example fmapgen_key_match2_lbrace_ex :
  mat_b false (slash_star (T "/foo/{id}")) = T "/foo/" ++ lbrace :: T "id}" /\ parse_atoms 9 (T "/foo/") <> None /\
  lex_lbrace (hd_error (T "id}")) = RxReject /\ key_match2 (T "/foo/1") (T "/foo/{id}") = None /\
  gen_key_match2_r (T "/foo/1") (T "/foo/{id}") = FPanic.
Proof. repeat split; try discriminate; vm_compute; reflexivity. Qed.
(* .. stated on the pattern itself: plain bytes without a colon, then `{` and a byte that cannot start a counted
   repetition *)
Theorem fmapgen_key_match2_brace_panics : forall k1 w d r, forallb km2_plain w = true -> Ascii.eqb d colon = false ->
  lex_lbrace (Some d) = RxReject -> gen_key_match2_r k1 (w ++ lbrace :: d :: r) = FPanic.
Proof. exact fm_key_match2_brace_panics. Qed.
Print Assumptions fmapgen_key_match2_brace_panics.
Example fmapgen_key_match2_brace_panics_ex :
  forallb km2_plain (T "/foo/") = true /\ lex_lbrace (Some "i"%char) = RxReject /\
  T "/foo/" ++ lbrace :: "i"%char :: T "d}" = T "/foo/{id}".
Proof. repeat split; vm_compute; reflexivity. Qed.
Theorem fmapgen_key_match3_lbrace : forall k1 k2 f pre atoms tl,
  mat_p 0 (slash_star k2) = pre ++ lbrace :: tl -> parse_atoms f pre = Some atoms ->
  lex_lbrace (hd_error tl) = RxReject -> gen_key_match3_r k1 k2 = FPanic.
Proof. exact fm_key_match3_lbrace. Qed.
Print Assumptions fmapgen_key_match3_lbrace.
Example fmapgen_key_match3_lbrace_ex : gen_key_match3_r (T "/a") (T "/{id") = FPanic.
Proof. vm_compute. reflexivity. Qed.
Theorem fmapgen_key_match5_lbrace : forall k1 k2 f pre atoms tl,
  fst (brace_lazy ns_plus 0 (slash_star k2)) = pre ++ lbrace :: tl -> parse_atoms f pre = Some atoms ->
  lex_lbrace (hd_error tl) = RxReject -> gen_key_match5_r k1 k2 = FPanic.
Proof. exact fm_key_match5_lbrace. Qed.
Print Assumptions fmapgen_key_match5_lbrace.
Theorem fmapgen_key_get2_reject : forall k1 k2 v, rx_compile (fst (rewrite_kg2 k2)) = RxBad RxReject ->
  gen_key_get2_r k1 k2 v = FRet [].
Proof. exact fm_key_get2_reject. Qed.
Print Assumptions fmapgen_key_get2_reject.
Example fmapgen_key_get2_reject_ex :
  rx_compile (fst (rewrite_kg2 (T "/{x"))) = RxBad RxReject /\ gen_key_get2_r (T "/a") (T "/{x") (T "x") = FRet [].
Proof. split; vm_compute; reflexivity. Qed.
Theorem fmapgen_key_get3_reject : forall k1 k2 v, rx_compile (fst (rewrite_kg3 k2)) = RxBad RxReject ->
  gen_key_get3_r k1 k2 v = FPanic.
Proof. exact fm_key_get3_reject. Qed.
Print Assumptions fmapgen_key_get3_reject.
Example fmapgen_key_get3_reject_ex : rx_compile (fst (rewrite_kg3 (T "/(x"))) = RxBad RxReject.
Proof. vm_compute. reflexivity. Qed.
Theorem fmapgen_key_match4_reject : forall k1 k2, rx_compile (fst (rewrite_km4 k2)) = RxBad RxReject ->
  gen_key_match4_r k1 k2 = FRet false.
Proof. exact fm_key_match4_reject. Qed.
Print Assumptions fmapgen_key_match4_reject.
Example fmapgen_key_match4_reject_ex : rx_compile (fst (rewrite_km4 (T "/{i/d}"))) = RxBad RxReject.
Proof. vm_compute. reflexivity. Qed.

(* ---- on the documented grammar: the SOURCE satisfies the segment-wise specification *)
Theorem fmapgen_key_match2_spec : forall k p, grammar p = true -> gen_key_match2_r k (render2 p) = FRet (spec_km p k).
Proof. exact fm_key_match2_spec. Qed.
Print Assumptions fmapgen_key_match2_spec.
Theorem fmapgen_key_match3_spec : forall k p, grammar p = true -> gen_key_match3_r k (render3 p) = FRet (spec_km p k).
Proof. exact fm_key_match3_spec. Qed.
Print Assumptions fmapgen_key_match3_spec.
Theorem fmapgen_key_match4_spec : forall k p, grammar p = true -> gen_key_match4_r k (render3 p) = FRet (spec_km4 p k).
Proof. exact fm_key_match4_spec. Qed.
Print Assumptions fmapgen_key_match4_spec.
Theorem fmapgen_key_match5_spec : forall k p, grammar p = true -> gen_key_match5_r k (render3 p) = FRet (spec_km5 p k).
Proof. exact fm_key_match5_spec. Qed.
Print Assumptions fmapgen_key_match5_spec.
Theorem fmapgen_key_get2_spec : forall k p v, grammar p = true -> gen_key_get2_r k (render2 p) v = FRet (spec_get p k v).
Proof. exact fm_key_get2_spec. Qed.
Print Assumptions fmapgen_key_get2_spec.
Theorem fmapgen_key_get3_spec : forall k p v, grammar p = true -> gen_key_get3_r k (render3 p) v = FRet (spec_get p k v).
Proof. exact fm_key_get3_spec. Qed.
Print Assumptions fmapgen_key_get3_spec.
Example fmapgen_spec_ex :
  grammar [SLit (T "parent"); SNamed (T "id"); SLit (T "child"); SNamed (T "id")] = true /\
  render3 [SLit (T "parent"); SNamed (T "id"); SLit (T "child"); SNamed (T "id")] = T "/parent/{id}/child/{id}".
Proof. split; vm_compute; reflexivity. Qed.
