(* C05 — Role graph always reflects the stored grouping rules.
   Only statements closed by `exact`; proofs live in Proofs/C05*.v.
   Vocabulary:
     links_of md d      (Model/SpecC05.v) the links the stored grouping rules of
                        ALL g definitions stand for in domain d;
     RoleSync s         (Proofs/C05Sync.v) well-formed manager, edge set of every
                        domain = links_of, every g handle and every g function
                        points at the enforcer's current manager;
     side_ok s          = g_exact && defs_disjoint (Model/SpecC05.v);
     hist_ok s ops      every op is allowed (not enable_auto_build(false), not a
                        set_model whose load fails) and every reached state
                        satisfies side_ok;
     SyncInv s          = RoleSync s /\ auto-build on /\ side_ok s. *)
From CV Require Import Model.Base Model.Effector Model.RoleGraph Model.Expr Model.Enforce Model.Engine
     Model.SpecC05.
From CV Require Import Proofs.BaseP Proofs.RoleGraphP Proofs.C05Links Proofs.C05Sync Proofs.C05Steps
     Proofs.C05Load Proofs.C05Main Proofs.C05Rebuild Proofs.C05Err Proofs.C05P.
From Coq Require Import Relations.

(* ---- (1) what the specification link set is ---- *)
(* (x, y) is a specified link of domain d iff some stored rule r of some g
   definition has r[0] = x, r[1] = y, x <> y, and is linked in d: the default
   domain for a 2-underscore definition, r[2] for a 3-underscore one *)
Theorem c05_links_of_spec : forall md d x y,
  In (x, y) (links_of md d) <->
  exists k a r, In (k, a) (gsec md) /\ In r (a_policy a) /\
    x = nth 0 r [] /\ y = nth 1 r [] /\ x <> y /\
    dom_key (rule_dom (count_us (a_value a)) r) = dom_key d.
Proof. exact links_of_spec. Qed.
Print Assumptions c05_links_of_spec.

(* ---- (2) the invariant, unfolded ---- *)
Theorem c05_rolesync_unfold : forall s, RoleSync s <->
  ((wf (f_rm (e_fs s)) /\
    (forall d p, In p (edges_of (f_rm (e_fs s)) d) <-> In p (links_of (e_model s) d)) /\
    (forall k a, In (k, a) (gsec (e_model s)) -> a_handle a = HCur)) /\
   (forall k a, In (k, a) (gsec (e_model s)) ->
      find_gfun (k, count_us (a_value a)) (f_gfuns (e_fs s)) = Some HCur)).
Proof. intros s. reflexivity. Qed.
Print Assumptions c05_rolesync_unfold.

(* ---- (3) preservation ---- *)
(* one management / reload / reconfiguration call of ANY kind keeps the role
   graph in sync, whether it is accepted, refused, fails or reports no change *)
Theorem c05_step : forall s o,
  RoleSync s -> e_auto_build s = true ->
  side_ok s = true -> side_ok (fst (step s o)) = true ->
  op_allowed s o = true ->
  RoleSync (fst (step s o)).
Proof. exact step_sync. Qed.
Print Assumptions c05_step.

(* only enable_auto_build_role_links changes the auto-build flag *)
Theorem c05_step_auto : forall s o, e_auto_build s = true -> op_allowed s o = true ->
  e_auto_build (fst (step s o)) = true.
Proof. exact step_auto. Qed.
Print Assumptions c05_step_auto.

(* histories *)
Theorem c05_run_ops : forall ops s, SyncInv s -> hist_ok s ops = true -> SyncInv (run_ops s ops).
Proof. exact run_ops_sync. Qed.
Print Assumptions c05_run_ops.

(* the initial load of Enforcer::new establishes the invariant *)
Theorem c05_initial : forall d a w,
  is_ok (snd (new_enforcer d a w)) = true -> ad_is_filtered a = false ->
  side_ok (fst (new_enforcer d a w)) = true ->
  SyncInv (fst (new_enforcer d a w)).
Proof. exact new_enforcer_inv. Qed.
Print Assumptions c05_initial.

Theorem c05_history_sync : forall d a w ops,
  is_ok (snd (new_enforcer d a w)) = true -> ad_is_filtered a = false ->
  side_ok (fst (new_enforcer d a w)) = true ->
  hist_ok (fst (new_enforcer d a w)) ops = true ->
  SyncInv (run_ops (fst (new_enforcer d a w)) ops).
Proof. exact history_sync. Qed.
Print Assumptions c05_history_sync.

(* models with exactly one g definition need no disjointness condition *)
Theorem c05_single_def_disjoint : forall md, single_def md = true -> defs_disjoint md = true.
Proof. exact single_def_disjoint. Qed.
Theorem c05_step_single : forall s o,
  RoleSync s -> e_auto_build s = true ->
  single_def (e_model s) = true -> single_def (e_model (fst (step s o))) = true ->
  g_exact (e_model s) = true -> g_exact (e_model (fst (step s o))) = true ->
  op_allowed s o = true ->
  RoleSync (fst (step s o)).
Proof. exact step_sync_single. Qed.
Print Assumptions c05_step_single.
Theorem c05_run_ops_single : forall ops s,
  RoleSync s -> e_auto_build s = true -> g_exact (e_model s) = true -> single_def (e_model s) = true ->
  hist_ok_single s ops = true -> RoleSync (run_ops s ops).
Proof. exact run_ops_sync_single. Qed.
Print Assumptions c05_run_ops_single.
Example c05_ex_rbac_single : hist_ok_single (ex_init rbac_defs) ex_rbac_ops = true.
Proof. vm_compute. reflexivity. Qed.

(* under the invariant the role-link update after an accepted change never
   fails: the only error any call except save_policy can report is the
   adapter's (never ERbac / EPolicy / EModel from link maintenance) *)
Theorem c05_no_link_error : forall s o, SyncInv s -> side_ok (fst (step s o)) = true ->
  op_allowed s o = true -> o <> OSave ->
  forall e, snd (step s o) = Err e -> e = EAdapter.
Proof. exact step_no_link_error. Qed.
Print Assumptions c05_no_link_error.

(* the three kinds of link-update failure, at the level of link_rules *)
Theorem c05_short_rule_errs : forall cnt ins m r, length r < cnt ->
  link_rule cnt ins m r = (m, LErr EPolicy).
Proof. exact link_rule_short. Qed.
Theorem c05_unknown_delete_keeps_graph : forall m a b d,
  snd (delete_link m a b d) = false -> fst (delete_link m a b d) = m.
Proof. exact delete_link_false. Qed.

(* ---- the side conditions are necessary ---- *)
(* (a) D25: a stored rule longer than its definition *)
Theorem c05_g_exact_refuted :
  RoleSync d25_state /\ e_auto_build d25_state = true /\
  defs_disjoint (e_model d25_state) = true /\
  defs_disjoint (e_model (fst (step d25_state d25_op))) = true /\
  op_allowed d25_state d25_op = true /\
  g_exact (e_model d25_state) = false /\
  snd (step d25_state d25_op) = Ok true /\
  ~ RoleSync (fst (step d25_state d25_op)) /\
  roles_for_user (fst (step d25_state d25_op)) (T "a") None = [] /\
  roles_for_user (fst (step (fst (step d25_state d25_op)) OBuildRoleLinks)) (T "a") None = [T "b"].
Proof. exact g_exact_refuted. Qed.
Print Assumptions c05_g_exact_refuted.

(* (a') a rule shorter than its definition: stored, call fails with EPolicy *)
Theorem c05_g_exact_post_refuted :
  SyncInv (ex_init rbac_defs) /\ op_allowed (ex_init rbac_defs) short_op = true /\
  g_exact (e_model (fst (step (ex_init rbac_defs) short_op))) = false /\
  snd (step (ex_init rbac_defs) short_op) = Err EPolicy /\
  m_has_policy (e_model (fst (step (ex_init rbac_defs) short_op))) g g [T "a"] = true /\
  ~ RoleSync (fst (step (ex_init rbac_defs) short_op)) /\
  snd (step (fst (step (ex_init rbac_defs) short_op)) OBuildRoleLinks) = Err EPolicy.
Proof. exact g_exact_post_refuted. Qed.
Print Assumptions c05_g_exact_post_refuted.

(* (b) D7: two g definitions asserting the same link through the shared manager *)
Theorem c05_defs_disjoint_refuted :
  RoleSync d7_state /\ e_auto_build d7_state = true /\
  g_exact (e_model d7_state) = true /\
  g_exact (e_model (fst (step d7_state d7_op))) = true /\
  op_allowed d7_state d7_op = true /\
  defs_disjoint (e_model d7_state) = false /\
  snd (step d7_state d7_op) = Ok true /\
  ~ RoleSync (fst (step d7_state d7_op)) /\
  m_has_policy (e_model (fst (step d7_state d7_op))) g g [T "a"; T "b"] = true /\
  has_link 10 (f_rm (e_fs (fst (step d7_state d7_op)))) (T "a") (T "b") None = false /\
  has_link 10 (f_rm (e_fs (fst (step (fst (step d7_state d7_op)) OBuildRoleLinks)))) (T "a") (T "b") None = true.
Proof. exact defs_disjoint_refuted. Qed.
Print Assumptions c05_defs_disjoint_refuted.

(* set_model whose load fails installs the new model but keeps the old graph *)
Theorem c05_set_model_failed_load_refuted :
  SyncInv sm_state /\ op_allowed sm_state sm_op = false /\
  snd (step sm_state sm_op) = Err EAdapter /\
  side_ok (fst (step sm_state sm_op)) = true /\
  ~ RoleSync (fst (step sm_state sm_op)) /\
  m_get_policy (e_model (fst (step sm_state sm_op))) g g = [] /\
  ask no_ptab (fst (step sm_state sm_op)) (QHasLink (T "a") (T "b") None) = AnsBool true.
Proof. exact set_model_failed_load_refuted. Qed.
Print Assumptions c05_set_model_failed_load_refuted.

(* auto-build off and on again: stale graph, remove then fails with ERbac *)
Theorem c05_auto_build_off_stale :
  side_ok stale_state = true /\ e_auto_build stale_state = true /\ ~ RoleSync stale_state /\
  snd (step stale_state (ORemove g g [T "a"; T "b"])) = Err ERbac /\
  m_has_policy (e_model (fst (step stale_state (ORemove g g [T "a"; T "b"])))) g g [T "a"; T "b"] = false.
Proof. exact auto_build_off_stale. Qed.
Print Assumptions c05_auto_build_off_stale.

(* ---- (4) an explicit rebuild is a no-op on observations ---- *)
(* in a synced state build_role_links succeeds, keeps the model, yields the
   same edge set in every domain, the same direct roles / users / has-role
   answers and the same implicit roles (as sets); below the hierarchy limit
   also the same has_link answers and the same decisions *)
Theorem c05_rebuild_noop : forall ptab s, RoleSync s -> g_exact (e_model s) = true ->
  snd (step s OBuildRoleLinks) = Ok true /\
  RoleSync (fst (step s OBuildRoleLinks)) /\
  same_observations ptab s (fst (step s OBuildRoleLinks)) /\
  (shallow (f_rm_max (e_fs s)) (f_rm (e_fs s)) ->
   same_decisions ptab s (fst (step s OBuildRoleLinks))).
Proof. exact rebuild_noop. Qed.
Print Assumptions c05_rebuild_noop.

(* every query of the observation interface (set-valued answers as sets) *)
Theorem c05_rebuild_ask : forall ptab s, RoleSync s -> g_exact (e_model s) = true ->
  shallow (f_rm_max (e_fs s)) (f_rm (e_fs s)) ->
  forall q, ans_eq (ask ptab (fst (step s OBuildRoleLinks)) q) (ask ptab s q).
Proof. exact rebuild_ask. Qed.
Print Assumptions c05_rebuild_ask.

(* the property as phrased: after ANY history with auto-build on *)
Theorem c05_history : forall ptab d a w ops,
  is_ok (snd (new_enforcer d a w)) = true -> ad_is_filtered a = false ->
  side_ok (fst (new_enforcer d a w)) = true ->
  hist_ok (fst (new_enforcer d a w)) ops = true ->
  let s := run_ops (fst (new_enforcer d a w)) ops in
  let s' := fst (step s OBuildRoleLinks) in
  snd (step s OBuildRoleLinks) = Ok true /\
  RoleSync s' /\
  same_observations ptab s s' /\
  (shallow (f_rm_max (e_fs s)) (f_rm (e_fs s)) ->
   same_decisions ptab s s' /\ forall q, ans_eq (ask ptab s' q) (ask ptab s q)).
Proof. exact C05P.c05_history. Qed.
Print Assumptions c05_history.

Theorem c05_from_inv : forall ptab s0 ops, SyncInv s0 -> hist_ok s0 ops = true ->
  let s := run_ops s0 ops in
  let s' := fst (step s OBuildRoleLinks) in
  snd (step s OBuildRoleLinks) = Ok true /\
  SyncInv s' /\
  same_observations ptab s s' /\
  (shallow (f_rm_max (e_fs s)) (f_rm (e_fs s)) ->
   same_decisions ptab s s' /\ forall q, ans_eq (ask ptab s' q) (ask ptab s q)).
Proof. exact C05P.c05_from_inv. Qed.
Print Assumptions c05_from_inv.

(* the work-list of get_implicit_roles_for_user computes exactly the names
   reachable in one or more steps; the model's fuel is adequate (no restriction) *)
Theorem c05_implicit_roles_spec : forall s n d x, wf (f_rm (e_fs s)) ->
  In x (implicit_roles s n d) <-> clos_trans text (Edge (f_rm (e_fs s)) d) n x.
Proof. exact implicit_roles_spec. Qed.
Print Assumptions c05_implicit_roles_spec.

(* below the limit has_link is a function of the edge SET *)
Theorem c05_has_link_equiv : forall maxd m m' a b d, wf m -> wf m' -> edges_equiv m m' ->
  shallow maxd m -> has_link maxd m' a b d = has_link maxd m a b d.
Proof. exact has_link_equiv. Qed.
Print Assumptions c05_has_link_equiv.

(* at / beyond the limit it is not: the invariant and both side conditions
   hold, yet a rebuild flips has_link and a decision (two g definitions,
   limit 2, chain of length 2) *)
Theorem c05_deep_rebuild_refuted :
  SyncInv deep_state /\
  shallow_b (f_rm_max (e_fs deep_state)) (f_rm (e_fs deep_state)) = false /\
  ask no_ptab deep_state (QHasLink (T "a") (T "d") None) = AnsBool false /\
  ask no_ptab (fst (step deep_state OBuildRoleLinks)) (QHasLink (T "a") (T "d") None) = AnsBool true /\
  enforce no_ptab deep_state deep_req = Ok false /\
  enforce no_ptab (fst (step deep_state OBuildRoleLinks)) deep_req = Ok true.
Proof. exact deep_rebuild_refuted. Qed.
Print Assumptions c05_deep_rebuild_refuted.

(* the decidable versions mean what they say *)
Theorem c05_role_sync_b_sound : forall s, role_sync_b s = true -> RoleSync s.
Proof. exact role_sync_b_sound. Qed.
Theorem c05_shallow_b_sound : forall maxd m, shallow_b maxd m = true -> shallow maxd m.
Proof. exact shallow_b_sound. Qed.
Print Assumptions c05_role_sync_b_sound.
Print Assumptions c05_shallow_b_sound.

(* ---- (5) the executable trace predicate accepts the model ---- *)
Theorem c05_pred_holds : forall ptab s qs, RoleSync s -> g_exact (e_model s) = true ->
  shallow (f_rm_max (e_fs s)) (f_rm (e_fs s)) ->
  c05_pred (map (ask ptab s) qs) (map (ask ptab (fst (step s OBuildRoleLinks))) qs) = true.
Proof. exact c05_pred_rebuild. Qed.
Print Assumptions c05_pred_holds.

(* ---- non-vacuity ---- *)
(* RBAC model: cycle a->b->c->a, diamond a->{b,d}->e; 30 operations mixing
   adds, a batch with a duplicate (rejected), a duplicate add, a reflexive rule,
   removal of absent rules, filtered removals, RBAC helpers, save, load,
   load_filtered, set_role_manager, build_role_links, clear_policy, set_adapter,
   set_model *)
Example c05_ex_rbac : SyncInv (run_ops (ex_init rbac_defs) ex_rbac_ops).
Proof. exact ex_rbac_sync. Qed.
Example c05_ex_rbac_b : role_sync_b (run_ops (ex_init rbac_defs) ex_rbac_ops) = true.
Proof. exact ex_rbac_sync_b. Qed.
Example c05_ex_rbac_mid_links :
  links_of (e_model ex_rbac_mid) None =
  [(T "a", T "b"); (T "b", T "c"); (T "c", T "a"); (T "a", T "d"); (T "b", T "e");
   (T "e", T "admin"); (T "u", T "a")].
Proof. exact ex_rbac_mid_links. Qed.
Example c05_ex_rbac_mid : SyncInv ex_rbac_mid /\
  shallow (f_rm_max (e_fs ex_rbac_mid)) (f_rm (e_fs ex_rbac_mid)).
Proof. split; [exact ex_rbac_mid_sync|exact ex_rbac_mid_shallow]. Qed.
Example c05_ex_rbac_mid_decision :
  enforce no_ptab ex_rbac_mid [VStr (T "u"); VStr (T "data"); VStr (T "read")] = Ok true /\
  enforce no_ptab ex_rbac_mid [VStr (T "d"); VStr (T "data"); VStr (T "read")] = Ok false.
Proof. exact ex_rbac_mid_decision. Qed.
(* a model with domains (including a domain literally named DEFAULT) *)
Example c05_ex_dom : SyncInv (run_ops (ex_init dom_defs) ex_dom_ops).
Proof. exact ex_dom_sync. Qed.
Example c05_ex_dom_links :
  links_of (e_model (run_ops (ex_init dom_defs) (firstn 5 ex_dom_ops))) (Some (T "d1")) =
  [(T "alice", T "admin"); (T "admin", T "root"); (T "carol", T "admin")].
Proof. exact ex_dom_mid_links. Qed.
(* two definitions g, g2 holding disjoint links *)
Example c05_ex_two : SyncInv (run_ops (ex_init two_defs) ex_two_ops).
Proof. exact ex_two_sync. Qed.
