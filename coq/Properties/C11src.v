(* C11 stated about the TRANSLATED SOURCE.  The generated functions:
   - `src_cenforce` = gen_cenforce of Gen/CachedGen.v, regenerated every run from src/cached_enforcer.rs
     (CachedEnforcer::enforce, enforce_mut, enforce_with_context and their private_enforce / private_enforce_with_context);
   - `src_cstep`: the fourteen delegating methods of src/cached_enforcer.rs translated in Gen/CachedGen.v (set_model,
     set_adapter, set_role_manager, set_effector, add_function, build_role_links, load_policy, load_filtered_policy,
     save_policy, clear_policy, enable_enforce, enable_auto_save, enable_auto_build_role_links,
     enable_auto_notify_watcher: the position of cache.clear() is the source's); management and RBAC calls are not
     methods of that file (CachedGen does not cover them): they run the translated `src_step` on the wrapped enforcer
     and clear by Model/Cached.clears_after, the ClearCache emit of src/internal_api.rs;
   - `src_step`, `src_enforce`, `src_enforce_with_ctx4` (Proofs/SrcStepP.v: Gen/InternalGen.v, Gen/ApiGen.v,
     Gen/EnforcerGen.v, Gen/EnforceGen.v from src/internal_api.rs, src/rbac_api.rs, src/management_api.rs,
     src/enforcer.rs) for the uncached twin: `src_prun`, `src_decide`.
   src_crun, src_prun, src_crun_state, src_prun_state, src_crun_evict, src_CacheCoherent are the twins of the runs of
   Model/Cached.v / Model/SpecC11.v and of Proofs/C11P.CacheCoherent.
   Statements only; proofs in Proofs/C11SrcP.v (Properties/C11.v composed with PinChecks/PcCachedGen.v and
   Properties/SrcStep.v). *)
From CV Require Import Model.Base Model.Expr Model.Enforce Model.Engine Model.Cached Model.SpecC11.
From CV Require Import Gen.CachedRt Gen.CachedGen PinChecks.PcCachedGen.
From CV Require Import Proofs.ExModels Proofs.C11P Proofs.SrcStepP Proofs.C11SrcP.

(* ---- the substance: a call after which the cache is kept changed no decision ---- *)
Theorem c11_src_noclear_no_change : forall ptab s o,
  is_rbac o = false -> clears_after o (snd (src_step s o)) = false ->
  forall k, src_decide ptab (fst (src_step s o)) k = src_decide ptab s k.
Proof. exact src_c11_noclear_no_change. Qed.
Print Assumptions c11_src_noclear_no_change.

(* ---- the cached enforcer is the plain enforcer plus a cache ---- *)
Theorem c11_src_call_refines : forall c o,
  c_inner (fst (src_cstep c o)) = fst (src_step (c_inner c) o) /\
  snd (src_cstep c o) = snd (src_step (c_inner c) o).
Proof. exact src_c11_call_refines. Qed.
Print Assumptions c11_src_call_refines.

(* ---- the invariant: every cached entry is the current uncached decision, in every reachable state ---- *)
Theorem c11_src_coherent_call : forall ptab c o,
  src_CacheCoherent ptab c -> src_CacheCoherent ptab (fst (src_cstep c o)).
Proof. exact src_c11_coherent_call. Qed.
Print Assumptions c11_src_coherent_call.

Theorem c11_src_coherent_request : forall ptab c k,
  src_CacheCoherent ptab c -> src_CacheCoherent ptab (fst (src_cenforce ptab c k)).
Proof. exact src_c11_coherent_request. Qed.
Print Assumptions c11_src_coherent_request.

Theorem c11_src_coherent_reachable : forall ptab h s,
  src_CacheCoherent ptab (src_crun_state ptab {| c_inner := s; c_cache := [] |} h).
Proof. exact src_c11_coherent_reachable. Qed.
Print Assumptions c11_src_coherent_reachable.

(* ---- MAIN: for every history of calls and requests (plain and with context) the cached enforcer returns exactly
   the outputs of the uncached twin ---- *)
Theorem c11_src_same_decisions : forall ptab h s,
  src_crun ptab {| c_inner := s; c_cache := [] |} h = src_prun ptab s h.
Proof. exact src_c11_same_decisions. Qed.
Print Assumptions c11_src_same_decisions.

(* ... and the two enforcers end in the same state *)
Theorem c11_src_same_inner_state : forall ptab h s,
  c_inner (src_crun_state ptab {| c_inner := s; c_cache := [] |} h) = src_prun_state s h.
Proof. exact src_c11_same_inner_state. Qed.
Print Assumptions c11_src_same_inner_state.

(* ... also when before every item the cache forgets an arbitrary set of keys *)
Theorem c11_src_same_decisions_evict : forall ptab h s,
  src_crun_evict ptab {| c_inner := s; c_cache := [] |} h = src_prun ptab s (map snd h).
Proof. exact src_c11_same_decisions_evict. Qed.
Print Assumptions c11_src_same_decisions_evict.

(* the executable trace predicate holds of the translated source's own observations *)
Theorem c11_src_pred_holds : forall ptab h s,
  c11_pred (src_crun ptab {| c_inner := s; c_cache := [] |} h) (src_prun ptab s h) = true.
Proof. exact src_c11_pred_holds. Qed.
Print Assumptions c11_src_pred_holds.

(* non-vacuity, through the generated code: two requests fill the cache, save_policy keeps it, the third request is
   a hit; a management call that changes the policy clears it and the next answer is the new decision *)
Example c11_src_nonvacuous :
  let c := src_crun_state no_ptab (cinit w_acl) [CIReq k_a1r; CIReq k_a1w; CIOp OSave] in
  c_cache c = [(k_a1w, false); (k_a1r, true)] /\
  src_cenforce no_ptab c k_a1r = (c, Ok true).
Proof. vm_compute. split; reflexivity. Qed.
Example c11_src_history :
  let h := [CIReq k_a2r; CIOp (OAdd s_p s_p [alice; data2; read]); CIReq k_a2r;
            CIOp (OSetAdapter (mem [pl bob data2 write])); CIReq k_a2r; CIReq (CKCtx (T "2") (req alice data2 read))] in
  src_crun no_ptab (cinit w_acl) h = [Ok false; Ok true; Ok true; Ok true; Ok false; Err EModel] /\
  src_prun no_ptab w_acl h = [Ok false; Ok true; Ok true; Ok true; Ok false; Err EModel].
Proof. vm_compute. split; reflexivity. Qed.
