(* C09, text clause — save_policy followed by load_policy is the identity for
   all values the CSV text format can carry (file and string adapters).
   Only statements closed by `exact`; proofs live in Proofs/CsvP.v. *)
From CV Require Import Model.Base Model.Enforce Model.Engine Model.Csv Model.SpecC16.
From CV Require Import Proofs.CsvP.

(* a rule written by the file adapter (`ptype, v1,v2,...`, values containing a
   comma in double quotes) is read back as exactly that rule *)
Theorem c09_line_file : forall pt vs,
  ptype_safe pt = true -> forallb csv_safe vs = true -> vs <> [] ->
  parse_csv_line (render_line_file pt vs) = Some (pt :: vs).
Proof. exact parse_render_line_file. Qed.
Print Assumptions c09_line_file.

(* the same for the string adapter (`ptype, v1, v2, ...`) *)
Theorem c09_line_string : forall pt vs,
  ptype_safe pt = true -> forallb csv_safe vs = true -> vs <> [] ->
  parse_csv_line (render_line_string pt vs) = Some (pt :: vs).
Proof. exact parse_render_line_string. Qed.
Print Assumptions c09_line_string.

(* whole store: the text the file adapter saves for a store with text-safe
   contents stands for exactly the lines of the store, rule for rule and in
   the same order: Engine.v's abstraction "AFile holds parsed lines" is exact *)
Theorem c09_save_file : forall md, model_text_safe md = true ->
  parsed_lines (save_text_file md) = text_lines md.
Proof. exact save_file_parsed. Qed.
Print Assumptions c09_save_file.
Theorem c09_save_string : forall md, model_text_safe md = true ->
  parsed_lines (save_text_string md) = text_lines md.
Proof. exact save_string_parsed. Qed.
Print Assumptions c09_save_string.

(* hence loading the saved text into any store is loading the store's lines *)
Theorem c09_save_load_file : forall md md0, model_text_safe md = true ->
  fold_left load_line (parsed_lines (save_text_file md)) md0 = fold_left load_line (text_lines md) md0.
Proof. intros md md0 H. rewrite save_file_parsed by exact H. reflexivity. Qed.
Print Assumptions c09_save_load_file.
Theorem c09_save_load_string : forall md md0, model_text_safe md = true ->
  fold_left load_line (parsed_lines (save_text_string md)) md0 = fold_left load_line (text_lines md) md0.
Proof. intros md md0 H. rewrite save_string_parsed by exact H. reflexivity. Qed.
Print Assumptions c09_save_load_string.

(* the line loader's own skip test (empty, leading '#') adds nothing to
   parse_csv_line *)
Theorem c09_loader_is_parser : forall l, load_line_tokens l = parse_csv_line l.
Proof. exact load_line_tokens_eq. Qed.
Print Assumptions c09_loader_is_parser.

(* ---- the restrictions are needed ---- *)
(* blanks at either end of a value are lost *)
Example c09_leading_blank_lost :
  parse_csv_line (render_line_file (T "p") [T " a"]) = Some [T "p"; T "a"].
Proof. exact leading_blank_refuted. Qed.
Example c09_trailing_blank_lost :
  parse_csv_line (render_line_file (T "p") [T "a "; T "b"]) = Some [T "p"; T "a"; T "b"].
Proof. exact trailing_blank_refuted. Qed.
(* double quotes: a quoted value loses its quotes; a quote inside a value that
   needs quoting cuts the column *)
Example c09_quoted_value_lost :
  parse_csv_line (render_line_file (T "p") [T """a"""]) = Some [T "p"; T "a"].
Proof. exact quoted_value_refuted. Qed.
Example c09_quote_and_comma :
  parse_csv_line (render_line_file (T "p") [T "a"",b"]) = Some [T "p"; T "a"; T "b"""].
Proof. exact quote_and_comma_refuted. Qed.
(* a line break inside a value splits the rule *)
Example c09_newline_splits :
  parsed_lines (render_line_file (T "p") [T "a"; "b"%char :: nl :: T "c"] ++ [nl])
  = [[T "p"; T "a"; T "b"]; [T "c"]].
Proof. exact newline_refuted. Qed.
(* a policy type starting with '#' is a comment *)
Example c09_hash_ptype : parse_csv_line (render_line_file (T "#p") [T "a"]) = None.
Proof. exact hash_ptype_refuted. Qed.
(* a rule with no field reads back with one empty field *)
Example c09_empty_rule : parse_csv_line (render_line_file (T "p") []) = Some [T "p"; []].
Proof. exact render_line_empty_rule. Qed.
(* D17 (repaired): unquoted rendering split a value containing a comma *)
Example c09_d17_before :
  parse_csv_line (render_line_unquoted (T "p") [T "a,b"; T "c"]) = Some [T "p"; T "a"; T "b"; T "c"].
Proof. exact d17_unquoted_splits. Qed.
Example c09_d17_after :
  parse_csv_line (render_line_file (T "p") [T "a,b"; T "c"]) = Some [T "p"; T "a,b"; T "c"].
Proof. exact d17_repaired. Qed.

(* ---- non-vacuity: a store with quoting-relevant values ---- *)
Definition c09_ex_ast (rules : list rule) : assertion :=
  {| a_value := []; a_tokens := []; a_policy := rules; a_handle := HOwn |}.
Definition c09_ex_store : model :=
  [ (s_p, [ (T "p", c09_ex_ast [[T "alice"; T "x,y"; T "a b"]; [T "bob"; T "/d/*"; T "k=v"]]);
            (T "p2", c09_ex_ast [[T "r.sub"]]) ]);
    (s_g, [ (T "g", c09_ex_ast [[T "alice"; T "admin, root"]]) ]) ].
Example c09_ex_safe : model_text_safe c09_ex_store = true.
Proof. vm_compute. reflexivity. Qed.
Example c09_ex_text : save_text_file c09_ex_store =
  T "p, alice,""x,y"",a b" ++ [nl] ++ T "p, bob,/d/*,k=v" ++ [nl] ++ T "p2, r.sub" ++ [nl] ++
  T "g, alice,""admin, root""" ++ [nl].
Proof. vm_compute. reflexivity. Qed.
Example c09_ex_roundtrip : parsed_lines (save_text_string c09_ex_store) = text_lines c09_ex_store.
Proof. vm_compute. reflexivity. Qed.
