(* C13 — RBAC queries agree with enforcement.
   Only statements closed by `exact`; proofs live in Proofs/C13P.v.
   Scope: `rbac_eq s` (r = p = sub,obj,act; one role definition g = _,_ read
   through the enforcer's manager; allow-override; matcher
   g(r.sub,p.sub) && r.obj == p.obj && r.act == p.act) and its domain variant
   `rbac_dom_eq s`. Both are executable booleans (Model/SpecC13.v). *)
From CV Require Import Model.Base Model.Effector Model.RoleGraph Model.PathMatch Model.Expr
     Model.Enforce Model.Engine Model.SpecC13.
From CV Require Import Proofs.BaseP Proofs.RoleGraphP Proofs.C13P.
From Coq Require Import Relations.

(* ---------- invariants: the hypotheses `wf` and `rbac_eq` are free ---------- *)

(* the role manager of a fresh enforcer is well-formed, and every operation of
   the engine (all 20 kinds) keeps it so *)
Theorem c13_wf_new : forall d a w, rm_wf (fst (new_enforcer d a w)).
Proof. exact wf_new_enforcer. Qed.
Print Assumptions c13_wf_new.
Theorem c13_wf_step : forall s o, rm_wf s -> rm_wf (fst (step s o)).
Proof. exact wf_step. Qed.
Print Assumptions c13_wf_step.
Theorem c13_wf_history : forall ops s, rm_wf s -> rm_wf (run_ops s ops).
Proof. exact wf_run_ops. Qed.
Print Assumptions c13_wf_history.

(* policy management (add / remove / batches / filtered removal / every RBAC
   helper), whether it succeeds, is refused or fails, never leaves the scope *)
Theorem c13_scope_stable : forall cnt rt pt_ok e_ok m ops s,
  forallb is_mgmt ops = true ->
  scope_core cnt rt pt_ok e_ok m s = true ->
  scope_core cnt rt pt_ok e_ok m (run_ops s ops) = true.
Proof. exact scope_run_mgmt. Qed.
Print Assumptions c13_scope_stable.

(* ---------- (1) implicit roles = transitive closure of the links ---------- *)

(* get_implicit_roles_for_user(u) returns exactly the names reachable from u in
   one or more steps (cycles and diamonds included; u itself iff it lies on a
   cycle), each once *)
Theorem c13_implicit_roles : forall s u d r, wf (f_rm (e_fs s)) ->
  (In r (implicit_roles s u d) <-> clos_trans text (Edge (f_rm (e_fs s)) d) u r).
Proof. exact implicit_roles_spec. Qed.
Print Assumptions c13_implicit_roles.
Theorem c13_implicit_roles_nodup : forall s u d, wf (f_rm (e_fs s)) -> NoDup (implicit_roles s u d).
Proof. exact implicit_roles_NoDup. Qed.
Print Assumptions c13_implicit_roles_nodup.

(* the fuel of the model's work-list loop is not what stops it (the real loop
   has none): any additional fuel gives the same list *)
Theorem c13_implicit_roles_fuel : forall s u d extra, wf (f_rm (e_fs s)) ->
  implicit_roles_go (S (S (graph_size (f_rm (e_fs s)) d)) + extra) (f_rm (e_fs s)) d [u] [] =
  implicit_roles s u d.
Proof. exact implicit_roles_fuel. Qed.
Print Assumptions c13_implicit_roles_fuel.

(* has_link is reflexive-transitive reachability as long as the hierarchy is
   below the depth limit (`shallow`; `shallowb` decides it) *)
Theorem c13_has_link_iff : forall maxd m d a b, wf m -> shallow maxd m d ->
  (has_link maxd m a b d = true <-> a = b \/ clos_trans text (Edge m d) a b).
Proof. exact has_link_iff. Qed.
Print Assumptions c13_has_link_iff.
Theorem c13_shallowb_sound : forall maxd m d, shallowb maxd m d = true -> shallow maxd m d.
Proof. exact shallowb_sound. Qed.
Print Assumptions c13_shallowb_sound.

(* ---------- (2) implicit permissions ---------- *)

(* exact form: the listing is, for the user and then each implicit role in
   order, the stored rules selected by that name (empty name = wildcard).
   Multiplicity: a rule appears once per selecting name; a subject on a cycle
   is listed twice (cycle_duplicates_permissions) *)
Theorem c13_implicit_perms_exact : forall s u,
  (forall r, In r (p_rules s) -> r <> []) ->
  implicit_perms s u None =
  Some (flat_map (fun x => filter (fsel 0 [x]) (p_rules s)) (u :: implicit_roles s u None)).
Proof. exact implicit_perms_exact. Qed.
Print Assumptions c13_implicit_perms_exact.

(* membership form: the rules held by the user or by a role reachable from it *)
Theorem c13_implicit_perms : forall s u l rule,
  wf (f_rm (e_fs s)) -> (forall r, In r (p_rules s) -> r <> []) ->
  nonempty_names s u None = true ->
  implicit_perms s u None = Some l ->
  (In rule l <-> In rule (p_rules s) /\
                 (hd [] rule = u \/ clos_trans text (Edge (f_rm (e_fs s)) None) u (hd [] rule))).
Proof. exact implicit_perms_spec. Qed.
Print Assumptions c13_implicit_perms.

(* ---------- (3) a request is granted iff it is an implicit permission ---------- *)

(* closed form of enforcement in scope: always Ok, never an error *)
Theorem c13_enforce_closed : forall ptab s u o a,
  rbac_eq s = true -> p_arityb 3 s = true ->
  enforce ptab s [VStr u; VStr o; VStr a] =
  Ok (match m_get_policy (e_model s) s_p s_p with
      | [] => match3 s u o a []
      | rules => existsb (match3 s u o a) rules
      end).
Proof. exact enforce_rbac_closed. Qed.
Print Assumptions c13_enforce_closed.

Theorem c13_enforce_eq_perm : forall ptab s u o a,
  rbac_eq s = true -> p_arityb 3 s = true ->
  wf (f_rm (e_fs s)) -> shallow (f_rm_max (e_fs s)) (f_rm (e_fs s)) None ->
  nonempty_names s u None = true ->
  exists l, implicit_perms s u None = Some l /\
    enforce ptab s [VStr u; VStr o; VStr a] = Ok (existsb (fun rule => reqb (tl rule) [o; a]) l).
Proof. exact enforce_eq_perm. Qed.
Print Assumptions c13_enforce_eq_perm.

Theorem c13_enforce_iff_perm : forall ptab s u o a l,
  rbac_eq s = true -> p_arityb 3 s = true ->
  wf (f_rm (e_fs s)) -> shallow (f_rm_max (e_fs s)) (f_rm (e_fs s)) None ->
  nonempty_names s u None = true ->
  implicit_perms s u None = Some l ->
  (enforce ptab s [VStr u; VStr o; VStr a] = Ok true <->
   exists rule, In rule l /\ tl rule = [o; a]) /\
  (enforce ptab s [VStr u; VStr o; VStr a] = Ok false <->
   ~ exists rule, In rule l /\ tl rule = [o; a]).
Proof. exact enforce_iff_perm. Qed.
Print Assumptions c13_enforce_iff_perm.

(* the domain variant *)
Theorem c13_implicit_perms_dom_exact : forall s u d, two_fields s ->
  implicit_perms s u (Some d) =
  Some (flat_map (fun x => filter (fsel 0 [x; d]) (p_rules s)) (u :: implicit_roles s u (Some d))).
Proof. exact implicit_perms_dom_exact. Qed.
Print Assumptions c13_implicit_perms_dom_exact.

Theorem c13_enforce_eq_perm_dom : forall ptab s u d o a,
  rbac_dom_eq s = true -> p_arityb 4 s = true ->
  wf (f_rm (e_fs s)) -> shallow (f_rm_max (e_fs s)) (f_rm (e_fs s)) (Some d) ->
  nonempty_names s u (Some d) = true -> d <> [] ->
  exists l, implicit_perms s u (Some d) = Some l /\
    enforce ptab s [VStr u; VStr d; VStr o; VStr a] =
    Ok (existsb (fun rule => reqb (tl rule) [d; o; a]) l).
Proof. exact enforce_eq_perm_dom. Qed.
Print Assumptions c13_enforce_eq_perm_dom.

(* everything together, for every state reached from a state in scope by an
   arbitrary management history *)
Theorem c13_after_any_history : forall ptab s0 ops u o a,
  rbac_eq s0 = true -> rm_wf s0 -> forallb is_mgmt ops = true ->
  let s := run_ops s0 ops in
  p_arityb 3 s = true -> shallow (f_rm_max (e_fs s)) (f_rm (e_fs s)) None ->
  nonempty_names s u None = true ->
  (forall r, In r (implicit_roles s u None) <->
             clos_trans text (Edge (f_rm (e_fs s)) None) u r) /\
  (forall r x, In r (roles_for_user s x None) <-> In x (users_for_role s r None)) /\
  exists l, implicit_perms s u None = Some l /\
    (forall rule, In rule l <-> In rule (p_rules s) /\
       (hd [] rule = u \/ clos_trans text (Edge (f_rm (e_fs s)) None) u (hd [] rule))) /\
    enforce ptab s [VStr u; VStr o; VStr a] = Ok (existsb (fun rule => reqb (tl rule) [o; a]) l).
Proof. exact c13_history. Qed.
Print Assumptions c13_after_any_history.

(* ---------- (4) users-for-role and roles-for-user are inverse views ---------- *)
Theorem c13_roles_users_inverse : forall s u r d, g_handle_wf s ->
  (In r (roles_for_user s u d) <-> In u (users_for_role s r d)).
Proof. exact roles_users_inverse. Qed.
Print Assumptions c13_roles_users_inverse.
Theorem c13_has_role : forall ptab s u r d,
  ask ptab s (QHasRole u r d) = AnsBool true <-> In r (roles_for_user s u d).
Proof. exact has_role_membership. Qed.
Print Assumptions c13_has_role.

(* ---------- (5) delete_user / delete_role / delete_permission ---------- *)

(* after a successful delete_user(n) through an adapter that does not refuse
   (`quiet`): exactly the g rules and p rules selected by the filter [n] at
   field 0 are gone, the others stay in order, no other table changes *)
Theorem c13_delete_user : forall s n s' b,
  step s (ORbac (RDeleteUser n)) = (s', Ok b) -> quiet s ->
  st_frame s s' /\
  g_rules s' = filter (fun r => negb (fsel 0 [n] r)) (g_rules s) /\
  p_rules s' = filter (fun r => negb (fsel 0 [n] r)) (p_rules s) /\
  (forall sec pt, ~ (sec = s_g /\ pt = s_g) -> ~ (sec = s_p /\ pt = s_p) ->
     m_get_policy (e_model s') sec pt = m_get_policy (e_model s) sec pt).
Proof. exact delete_user_spec. Qed.
Print Assumptions c13_delete_user.

Theorem c13_delete_role : forall s n s' b,
  step s (ORbac (RDeleteRoleAll n)) = (s', Ok b) -> quiet s ->
  st_frame s s' /\
  g_rules s' = filter (fun r => negb (fsel 1 [n] r)) (g_rules s) /\
  p_rules s' = filter (fun r => negb (fsel 0 [n] r)) (p_rules s) /\
  (forall sec pt, ~ (sec = s_g /\ pt = s_g) -> ~ (sec = s_p /\ pt = s_p) ->
     m_get_policy (e_model s') sec pt = m_get_policy (e_model s) sec pt).
Proof. exact delete_role_spec. Qed.
Print Assumptions c13_delete_role.

Theorem c13_delete_permission : forall s perm s' b,
  step s (ORbac (RDeletePermission perm)) = (s', Ok b) -> quiet s -> perm <> [] ->
  st_frame s s' /\
  p_rules s' = filter (fun r => negb (fsel 1 perm r)) (p_rules s) /\
  (forall sec pt, ~ (sec = s_p /\ pt = s_p) ->
     m_get_policy (e_model s') sec pt = m_get_policy (e_model s) sec pt).
Proof. exact delete_permission_spec. Qed.
Print Assumptions c13_delete_permission.

(* no stored rule names the deleted entity in the covered positions *)
Theorem c13_delete_user_no_mention : forall s n s' b,
  step s (ORbac (RDeleteUser n)) = (s', Ok b) -> quiet s -> n <> [] ->
  (forall r, In r (g_rules s') -> nth 0 r [] <> n) /\
  (forall r, In r (p_rules s') -> nth 0 r [] <> n).
Proof. exact delete_user_no_mention. Qed.
Print Assumptions c13_delete_user_no_mention.
Theorem c13_delete_role_no_mention : forall s n s' b,
  step s (ORbac (RDeleteRoleAll n)) = (s', Ok b) -> quiet s -> n <> [] ->
  (forall r, In r (g_rules s') -> nth 1 r [] <> n) /\
  (forall r, In r (p_rules s') -> nth 0 r [] <> n).
Proof. exact delete_role_no_mention. Qed.
Print Assumptions c13_delete_role_no_mention.
Theorem c13_delete_permission_no_mention : forall s perm s' b,
  step s (ORbac (RDeletePermission perm)) = (s', Ok b) -> quiet s -> perm <> [] ->
  forall r, In r (p_rules s') -> fmatch perm (tl r) <> Some true.
Proof. exact delete_permission_no_mention. Qed.
Print Assumptions c13_delete_permission_no_mention.

(* ... and no query or decision either, provided the role graph of the new
   state holds no link beyond its stored g rules (`links_mirror`, decided by
   `links_mirrorb`): the deleted user has no role, direct or implicit, and every
   request of it is refused *)
Theorem c13_deleted_user_powerless : forall ptab s n s' b,
  step s (ORbac (RDeleteUser n)) = (s', Ok b) -> quiet s -> n <> [] ->
  rbac_eq s = true -> p_arityb 3 s = true ->
  wf (f_rm (e_fs s')) -> links_mirror s' ->
  rbac_eq s' = true /\ p_arityb 3 s' = true /\
  roles_for_user s' n None = [] /\ implicit_roles s' n None = [] /\
  forall o a, enforce ptab s' [VStr n; VStr o; VStr a] = Ok false.
Proof. exact deleted_user_powerless. Qed.
Print Assumptions c13_deleted_user_powerless.

(* the deleted role has no user, is in nobody's direct or implicit roles, and
   holds no rule (it may keep roles of its own: delete_role does not cover
   field 0 of the g rules) *)
Theorem c13_deleted_role_unreachable : forall s n s' b,
  step s (ORbac (RDeleteRoleAll n)) = (s', Ok b) -> quiet s -> n <> [] ->
  rbac_eq s = true -> wf (f_rm (e_fs s')) -> links_mirror s' ->
  rbac_eq s' = true /\
  users_for_role s' n None = [] /\
  (forall u, ~ In n (implicit_roles s' u None)) /\
  (forall u, ~ In n (roles_for_user s' u None)) /\
  (forall r, In r (p_rules s') -> nth 0 r [] <> n).
Proof. exact deleted_role_unreachable. Qed.
Print Assumptions c13_deleted_role_unreachable.

(* nobody is granted a deleted permission *)
Theorem c13_deleted_permission_denied : forall ptab s o a s' b,
  step s (ORbac (RDeletePermission [o; a])) = (s', Ok b) -> quiet s ->
  (o <> [] \/ a <> []) ->
  rbac_eq s = true -> p_arityb 3 s = true ->
  rbac_eq s' = true /\ p_arityb 3 s' = true /\
  forall u, enforce ptab s' [VStr u; VStr o; VStr a] = Ok false.
Proof. exact deleted_permission_denied. Qed.
Print Assumptions c13_deleted_permission_denied.

Theorem c13_links_mirrorb_sound : forall s, links_mirrorb s = true -> links_mirror s.
Proof. exact links_mirrorb_spec. Qed.

(* the domain variant: delete_user takes no domain and covers every tenant *)
Theorem c13_deleted_user_powerless_dom : forall ptab s n s' b,
  step s (ORbac (RDeleteUser n)) = (s', Ok b) -> quiet s -> n <> [] ->
  rbac_dom_eq s = true -> p_arityb 4 s = true ->
  wf (f_rm (e_fs s')) -> links_mirror_dom s' ->
  rbac_dom_eq s' = true /\ p_arityb 4 s' = true /\
  forall d, roles_for_user s' n (Some d) = [] /\ implicit_roles s' n (Some d) = [] /\
            forall o a, enforce ptab s' [VStr n; VStr d; VStr o; VStr a] = Ok false.
Proof. exact deleted_user_powerless_dom. Qed.
Print Assumptions c13_deleted_user_powerless_dom.
Theorem c13_links_mirror_domb_sound : forall s, links_mirror_domb s = true -> links_mirror_dom s.
Proof. exact links_mirror_domb_spec. Qed.

(* ---------- (6) implicit users ---------- *)
(* the answer is the duplicate-free list of candidates (subjects of p rules and
   users of the roles named in g rules, minus names that are roles) whose
   request is granted *)
Theorem c13_implicit_users : forall ptab s perm res,
  implicit_users ptab s perm = Some res ->
  exists subjects roles,
    m_values (e_model s) s_p s_p 0 = Some subjects /\
    m_values (e_model s) s_g s_g 1 = Some roles /\
    NoDup res /\
    forall u, In u res <->
      ((In u subjects \/ exists r, In r roles /\ In u (get_users (f_rm (e_fs s)) r None)) /\
       ~ In u roles /\
       enforce ptab s (map VStr (u :: perm)) = Ok true).
Proof. exact implicit_users_spec. Qed.
Print Assumptions c13_implicit_users.

(* ---------- the executable predicate ---------- *)
Theorem c13_pred_holds : forall ptab s u l oas,
  rbac_eq s = true -> p_arityb 3 s = true -> rm_wf s ->
  shallow (f_rm_max (e_fs s)) (f_rm (e_fs s)) None ->
  nonempty_names s u None = true -> links_exact s ->
  implicit_perms s u None = Some l ->
  c13_pred u (g_rules s) (p_rules s) (implicit_roles s u None) l
           (map (fun oa => (oa, enforce ptab s [VStr u; VStr (fst oa); VStr (snd oa)])) oas) = true.
Proof. exact c13_pred_model. Qed.
Print Assumptions c13_pred_holds.
Theorem c13_links_exactb_sound : forall s, links_exactb s = true -> links_exact s.
Proof. exact links_exactb_spec. Qed.

(* ---------- non-vacuity: a reachable state with a diamond and a cycle ---------- *)
Example c13_ex_in_scope :
  rbac_eq ex0 = true /\ forallb is_mgmt ex_ops = true /\ rbac_eq ex1 = true /\
  p_arityb 3 ex1 = true /\ shallowb (f_rm_max (e_fs ex1)) (f_rm (e_fs ex1)) None = true /\
  nonempty_names ex1 (T "alice") None = true /\ links_mirrorb ex1 = true /\
  quiet_adapter ex1 = true.
Proof. exact ex1_in_scope. Qed.
Example c13_ex_wf : rm_wf ex1.
Proof. exact ex1_wf. Qed.
Example c13_ex_links_exact : links_exactb ex1 = true.
Proof. exact ex1_links_exact. Qed.
Example c13_ex_answers :
  implicit_roles ex1 (T "alice") None = [T "r2"; T "r1"; T "r3"] /\
  implicit_roles ex1 (T "r1") None = [T "r3"; T "r1"] /\
  enforce ptab0 ex1 [VStr (T "alice"); VStr (T "data"); VStr (T "read")] = Ok true /\
  enforce ptab0 ex1 [VStr (T "bob"); VStr (T "data"); VStr (T "read")] = Ok false /\
  roles_for_user ex1 (T "alice") None = [T "r2"; T "r1"] /\
  users_for_role ex1 (T "r3") None = [T "r2"; T "r1"].
Proof. exact ex1_answers. Qed.
Example c13_ex_delete_user :
  step ex1 (ORbac (RDeleteUser (T "alice"))) = (ex_del_user, Ok true) /\
  links_mirrorb ex_del_user = true /\
  g_rules ex_del_user = [[T "r1"; T "r3"]; [T "r2"; T "r3"]; [T "r3"; T "r1"]] /\
  length (p_rules ex_del_user) = 3.
Proof. exact delete_user_example. Qed.
Example c13_ex_delete_role :
  step ex1 (ORbac (RDeleteRoleAll (T "r3"))) = (ex_del_role, Ok true) /\
  links_mirrorb ex_del_role = true /\
  g_rules ex_del_role = [[T "alice"; T "r1"]; [T "alice"; T "r2"]; [T "r3"; T "r1"]] /\
  length (p_rules ex_del_role) = 3.
Proof. exact delete_role_example. Qed.
Example c13_ex_pred :
  c13_pred (T "alice") (g_rules ex1) (p_rules ex1) (implicit_roles ex1 (T "alice") None)
           (match implicit_perms ex1 (T "alice") None with Some l => l | None => [] end)
           [((T "data", T "read"), Ok true); ((T "data2", T "write"), Ok false)] = true /\
  c13_pred (T "alice") (g_rules ex1) (p_rules ex1) [T "r1"; T "r2"]
           (match implicit_perms ex1 (T "alice") None with Some l => l | None => [] end)
           [((T "data", T "read"), Ok true)] = false /\
  c13_pred (T "alice") (g_rules ex1) (p_rules ex1) (implicit_roles ex1 (T "alice") None)
           (match implicit_perms ex1 (T "alice") None with Some l => l | None => [] end)
           [((T "data2", T "write"), Ok true)] = false.
Proof. exact c13_pred_example. Qed.

(* ---------- witnesses: every added hypothesis is necessary ---------- *)

(* nonempty_names (1): an empty store grants the all-empty request *)
Example c13_needs_nonempty_names_empty_store :
  rbac_eq ex0 = true /\ p_arityb 3 ex0 = true /\
  implicit_perms ex0 [] None = Some [] /\
  enforce ptab0 ex0 [VStr []; VStr []; VStr []] = Ok true.
Proof. exact empty_store_grants_empty_request. Qed.

(* nonempty_names (2): the empty user name is a wildcard in the listings *)
Example c13_needs_nonempty_names_wildcard :
  (exists l, implicit_perms ex1 [] None = Some l /\ length l = 4) /\
  enforce ptab0 ex1 [VStr []; VStr (T "data"); VStr (T "read")] = Ok false.
Proof. exact empty_user_lists_everything. Qed.

(* multiplicities: a subject on a cycle sees its own rules twice *)
Example c13_cycle_duplicates_permissions :
  implicit_perms ex1 (T "r1") None =
  Some [[T "r1"; T "x"; T "y"]; [T "r3"; T "data"; T "read"]; [T "r1"; T "x"; T "y"]].
Proof. exact cycle_duplicates_permissions. Qed.

(* shallow: beyond the depth limit, listings (unbounded closure) and decisions
   (bounded BFS) disagree *)
Example c13_needs_shallow :
  rbac_eq ex_deep = true /\ p_arityb 3 ex_deep = true /\
  nonempty_names ex_deep (ex_node 0) None = true /\
  shallowb (f_rm_max (e_fs ex_deep)) (f_rm (e_fs ex_deep)) None = false /\
  implicit_perms ex_deep (ex_node 0) None = Some [[ex_node 10; T "data"; T "read"]] /\
  enforce ptab0 ex_deep [VStr (ex_node 0); VStr (T "data"); VStr (T "read")] = Ok false.
Proof. exact deep_chain_disagrees. Qed.

(* quiet: Ok(true) from delete_user does not mean the user is gone *)
Example c13_needs_quiet :
  rbac_eq ex_refusing = true /\ quiet_adapter ex_refusing = false /\
  snd (step ex_refusing (ORbac (RDeleteUser (T "alice")))) = Ok true /\
  In [T "alice"; T "data"; T "own"]
     (p_rules (fst (step ex_refusing (ORbac (RDeleteUser (T "alice")))))) /\
  enforce ptab0 (fst (step ex_refusing (ORbac (RDeleteUser (T "alice")))))
          [VStr (T "alice"); VStr (T "data"); VStr (T "own")] = Ok true.
Proof. exact delete_user_needs_quiet. Qed.

(* n <> "": delete_user("") wipes both tables *)
Example c13_delete_empty_user_wipes_everything :
  snd (step ex1 (ORbac (RDeleteUser []))) = Ok true /\
  g_rules (fst (step ex1 (ORbac (RDeleteUser [])))) = [] /\
  p_rules (fst (step ex1 (ORbac (RDeleteUser [])))) = [].
Proof. exact delete_empty_user_wipes_everything. Qed.

(* perm <> []: delete_permission([]) removes nothing *)
Example c13_delete_permission_empty_is_noop :
  snd (step ex1 (ORbac (RDeletePermission []))) = Ok false /\
  p_rules (fst (step ex1 (ORbac (RDeletePermission [])))) = p_rules ex1 /\
  forallb (fsel 1 []) (p_rules ex1) = true.
Proof. exact delete_permission_empty_is_noop. Qed.
