(* C01 — Decisions equal the PERM reference semantics.
   Only statements closed by `exact`; proofs live in Proofs/EnforceP.v. *)
From CV Require Import Model.Base Model.Effector Model.Expr Model.Enforce Model.Engine
     Model.SpecC01 Proofs.EnforceP.

(* The enforcement loop (bind request, iterate stored rules in order, evaluate
   the matcher, map to allow/deny/indeterminate by the effect column, push into
   the effect stream, stop at completion) returns exactly the reference
   decision: per-rule outcomes combined by the declarative effect rule, an
   error counting only if it is reached. For EVERY model store, matcher,
   function table, section keys, effect token and request — also disabled
   enforcers, missing sections, arity errors, unsupported effect text. *)
Theorem c01_enforce_is_perm : forall ptab enabled md mexprs fs rk pk ek mk eft_tok rvals,
  enforce_core ptab enabled md mexprs fs rk pk ek mk eft_tok rvals =
  perm_ref ptab enabled md mexprs fs rk pk ek mk eft_tok rvals.
Proof. exact enforce_is_perm. Qed.
Print Assumptions c01_enforce_is_perm.

(* the same at the level of an enforcer state, for plain and context requests *)
Theorem c01_state_plain : forall ptab s rv, enforce ptab s rv = perm_ref_plain ptab s rv.
Proof. intros. apply enforce_is_perm. Qed.
Print Assumptions c01_state_plain.
Theorem c01_state_ctx : forall ptab s k rv, enforce_with_ctx ptab s k rv = perm_ref_ctx ptab s k rv.
Proof. intros. apply enforce_is_perm. Qed.
Print Assumptions c01_state_ctx.
(* a hand-assembled EnforceContext: four independent section names *)
Theorem c01_state_ctx4 : forall ptab s rk pk ek mk rv,
  enforce_with_ctx4 ptab s rk pk ek mk rv = perm_ref_ctx4 ptab s rk pk ek mk rv.
Proof. intros. apply enforce_is_perm. Qed.
Print Assumptions c01_state_ctx4.
(* EnforceContext::new(k) is the context (r++k, p++k, e++k, m++k) *)
Theorem c01_ctx_is_ctx4 : forall ptab s k rv,
  enforce_with_ctx ptab s k rv = enforce_with_ctx4 ptab s (s_r ++ k) (s_p ++ k) (s_e ++ k) (s_m ++ k) rv.
Proof. reflexivity. Qed.
Print Assumptions c01_ctx_is_ctx4.

(* never grants what the semantics deny, never denies what they grant *)
Theorem c01_no_false_grant : forall ptab en md mx fs rk pk ek mk et rv,
  enforce_core ptab en md mx fs rk pk ek mk et rv = Ok true ->
  perm_ref ptab en md mx fs rk pk ek mk et rv = Ok true.
Proof. exact enforce_no_false_grant. Qed.
Print Assumptions c01_no_false_grant.
Theorem c01_no_false_deny : forall ptab en md mx fs rk pk ek mk et rv,
  enforce_core ptab en md mx fs rk pk ek mk et rv = Ok false ->
  perm_ref ptab en md mx fs rk pk ek mk et rv = Ok false.
Proof. exact enforce_no_false_deny. Qed.
Print Assumptions c01_no_false_deny.

(* a granted decision is backed by a prefix of rules that all evaluated without
   error and whose effects force (or, at the end, equal) a `true` result *)
Theorem c01_grant_prefix : forall r outs seen,
  perm_combine r seen outs = Ok true ->
  exists effs rest, outs = map Ok effs ++ rest /\
    (forced r (seen ++ effs) = Some true \/ (rest = [] /\ decl r (seen ++ effs) = true)).
Proof. exact perm_combine_ok_true. Qed.
Print Assumptions c01_grant_prefix.
