(* C12 stated about the TRANSLATED SOURCE: the part of Properties/C12.v that goes through the enforcer's public
   calls.  `src_step` (Proofs/SrcStepP.v) dispatches OLoadFiltered / OLoad / OSave to gen_load_filtered_policy /
   gen_load_policy / gen_save_policy of Gen/EnforcerGen.v, regenerated every run from src/enforcer.rs;
   `src_ask ... QIsFiltered` and `src_new_enforcer` are in Proofs/SrcQueryP.v.  The adapter-level theorems of C12
   (the loaders of the three bundled adapters against filter_spec, the executable predicate on their output) do not
   mention step / run_ops / enforce and stay as stated in Properties/C12.v.
   Statements only; proofs in Proofs/C12SrcP.v (Properties/C12.v composed with Properties/SrcStep.v). *)
From CV Require Import Model.Base Model.Effector Model.RoleGraph Model.PathMatch
     Model.Expr Model.Enforce Model.Engine Model.SpecC09 Model.SpecC12.
From CV Require Import Proofs.BaseP Proofs.C09P Proofs.C12P.
From CV Require Import Proofs.SrcStepP Proofs.SrcQueryP Proofs.C12SrcP.

(* through the public calls: the policy after the translated load_filtered_policy is the filter of the policy after
   the translated load_policy (every section, every ptype), is_filtered() reports the mark (set iff some stored
   line of section p/g was rejected), the store is untouched, no panic *)
Theorem c12_src_enforcer_load_filtered : forall ptab s L fp fg,
  stored_lines (e_adapter s) = Some L ->
  let s' := fst (src_step s (OLoadFiltered fp fg)) in
  (forall sec pt, m_get_policy (e_model s') sec pt =
                  filter (keeps (sec_filter fp fg sec))
                         (m_get_policy (e_model (fst (src_step s OLoad))) sec pt)) /\
  src_ask ptab s' QIsFiltered = AnsBool (existsb (line_out fp fg) L) /\
  stored_lines (e_adapter s') = Some L /\
  snd (src_step s (OLoadFiltered fp fg)) <> Panic.
Proof. exact src_c12_enforcer_load_filtered. Qed.
Print Assumptions c12_src_enforcer_load_filtered.

(* a full load clears the mark *)
Theorem c12_src_full_load_resets : forall ptab s,
  is_bundled (e_adapter s) = true ->
  src_ask ptab (fst (src_step s OLoad)) QIsFiltered = AnsBool false.
Proof. exact src_c12_full_load_resets. Qed.
Print Assumptions c12_src_full_load_resets.

(* a filtered enforcer cannot overwrite the store: save_policy panics and changes nothing *)
Theorem c12_src_save_guard : forall s, ad_is_filtered (e_adapter s) = true -> src_step s OSave = (s, Panic).
Proof. exact src_c12_save_guard. Qed.
Print Assumptions c12_src_save_guard.

(* the constructor performs no load on an adapter already marked filtered *)
Theorem c12_src_constructor_skips_load : forall d a w, ad_is_filtered a = true ->
  e_model (fst (src_new_enforcer d a w)) = d_model d /\
  e_adapter (fst (src_new_enforcer d a w)) = a /\
  snd (src_new_enforcer d a w) = lerr_out (snd (new_raw d a w)) true.
Proof. exact src_c12_constructor_skips_load. Qed.
Print Assumptions c12_src_constructor_skips_load.

(* non-vacuity, through the generated code, on all three bundled adapters: the hypothesis stored_lines = Some _
   holds; a filtered load sets the mark, then save panics and leaves the store; a full load re-enables save *)
Example c12_src_ex_stored : map stored_lines c12_adapters = [Some c12_mem; Some c12_mem; Some c12_mem].
Proof. exact ex_c12_stored. Qed.
Example c12_src_ex_save_guard :
  forallb (fun a =>
    let s := upd_adapter ex_s0 a in
    match src_step s (OLoadFiltered (L ["alice"%string]) []) with
    | (s1, Ok true) =>
      ad_is_filtered (e_adapter s1) &&
      match src_step s1 OSave with
      | (s2, Panic) =>
        match stored_lines (e_adapter s2) with Some l => rules_eqb l c12_mem | None => false end
      | _ => false end &&
      negb (ad_is_filtered (e_adapter (fst (src_step s1 OLoad)))) &&
      match snd (src_step (fst (src_step s1 OLoad)) OSave) with Ok true => true | _ => false end
    | _ => false end) c12_adapters = true.
Proof. vm_compute. reflexivity. Qed.
