(* C05 stated about the TRANSLATED SOURCE.  `src_step` / `src_run_ops` (Proofs/SrcStepP.v) dispatch every engine
   operation to the Gallina regenerated every run from the Rust text: Gen/InternalGen.v (src/internal_api.rs),
   Gen/ApiGen.v (src/rbac_api.rs, src/management_api.rs), Gen/EnforcerGen.v (src/enforcer.rs: build_role_links,
   load_policy, clear_policy, set_role_manager, set_model, ...); `src_enforce` / `src_enforce_with_ctx` are the
   translated enforcement loops of Gen/EnforceGen.v (src/enforcer.rs); `src_ask` / `src_new_enforcer`
   (Proofs/SrcQueryP.v) are the query interface and Enforcer::new over them.  src_op_allowed, src_hist_ok,
   src_same_decisions are the twins of Proofs/C05Main.op_allowed, hist_ok and Proofs/C05Rebuild.same_decisions.
   Statements only; proofs in Proofs/C05SrcP.v (Properties/C05.v composed with Properties/SrcStep.v). *)
From CV Require Import Model.Base Model.Effector Model.RoleGraph Model.Expr Model.Enforce Model.Engine Model.SpecC05.
From CV Require Import Proofs.BaseP Proofs.RoleGraphP Proofs.C05Links Proofs.C05Sync Proofs.C05Steps
     Proofs.C05Load Proofs.C05Main Proofs.C05Rebuild Proofs.C05Err Proofs.C05P.
From CV Require Import Proofs.SrcStepP Proofs.SrcQueryP Proofs.C05SrcP.

(* ---- (3) preservation: one translated call of ANY kind keeps the role graph in sync ---- *)
Theorem c05_src_step : forall s o,
  RoleSync s -> e_auto_build s = true ->
  side_ok s = true -> side_ok (fst (src_step s o)) = true ->
  src_op_allowed s o = true ->
  RoleSync (fst (src_step s o)).
Proof. exact src_c05_step. Qed.
Print Assumptions c05_src_step.

(* histories *)
Theorem c05_src_run_ops : forall ops s, SyncInv s -> src_hist_ok s ops = true -> SyncInv (src_run_ops s ops).
Proof. exact src_c05_run_ops. Qed.
Print Assumptions c05_src_run_ops.

(* under the invariant the role-link update after an accepted change never fails *)
Theorem c05_src_no_link_error : forall s o, SyncInv s -> side_ok (fst (src_step s o)) = true ->
  src_op_allowed s o = true -> o <> OSave ->
  forall e, snd (src_step s o) = Err e -> e = EAdapter.
Proof. exact src_c05_no_link_error. Qed.
Print Assumptions c05_src_no_link_error.

(* ---- (4) an explicit rebuild is a no-op on observations ---- *)
Theorem c05_src_rebuild_noop : forall ptab s, RoleSync s -> g_exact (e_model s) = true ->
  snd (src_step s OBuildRoleLinks) = Ok true /\
  RoleSync (fst (src_step s OBuildRoleLinks)) /\
  same_observations ptab s (fst (src_step s OBuildRoleLinks)) /\
  (shallow (f_rm_max (e_fs s)) (f_rm (e_fs s)) ->
   src_same_decisions ptab s (fst (src_step s OBuildRoleLinks))).
Proof. exact src_c05_rebuild_noop. Qed.
Print Assumptions c05_src_rebuild_noop.

(* the property as phrased: after ANY history with auto-build on, from any state satisfying the invariant *)
Theorem c05_src_from_inv : forall ptab s0 ops, SyncInv s0 -> src_hist_ok s0 ops = true ->
  let s := src_run_ops s0 ops in
  let s' := fst (src_step s OBuildRoleLinks) in
  snd (src_step s OBuildRoleLinks) = Ok true /\
  SyncInv s' /\
  same_observations ptab s s' /\
  (shallow (f_rm_max (e_fs s)) (f_rm (e_fs s)) ->
   src_same_decisions ptab s s' /\ forall q, ans_eq (src_ask ptab s' q) (src_ask ptab s q)).
Proof. exact src_c05_from_inv. Qed.
Print Assumptions c05_src_from_inv.

(* ... and from a freshly built enforcer (Enforcer::new with the translated initial load) *)
Theorem c05_src_history : forall ptab d a w ops,
  is_ok (snd (src_new_enforcer d a w)) = true -> ad_is_filtered a = false ->
  side_ok (fst (src_new_enforcer d a w)) = true ->
  src_hist_ok (fst (src_new_enforcer d a w)) ops = true ->
  let s := src_run_ops (fst (src_new_enforcer d a w)) ops in
  let s' := fst (src_step s OBuildRoleLinks) in
  snd (src_step s OBuildRoleLinks) = Ok true /\
  RoleSync s' /\
  same_observations ptab s s' /\
  (shallow (f_rm_max (e_fs s)) (f_rm (e_fs s)) ->
   src_same_decisions ptab s s' /\ forall q, ans_eq (src_ask ptab s' q) (src_ask ptab s q)).
Proof. exact src_c05_history. Qed.
Print Assumptions c05_src_history.

(* ---- (5) the executable trace predicate accepts the translated source's own observations ---- *)
Theorem c05_src_pred_holds : forall ptab s qs, RoleSync s -> g_exact (e_model s) = true ->
  shallow (f_rm_max (e_fs s)) (f_rm (e_fs s)) ->
  c05_pred (map (src_ask ptab s) qs) (map (src_ask ptab (fst (src_step s OBuildRoleLinks))) qs) = true.
Proof. exact src_c05_pred_holds. Qed.
Print Assumptions c05_src_pred_holds.

(* non-vacuity, through the generated code: the RBAC example of Properties/C05.v (30 mixed operations) satisfies the
   hypotheses of c05_src_run_ops / c05_src_from_inv, and the state reached after 16 of them is shallow and decides *)
Example c05_src_ex_init : SyncInv (ex_init rbac_defs).
Proof. exact ex_rbac_init. Qed.
Example c05_src_ex_hist_ok : src_hist_ok (ex_init rbac_defs) ex_rbac_ops = true.
Proof. vm_compute. reflexivity. Qed.
Example c05_src_ex_sync_b : role_sync_b (src_run_ops (ex_init rbac_defs) ex_rbac_ops) = true.
Proof. vm_compute. reflexivity. Qed.
Example c05_src_ex_mid :
  src_run_ops (ex_init rbac_defs) (firstn 16 ex_rbac_ops) = ex_rbac_mid /\
  shallow_b (f_rm_max (e_fs ex_rbac_mid)) (f_rm (e_fs ex_rbac_mid)) = true /\
  src_enforce no_ptab ex_rbac_mid [VStr (T "u"); VStr (T "data"); VStr (T "read")] = Ok true /\
  src_enforce no_ptab (fst (src_step ex_rbac_mid OBuildRoleLinks)) [VStr (T "u"); VStr (T "data"); VStr (T "read")] = Ok true /\
  src_enforce no_ptab ex_rbac_mid [VStr (T "d"); VStr (T "data"); VStr (T "read")] = Ok false.
Proof. vm_compute. repeat split; reflexivity. Qed.
