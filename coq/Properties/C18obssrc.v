(* C18obs (Properties/C18obs.v) stated about the TRANSLATED SOURCE: `src_step` / `src_run_ops` (Proofs/SrcStepP.v:
   Gen/InternalGen.v, Gen/ApiGen.v, Gen/EnforcerGen.v, regenerated every run from src/internal_api.rs,
   src/rbac_api.rs, src/management_api.rs, src/enforcer.rs), `src_ask` / `src_new_enforcer` (Proofs/SrcQueryP.v, over
   Gen/EnforceGen.v), the fresh enforcer `src_fresh_from` / `src_fresh_of` (Proofs/C18SrcP.v) and the history
   condition `src_obs_hist_ok` (src_hist_ok of Proofs/C05SrcP.v and the syntactic obs_op).
   Statements only; proofs in Proofs/C18obsSrcP.v (Properties/C18obs.v composed with Properties/SrcStep.v). *)
From CV Require Import Model.Base Model.Effector Model.RoleGraph Model.Expr Model.Enforce Model.Engine
     Model.SpecC05 Model.SpecC09 Model.SpecC18.
From CV Require Import Proofs.ExprP Proofs.ExModels Proofs.C09P Proofs.C05Sync Proofs.C05Load
     Proofs.C05Main Proofs.C05Rebuild Proofs.C05P Proofs.C18P Proofs.C18Q
     Proofs.C18Obs Proofs.C18ObsR Proofs.C18ObsH Proofs.C18ObsF Proofs.C18ObsM.
From CV Require Import Proofs.SrcStepP Proofs.SrcQueryP Proofs.C05SrcP Proofs.C18SrcP Proofs.C18obsSrcP.

(* ---- the three calls in an ObsSynced state, against the enforcer built from the model store ---- *)
Theorem c18obs_src_set_role_manager_cur : forall s mx s' b,
  src_step s (OSetRoleManager mx) = (s', Ok b) ->
  ObsSynced s -> e_auto_build s = true -> ad_is_filtered (e_adapter s) = false ->
  no_leftover (f_gfuns (e_fs s)) (e_model s) = true ->
  exists sf, src_fresh_from (cur_def s') (e_adapter s') s' = (sf, Ok true) /\
             (forall ptab q, ans_eq (src_ask ptab s' q) (src_ask ptab sf q)) /\
             f_rm_max (e_fs sf) = mx.
Proof. exact src_c18obs_set_role_manager_cur. Qed.
Print Assumptions c18obs_src_set_role_manager_cur.

Theorem c18obs_src_set_effector_cur : forall s s' b,
  src_step s OSetEffector = (s', Ok b) ->
  ObsSynced s -> ad_is_filtered (e_adapter s) = false ->
  gfuns_exactb (f_gfuns (e_fs s)) (e_model s) = true ->
  exists sf, src_fresh_from (cur_def s') (e_adapter s') s' = (sf, Ok true) /\
             forall ptab q, ans_eq (src_ask ptab s' q) (src_ask ptab sf q).
Proof. exact src_c18obs_set_effector_cur. Qed.
Print Assumptions c18obs_src_set_effector_cur.

Theorem c18obs_src_add_function_cur : forall s n u s' b,
  src_step s (OAddFunction n u) = (s', Ok b) ->
  ObsSynced s -> ad_is_filtered (e_adapter s) = false ->
  gfuns_exactb (f_gfuns (e_fs s)) (e_model s) = true ->
  exists sf, src_fresh_from (cur_def s') (e_adapter s') s' = (sf, Ok true) /\
             (forall ptab q, ans_eq (src_ask ptab s' q) (src_ask ptab sf q)) /\
             f_ufuns (e_fs s') = (n, u) :: f_ufuns (e_fs s).
Proof. exact src_c18obs_add_function_cur. Qed.
Print Assumptions c18obs_src_add_function_cur.

(* ---- the hypothesis holds in every reached state ---- *)
Theorem c18obs_src_reachable : forall d l w ops,
  is_ok (snd (src_new_enforcer d (AMemory l false) w)) = true ->
  NoDup l -> forallb pg_mem_line l = true -> keys_ok_b (d_model d) = true ->
  side_ok (fst (src_new_enforcer d (AMemory l false) w)) = true ->
  src_obs_hist_ok (fst (src_new_enforcer d (AMemory l false) w)) ops = true ->
  let s := src_run_ops (fst (src_new_enforcer d (AMemory l false) w)) ops in
  shallow (f_rm_max (e_fs s)) (f_rm (e_fs s)) ->
  ObsSynced s.
Proof. exact src_c18obs_reachable. Qed.
Print Assumptions c18obs_src_reachable.

(* ---- the composition: every history of incremental calls followed by set_role_manager, set_effector or
   add_function: the fresh enforcer can be built from the re-parsed definition and the adapter, and every answer of
   the reconfigured enforcer equals its answer ---- *)
Theorem c18obs_src_after_history_built : forall d l w ops o s' b,
  is_ok (snd (src_new_enforcer d (AMemory l false) w)) = true ->
  NoDup l -> forallb pg_mem_line l = true -> keys_ok_b (d_model d) = true ->
  clean_def d = true ->
  side_ok (fst (src_new_enforcer d (AMemory l false) w)) = true ->
  src_obs_hist_ok (fst (src_new_enforcer d (AMemory l false) w)) ops = true ->
  let s := src_run_ops (fst (src_new_enforcer d (AMemory l false) w)) ops in
  shallow (f_rm_max (e_fs s)) (f_rm (e_fs s)) ->
  reconf3 o = true -> src_step s o = (s', Ok b) ->
  exists sf, src_fresh_of s' = (sf, Ok true) /\
             forall ptab q, ans_eq (src_ask ptab s' q) (src_ask ptab sf q).
Proof. exact src_c18obs_after_history_built. Qed.
Print Assumptions c18obs_src_after_history_built.

(* against the store-as-definition: any definition d *)
Theorem c18obs_src_after_history_cur : forall d l w ops o s' b,
  is_ok (snd (src_new_enforcer d (AMemory l false) w)) = true ->
  NoDup l -> forallb pg_mem_line l = true -> keys_ok_b (d_model d) = true ->
  side_ok (fst (src_new_enforcer d (AMemory l false) w)) = true ->
  src_obs_hist_ok (fst (src_new_enforcer d (AMemory l false) w)) ops = true ->
  let s := src_run_ops (fst (src_new_enforcer d (AMemory l false) w)) ops in
  shallow (f_rm_max (e_fs s)) (f_rm (e_fs s)) ->
  reconf3 o = true -> src_step s o = (s', Ok b) ->
  exists sf, src_fresh_from (cur_def s') (e_adapter s') s' = (sf, Ok true) /\
             forall ptab q, ans_eq (src_ask ptab s' q) (src_ask ptab sf q).
Proof. exact src_c18obs_after_history_cur. Qed.
Print Assumptions c18obs_src_after_history_cur.

(* non-vacuity, through the generated code: the history of Properties/C18obs.v (with removals of grouping rules)
   satisfies every hypothesis of c18obs_src_after_history_built; the three calls succeed, the fresh enforcer is
   built, and 14 queries of every kind are answered alike *)
Example c18obs_src_ex_history_hyps :
  is_ok (snd (src_new_enforcer rbac_def (AMemory y_lines false) false)) = true /\
  forallb pg_mem_line y_lines = true /\ keys_ok_b (d_model rbac_def) = true /\
  clean_def rbac_def = true /\
  side_ok (fst (src_new_enforcer rbac_def (AMemory y_lines false) false)) = true /\
  src_obs_hist_ok (fst (src_new_enforcer rbac_def (AMemory y_lines false) false)) y_ops = true /\
  src_run_ops (fst (src_new_enforcer rbac_def (AMemory y_lines false) false)) y_ops = y_state /\
  shallow_b (f_rm_max (e_fs y_state)) (f_rm (e_fs y_state)) = true.
Proof. vm_compute. repeat split; reflexivity. Qed.
Example c18obs_src_ex_lines_nodup : NoDup y_lines.
Proof. exact y_lines_nodup. Qed.
Example c18obs_src_ex_answers_equal :
  forallb (fun o =>
    match src_step y_state o, src_fresh_of (fst (src_step y_state o)) with
    | (s', Ok _), (sf, Ok _) =>
      forallb (fun q => ans_equiv (src_ask no_ptab s' q) (src_ask no_ptab sf q)) y_queries
    | _, _ => false
    end) [OSetRoleManager 4; OSetEffector; OAddFunction (T "f") UTrue] = true.
Proof. vm_compute. reflexivity. Qed.
