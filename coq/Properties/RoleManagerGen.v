(* rs2coq part 11: the translated DefaultRoleManager (Gen/RoleManagerGen.v, generated from
   /repo/src/rbac/default_role_manager.rs) equals the role-manager model Model/RoleGraphM.v.
   Statements only; the proofs are in PinChecks/PcRoleManagerGen.v (lemmas in Proofs/PetgraphP.v).
   rm_abs / rm_inv / ord_ok / fuel_ok / mk_bfs / bfs_yields / gen_run are defined there. *)
From CV Require Import Model.Base Model.RoleGraph Model.RoleGraphM.
From CV Require Import Gen.RustStr Gen.RustVec Gen.RustIter Gen.Petgraph Gen.RoleManagerGen.
From CV Require Import Proofs.PetgraphP PinChecks.PcRoleManagerGen.
From Coq Require Import Permutation.

Theorem rmgen_translated : gen_rm_translated = true.
Proof. exact gen_rm_translated_ok. Qed.
Print Assumptions rmgen_translated.

Theorem rmgen_link_if_matches : forall g f np mp,
  gen_link_if_matches g f np mp =
  if m_has_node g np && m_has_node g mp
  then Some (link_if_matches f g np mp, lim_added f g np mp)
  else None.
Proof. exact gen_link_if_matches_ok. Qed.
Print Assumptions rmgen_link_if_matches.

Theorem rmgen_get_or_create_role : forall s n d, rm_inv s ->
  exists s', gen_get_or_create_role s n d = Some (s', n) /\
    rm_abs s' = set_dom (rm_abs s) (dom_key d)
                  (m_create_node (r_rfn (rm_abs s)) (mgraph_of (rm_abs s) (dom_key d)) n) /\
    rm_inv s' /\ rm_max_hierarchy_level s' = rm_max_hierarchy_level s.
Proof. exact gen_get_or_create_role_ok. Qed.
Print Assumptions rmgen_get_or_create_role.

Theorem rmgen_add_link : forall s a b d, rm_inv s ->
  exists s', gen_add_link s a b d = Some s' /\
    rm_abs s' = m_add_link (rm_abs s) a b d /\
    rm_inv s' /\ rm_max_hierarchy_level s' = rm_max_hierarchy_level s.
Proof. exact gen_add_link_ok. Qed.
Print Assumptions rmgen_add_link.

Theorem rmgen_delete_link : forall ord s a b d, ord_ok ord -> rm_inv s ->
  exists s' r, gen_delete_link ord s a b d = Some (s', r) /\
    rm_abs s' = fst (m_delete_link (rm_abs s) a b d) /\
    rs_is_ok r = snd (m_delete_link (rm_abs s) a b d) /\
    rm_inv s' /\ rm_max_hierarchy_level s' = rm_max_hierarchy_level s.
Proof. exact gen_delete_link_ok. Qed.
Print Assumptions rmgen_delete_link.

Theorem rmgen_clear : forall s,
  exists s', gen_clear s = Some s' /\ rm_abs s' = m_clear (rm_abs s) /\ rm_inv s' /\
             rm_max_hierarchy_level s' = rm_max_hierarchy_level s.
Proof. exact gen_clear_ok. Qed.
Print Assumptions rmgen_clear.

Theorem rmgen_matching_fn : forall s rf df, rm_inv s ->
  exists s', gen_matching_fn s rf df = Some s' /\ rm_abs s' = m_set_fns (rm_abs s) rf df /\ rm_inv s' /\
             rm_max_hierarchy_level s' = rm_max_hierarchy_level s.
Proof. exact gen_matching_fn_ok. Qed.
Print Assumptions rmgen_matching_fn.

(* HashMap::keys(): equal up to PERMUTATION, for every iteration order *)
Theorem rmgen_matched_domains : forall ord s d, ord_ok ord ->
  Permutation (gen_matched_domains ord s d) (matched_domains (rm_abs s) d).
Proof. exact gen_matched_domains_ok. Qed.
Print Assumptions rmgen_matched_domains.

Theorem rmgen_domain_has_role : forall ord s n d, ord_ok ord -> rm_inv s ->
  gen_domain_has_role ord s n d = Some (domain_has_role (rm_abs s) n d).
Proof. exact gen_domain_has_role_ok. Qed.
Print Assumptions rmgen_domain_has_role.

Theorem rmgen_bfs_iterator : forall g n withm, gen_bfs_iterator g n withm = m_succs withm g n.
Proof. exact gen_bfs_iterator_ok. Qed.
Print Assumptions rmgen_bfs_iterator.

Theorem rmgen_bfs_new : forall g start maxd withm,
  gen_bfs_new g start maxd withm =
  if m_has_node g start then Some (mk_bfs g [start] [start] maxd withm 0 1) else None.
Proof. exact gen_bfs_new_ok. Qed.
Print Assumptions rmgen_bfs_new.

Theorem rmgen_bfs_update_depth : forall g q disc maxd withm depth rem,
  gen_bfs_update_depth (mk_bfs g q disc maxd withm depth rem) =
  if Nat.leb 1 rem
  then Some (mk_bfs g q disc maxd withm (if Nat.eqb (rem - 1) 0 then depth + 1 else depth) (rem - 1))
  else None.
Proof. exact gen_bfs_update_depth_ok. Qed.
Print Assumptions rmgen_bfs_update_depth.

Theorem rmgen_bfs_next : forall g q disc maxd withm depth rem, pg_wf g -> (q <> [] -> 1 <= rem) ->
  gen_bfs_next (mk_bfs g q disc maxd withm depth rem) g =
  Some (if Nat.leb maxd depth then (mk_bfs g q disc maxd withm depth rem, None)
        else match q with
             | [] => (mk_bfs g q disc maxd withm depth rem, None)
             | v :: q' =>
               let nw := discover (m_succs withm g v) disc in
               (mk_bfs g (q' ++ nw) (disc ++ nw) maxd withm
                       (if Nat.eqb (rem - 1) 0 then depth + 1 else depth) (rem - 1 + length nw), Some v)
             end).
Proof. exact gen_bfs_next_ok. Qed.
Print Assumptions rmgen_bfs_next.

(* iterating the translated `next` yields the model's m_bfs_visit *)
Theorem rmgen_bfs_yields : forall g, pg_wf g -> forall fuel q disc maxd withm depth rem, length q <= rem ->
  bfs_yields fuel g (mk_bfs g q disc maxd withm depth rem) = Some (m_bfs_visit fuel withm g maxd q disc depth rem).
Proof. exact bfs_yields_ok. Qed.
Print Assumptions rmgen_bfs_yields.

Theorem rmgen_bfs_from : forall g a maxd withm, pg_wf g -> In a (m_nodes g) ->
  exists s0, gen_bfs_new g a maxd withm = Some s0 /\
             bfs_yields (S (length (m_nodes g))) g s0 = Some (m_bfs_from withm g maxd a).
Proof. exact bfs_from_ok. Qed.
Print Assumptions rmgen_bfs_from.

Theorem rmgen_has_link : forall ord fuel s a b d, ord_ok ord -> rm_inv s -> fuel_ok fuel s ->
  gen_has_link ord fuel s a b d = Some (m_has_link (rm_max_hierarchy_level s) (rm_abs s) a b d).
Proof. exact gen_has_link_ok. Qed.
Print Assumptions rmgen_has_link.

(* HashSet results: equal as SETS *)
Theorem rmgen_get_roles : forall ord s n d, ord_ok ord -> rm_inv s ->
  exists l, gen_get_roles ord s n d = Some l /\ forall y, In y l <-> In y (m_get_roles (rm_abs s) n d).
Proof. exact gen_get_roles_ok. Qed.
Print Assumptions rmgen_get_roles.

Theorem rmgen_get_users : forall ord s n d, ord_ok ord -> rm_inv s ->
  exists l, gen_get_users ord s n d = Some l /\ forall y, In y l <-> In y (m_get_users (rm_abs s) n d).
Proof. exact gen_get_users_ok. Qed.
Print Assumptions rmgen_get_users.

(* whole histories from DefaultRoleManager::new *)
Theorem rmgen_history : forall ord lvl h, ord_ok ord ->
  exists s, gen_run ord (gen_new lvl) h = Some (s, mrun_flags empty_mrm h) /\
            rm_abs s = mrun h /\ rm_inv s /\ rm_max_hierarchy_level s = lvl.
Proof. exact gen_history_ok. Qed.
Print Assumptions rmgen_history.

Theorem rmgen_answers : forall ord lvl h, ord_ok ord ->
  exists s F, gen_run ord (gen_new lvl) h = Some (s, mrun_flags empty_mrm h) /\
    (forall fuel a b d, F <= fuel -> gen_has_link ord fuel s a b d = Some (m_has_link lvl (mrun h) a b d)) /\
    (forall n d, exists l, gen_get_roles ord s n d = Some l /\ forall y, In y l <-> In y (m_get_roles (mrun h) n d)) /\
    (forall n d, exists l, gen_get_users ord s n d = Some l /\ forall y, In y l <-> In y (m_get_users (mrun h) n d)) /\
    (forall n d, gen_domain_has_role ord s n d = Some (domain_has_role (mrun h) n d)) /\
    (forall d, Permutation (gen_matched_domains ord s d) (matched_domains (mrun h) d)).
Proof. exact gen_answers_ok. Qed.
Print Assumptions rmgen_answers.

(* the hypotheses are satisfiable on a concrete history (patterns, two domains, deletions) *)
Example rmgen_example_history :
  option_map (fun p => (rm_all_domains (fst p), snd p)) (gen_run (@rev text) (gen_new 10) ex_history)
  = Some (r_doms (mrun ex_history), mrun_flags empty_mrm ex_history).
Proof. exact ex_history_runs. Qed.
Example rmgen_example_fuel : match ex_state with Some s => fuel_ok 6 s | None => False end.
Proof. exact ex_fuel_ok. Qed.
Example rmgen_example_ord : ord_ok (@rev text).
Proof. exact ord_ok_rev. Qed.
