(* C14 — Change notifications are a faithful changelog.
   Only statements closed by `exact`; proofs live in Proofs/C14P.v; the
   replica, the trace predicate and the classification of operations are
   defined in Model/SpecC14.v.
   Setting: a watcher is installed (e_watcher s = true); e_wlog is what it has
   received.  NOT notified by the code, hence outside every statement below:
   load_policy, load_filtered_policy, set_model, set_adapter (notified_op). *)
From CV Require Import Model.Base Model.Effector Model.RoleGraph Model.PathMatch
     Model.Expr Model.Enforce Model.Engine Model.SpecC14.
From CV Require Import Proofs.BaseP Proofs.C10P Proofs.C14P.

(* ------------------------------------------------------------------ *)
(* (5a) exactly one registered callback while notifications are on      *)
(* ------------------------------------------------------------------ *)
Theorem c14_notify_inv_new : forall d a w, NotifyInv (fst (new_enforcer d a w)).
Proof. exact notify_inv_new. Qed.
Print Assumptions c14_notify_inv_new.

(* preserved by EVERY operation, loads and reconfigurations included *)
Theorem c14_notify_inv_step : forall s o, NotifyInv s -> NotifyInv (fst (step s o)).
Proof. exact notify_inv_step. Qed.
Print Assumptions c14_notify_inv_step.

Theorem c14_notify_inv_reachable : forall d a w ops, NotifyInv (run_ops (fst (new_enforcer d a w)) ops).
Proof. exact notify_inv_reachable. Qed.
Print Assumptions c14_notify_inv_reachable.

(* enable_auto_notify_watcher(true) any number of times on a fresh enforcer
   keeps exactly one callback *)
Theorem c14_double_enable_ok : forall d a w k,
  e_callbacks (run_ops (fst (new_enforcer d a w)) (repeat (OEnableAutoNotify true) k)) = 1 /\
  e_auto_notify (run_ops (fst (new_enforcer d a w)) (repeat (OEnableAutoNotify true) k)) = true.
Proof. exact double_enable_ok. Qed.
Print Assumptions c14_double_enable_ok.

(* ------------------------------------------------------------------ *)
(* (5b) delivery count and payload                                      *)
(* ------------------------------------------------------------------ *)

(* single-call management operations, notifications on: a reported change
   delivers exactly one event carrying exactly `expected_event` (the rule /
   the batch as given / for a filtered removal the rules get_filtered_policy
   listed before the call); no change, an adapter error or a panic deliver
   nothing.  A LATE error (role-link update failing after the change) HAS
   delivered the event: late_ok holds for every call but a filtered removal
   on a model with a malformed role definition (c14_late_rule_needs_gdefs) *)
Theorem c14_delivery_single : forall s o c s' res,
  op_prim o = Some c -> e_watcher s = true -> NotifyInv s -> e_auto_notify s = true ->
  step s o = (s', res) ->
  match res with
  | Ok true => e_wlog s' = e_wlog s ++ [expected_event c (e_model s)]
  | Ok false => e_wlog s' = e_wlog s
  | Err EAdapter => e_wlog s' = e_wlog s
  | Err _ => late_ok c (e_model s) -> e_wlog s' = e_wlog s ++ [expected_event c (e_model s)]
  | Panic => e_wlog s' = e_wlog s
  end.
Proof. exact delivery_single. Qed.
Print Assumptions c14_delivery_single.

(* the removed rules of a filtered removal: what the filter listed in the old
   store = the old list filtered = old minus new, in order; never empty *)
Theorem c14_filtered_payload : forall md sec pt idx vals md' rem lrs ev,
  prim_mop (PRemoveFiltered sec pt idx vals) md = Some (md', true, ev, lrs) ->
  ev = EvRemoveFiltered sec pt rem ->
  m_get_filtered md sec pt idx vals = Some rem /\
  rem = filter (fmatch_true idx vals) (m_get_policy md sec pt) /\
  m_get_policy md' sec pt = os_remove_many (m_get_policy md sec pt) rem /\
  rem = os_diff (m_get_policy md sec pt) (m_get_policy md' sec pt) /\
  rem <> [].
Proof. exact filtered_payload. Qed.
Print Assumptions c14_filtered_payload.

(* notifications off: no management call (two-call helpers included) reaches
   the watcher *)
Theorem c14_delivery_off : forall s o,
  is_mgmt o = true -> e_watcher s = true -> e_auto_notify s = false ->
  e_wlog (fst (step s o)) = e_wlog s.
Proof. exact delivery_off. Qed.
Print Assumptions c14_delivery_off.

(* clear_policy / save_policy do not test the flag: they deliver once per
   registered callback, i.e. (NotifyInv) once when notifications are on and
   not at all when they are off; nothing when they fail *)
Theorem c14_delivery_clear : forall s s' res,
  e_watcher s = true -> step s OClear = (s', res) ->
  e_wlog s' = e_wlog s ++ match res with Ok _ => repeat EvClear (e_callbacks s) | _ => [] end.
Proof. exact delivery_clear. Qed.
Print Assumptions c14_delivery_clear.

Theorem c14_delivery_save : forall s s' res,
  e_watcher s = true -> step s OSave = (s', res) ->
  e_model s' = e_model s /\
  e_wlog s' = e_wlog s ++
    match res with
    | Ok _ => repeat (EvSave (m_get_all (e_model s) s_p ++ m_get_all (e_model s) s_g)) (e_callbacks s)
    | _ => []
    end.
Proof. exact delivery_save. Qed.
Print Assumptions c14_delivery_save.

Theorem c14_save_snapshot_is_replica : forall s,
  m_get_all (e_model s) s_p ++ m_get_all (e_model s) s_g
  = st_flat s_p (store_of (e_model s)) ++ st_flat s_g (store_of (e_model s)).
Proof. exact save_snapshot_is_replica. Qed.

(* one public call, everything at once: the events delivered, the replica
   step, the predicate's delivery rule *)
Theorem c14_step : forall s o,
  e_watcher s = true -> NotifyInv s -> gdefs_ok (e_model s) = true ->
  notified_op o = true -> (mutating o = true -> e_auto_notify s = true) ->
  exists evs,
    e_wlog (fst (step s o)) = e_wlog s ++ evs /\
    store_of (e_model (fst (step s o))) = replay evs (store_of (e_model s)) /\
    events_ok (e_auto_notify s) (store_of (e_model s))
              (m_get_all (e_model s) s_p) (m_get_all (e_model s) s_g) o (snd (step s o)) evs = true.
Proof.
  intros s o Hw Hi Hg Hn Hm. destruct (step_ok_all s o Hw Hi Hg Hn Hm) as [evs K].
  exists evs. split; [apply (so_log _ _ _ K)|]. split; [apply (so_store _ _ _ K)|apply (so_events _ _ _ K)].
Qed.
Print Assumptions c14_step.

(* ------------------------------------------------------------------ *)
(* (6) the replica                                                      *)
(* ------------------------------------------------------------------ *)

(* the invariant the histories start from is established by construction
   whenever every role definition has at least two placeholders, and kept *)
Theorem c14_inv_step : forall s o evs, C14Inv s -> step_ok s o evs -> C14Inv (fst (step s o)).
Proof. exact c14inv_step. Qed.

(* for every history of management calls, clear, save, toggles and the other
   notified operations in which every mutating call runs with notifications
   on (toggles anywhere, any number of times): the events logged during the
   history, folded into the initial store with ideal ordered-set operations,
   give the primary's store *)
Theorem c14_replica_eq : forall ops s0,
  C14Inv s0 -> forallb notified_op ops = true -> toggles_ok (e_auto_notify s0) ops = true ->
  exists evs,
    e_wlog (run_ops s0 ops) = e_wlog s0 ++ evs /\
    store_of (e_model (run_ops s0 ops)) = replay evs (store_of (e_model s0)).
Proof. exact replica_eq. Qed.
Print Assumptions c14_replica_eq.

(* ... at every prefix, as the listings get_all_policy / get_all_grouping_policy,
   in order *)
Theorem c14_replica_eq_listing : forall ops1 ops2 s0,
  C14Inv s0 -> forallb notified_op (ops1 ++ ops2) = true ->
  toggles_ok (e_auto_notify s0) (ops1 ++ ops2) = true ->
  let s := run_ops s0 ops1 in
  let replica := replay (new_events s0 s) (store_of (e_model s0)) in
  replica = store_of (e_model s) /\
  st_flat s_p replica = m_get_all (e_model s) s_p /\
  st_flat s_g replica = m_get_all (e_model s) s_g.
Proof. exact replica_eq_listing. Qed.
Print Assumptions c14_replica_eq_listing.

(* the starting invariant holds for every enforcer constructed with a watcher
   over a model whose role definitions have at least two placeholders, which
   is the case whenever Enforcer::new succeeded *)
Theorem c14_inv_new_enforcer : forall d a,
  gdefs_ok (d_model d) = true -> C14Inv (fst (new_enforcer d a true)).
Proof. exact c14_inv_new_enforcer. Qed.
Print Assumptions c14_inv_new_enforcer.

Theorem c14_new_enforcer_ok_gdefs : forall d a w b,
  snd (new_enforcer d a w) = Ok b -> gdefs_ok (d_model d) = true.
Proof. exact new_enforcer_ok_gdefs. Qed.

(* so: for every successfully constructed enforcer and every such history *)
Theorem c14_replica_eq_constructed : forall d a b ops,
  snd (new_enforcer d a true) = Ok b ->
  forallb notified_op ops = true -> toggles_ok true ops = true ->
  let s0 := fst (new_enforcer d a true) in
  exists evs,
    e_wlog (run_ops s0 ops) = e_wlog s0 ++ evs /\
    store_of (e_model (run_ops s0 ops)) = replay evs (store_of (e_model s0)) /\
    m_get_all (e_model (run_ops s0 ops)) s_p = st_flat s_p (replay evs (store_of (e_model s0))) /\
    m_get_all (e_model (run_ops s0 ops)) s_g = st_flat s_g (replay evs (store_of (e_model s0))).
Proof.
  intros d a b ops Hok Hn Ht s0.
  assert (Inv : C14Inv s0) by (apply c14_inv_new_enforcer; eapply new_enforcer_ok_gdefs, Hok).
  assert (N : e_auto_notify s0 = true) by (apply (proj2 (double_enable_ok d a true 0))).
  assert (Ht' : toggles_ok (e_auto_notify s0) ops = true) by (rewrite N; exact Ht).
  destruct (replica_eq ops s0 Inv Hn Ht') as [evs [L S]].
  exists evs. split; [exact L|]. split; [exact S|]. rewrite <- S.
  split; symmetry; [apply st_flat_store_of_p|apply st_flat_store_of_g].
Qed.
Print Assumptions c14_replica_eq_constructed.

(* ------------------------------------------------------------------ *)
(* (7) the model's own traces satisfy the executable predicate          *)
(* ------------------------------------------------------------------ *)
Theorem c14_pred_holds : forall ops s,
  C14Inv s -> forallb notified_op ops = true -> toggles_ok (e_auto_notify s) ops = true ->
  c14_pred (e_auto_notify s) (store_of (e_model s)) (model_trace s ops) = true.
Proof. exact c14_pred_model. Qed.
Print Assumptions c14_pred_holds.

(* ------------------------------------------------------------------ *)
(* non-vacuity, necessity of the hypotheses                             *)
(* ------------------------------------------------------------------ *)
Example c14_inv_satisfiable : C14Inv ex_s0.
Proof. exact ex_s0_inv. Qed.

Example c14_hist_hyps :
  forallb notified_op ex_hist = true /\ toggles_ok (e_auto_notify ex_s0) ex_hist = true.
Proof. exact ex_hist_hyps. Qed.

Example c14_hist_results :
  map o_res (model_trace ex_s0 ex_hist) =
  [Ok true; Ok false; Ok true; Ok false; Ok true; Ok true; Ok true; Ok true; Ok true; Ok true;
   Ok true; Ok true; Ok true; Ok true; Ok true; Ok true; Ok false; Ok true; Err EPolicy; Ok true;
   Ok true; Ok true] /\
  map (fun o => length (o_events o)) (model_trace ex_s0 ex_hist) =
  [1; 0; 1; 0; 1; 1; 1; 1; 1; 1; 0; 0; 0; 0; 2; 1; 0; 0; 1; 1; 1; 1].
Proof. exact ex_hist_results. Qed.

Example c14_hist_payloads :
  nth 8 (map o_events (model_trace ex_s0 ex_hist)) [] =
    [EvRemoveFiltered s_p s_p [[alice; data1; read]; [carol; data1; read]]] /\
  nth 9 (map o_events (model_trace ex_s0 ex_hist)) [] =
    [EvSave [[s_p; s_p; bob; data2; write]; [s_p; s_p; alice; data2; read]; [s_p; T "p2"; admin; write];
             [s_g; s_g; alice; admin]; [s_g; s_g; bob; admin]]] /\
  nth 14 (map o_events (model_trace ex_s0 ex_hist)) [] =
    [EvRemoveFiltered s_g s_g [[alice; admin]]; EvRemoveFiltered s_p s_p [[alice; data2; read]]] /\
  nth 19 (map o_events (model_trace ex_s0 ex_hist)) [] = [EvClear].
Proof. exact ex_hist_payloads. Qed.

Example c14_hist_pred :
  c14_pred (e_auto_notify ex_s0) (store_of (e_model ex_s0)) (model_trace ex_s0 ex_hist) = true.
Proof. exact ex_hist_pred. Qed.

Example c14_hist_replica :
  replay (new_events ex_s0 (run_ops ex_s0 ex_hist)) (store_of (e_model ex_s0))
  = [((s_p, s_p), [[alice; data1; read]]); ((s_p, T "p2"), []); ((s_g, s_g), [])] /\
  store_of (e_model (run_ops ex_s0 ex_hist))
  = [((s_p, s_p), [[alice; data1; read]]); ((s_p, T "p2"), []); ((s_g, s_g), [])].
Proof. exact ex_hist_replica. Qed.

(* the predicate rejects a duplicated delivery, a dropped one, a wrong
   payload, a spurious event *)
Example c14_pred_not_trivial :
  c14_pred true (store_of (e_model ex_s0)) (ex_tamper (fun l => l ++ l) 0 (model_trace ex_s0 ex_hist)) = false /\
  c14_pred true (store_of (e_model ex_s0)) (ex_tamper (fun _ => []) 2 (model_trace ex_s0 ex_hist)) = false /\
  c14_pred true (store_of (e_model ex_s0))
           (ex_tamper (fun _ => [EvRemoveFiltered s_p s_p [[alice; data1; read]]]) 8
                      (model_trace ex_s0 ex_hist)) = false /\
  c14_pred true (store_of (e_model ex_s0)) (ex_tamper (fun _ => [EvClear]) 1 (model_trace ex_s0 ex_hist)) = false.
Proof. exact c14_pred_rejects. Qed.

(* NotifyInv is necessary: two callbacks deliver every change twice *)
Example c14_needs_notify_inv :
  let s := upd_flags ex_s0 true true true true 2 in
  e_wlog (fst (step s (OAdd s_p s_p [alice; data1; read])))
    = [EvAdd s_p s_p [alice; data1; read]; EvAdd s_p s_p [alice; data1; read]] /\
  c14_pred true (store_of (e_model s)) (model_trace s [OAdd s_p s_p [alice; data1; read]]) = false.
Proof. exact double_callback_refuted. Qed.

(* the toggle condition is necessary: a change made while notifications are
   off is (by design) not replicated *)
Example c14_replica_needs_notify_on :
  let ops := [OEnableAutoNotify false; OAdd s_p s_p [alice; data1; read]; OEnableAutoNotify true] in
  forallb notified_op ops = true /\ toggles_ok true ops = false /\
  new_events ex_s0 (run_ops ex_s0 ops) = [] /\
  store_of (e_model (run_ops ex_s0 ops)) <> replay (new_events ex_s0 (run_ops ex_s0 ops)) (store_of (e_model ex_s0)).
Proof. exact replica_needs_notify_on. Qed.

(* loads change the policy without any notification *)
Example c14_replica_excludes_load :
  let s := ex_new (AMemory [[s_p; s_p; alice; data1; read]] true) in
  m_get_all (e_model s) s_p = [] /\
  new_events s (run_ops s [OLoad]) = [] /\
  m_get_all (e_model (run_ops s [OLoad])) s_p = [[s_p; s_p; alice; data1; read]].
Proof. exact replica_excludes_load. Qed.

(* gdefs_ok is necessary: with a one-placeholder role definition clear_policy
   empties store and adapter, fails in the rebuild and notifies nobody *)
Example c14_clear_needs_gdefs :
  e_watcher ex_bad = true /\ e_callbacks ex_bad = 1 /\ e_auto_notify ex_bad = true /\
  gdefs_ok (e_model ex_bad) = false /\
  m_get_all (e_model ex_bad) s_p = [[s_p; s_p; alice; data1; read]] /\
  snd (step ex_bad OClear) = Err EModel /\
  m_get_all (e_model (fst (step ex_bad OClear))) s_p = [] /\
  e_adapter (fst (step ex_bad OClear)) = AMemory [] false /\
  new_events ex_bad (fst (step ex_bad OClear)) = [].
Proof. exact clear_needs_gdefs. Qed.

Example c14_late_rule_needs_gdefs :
  let s := fst (step ex_bad (OEnableAutoSave false)) in
  let r := step s (ORemoveFiltered s_g s_g 0 [alice]) in
  snd r = Err EModel /\ new_events s (fst r) = [] /\ e_model (fst r) = e_model s.
Proof. exact late_rule_needs_gdefs. Qed.
