(* C11 — Caching never changes a decision.
   Only statements closed by `exact`; proofs live in Proofs/C11P.v. *)
From CV Require Import Model.Base Model.Expr Model.Enforce Model.Engine Model.Cached
     Model.SpecC11 Proofs.ExModels Proofs.C11P.
From CV Require Import Model.RoleGraph Model.RmCache Proofs.RoleGraphP Proofs.RmCacheP.

(* ---- the cache key ---- *)
(* the comparison of cached keys is plain equality of the request values (for
   every kind of value, attribute maps included) and of the context: two
   requests share a slot exactly when they are the same request *)
Theorem c11_value_eq : forall a b, veqb a b = true <-> a = b.
Proof. exact veqb_eq. Qed.
Print Assumptions c11_value_eq.
Theorem c11_key_eq : forall a b, ckey_eqb a b = true <-> a = b.
Proof. exact ckey_eqb_eq. Qed.
Print Assumptions c11_key_eq.

(* ---- what a decision depends on ---- *)
(* a decision reads only: the enabled flag, the matcher expressions, the
   function state (role manager, limit, g-functions, user functions) and the
   values/tokens/rules of the r, p, e, m sections — not the g section, not any
   handle, not the adapter, the other flags or the watcher *)
Theorem c11_decide_reads : forall ptab s1 s2, dec_eqv s1 s2 ->
  forall k, decide ptab s1 k = decide ptab s2 k.
Proof. exact decide_eqv. Qed.
Print Assumptions c11_decide_reads.

Theorem c11_decide_ignores_handles : forall ptab s1 s2,
  e_enabled s1 = e_enabled s2 -> e_mexprs s1 = e_mexprs s2 -> e_fs s1 = e_fs s2 ->
  strip_model (e_model s1) = strip_model (e_model s2) ->
  forall k, decide ptab s1 k = decide ptab s2 k.
Proof. exact decide_ignores_handles. Qed.
Print Assumptions c11_decide_ignores_handles.

(* ---- the substance: a call after which the cache is kept changed no decision ----
   (save_policy, the auto-save/auto-build/auto-notify toggles, and management
   calls that returned Ok(false), an adapter error, or panicked) *)
Theorem c11_noclear_no_change : forall ptab s o,
  is_rbac o = false -> clears_after o (snd (step s o)) = false ->
  forall k, decide ptab (fst (step s o)) k = decide ptab s k.
Proof. exact step_noclear_decide. Qed.
Print Assumptions c11_noclear_no_change.

(* ---- the invariant: every cached entry is the current uncached decision ---- *)
Theorem c11_coherent_init : forall ptab s, CacheCoherent ptab {| c_inner := s; c_cache := [] |}.
Proof. exact coherent_init. Qed.
Theorem c11_coherent_call : forall ptab c o,
  CacheCoherent ptab c -> CacheCoherent ptab (fst (cstep c o)).
Proof. exact cstep_coherent. Qed.
Print Assumptions c11_coherent_call.
Theorem c11_coherent_request : forall ptab c k,
  CacheCoherent ptab c -> CacheCoherent ptab (fst (cenforce ptab c k)).
Proof. exact cenforce_coherent. Qed.
Print Assumptions c11_coherent_request.
Theorem c11_coherent_reachable : forall ptab h s,
  CacheCoherent ptab (crun_state ptab {| c_inner := s; c_cache := [] |} h).
Proof. exact coherent_reachable. Qed.
Print Assumptions c11_coherent_reachable.

(* whatever the cache forgets (capacity, TinyLFU admission, expiry), the rest
   is still coherent *)
Theorem c11_eviction_safe : forall ptab c cache',
  sub_cache cache' (c_cache c) -> CacheCoherent ptab c ->
  CacheCoherent ptab {| c_inner := c_inner c; c_cache := cache' |}.
Proof. exact sub_cache_coherent. Qed.
Print Assumptions c11_eviction_safe.

(* ---- the cached enforcer is the plain enforcer plus a cache ---- *)
(* every call has the same effect on the wrapped enforcer and the same result
   (the RBAC helpers being one or two management calls chained with `?`) *)
Theorem c11_call_refines : forall c o,
  c_inner (fst (cstep c o)) = fst (step (c_inner c) o) /\
  snd (cstep c o) = snd (step (c_inner c) o).
Proof. exact cstep_refines. Qed.
Print Assumptions c11_call_refines.

(* ---- MAIN: for every history of calls and requests (plain and with context)
   the cached enforcer returns exactly the outputs of the uncached twin ---- *)
Theorem c11_same_decisions : forall ptab h s,
  crun ptab {| c_inner := s; c_cache := [] |} h = prun ptab s h.
Proof. exact same_decisions. Qed.
Print Assumptions c11_same_decisions.

(* ... and the two enforcers end in the same state *)
Theorem c11_same_inner_state : forall ptab h s,
  c_inner (crun_state ptab {| c_inner := s; c_cache := [] |} h) = prun_state s h.
Proof. exact same_inner_state. Qed.
Print Assumptions c11_same_inner_state.

(* ... also when before every item the cache forgets an arbitrary set of keys *)
Theorem c11_same_decisions_evict : forall ptab h s,
  crun_evict ptab {| c_inner := s; c_cache := [] |} h = prun ptab s (map snd h).
Proof. exact same_decisions_evict. Qed.
Print Assumptions c11_same_decisions_evict.

(* ... and when it is replaced by ANY sub-cache, chosen by any policy, from any
   coherent starting point *)
Theorem c11_same_decisions_any : forall ptab c h outs,
  crun_any ptab c h outs -> CacheCoherent ptab c -> outs = prun ptab (c_inner c) h.
Proof. exact same_decisions_any. Qed.
Print Assumptions c11_same_decisions_any.

(* the executable trace predicate holds of the model's own observations *)
Theorem c11_pred_holds : forall ptab h s,
  c11_pred (crun ptab {| c_inner := s; c_cache := [] |} h) (prun ptab s h) = true.
Proof. exact c11_pred_model. Qed.
Print Assumptions c11_pred_holds.

(* ---- non-vacuity ---- *)
Example c11_nonvacuous :
  let c := crun_state no_ptab (cinit w_acl) [CIReq k_a1r; CIReq k_a1w; CIOp OSave] in
  c_cache c = [(k_a1w, false); (k_a1r, true)] /\
  snd (cenforce no_ptab c k_a1r) = Ok true.
Proof. exact ex_nonvacuous. Qed.
Example c11_remove_filtered_handle :
  let s := w_rbac in
  let s' := fst (step s (ORemoveFiltered s_g s_g 0 [bob])) in
  snd (step s (ORemoveFiltered s_g s_g 0 [bob])) = Ok false /\
  clears_after (ORemoveFiltered s_g s_g 0 [bob]) (Ok false) = false /\
  decide no_ptab s' k_a1r = decide no_ptab s k_a1r.
Proof. exact ex_remove_filtered_handle. Qed.

(* ---- necessity of every clear (the repaired defects): the cached enforcer
   that omits the clear on one kind of call answers differently from the
   uncached twin (left: defective cached run, right: uncached run) ---- *)
Example c11_needs_clear_on_clear_policy :
  cmp_runs (clears_except is_clear) w_acl [CIReq k_a1r; CIOp OClear; CIReq k_a1r] =
  ([Ok true; Ok true; Ok true], [Ok true; Ok true; Ok false]).
Proof. exact w_clear. Qed.
Example c11_needs_clear_on_load_policy :
  cmp_runs (clears_except is_load) w_acl
    [CIOp (OEnableAutoSave false); CIOp (OAdd s_p s_p [alice; data2; read]); CIReq k_a2r;
     CIOp OLoad; CIReq k_a2r] =
  ([Ok true; Ok true; Ok true; Ok true; Ok true], [Ok true; Ok true; Ok true; Ok true; Ok false]).
Proof. exact w_load. Qed.
Example c11_needs_clear_on_load_filtered :
  cmp_runs (clears_except is_load_filtered) w_acl
    [CIReq k_a1r; CIOp (OLoadFiltered [bob] []); CIReq k_a1r] =
  ([Ok true; Ok true; Ok true], [Ok true; Ok true; Ok false]).
Proof. exact w_load_filtered. Qed.
Example c11_needs_clear_on_set_model :
  cmp_runs (clears_except is_set_model) w_acl [CIReq k_a1w; CIOp (OSetModel acl2_def); CIReq k_a1w] =
  ([Ok false; Ok true; Ok false], [Ok false; Ok true; Ok true]).
Proof. exact w_set_model. Qed.
Example c11_needs_clear_on_set_adapter :
  cmp_runs (clears_except is_set_adapter) w_acl
    [CIReq k_a1r; CIOp (OSetAdapter (mem [pl bob data2 write])); CIReq k_a1r] =
  ([Ok true; Ok true; Ok true], [Ok true; Ok true; Ok false]).
Proof. exact w_set_adapter. Qed.
Example c11_needs_clear_on_set_role_manager :
  cmp_runs (clears_except is_set_rm) w_rbac [CIReq k_a1r; CIOp (OSetRoleManager 1); CIReq k_a1r] =
  ([Ok true; Ok true; Ok true], [Ok true; Ok true; Ok false]).
Proof. exact w_set_role_manager. Qed.
Example c11_needs_clear_on_build_role_links :
  cmp_runs (clears_except is_build) w_rbac
    [CIOp (OEnableAutoBuild false); CIOp (OAdd s_g s_g [bob; root]); CIReq k_b1r;
     CIOp OBuildRoleLinks; CIReq k_b1r] =
  ([Ok true; Ok true; Ok false; Ok true; Ok false], [Ok true; Ok true; Ok false; Ok true; Ok true]).
Proof. exact w_build_role_links. Qed.
Example c11_needs_clear_on_enable_enforce :
  cmp_runs (clears_except is_enable) w_acl [CIReq k_a1w; CIOp (OEnableEnforce false); CIReq k_a1w] =
  ([Ok false; Ok true; Ok false], [Ok false; Ok true; Ok true]).
Proof. exact w_enable_enforce. Qed.
Example c11_needs_clear_on_add_function :
  cmp_runs (clears_except is_add_function) w_km
    [CIReq (CKPlain (req alice (T "/data/1") read)); CIOp (OAddFunction (T "keyMatch") UEq);
     CIReq (CKPlain (req alice (T "/data/1") read))] =
  ([Ok true; Ok true; Ok true], [Ok true; Ok true; Ok false]).
Proof. exact w_add_function. Qed.
Example c11_needs_clear_on_management :
  cmp_runs (clears_except is_mgmt) w_acl
    [CIReq k_a2r; CIOp (OAdd s_p s_p [alice; data2; read]); CIReq k_a2r] =
  ([Ok false; Ok true; Ok false], [Ok false; Ok true; Ok true]).
Proof. exact w_mgmt. Qed.
Example c11_needs_clear_on_rbac_api :
  cmp_runs (clears_except is_mgmt) w_acl
    [CIReq k_a2r; CIOp (ORbac (RAddPermission alice [data2; read])); CIReq k_a2r] =
  ([Ok false; Ok true; Ok false], [Ok false; Ok true; Ok true]).
Proof. exact w_rbac_api. Qed.
(* clearing only on Ok(true) is not enough: a management call that changed the
   model and then failed updating the role links must clear as well *)
Example c11_needs_clear_on_link_error :
  cmp_runs clears_ok_only w_rbac1
    [CIOp (OEnableAutoBuild false); CIOp (OAdd s_g s_g [bob; root]); CIOp (OEnableAutoBuild true);
     CIReq k_a1r; CIOp (ORemoveMany s_g s_g [[alice; admin]; [bob; root]]); CIReq k_a1r] =
  ([Ok true; Ok true; Ok true; Ok true; Err ERbac; Ok true],
   [Ok true; Ok true; Ok true; Ok true; Err ERbac; Ok false]).
Proof. exact w_mgmt_link_error. Qed.
(* the context must be part of the key *)
Example c11_needs_context_in_key :
  let h := [CIReq (CKPlain (req alice data1 write)); CIReq (CKCtx (T "2") (req alice data1 write))] in
  crun_shared no_ptab (cinit w_ctx) h = [Ok false; Ok false] /\
  prun no_ptab w_ctx h = [Ok false; Ok true] /\
  crun no_ptab (cinit w_ctx) h = [Ok false; Ok true].
Proof. exact w_ctx_shared_slot. Qed.

(* ---- the role manager's own has_link cache (feature `cached`) ---- *)
(* a write that keeps the cache did not change the manager at all *)
Theorem c11_rm_add_noop : forall m a b d, wf m -> link_added m a b d = false -> add_link m a b d = m.
Proof. exact add_link_noop. Qed.
Theorem c11_rm_delete_noop : forall m a b d, link_removed m a b d = false ->
  fst (delete_link m a b d) = m.
Proof. exact delete_link_noop. Qed.
Print Assumptions c11_rm_add_noop.
(* the invariant (every cached answer is the current has_link answer) holds
   initially, after every write, after every query, and for every sub-cache *)
Theorem c11_rm_inv_init : forall maxd m, wf m -> RcInv maxd {| rc_rm := m; rc_cache := [] |}.
Proof. exact rcinv_init. Qed.
Theorem c11_rm_inv_write : forall maxd c o, RcInv maxd c -> RcInv maxd (fst (rc_write c o)).
Proof. exact rc_write_inv. Qed.
Theorem c11_rm_inv_query : forall maxd c a b d, RcInv maxd c ->
  snd (rc_has_link maxd c a b d) = has_link maxd (rc_rm c) a b d /\
  rc_rm (fst (rc_has_link maxd c a b d)) = rc_rm c /\
  RcInv maxd (fst (rc_has_link maxd c a b d)).
Proof. exact rc_has_link_spec. Qed.
Theorem c11_rm_inv_eviction : forall maxd c cache', rc_sub cache' (rc_cache c) -> RcInv maxd c ->
  RcInv maxd {| rc_rm := rc_rm c; rc_cache := cache' |}.
Proof. exact rcinv_sub. Qed.
Print Assumptions c11_rm_inv_write.
Print Assumptions c11_rm_inv_query.
(* along every history of add_link / delete_link / clear / has_link the cached
   manager answers as the uncached one *)
Theorem c11_rm_same_answers : forall maxd h,
  rc_run maxd {| rc_rm := []; rc_cache := [] |} h = rm_run maxd [] h.
Proof. exact rc_same_answers. Qed.
Print Assumptions c11_rm_same_answers.
Example c11_rm_needs_clear_on_add :
  let h := [RCHas ta tb None; RCWrite (LAdd ta tb None); RCHas ta tb None] in
  rc_run_noclear 10 {| rc_rm := []; rc_cache := [] |} h = [false; true; false] /\
  rm_run 10 [] h = [false; true; true] /\
  rc_run 10 {| rc_rm := []; rc_cache := [] |} h = [false; true; true].
Proof. exact rc_needs_clear_on_add. Qed.
Example c11_rm_needs_clear_on_delete :
  let h := [RCWrite (LAdd ta tb None); RCHas ta tb None; RCWrite (LDel ta tb None); RCHas ta tb None] in
  rc_run_noclear 10 {| rc_rm := []; rc_cache := [] |} h = [true; true; true; true] /\
  rm_run 10 [] h = [true; true; true; false].
Proof. exact rc_needs_clear_on_delete. Qed.
Example c11_rm_hit :
  let c := fst (rc_has_link 10 (rc_add_link {| rc_rm := []; rc_cache := [] |} ta tb None) ta tb None) in
  rc_cache c = [(rkey_of ta tb None, true)] /\
  rc_has_link 10 c ta tb (Some DEFAULT_DOMAIN) = (c, true).
Proof. exact rc_hit_example. Qed.
