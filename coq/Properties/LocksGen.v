(* rs2coq part 19 - the lock discipline READ from the Rust source is the one the
   C20 theorems assume.  gen_lk_F (Gen/LocksGen.v, generated on every run by
   tools/rs2coq_locks.py) is the lock skeleton of function F; lk_fn p t (Gen/LocksRt.v)
   says that t is the sequence of role-manager instructions of a complete execution
   of a function with skeleton p.
   (a) lg_*_exact: the executions of F issue EXACTLY the role-manager part of
       Model/Locks.v's enforce_prog k / mgmt_prog k / handle_read_prog k;
       lg_*_eq: the generated closed form gen_locks_F k is that program;
   (b) lg_table_flat, lg_flat_*: every run of every generated skeleton is flat;
   (c) lg_c20_*: the headline theorems of Properties/C20.v for threads whose
       programs are the generated ones (by shape parameter, and by arbitrary runs).
   Only statements closed by `exact`; the proofs are in PinChecks/PcLocksGen.v
   (computations on the generated skeletons) and Proofs/LocksGenP.v (the verified
   analysis). *)
From CV Require Import Model.Base Model.Locks Model.SpecC20 Gen.LocksRt Gen.LocksGen.
From CV Require Import Proofs.C20P Proofs.LocksGenP PinChecks.PcLocksGen.

Theorem lg_table_exact : forall name p B lo hi, In (name, p, B, lo, hi) gen_locks_table ->
  forall t, lk_fn p t <-> exists k, in_range lo hi k = true /\ t = repeat_prog k B.
Proof. exact pc_table_exact. Qed.
Print Assumptions lg_table_exact.

Theorem lg_table_flat : forall name p B lo hi, In (name, p, B, lo, hi) gen_locks_table ->
  forall t, lk_fn p t -> flat_locks t = true.
Proof. exact pc_table_flat. Qed.
Print Assumptions lg_table_flat.

(* every translated function of the crate (the whole management / RBAC API, not only
   the covered set): its executions issue the role-manager part of a call program *)
Theorem lg_table_calls : forall name p B lo hi, In (name, p, B, lo, hi) gen_locks_table ->
  forall t, lk_fn p t -> exists c, t = rm_part (call_prog c).
Proof. exact pc_table_calls. Qed.
Print Assumptions lg_table_calls.

(* the g-function closures of register_g_function!: one read section each *)
Theorem lg_g_closure_1 : forall t, lk_fn gen_lk_g_closure_1 t <-> t = [Acq RM MR; Read; Rel RM].
Proof. exact pc_g_closure_1. Qed.
Print Assumptions lg_g_closure_1.

Theorem lg_g_closure_2 : forall t, lk_fn gen_lk_g_closure_2 t <-> t = [Acq RM MR; Read; Rel RM].
Proof. exact pc_g_closure_2. Qed.
Print Assumptions lg_g_closure_2.

Theorem lg_registered : forall t, lk_fn gen_lk_registered t <-> t = [Acq RM MR; Read; Rel RM].
Proof. exact pc_registered. Qed.
Print Assumptions lg_registered.

(* registering the closures issues nothing *)
Theorem lg_register_g_functions : forall t, lk_fn gen_lk_register_g_functions t <-> t = [].
Proof. exact pc_register_g_functions. Qed.
Print Assumptions lg_register_g_functions.

Theorem lg_private_enforce_eq : forall k, gen_locks_private_enforce k = rm_part (enforce_prog k).
Proof. exact pc_private_enforce_eq. Qed.
Print Assumptions lg_private_enforce_eq.

Theorem lg_private_enforce_exact : forall t,
  lk_fn gen_lk_private_enforce t <-> exists k, t = rm_part (enforce_prog k).
Proof. exact pc_private_enforce_exact. Qed.
Print Assumptions lg_private_enforce_exact.

Theorem lg_private_enforce_with_context_eq : forall k,
  gen_locks_private_enforce_with_context k = rm_part (enforce_prog k).
Proof. exact pc_private_enforce_with_context_eq. Qed.
Print Assumptions lg_private_enforce_with_context_eq.

Theorem lg_private_enforce_with_context_exact : forall t,
  lk_fn gen_lk_private_enforce_with_context t <-> exists k, t = rm_part (enforce_prog k).
Proof. exact pc_private_enforce_with_context_exact. Qed.
Print Assumptions lg_private_enforce_with_context_exact.

Theorem lg_enforce_eq : forall k, gen_locks_enforce k = rm_part (enforce_prog k).
Proof. exact pc_enforce_eq. Qed.
Print Assumptions lg_enforce_eq.

Theorem lg_enforce_exact : forall t, lk_fn gen_lk_enforce t <-> exists k, t = rm_part (enforce_prog k).
Proof. exact pc_enforce_exact. Qed.
Print Assumptions lg_enforce_exact.

Theorem lg_enforce_with_context_eq : forall k, gen_locks_enforce_with_context k = rm_part (enforce_prog k).
Proof. exact pc_enforce_with_context_eq. Qed.
Print Assumptions lg_enforce_with_context_eq.

Theorem lg_enforce_with_context_exact : forall t,
  lk_fn gen_lk_enforce_with_context t <-> exists k, t = rm_part (enforce_prog k).
Proof. exact pc_enforce_with_context_exact. Qed.
Print Assumptions lg_enforce_with_context_exact.

(* CachedEnforcer::enforce takes &self and no lock of its own (the cache is a
   mini-moka concurrent map behind &self methods): a hit issues nothing, a miss
   what Enforcer::private_enforce issues *)
Theorem lg_cached_enforce_eq : forall k, gen_locks_cached_enforce k = rm_part (enforce_prog k).
Proof. exact pc_cached_enforce_eq. Qed.
Print Assumptions lg_cached_enforce_eq.

Theorem lg_cached_enforce_exact : forall t,
  lk_fn gen_lk_cached_enforce t <-> exists k, t = rm_part (enforce_prog k).
Proof. exact pc_cached_enforce_exact. Qed.
Print Assumptions lg_cached_enforce_exact.

Theorem lg_assertion_build_role_links_eq : forall k, gen_locks_assertion_build_role_links k = rm_part (mgmt_prog k).
Proof. exact pc_assertion_build_role_links_eq. Qed.
Print Assumptions lg_assertion_build_role_links_eq.

Theorem lg_assertion_build_role_links_exact : forall t,
  lk_fn gen_lk_assertion_build_role_links t <-> exists k, t = rm_part (mgmt_prog k).
Proof. exact pc_assertion_build_role_links_exact. Qed.
Print Assumptions lg_assertion_build_role_links_exact.

Theorem lg_assertion_build_incremental_role_links_eq : forall k,
  gen_locks_assertion_build_incremental_role_links k = rm_part (mgmt_prog k).
Proof. exact pc_assertion_build_incremental_role_links_eq. Qed.
Print Assumptions lg_assertion_build_incremental_role_links_eq.

Theorem lg_assertion_build_incremental_role_links_exact : forall t,
  lk_fn gen_lk_assertion_build_incremental_role_links t <-> exists k, t = rm_part (mgmt_prog k).
Proof. exact pc_assertion_build_incremental_role_links_exact. Qed.
Print Assumptions lg_assertion_build_incremental_role_links_exact.

Theorem lg_model_build_role_links_eq : forall k, gen_locks_model_build_role_links k = rm_part (mgmt_prog k).
Proof. exact pc_model_build_role_links_eq. Qed.
Print Assumptions lg_model_build_role_links_eq.

Theorem lg_model_build_role_links_exact : forall t,
  lk_fn gen_lk_model_build_role_links t <-> exists k, t = rm_part (mgmt_prog k).
Proof. exact pc_model_build_role_links_exact. Qed.
Print Assumptions lg_model_build_role_links_exact.

Theorem lg_model_build_incremental_role_links_eq : forall k,
  gen_locks_model_build_incremental_role_links k = rm_part (mgmt_prog k).
Proof. exact pc_model_build_incremental_role_links_eq. Qed.
Print Assumptions lg_model_build_incremental_role_links_eq.

Theorem lg_model_build_incremental_role_links_exact : forall t,
  lk_fn gen_lk_model_build_incremental_role_links t <-> exists k, t = rm_part (mgmt_prog k).
Proof. exact pc_model_build_incremental_role_links_exact. Qed.
Print Assumptions lg_model_build_incremental_role_links_exact.

Theorem lg_enforcer_build_incremental_role_links_eq : forall k,
  gen_locks_enforcer_build_incremental_role_links k = rm_part (mgmt_prog k).
Proof. exact pc_enforcer_build_incremental_role_links_eq. Qed.
Print Assumptions lg_enforcer_build_incremental_role_links_eq.

Theorem lg_enforcer_build_incremental_role_links_exact : forall t,
  lk_fn gen_lk_enforcer_build_incremental_role_links t <-> exists k, t = rm_part (mgmt_prog k).
Proof. exact pc_enforcer_build_incremental_role_links_exact. Qed.
Print Assumptions lg_enforcer_build_incremental_role_links_exact.

(* the rebuild always clears first: at least one write section *)
Theorem lg_enforcer_build_role_links_eq : forall k, gen_locks_enforcer_build_role_links k = rm_part (mgmt_prog k).
Proof. exact pc_enforcer_build_role_links_eq. Qed.
Print Assumptions lg_enforcer_build_role_links_eq.

Theorem lg_enforcer_build_role_links_exact : forall t,
  lk_fn gen_lk_enforcer_build_role_links t <-> exists k, 1 <= k /\ t = rm_part (mgmt_prog k).
Proof. exact pc_enforcer_build_role_links_exact. Qed.
Print Assumptions lg_enforcer_build_role_links_exact.

(* the five *_internal functions reach the role manager only through
   build_incremental_role_links (feature "incremental") of Enforcer /
   CachedEnforcer -> the model -> the assertion *)
Theorem lg_add_policy_internal_eq : forall k, gen_locks_add_policy_internal k = rm_part (mgmt_prog k).
Proof. exact pc_add_policy_internal_eq. Qed.
Print Assumptions lg_add_policy_internal_eq.

Theorem lg_add_policy_internal_exact : forall t,
  lk_fn gen_lk_add_policy_internal t <-> exists k, t = rm_part (mgmt_prog k).
Proof. exact pc_add_policy_internal_exact. Qed.
Print Assumptions lg_add_policy_internal_exact.

Theorem lg_add_policies_internal_eq : forall k, gen_locks_add_policies_internal k = rm_part (mgmt_prog k).
Proof. exact pc_add_policies_internal_eq. Qed.
Print Assumptions lg_add_policies_internal_eq.

Theorem lg_add_policies_internal_exact : forall t,
  lk_fn gen_lk_add_policies_internal t <-> exists k, t = rm_part (mgmt_prog k).
Proof. exact pc_add_policies_internal_exact. Qed.
Print Assumptions lg_add_policies_internal_exact.

Theorem lg_remove_policy_internal_eq : forall k, gen_locks_remove_policy_internal k = rm_part (mgmt_prog k).
Proof. exact pc_remove_policy_internal_eq. Qed.
Print Assumptions lg_remove_policy_internal_eq.

Theorem lg_remove_policy_internal_exact : forall t,
  lk_fn gen_lk_remove_policy_internal t <-> exists k, t = rm_part (mgmt_prog k).
Proof. exact pc_remove_policy_internal_exact. Qed.
Print Assumptions lg_remove_policy_internal_exact.

Theorem lg_remove_policies_internal_eq : forall k, gen_locks_remove_policies_internal k = rm_part (mgmt_prog k).
Proof. exact pc_remove_policies_internal_eq. Qed.
Print Assumptions lg_remove_policies_internal_eq.

Theorem lg_remove_policies_internal_exact : forall t,
  lk_fn gen_lk_remove_policies_internal t <-> exists k, t = rm_part (mgmt_prog k).
Proof. exact pc_remove_policies_internal_exact. Qed.
Print Assumptions lg_remove_policies_internal_exact.

Theorem lg_remove_filtered_policy_internal_eq : forall k,
  gen_locks_remove_filtered_policy_internal k = rm_part (mgmt_prog k).
Proof. exact pc_remove_filtered_policy_internal_eq. Qed.
Print Assumptions lg_remove_filtered_policy_internal_eq.

Theorem lg_remove_filtered_policy_internal_exact : forall t,
  lk_fn gen_lk_remove_filtered_policy_internal t <-> exists k, t = rm_part (mgmt_prog k).
Proof. exact pc_remove_filtered_policy_internal_exact. Qed.
Print Assumptions lg_remove_filtered_policy_internal_exact.

(* role queries: k = number of role-manager lookups *)
Theorem lg_get_roles_for_user_eq : forall k, gen_locks_get_roles_for_user k = handle_read_prog k.
Proof. exact pc_get_roles_for_user_eq. Qed.
Print Assumptions lg_get_roles_for_user_eq.

Theorem lg_get_roles_for_user_exact : forall t,
  lk_fn gen_lk_get_roles_for_user t <-> exists k, k <= 1 /\ t = handle_read_prog k.
Proof. exact pc_get_roles_for_user_exact. Qed.
Print Assumptions lg_get_roles_for_user_exact.

Theorem lg_get_users_for_role_eq : forall k, gen_locks_get_users_for_role k = handle_read_prog k.
Proof. exact pc_get_users_for_role_eq. Qed.
Print Assumptions lg_get_users_for_role_eq.

Theorem lg_get_users_for_role_exact : forall t,
  lk_fn gen_lk_get_users_for_role t <-> exists k, k <= 1 /\ t = handle_read_prog k.
Proof. exact pc_get_users_for_role_exact. Qed.
Print Assumptions lg_get_users_for_role_exact.

Theorem lg_get_implicit_roles_for_user_eq : forall k, gen_locks_get_implicit_roles_for_user k = handle_read_prog k.
Proof. exact pc_get_implicit_roles_for_user_eq. Qed.
Print Assumptions lg_get_implicit_roles_for_user_eq.

Theorem lg_get_implicit_roles_for_user_exact : forall t,
  lk_fn gen_lk_get_implicit_roles_for_user t <-> exists k, t = handle_read_prog k.
Proof. exact pc_get_implicit_roles_for_user_exact. Qed.
Print Assumptions lg_get_implicit_roles_for_user_exact.

(* get_implicit_users_for_permission: the role lookups, then one enforce per user *)
Theorem lg_get_implicit_users_for_permission_eq : forall k,
  gen_locks_get_implicit_users_for_permission k = handle_read_prog k.
Proof. exact pc_get_implicit_users_for_permission_eq. Qed.
Print Assumptions lg_get_implicit_users_for_permission_eq.

Theorem lg_get_implicit_users_for_permission_exact : forall t,
  lk_fn gen_lk_get_implicit_users_for_permission t <-> exists k, t = handle_read_prog k.
Proof. exact pc_get_implicit_users_for_permission_exact. Qed.
Print Assumptions lg_get_implicit_users_for_permission_exact.

(* ------------------------------------------------------------------ *)
Theorem lg_flat_enforce_prog : forall k, flat_locks (rm_part (enforce_prog k)) = true.
Proof. exact pc_flat_enforce_prog. Qed.
Print Assumptions lg_flat_enforce_prog.

Theorem lg_flat_mgmt_prog : forall k, flat_locks (rm_part (mgmt_prog k)) = true.
Proof. exact pc_flat_mgmt_prog. Qed.
Print Assumptions lg_flat_mgmt_prog.

Theorem lg_flat_handle_prog : forall k, flat_locks (handle_read_prog k) = true.
Proof. exact pc_flat_handle_prog. Qed.
Print Assumptions lg_flat_handle_prog.

Theorem lg_gen_init_sys : forall gtss, gen_init_sys gtss = init_sys (to_calls gtss).
Proof. exact pc_gen_init_sys. Qed.
Print Assumptions lg_gen_init_sys.

Theorem lg_run_init_sys : forall rss, Forall (Forall grun_ok) rss -> exists tss, run_init_sys rss = init_sys tss.
Proof. exact pc_run_init_sys. Qed.
Print Assumptions lg_run_init_sys.

(* the headline theorems of Properties/C20.v, for the generated programs *)
Theorem lg_c20_inv : forall gtss s, sreach (gen_init_sys gtss) s -> ProtoInv s.
Proof. exact pc_c20_inv. Qed.
Print Assumptions lg_c20_inv.

Theorem lg_c20_progress : forall gtss s, sreach (gen_init_sys gtss) s -> all_done s = false ->
  exists i, step_thread s i <> None.
Proof. exact pc_c20_progress. Qed.
Print Assumptions lg_c20_progress.

Theorem lg_c20_stuck_is_done : forall gtss s, sreach (gen_init_sys gtss) s ->
  (forall i, step_thread s i = None) -> all_done s = true.
Proof. exact pc_c20_stuck_is_done. Qed.
Print Assumptions lg_c20_stuck_is_done.

Theorem lg_c20_fair_completes : forall gtss segs,
  Forall (covers (length gtss)) segs -> smeasure (gen_init_sys gtss) <= length segs ->
  all_done (run_schedule (gen_init_sys gtss) (concat segs)) = true.
Proof. exact pc_c20_fair_completes. Qed.
Print Assumptions lg_c20_fair_completes.

Theorem lg_c20_final_counters : forall gtss s, sreach (gen_init_sys gtss) s -> all_done s = true ->
  version (dat s) = sumf n_mgmt (to_calls gtss) /\ writes (dat s) = sumf n_writes (to_calls gtss) /\
  in_call (dat s) = false.
Proof. exact pc_c20_final_counters. Qed.
Print Assumptions lg_c20_final_counters.

(* every decision is a serial one: what the reads of a finished run observed
   satisfies the executable predicate of Model/SpecC20.v *)
Theorem lg_c20_pred_holds : forall gtss s, sreach (gen_init_sys gtss) s -> all_done s = true ->
  c20_pred (to_calls gtss) (seen_of s) = true.
Proof. exact pc_c20_pred_holds. Qed.
Print Assumptions lg_c20_pred_holds.

(* determinism of enforcement: a thread that only enforces never observes a
   management call half applied, and each of its calls sees ONE version *)
Theorem lg_c20_enforce_quiescent : forall gtss s i cs t, sreach (gen_init_sys gtss) s ->
  nth_error (to_calls gtss) i = Some cs -> nth_error (threads s) i = Some t ->
  Forall is_enforce cs -> forall x, In x (seen t) -> snd x = false.
Proof. exact pc_c20_enforce_quiescent. Qed.
Print Assumptions lg_c20_enforce_quiescent.

Theorem lg_c20_seen_final : forall gtss s i cs t, sreach (gen_init_sys gtss) s ->
  nth_error (to_calls gtss) i = Some cs -> nth_error (threads s) i = Some t -> prog t = [] ->
  exists bs, Forall2 block_full cs bs /\ seen t = concat bs.
Proof. exact pc_c20_seen_final. Qed.
Print Assumptions lg_c20_seen_final.

Theorem lg_c20_no_writer_single_thread : forall gtss s i t, sumf n_mgmt (to_calls gtss) = 0 ->
  sreach (gen_init_sys gtss) s -> nth_error (threads s) i = Some t ->
  forall x, In x (seen t) -> x = (0, false).
Proof. exact pc_c20_no_writer_single_thread. Qed.
Print Assumptions lg_c20_no_writer_single_thread.

(* the same for threads given by arbitrary runs of the skeletons *)
Theorem lg_c20_runs_inv : forall rss s, Forall (Forall grun_ok) rss -> sreach (run_init_sys rss) s -> ProtoInv s.
Proof. exact pc_c20_runs_inv. Qed.
Print Assumptions lg_c20_runs_inv.

Theorem lg_c20_runs_progress : forall rss s, Forall (Forall grun_ok) rss ->
  sreach (run_init_sys rss) s -> all_done s = false -> exists i, step_thread s i <> None.
Proof. exact pc_c20_runs_progress. Qed.
Print Assumptions lg_c20_runs_progress.

Theorem lg_c20_runs_stuck_is_done : forall rss s, Forall (Forall grun_ok) rss ->
  sreach (run_init_sys rss) s -> (forall i, step_thread s i = None) -> all_done s = true.
Proof. exact pc_c20_runs_stuck_is_done. Qed.
Print Assumptions lg_c20_runs_stuck_is_done.

Theorem lg_c20_runs_can_complete : forall rss s, Forall (Forall grun_ok) rss ->
  sreach (run_init_sys rss) s -> exists sched, all_done (run_schedule s sched) = true.
Proof. exact pc_c20_runs_can_complete. Qed.
Print Assumptions lg_c20_runs_can_complete.

(* the analysis itself (independent of the generated file): sound and complete *)
Theorem lg_analysis_exact : forall B p r, lk_cnt B p = Some r ->
  forall t o, lk_run p t o <-> exists k, cin k (rget r o) /\ t = repeat_prog k B.
Proof. exact lk_cnt_spec. Qed.
Print Assumptions lg_analysis_exact.
Theorem lg_static_flat : forall p t, lk_flat false p = true -> lk_fn p t -> flat_locks t = true.
Proof. exact lk_flat_fn. Qed.
Print Assumptions lg_static_flat.

(* completeness of the translation *)
Example lg_translated : gen_locks_translated = true.
Proof. exact gen_locks_translated_ok. Qed.
Example lg_sites : gen_locks_sites_covered = gen_locks_sites_total /\ gen_locks_sites_total = 13.
Proof. exact (conj gen_locks_sites_ok gen_locks_sites_pin). Qed.

(* non-vacuity: three threads running generated programs complete under round robin and
   what they observed is explained serially; concrete runs of the skeletons; the bounds bite *)
Example lg_ex_runs :
  let s := run_schedule (gen_init_sys ex_gtss) (ex_rr 3 40) in
  all_done s = true /\ version (dat s) = 2 /\ writes (dat s) = 5 /\
  c20_pred (to_calls ex_gtss) (seen_of s) = true.
Proof. exact ex_gtss_runs. Qed.
Example lg_ex_table_row : In (T "private_enforce", gen_lk_private_enforce, RBk, 0, None) gen_locks_table /\
                          In (T "enforcer_build_role_links", gen_lk_enforcer_build_role_links, WBk, 1, None) gen_locks_table.
Proof. exact ex_table_row. Qed.
Example lg_ex_private_enforce_run : lk_fn gen_lk_private_enforce (repeat_prog 3 [Acq RM MR; Read; Rel RM]).
Proof. exact ex_private_enforce_run. Qed.
Example lg_ex_build_role_links_needs_clear : ~ lk_fn gen_lk_enforcer_build_role_links [].
Proof. exact ex_build_role_links_needs_clear. Qed.
Example lg_ex_get_roles_at_most_one : ~ lk_fn gen_lk_get_roles_for_user (handle_read_prog 2).
Proof. exact ex_get_roles_at_most_one. Qed.
Example lg_ex_grun_ok : Forall (Forall grun_ok)
  [[RE GPrivateEnforce (repeat_prog 2 RBk); RQ GRolesForUser RBk]; [RMg GBuildRoleLinks (repeat_prog 2 WBk)]].
Proof. exact ex_grun_ok. Qed.
(* NEGATIVE: a read guard held across the evaluation is not flat, and one of its runs is
   the program of C20P.nested_reader, which deadlocks (Properties/C20.v c20_nested_read_deadlocks) *)
Example lg_ex_held_across_eval :
  lk_flat false held_across_eval = false /\ lk_fn held_across_eval (prog nested_reader) /\
  flat_locks (prog nested_reader) = false.
Proof. exact (conj held_across_eval_not_flat (conj held_across_eval_run held_across_eval_unflat_run)). Qed.
