(* C16 part A / C09 text clause, extended to QUOTED values with inner edge
   white space. A value written in double quotes keeps its inner text verbatim
   (column_of trims the span, strips the two quotes and does not trim inside);
   csv_field quotes exactly the values containing a comma. Classes (Model/Csv.v,
   Model/SpecC16.v): csv_safe_q (non-empty, no quote, no LF/CR; edge white space
   allowed), csv_safe_r = csv_safe or (csv_safe_q and has a comma), col_ok f v =
   colfmt_ok f and (csv_safe v or (csv_safe_q v and (quoted format or comma))).
   Only statements closed by `exact`; proofs live in Proofs/CsvQP.v. *)
From CV Require Import Model.Base Model.Enforce Model.Engine Model.Csv Model.SpecC16.
From CV Require Import Proofs.CsvP Proofs.CsvQP.

(* (1) one column: whatever blanks surround the value OUTSIDE the quotes and
   whatever blanks the value has inside, the scanner takes exactly the rendered
   column up to the separating comma, and the column's value is the value *)
Theorem c16q_column_scan : forall f v rest,
  col_ok f v = true ->
  (rest = [] \/ exists r, rest = comma :: r) ->
  esc_c_match (render_col f v ++ rest) = (render_col f v, rest) /\
  column_of (render_col f v) = v.
Proof. exact column_scan_q. Qed.
Print Assumptions c16q_column_scan.
Example c16q_ex_col_ok : col_ok ex_q_fmt (T "  a b ") = true /\ csv_safe (T "  a b ") = false /\
  has_comma (T "  a b ") = false.
Proof. exact ex_q_col_ok. Qed.
Example c16q_ex_col_text : render_col ex_q_fmt (T "  a b ") = T " ""  a b """ ++ [ascii_of_nat 9].
Proof. exact ex_q_col_text. Qed.
Example c16q_ex_col_scan :
  esc_c_match (render_col ex_q_fmt (T "  a b ") ++ T ",next") = (render_col ex_q_fmt (T "  a b "), T ",next") /\
  column_of (render_col ex_q_fmt (T "  a b ")) = T "  a b ".
Proof. exact ex_q_col_scan. Qed.

(* (2) a rendered rule, under every spacing / quoting variant whose columns are
   col_ok, parses to the rule *)
Theorem c16q_parse_render_row : forall f0 fs pt vs,
  ptype_safe pt = true -> colfmt_ok f0 = true -> length fs = length vs ->
  forallb (fun fv => col_ok (fst fv) (snd fv)) (combine fs vs) = true ->
  parse_csv_line (render_row (f0 :: fs) (pt :: vs)) = Some (pt :: vs).
Proof. exact parse_render_row_q. Qed.
Print Assumptions c16q_parse_render_row.
Example c16q_ex_row_hyps :
  ptype_safe (T "p2") = true /\ colfmt_ok f_sp = true /\ length ex_q_fs = length ex_q_vs /\
  forallb (fun fv => col_ok (fst fv) (snd fv)) (combine ex_q_fs ex_q_vs) = true /\
  forallb csv_safe ex_q_vs = false.
Proof. exact ex_q_row_hyps. Qed.
Example c16q_ex_row :
  parse_csv_line (render_row (f_sp :: ex_q_fs) (T "p2" :: ex_q_vs)) = Some (T "p2" :: ex_q_vs).
Proof. exact ex_q_row. Qed.

(* (3) what the file / string adapters write for a rule is read back as that
   rule, for every value csv_field renders losslessly *)
Theorem c16q_line_file : forall pt vs,
  ptype_safe pt = true -> forallb csv_safe_r vs = true -> vs <> [] ->
  parse_csv_line (render_line_file pt vs) = Some (pt :: vs).
Proof. exact parse_render_line_file_q. Qed.
Print Assumptions c16q_line_file.
Theorem c16q_line_string : forall pt vs,
  ptype_safe pt = true -> forallb csv_safe_r vs = true -> vs <> [] ->
  parse_csv_line (render_line_string pt vs) = Some (pt :: vs).
Proof. exact parse_render_line_string_q. Qed.
Print Assumptions c16q_line_string.
Example c16q_ex_line_hyps :
  ptype_safe (T "p") = true /\ forallb csv_safe_r [T "x, "; T " ,y "; T "z"] = true.
Proof. exact ex_q_line_hyps. Qed.
Example c16q_ex_line_text :
  render_line_file (T "p") [T "x, "; T " ,y "; T "z"] = T "p, ""x, "","" ,y "",z".
Proof. exact ex_q_text. Qed.
Example c16q_ex_line_file :
  parse_csv_line (render_line_file (T "p") [T "x, "; T " ,y "; T "z"]) = Some [T "p"; T "x, "; T " ,y "; T "z"].
Proof. exact ex_q_roundtrip_file. Qed.
Example c16q_ex_line_string :
  parse_csv_line (render_line_string (T "p") [T "x, "; T " ,y "; T "z"]) = Some [T "p"; T "x, "; T " ,y "; T "z"].
Proof. exact ex_q_roundtrip_string. Qed.

(* (4) a policy file - rows in any col_ok layout, blank lines, comment lines,
   LF or CRLF line ends, last line with or without terminator - stands for
   exactly its rows, in order *)
Theorem c16q_parsed_lines_file : forall items final,
  forallb (fun ib => fitem_ok_q (fst ib)) items = true ->
  (match final with Some it => fitem_ok_q it | None => true end) = true ->
  parsed_lines (render_file items final) = file_rows items final.
Proof. exact parsed_lines_file_q. Qed.
Print Assumptions c16q_parsed_lines_file.
Example c16q_ex_file_ok :
  forallb (fun ib => fitem_ok_q (fst ib)) ex_q_items = true /\
  (match ex_q_final with Some it => fitem_ok_q it | None => true end) = true /\
  forallb (fun ib => fitem_ok (fst ib)) ex_q_items = false.
Proof. exact ex_q_file_ok. Qed.
Example c16q_ex_file_rows :
  parsed_lines (render_file ex_q_items ex_q_final)
  = [T "p2" :: ex_q_vs; [T "g"; T "alice"; T "admin, "]; [T "p"; T " last "]].
Proof. exact ex_q_file_rows. Qed.

(* (5) whole store: the text the file (string) adapter saves stands for
   exactly the lines of the store *)
Theorem c16q_save_file : forall md, model_text_safe_r md = true ->
  parsed_lines (save_text_file md) = text_lines md.
Proof. exact save_file_parsed_q. Qed.
Print Assumptions c16q_save_file.
Theorem c16q_save_string : forall md, model_text_safe_r md = true ->
  parsed_lines (save_text_string md) = text_lines md.
Proof. exact save_string_parsed_q. Qed.
Print Assumptions c16q_save_string.
Example c16q_ex_store_safe : model_text_safe_r ex_q_store = true /\ model_text_safe ex_q_store = false.
Proof. exact ex_q_store_safe. Qed.
Example c16q_ex_store_text : save_text_file ex_q_store =
  T "p, alice,""x, "",a b" ++ [nl] ++ T "p, bob,"" ,y "",k=v" ++ [nl] ++
  T "g, alice,"" admin, root """ ++ [nl].
Proof. exact ex_q_store_text. Qed.
Example c16q_ex_store_roundtrip :
  parsed_lines (save_text_file ex_q_store) = text_lines ex_q_store /\
  parsed_lines (save_text_string ex_q_store) = text_lines ex_q_store.
Proof. exact ex_q_store_roundtrip. Qed.

(* (6) the new classes contain the old ones (so (1)-(5) imply the theorems of
   C16.v part A and C09text.v), and are strictly larger *)
Theorem c16q_class_extends : forall v, csv_safe v = true -> csv_safe_r v = true.
Proof. exact class_extends. Qed.
Print Assumptions c16q_class_extends.
Theorem c16q_class_extends_col : forall f v, colfmt_ok f = true -> csv_safe v = true -> col_ok f v = true.
Proof. exact class_extends_col. Qed.
Theorem c16q_class_extends_item : forall it, fitem_ok it = true -> fitem_ok_q it = true.
Proof. exact fitem_class_extends. Qed.
Print Assumptions c16q_class_extends_item.
Theorem c16q_class_extends_model : forall md, model_text_safe md = true -> model_text_safe_r md = true.
Proof. exact model_class_extends. Qed.
Print Assumptions c16q_class_extends_model.
(* csv_safe = csv_safe_q + no edge white space; for a never-quoting format
   col_ok is csv_safe_r *)
Theorem c16q_csv_safe_split : forall v, csv_safe v = csv_safe_q v && tight v.
Proof. exact csv_safe_split. Qed.
Theorem c16q_safe_r_is_col_ok : forall f v, colfmt_ok f = true -> cf_quote f = false ->
  col_ok f v = csv_safe_r v.
Proof. exact csv_safe_r_col_ok. Qed.
Print Assumptions c16q_safe_r_is_col_ok.
Example c16q_ex_new_values :
  csv_safe_r (T "x, ") = true /\ csv_safe (T "x, ") = false /\
  csv_safe_r (T " ,y ") = true /\ csv_safe (T " ,y ") = false.
Proof. exact ex_q_values. Qed.

(* (7) what (1)-(5) protect: a reader that also trims INSIDE the quotes
   (column_of_trim_inside, parse_csv_line_ti in Proofs/CsvQP.v) agrees with the
   model on the old class but loses the trailing blank of "x, " *)
Example c16q_inner_trim_refuted_col :
  column_of_trim_inside (render_col f_plain (T "x, ")) = T "x," /\
  column_of_trim_inside (render_col f_plain (T "x, ")) <> T "x, " /\
  column_of (render_col f_plain (T "x, ")) = T "x, ".
Proof. exact inner_trim_refuted_col. Qed.
Example c16q_inner_trim_refuted :
  exists pt vs, ptype_safe pt = true /\ forallb csv_safe_r vs = true /\ vs <> [] /\
    parse_csv_line_ti (render_line_file pt vs) <> Some (pt :: vs) /\
    parse_csv_line (render_line_file pt vs) = Some (pt :: vs).
Proof. exact inner_trim_refuted_line. Qed.
Example c16q_inner_trim_same_on_old_class :
  parse_csv_line_ti (render_line_file (T "p") [T "alice"; T "x,y"; T "a b"])
  = parse_csv_line (render_line_file (T "p") [T "alice"; T "x,y"; T "a b"]).
Proof. exact inner_trim_same_on_old_class. Qed.

(* (8) the side condition is needed: written unquoted, a value with a trailing
   blank loses it; quoted, it is kept *)
Example c16q_unquoted_edge_blank_lost :
  exists f v, colfmt_ok f = true /\ csv_safe_q v = true /\ has_comma v = false /\ cf_quote f = false /\
    col_ok f v = false /\ column_of (render_col f v) <> v /\
    parse_csv_line (render_row [f_plain; f] [T "p"; v]) = Some [T "p"; T "a"].
Proof. exact unquoted_edge_blank_refuted. Qed.
Example c16q_quoted_edge_blank_kept :
  col_ok {| cf_pre := []; cf_post := []; cf_quote := true |} (T "a ") = true /\
  parse_csv_line (render_row [f_plain; {| cf_pre := []; cf_post := []; cf_quote := true |}] [T "p"; T "a "])
  = Some [T "p"; T "a "].
Proof. exact quoted_edge_blank_ok. Qed.
Example c16q_safe_r_needed :
  csv_safe_q (T "a ") = true /\ csv_safe_r (T "a ") = false /\
  parse_csv_line (render_line_file (T "p") [T "a "]) = Some [T "p"; T "a"].
Proof. exact safe_r_needed. Qed.
