(* rs2coq part 14, stretch: the pattern REWRITING of key_match2 / key_match3 (src/model/function_map.rs:
   str::replace of slash-star, MAT_B / MAT_P .replace_all, the anchors), translated through the regex matcher of
   Gen/Regex.v, equals the rewriting pipelines of Model/PathMatch.v for ALL texts.  Statements only; proofs in
   PinChecks/PcRegexFmGen.v.

   PARTIAL.  The full statements (kept visible below) need the regular expression that regex_match compiles
   AT RUN TIME from the rewritten text (Regex::new(key2)): the translation takes that call as the parameter
   f_regex_match.  What is missing is a Gallina Regex::new (a parser of regex-syntax into Gen/Regex.v's AST)
   and the agreement of Gen/Regex.v's matcher with PathMatch.amatch on PathMatch.parse_regex's class. *)
From CV Require Import Model.Base Model.PathMatch.
From CV Require Import Gen.RustStr Gen.Regex Gen.RegexRt Gen.RegexGen.
From CV Require Import Proofs.RegexP PinChecks.PcRegexFmGen.

(* the full statements: for SOME faithful f_regex_match (Regex::new(p).unwrap().is_match(k)) the translated
   functions agree with the model wherever the model is defined *)
Definition regexgen_key_match2_full (regex_match : text -> text -> bool) : Prop :=
  forall k1 k2 r, PathMatch.key_match2 k1 k2 = Some r -> gen_key_match2 regex_match k1 k2 = r.
Definition regexgen_key_match3_full (regex_match : text -> text -> bool) : Prop :=
  forall k1 k2 r, PathMatch.key_match3 k1 k2 = Some r -> gen_key_match3 regex_match k1 k2 = r.

Theorem regexgen_fm_translated : gen_regex_fm_translated = true.
Proof. exact gen_regex_fm_translated_ok. Qed.
Print Assumptions regexgen_fm_translated.
Theorem regexgen_fm_wf : rx_wf gen_mat_b && rx_wf gen_mat_p = true.
Proof. exact gen_regex_fm_wf. Qed.
Print Assumptions regexgen_fm_wf.

(* what is proved: the text handed to regex_match is the model's rewritten pattern, for every key2 *)
Theorem regexgen_key_match2_partial : forall rm k1 k2, gen_key_match2 rm k1 k2 = rm k1 (rewrite_km2 k2).
Proof. exact gen_key_match2_ok. Qed.
Print Assumptions regexgen_key_match2_partial.
Example regexgen_key_match2_ex :
  gen_key_match2 (fun _ p => teqb p (T "^/a/[^/]+/.*/[^/]+$")) [] (T "/a/:id/*/:x") = true.
Proof. vm_compute. reflexivity. Qed.

Theorem regexgen_key_match3_partial : forall rm k1 k2, gen_key_match3 rm k1 k2 = rm k1 (rewrite_km3 k2).
Proof. exact gen_key_match3_ok. Qed.
Print Assumptions regexgen_key_match3_partial.
Example regexgen_key_match3_ex :
  gen_key_match3 (fun _ p => teqb p (T "^/a/[^/]+/[^/]+/{z$")) [] (T "/a/{id}/{x}y}/{z") = true.
Proof. vm_compute. reflexivity. Qed.

(* the general fact behind MAT_P: a greedy star of a class that CONTAINS the byte that must follow it
   backtracks to the LAST such byte of the run *)
Theorem regex_star_backtracks_to_last : forall k, (forall b s c, k b s c =
    match s with x :: s' => if Ascii.eqb x rbrace then Some (x :: b, s', c) else None | [] => None end) ->
  forall s b c,
  star_set (fun x => negb (Ascii.eqb x slash)) k b s c =
  match last_rb s with
  | Some j => Some (rev (firstn (S j) s) ++ b, skipn (S j) s, c)
  | None => None
  end.
Proof. exact star_then_rbrace. Qed.
Print Assumptions regex_star_backtracks_to_last.
Example regex_star_backtracks_to_last_ex :
  mt gen_mat_p [] (T "{a}b}c/}") [] kfin = Some (T "}b}a{", T "c/}", []).
Proof. vm_compute. reflexivity. Qed.
