(* C06 (enforcement is total and fails closed on request-controlled input) stated about the TRANSLATED SOURCE.
   Source files behind the functions below (Gallina regenerated from the Rust text on every run):
     gen_private_enforce, gen_private_enforce_with_context   src/enforcer.rs (Gen/EnforceGen.v)
     src_enforce, src_enforce_with_ctx, src_enforce_with_ctx4 the same on an enforcer state (Proofs/SrcStepP.v)
     gen_key_match, gen_key_get                               src/model/function_map.rs (Gen/StrFnGen.v, part 2)
   Same quantifiers and hypotheses as Properties/C06.v.  The model's enforce_core has the name of the effect token as a
   parameter `et`; the source computes it from the policy key (format!("{}_eft", p_type) = tok pk s_eft): the
   statements are the model's at that value, which is every value the source can use.
   Totality: a Gallina function of type `.. -> outcome bool` is total; a panic of the source is the VALUE Panic,
   shown unreachable below.  As in C06.v, NOT covered: termination / panic-freedom of the regex crate and of rhai.
   NOT restated (and why): c06_matchers_defined - keyMatch2..5 / keyGet2,3 are not fully translated (their regular
   expression is compiled at run time; Properties/RegexFmGen.v is PARTIAL); c06_eval_no_panic / c06_call_fn_no_panic -
   the expression evaluator is rhai (third party), not part of the translated source, the model's evaluator is what
   the translated loop calls; c06_combine_* / c06_decision_has_clean_prefix - about the reference semantics
   perm_combine, which has no source counterpart (C01src covers its agreement with the translated loop).
   Statements only; proofs in Proofs/C06SrcP.v (Proofs/C06P.v composed with PinChecks/PcEnforceGen.v, PcStrFnGen.v). *)
From CV Require Import Model.Base Model.Effector Model.RoleGraph Model.PathMatch Model.Expr
     Model.Enforce Model.Engine Model.SpecC15.
From CV Require Import Proofs.EnforceP Proofs.C06P.
From CV Require Import Gen.RustStr Gen.StrFnGen Gen.RustVec Gen.RustEnf Gen.EnforceGen.
From CV Require Import Proofs.SrcStepP Proofs.C06SrcP.

(* ------------------------------------------------------------------ *)
(* 1. keyMatch / keyGet, as registered: the value of the translated function for all texts, never a panic
      (c06_builtin_no_panic for the two functions part 2 translated) *)
Theorem c06_src_key_fns_registered : forall a b,
  builtin (T "keyMatch") [a; b] = Some (EV (VBool (gen_key_match a b))) /\
  builtin (T "keyGet") [a; b] = Some (EV (VStr (gen_key_get a b))).
Proof. exact src_c06_key_fns_registered. Qed.
Print Assumptions c06_src_key_fns_registered.

Theorem c06_src_key_fns_no_panic : forall fs a b,
  assoc (T "keyMatch") (f_ufuns fs) = None -> find_gfun (T "keyMatch", 2) (f_gfuns fs) = None ->
  assoc (T "keyGet") (f_ufuns fs) = None -> find_gfun (T "keyGet", 2) (f_gfuns fs) = None ->
  call_fn fs (T "keyMatch") [VStr a; VStr b] = Some (EV (VBool (gen_key_match a b))) /\
  call_fn fs (T "keyGet") [VStr a; VStr b] = Some (EV (VStr (gen_key_get a b))).
Proof. exact src_c06_key_fns_no_panic. Qed.
Print Assumptions c06_src_key_fns_no_panic.

(* ------------------------------------------------------------------ *)
(* 2. the translated enforce never panics, for ANY request list (c06_no_panic, c06_panic_needs_effect,
      c06_state_no_panic, c06_state_ctx_no_panic) *)
Theorem c06_src_no_panic : forall ptab en md mx fs rk pk ek mk rv,
  (forall e_ast, get_ast md s_e ek = Some e_ast -> parse_erule (a_value e_ast) <> None) ->
  gen_private_enforce_with_context ptab en md mx fs rk pk ek mk rv <> Panic.
Proof. exact src_c06_no_panic. Qed.
Print Assumptions c06_src_no_panic.

Theorem c06_src_plain_no_panic : forall ptab en md mx fs rv,
  (forall e_ast, get_ast md s_e s_e = Some e_ast -> parse_erule (a_value e_ast) <> None) ->
  gen_private_enforce ptab en md mx fs rv <> Panic.
Proof. exact src_c06_plain_no_panic. Qed.
Print Assumptions c06_src_plain_no_panic.

Theorem c06_src_panic_needs_effect : forall ptab md mx fs rk pk ek mk rv r_ast p_ast m_ast e_ast,
  get_ast md s_r rk = Some r_ast -> get_ast md s_p pk = Some p_ast ->
  get_ast md s_m mk = Some m_ast -> get_ast md s_e ek = Some e_ast ->
  length (a_tokens r_ast) = length rv ->
  parse_erule (a_value e_ast) = None ->
  gen_private_enforce_with_context ptab true md mx fs rk pk ek mk rv = Panic.
Proof. exact src_c06_panic_needs_effect. Qed.
Print Assumptions c06_src_panic_needs_effect.

Theorem c06_src_state_no_panic : forall ptab s rv,
  effect_supported s s_e -> src_enforce ptab s rv <> Panic.
Proof. exact src_c06_state_no_panic. Qed.
Print Assumptions c06_src_state_no_panic.
Theorem c06_src_state_ctx_no_panic : forall ptab s k rv,
  effect_supported s (s_e ++ k) -> src_enforce_with_ctx ptab s k rv <> Panic.
Proof. exact src_c06_state_ctx_no_panic. Qed.
Print Assumptions c06_src_state_ctx_no_panic.
Theorem c06_src_state_ctx4_no_panic : forall ptab s rk pk ek mk rv,
  effect_supported s ek -> src_enforce_with_ctx4 ptab s rk pk ek mk rv <> Panic.
Proof. exact src_c06_state_ctx4_no_panic. Qed.
Print Assumptions c06_src_state_ctx4_no_panic.

(* ------------------------------------------------------------------ *)
(* 3. wrong arity is a request error; a disabled enforcer grants before any check; a missing section is a model
      error (c06_arity, c06_disabled_grants_everything, c06_missing_section) *)
Theorem c06_src_arity : forall ptab md mx fs rk pk ek mk rv r_ast p_ast m_ast e_ast,
  get_ast md s_r rk = Some r_ast -> get_ast md s_p pk = Some p_ast ->
  get_ast md s_m mk = Some m_ast -> get_ast md s_e ek = Some e_ast ->
  length (a_tokens r_ast) <> length rv ->
  gen_private_enforce_with_context ptab true md mx fs rk pk ek mk rv = Err ERequest.
Proof. exact src_c06_arity. Qed.
Print Assumptions c06_src_arity.

Theorem c06_src_disabled_grants_everything : forall ptab md mx fs rk pk ek mk rv,
  gen_private_enforce_with_context ptab false md mx fs rk pk ek mk rv = Ok true.
Proof. exact src_c06_disabled_grants_everything. Qed.
Print Assumptions c06_src_disabled_grants_everything.

Theorem c06_src_missing_section : forall ptab md mx fs rk pk ek mk rv,
  (get_ast md s_r rk = None \/ get_ast md s_p pk = None \/
   get_ast md s_m mk = None \/ get_ast md s_e ek = None) ->
  gen_private_enforce_with_context ptab true md mx fs rk pk ek mk rv = Err EModel.
Proof. exact src_c06_missing_section. Qed.
Print Assumptions c06_src_missing_section.

(* ------------------------------------------------------------------ *)
(* 4. errors never grant (c06_error_never_grants, c06_malformed_rule, c06_error_empty_policy) *)
Theorem c06_src_error_never_grants :
  forall ptab md mx fs rk pk ek mk rv r_ast p_ast m_ast e_ast er m good bad rest effs c,
  get_ast md s_r rk = Some r_ast -> get_ast md s_p pk = Some p_ast ->
  get_ast md s_m mk = Some m_ast -> get_ast md s_e ek = Some e_ast ->
  parse_erule (a_value e_ast) = Some er -> assoc mk mx = Some m ->
  length (a_tokens r_ast) = length rv ->
  a_policy p_ast = good ++ bad :: rest ->
  map (rule_outcome ptab fs m (tok pk s_eft) (a_tokens p_ast) (bind (a_tokens r_ast) rv [])) good = map Ok effs ->
  forced er effs = None ->
  rule_outcome ptab fs m (tok pk s_eft) (a_tokens p_ast) (bind (a_tokens r_ast) rv []) bad = Err c ->
  gen_private_enforce_with_context ptab true md mx fs rk pk ek mk rv = Err c.
Proof. exact src_c06_error_never_grants. Qed.
Print Assumptions c06_src_error_never_grants.

Theorem c06_src_malformed_rule :
  forall ptab md mx fs rk pk ek mk rv r_ast p_ast m_ast e_ast er m good bad rest effs,
  get_ast md s_r rk = Some r_ast -> get_ast md s_p pk = Some p_ast ->
  get_ast md s_m mk = Some m_ast -> get_ast md s_e ek = Some e_ast ->
  parse_erule (a_value e_ast) = Some er -> assoc mk mx = Some m ->
  length (a_tokens r_ast) = length rv ->
  a_policy p_ast = good ++ bad :: rest ->
  map (rule_outcome ptab fs m (tok pk s_eft) (a_tokens p_ast) (bind (a_tokens r_ast) rv [])) good = map Ok effs ->
  forced er effs = None ->
  length (a_tokens p_ast) <> length bad ->
  gen_private_enforce_with_context ptab true md mx fs rk pk ek mk rv = Err EPolicy.
Proof. exact src_c06_malformed_rule. Qed.
Print Assumptions c06_src_malformed_rule.

Theorem c06_src_error_empty_policy :
  forall ptab md mx fs rk pk ek mk rv r_ast p_ast m_ast e_ast er m c,
  get_ast md s_r rk = Some r_ast -> get_ast md s_p pk = Some p_ast ->
  get_ast md s_m mk = Some m_ast -> get_ast md s_e ek = Some e_ast ->
  parse_erule (a_value e_ast) = Some er -> assoc mk mx = Some m ->
  length (a_tokens r_ast) = length rv ->
  a_policy p_ast = [] ->
  eval_matcher ptab fs m (bind (a_tokens p_ast) (map (fun _ => VStr []) (a_tokens p_ast))
                               (bind (a_tokens r_ast) rv [])) = Err c ->
  gen_private_enforce_with_context ptab true md mx fs rk pk ek mk rv = Err c.
Proof. exact src_c06_error_empty_policy. Qed.
Print Assumptions c06_src_error_empty_policy.

(* ------------------------------------------------------------------ *)
(* 5. the executable predicate holds of the translated function's outcomes (c06_pred_holds) *)
Theorem c06_src_pred_holds : forall ptab en md mx fs rk pk ek mk rv r_ast p_ast m_ast e_ast,
  get_ast md s_r rk = Some r_ast -> get_ast md s_p pk = Some p_ast ->
  get_ast md s_m mk = Some m_ast -> get_ast md s_e ek = Some e_ast ->
  parse_erule (a_value e_ast) <> None ->
  c06_pred en (length (a_tokens r_ast)) (length rv)
           (gen_private_enforce_with_context ptab en md mx fs rk pk ek mk rv) = true.
Proof. exact src_c06_pred_holds. Qed.
Print Assumptions c06_src_pred_holds.

(* ------------------------------------------------------------------ *)
(* 6. Non-vacuity, through the generated loop (src_ex06_enforce = gen_private_enforce on the instance of
      Proofs/C06P.v): model r = sub, obj, act; p = sub, obj, act; allow-override;
      m = r.sub == p.sub && keyMatch(r.obj, p.obj) && r.act == p.act; policy
      [alice,/data/*,read] [bob,/x] (MALFORMED) [carol,/c,read] *)
Example c06_src_ex_effect_supported :
  forall e_ast, get_ast (ex06_model s_allow_override) s_e s_e = Some e_ast ->
                parse_erule (a_value e_ast) <> None.
Proof. exact src_ex06_effect_supported. Qed.
(* a grant from the first rule, multi-byte request value (U+00E9 = C3 A9) *)
Example c06_src_ex_grant :
  src_ex06_enforce s_allow_override
    (map VStr [T "alice"; T "/data/" ++ [ascii_of_nat 195; ascii_of_nat 169]; T "read"]) = Ok true.
Proof. vm_compute. reflexivity. Qed.
(* the malformed second rule is reached: policy error, not a decision *)
Example c06_src_ex_malformed_reached :
  src_ex06_enforce s_allow_override (map VStr [T "carol"; T "/c"; T "read"]) = Err EPolicy /\
  src_ex06_enforce s_allow_override (map VStr [T "*"; T "{}:?."; []]) = Err EPolicy.
Proof. vm_compute. auto. Qed.
(* arities 0, 2, 6 *)
Example c06_src_ex_arity :
  src_ex06_enforce s_allow_override [] = Err ERequest /\
  src_ex06_enforce s_allow_override (map VStr [T "alice"; T "/data/1"]) = Err ERequest /\
  src_ex06_enforce s_allow_override (map VStr [[]; []; []; []; []; []]) = Err ERequest.
Proof. vm_compute. auto. Qed.
(* a request value that is not a string: the evaluation fails, the answer is an error *)
Example c06_src_ex_matcher_error :
  src_ex06_enforce s_allow_override [VStr (T "alice"); VInt 1%Z; VStr (T "read")] = Err EEvalc.
Proof. vm_compute. reflexivity. Qed.
(* unsupported effect text: the one remaining panic *)
Example c06_src_ex_bad_effect :
  src_ex06_enforce (T "some(where (p_eft == maybe))") (map VStr [T "alice"; T "/data/1"; T "read"]) = Panic.
Proof. vm_compute. reflexivity. Qed.
(* the translated keyMatch / keyGet on a multi-byte key: no slicing of the key at a byte offset of the pattern *)
Example c06_src_ex_key_match :
  gen_key_match ("/"%char :: [ascii_of_nat 195; ascii_of_nat 169]) (T "/a*") = false /\
  gen_key_get (T "/" ++ [ascii_of_nat 195; ascii_of_nat 169]) (T "/*") = [ascii_of_nat 195; ascii_of_nat 169].
Proof. vm_compute. split; reflexivity. Qed.
