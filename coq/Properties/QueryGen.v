(* rs2coq part 13: the translated READ side of the RBAC API and of the management API
   (Gen/QueryGen.v, generated from /repo/src/rbac_api.rs and /repo/src/management_api.rs)
   gives the model's answer `ask ptab s (<query>)` (Model/Engine.v) for all states and arguments.
   Statements only; the proofs are in PinChecks/PcQueryGen.v (lemmas in Proofs/QueryP.v).
   ans_rules / ans_bag / ans_names / ans_nameset / ans_bool (option result -> answer, None = AnsPanic),
   set_result, iu_candidates, enf_panics and the example states are defined there;
   q_ord_ok (every iteration order of a hash container) and opt_perm in Proofs/QueryP.v;
   answer_equiv (AnsNameSet as sets, AnsRuleBag as multisets, the rest equal) in Proofs/C18P.v. *)
From CV Require Import Model.Base Model.RoleGraph Model.Expr Model.Enforce Model.Engine Model.SpecC13.
From CV Require Import Gen.RustStr Gen.RustVec Gen.RustIter Gen.QueryRt Gen.QueryGen.
From CV Require Import Proofs.BaseP Proofs.RoleGraphP Proofs.C13P Proofs.C18P Proofs.QueryP PinChecks.PcQueryGen.
From Coq Require Import Permutation Relations.

Theorem querygen_translated : gen_query_translated = true.
Proof. exact gen_query_translated_ok. Qed.
Print Assumptions querygen_translated.

Theorem querygen_get_named_policy_ok :
  forall ptab s pt,
  ans_rules (genq_get_named_policy s pt) = ask ptab s (QGetPolicy s_p pt).
Proof. exact genq_get_named_policy_ok. Qed.
Print Assumptions querygen_get_named_policy_ok.

Theorem querygen_get_named_grouping_policy_ok :
  forall ptab s pt,
  ans_rules (genq_get_named_grouping_policy s pt) = ask ptab s (QGetPolicy s_g pt).
Proof. exact genq_get_named_grouping_policy_ok. Qed.
Print Assumptions querygen_get_named_grouping_policy_ok.

Theorem querygen_get_filtered_named_policy_ok :
  forall ptab s pt i v,
  ans_rules (genq_get_filtered_named_policy s pt i v) = ask ptab s (QGetFiltered s_p pt i v).
Proof. exact genq_get_filtered_named_policy_ok. Qed.
Print Assumptions querygen_get_filtered_named_policy_ok.

Theorem querygen_get_filtered_named_grouping_policy_ok :
  forall ptab s pt i v,
  ans_rules (genq_get_filtered_named_grouping_policy s pt i v) = ask ptab s (QGetFiltered s_g pt i v).
Proof. exact genq_get_filtered_named_grouping_policy_ok. Qed.
Print Assumptions querygen_get_filtered_named_grouping_policy_ok.

Theorem querygen_has_named_policy_ok :
  forall ptab s pt r,
  ans_bool (genq_has_named_policy s pt r) = ask ptab s (QHasPolicy s_p pt r).
Proof. exact genq_has_named_policy_ok. Qed.
Print Assumptions querygen_has_named_policy_ok.

Theorem querygen_has_grouping_named_policy_ok :
  forall ptab s pt r,
  ans_bool (genq_has_grouping_named_policy s pt r) = ask ptab s (QHasPolicy s_g pt r).
Proof. exact genq_has_grouping_named_policy_ok. Qed.
Print Assumptions querygen_has_grouping_named_policy_ok.

Theorem querygen_get_all_named_subjects_ok :
  forall ptab s pt,
  ans_names (genq_get_all_named_subjects s pt) = ask ptab s (QValues s_p pt 0).
Proof. exact genq_get_all_named_subjects_ok. Qed.
Print Assumptions querygen_get_all_named_subjects_ok.

Theorem querygen_get_all_named_objects_ok :
  forall ptab s pt,
  ans_names (genq_get_all_named_objects s pt) = ask ptab s (QValues s_p pt 1).
Proof. exact genq_get_all_named_objects_ok. Qed.
Print Assumptions querygen_get_all_named_objects_ok.

Theorem querygen_get_all_named_actions_ok :
  forall ptab s pt,
  ans_names (genq_get_all_named_actions s pt) = ask ptab s (QValues s_p pt 2).
Proof. exact genq_get_all_named_actions_ok. Qed.
Print Assumptions querygen_get_all_named_actions_ok.

Theorem querygen_get_all_named_roles_ok :
  forall ptab s pt,
  ans_names (genq_get_all_named_roles s pt) = ask ptab s (QValues s_g pt 1).
Proof. exact genq_get_all_named_roles_ok. Qed.
Print Assumptions querygen_get_all_named_roles_ok.

Theorem querygen_get_policy_ok :
  forall ptab s, ans_rules (genq_get_policy s) = ask ptab s (QGetPolicy s_p s_p).
Proof. exact genq_get_policy_ok. Qed.
Print Assumptions querygen_get_policy_ok.

Theorem querygen_get_grouping_policy_ok :
  forall ptab s,
  ans_rules (genq_get_grouping_policy s) = ask ptab s (QGetPolicy s_g s_g).
Proof. exact genq_get_grouping_policy_ok. Qed.
Print Assumptions querygen_get_grouping_policy_ok.

Theorem querygen_get_filtered_policy_ok :
  forall ptab s i v,
  ans_rules (genq_get_filtered_policy s i v) = ask ptab s (QGetFiltered s_p s_p i v).
Proof. exact genq_get_filtered_policy_ok. Qed.
Print Assumptions querygen_get_filtered_policy_ok.

Theorem querygen_get_filtered_grouping_policy_ok :
  forall ptab s i v,
  ans_rules (genq_get_filtered_grouping_policy s i v) = ask ptab s (QGetFiltered s_g s_g i v).
Proof. exact genq_get_filtered_grouping_policy_ok. Qed.
Print Assumptions querygen_get_filtered_grouping_policy_ok.

Theorem querygen_has_policy_ok :
  forall ptab s r, ans_bool (genq_has_policy s r) = ask ptab s (QHasPolicy s_p s_p r).
Proof. exact genq_has_policy_ok. Qed.
Print Assumptions querygen_has_policy_ok.

Theorem querygen_has_grouping_policy_ok :
  forall ptab s r,
  ans_bool (genq_has_grouping_policy s r) = ask ptab s (QHasPolicy s_g s_g r).
Proof. exact genq_has_grouping_policy_ok. Qed.
Print Assumptions querygen_has_grouping_policy_ok.

Theorem querygen_get_all_subjects_ok :
  forall ptab s, ans_names (genq_get_all_subjects s) = ask ptab s (QValues s_p s_p 0).
Proof. exact genq_get_all_subjects_ok. Qed.
Print Assumptions querygen_get_all_subjects_ok.

Theorem querygen_get_all_objects_ok :
  forall ptab s, ans_names (genq_get_all_objects s) = ask ptab s (QValues s_p s_p 1).
Proof. exact genq_get_all_objects_ok. Qed.
Print Assumptions querygen_get_all_objects_ok.

Theorem querygen_get_all_actions_ok :
  forall ptab s, ans_names (genq_get_all_actions s) = ask ptab s (QValues s_p s_p 2).
Proof. exact genq_get_all_actions_ok. Qed.
Print Assumptions querygen_get_all_actions_ok.

Theorem querygen_get_all_roles_ok :
  forall ptab s, ans_names (genq_get_all_roles s) = ask ptab s (QValues s_g s_g 1).
Proof. exact genq_get_all_roles_ok. Qed.
Print Assumptions querygen_get_all_roles_ok.

Theorem querygen_get_all_policy_ok :
  forall ptab s, ans_rules (genq_get_all_policy s) = ask ptab s (QGetAll s_p).
Proof. exact genq_get_all_policy_ok. Qed.
Print Assumptions querygen_get_all_policy_ok.

Theorem querygen_get_all_grouping_policy_ok :
  forall ptab s,
  ans_rules (genq_get_all_grouping_policy s) = ask ptab s (QGetAll s_g).
Proof. exact genq_get_all_grouping_policy_ok. Qed.
Print Assumptions querygen_get_all_grouping_policy_ok.

Theorem querygen_get_roles_for_user_spec :
  forall ord s n d, q_ord_ok ord ->
  set_result (genq_get_roles_for_user ord s n d) (roles_for_user s n d).
Proof. exact genq_get_roles_for_user_spec. Qed.
Print Assumptions querygen_get_roles_for_user_spec.

Theorem querygen_get_users_for_role_spec :
  forall ord s n d, q_ord_ok ord ->
  set_result (genq_get_users_for_role ord s n d) (users_for_role s n d).
Proof. exact genq_get_users_for_role_spec. Qed.
Print Assumptions querygen_get_users_for_role_spec.

Theorem querygen_has_role_for_user_spec :
  forall ord s n r d, q_ord_ok ord ->
  genq_has_role_for_user ord s n r d = Some (memb teqb r (roles_for_user s n d)).
Proof. exact genq_has_role_for_user_spec. Qed.
Print Assumptions querygen_has_role_for_user_spec.

Theorem querygen_get_permissions_for_user_eq :
  forall s u d,
  genq_get_permissions_for_user s u d = perms_for_user s u d.
Proof. exact genq_get_permissions_for_user_eq. Qed.
Print Assumptions querygen_get_permissions_for_user_eq.

Theorem querygen_has_permission_for_user_eq :
  forall s u p,
  genq_has_permission_for_user s u p = Some (m_has_policy (e_model s) s_p s_p (u :: p)).
Proof. exact genq_has_permission_for_user_eq. Qed.
Print Assumptions querygen_has_permission_for_user_eq.

Theorem querygen_get_implicit_roles_for_user_closure :
  forall ord fuel s n d,
  q_ord_ok ord -> length (edge_targets (f_rm (e_fs s)) d) + 2 <= fuel ->
  exists l, genq_get_implicit_roles_for_user ord fuel s n d = Some l /\ NoDup l /\
            forall y, In y l <-> clos_trans text (fun a b => In b (get_roles (f_rm (e_fs s)) a d)) n y.
Proof. exact genq_get_implicit_roles_for_user_closure. Qed.
Print Assumptions querygen_get_implicit_roles_for_user_closure.

Theorem querygen_get_implicit_roles_for_user_spec :
  forall ord fuel s n d,
  q_ord_ok ord -> wf (f_rm (e_fs s)) -> S (S (graph_size (f_rm (e_fs s)) d)) <= fuel ->
  exists l, genq_get_implicit_roles_for_user ord fuel s n d = Some l /\ NoDup l /\
            forall y, In y l <-> In y (implicit_roles s n d).
Proof. exact genq_get_implicit_roles_for_user_spec. Qed.
Print Assumptions querygen_get_implicit_roles_for_user_spec.

Theorem querygen_get_implicit_permissions_for_user_spec :
  forall ord fuel s u d,
  q_ord_ok ord -> wf (f_rm (e_fs s)) -> S (S (graph_size (f_rm (e_fs s)) d)) <= fuel ->
  opt_perm (genq_get_implicit_permissions_for_user ord fuel s u d) (implicit_perms s u d).
Proof. exact genq_get_implicit_permissions_for_user_spec. Qed.
Print Assumptions querygen_get_implicit_permissions_for_user_spec.

Theorem querygen_get_implicit_users_for_permission_spec :
  forall ptab ord s perm, q_ord_ok ord ->
  match implicit_users ptab s perm with
  | None => genq_get_implicit_users_for_permission ptab ord s perm = None
  | Some l => exists l', genq_get_implicit_users_for_permission ptab ord s perm = Some l' /\
                         NoDup l' /\ forall y, In y l' <-> In y l
  end.
Proof. exact genq_get_implicit_users_for_permission_spec. Qed.
Print Assumptions querygen_get_implicit_users_for_permission_spec.

Theorem querygen_get_roles_for_user_ok :
  forall ptab ord s n d, q_ord_ok ord ->
  answer_equiv (ans_nameset (genq_get_roles_for_user ord s n d)) (ask ptab s (QRolesFor n d)).
Proof. exact genq_get_roles_for_user_ok. Qed.
Print Assumptions querygen_get_roles_for_user_ok.

Theorem querygen_get_users_for_role_ok :
  forall ptab ord s n d, q_ord_ok ord ->
  answer_equiv (ans_nameset (genq_get_users_for_role ord s n d)) (ask ptab s (QUsersFor n d)).
Proof. exact genq_get_users_for_role_ok. Qed.
Print Assumptions querygen_get_users_for_role_ok.

Theorem querygen_has_role_for_user_ok :
  forall ptab ord s n r d, q_ord_ok ord ->
  ans_bool (genq_has_role_for_user ord s n r d) = ask ptab s (QHasRole n r d).
Proof. exact genq_has_role_for_user_ok. Qed.
Print Assumptions querygen_has_role_for_user_ok.

Theorem querygen_get_permissions_for_user_ok :
  forall ptab s u d,
  ans_rules (genq_get_permissions_for_user s u d) = ask ptab s (QPermsFor u d).
Proof. exact genq_get_permissions_for_user_ok. Qed.
Print Assumptions querygen_get_permissions_for_user_ok.

Theorem querygen_has_permission_for_user_ok :
  forall ptab s u p,
  ans_bool (genq_has_permission_for_user s u p) = ask ptab s (QHasPolicy s_p s_p (u :: p)).
Proof. exact genq_has_permission_for_user_ok. Qed.
Print Assumptions querygen_has_permission_for_user_ok.

Theorem querygen_get_implicit_roles_for_user_ok :
  forall ptab ord fuel s n d,
  q_ord_ok ord -> wf (f_rm (e_fs s)) -> S (S (graph_size (f_rm (e_fs s)) d)) <= fuel ->
  answer_equiv (ans_nameset (genq_get_implicit_roles_for_user ord fuel s n d)) (ask ptab s (QImplicitRoles n d)).
Proof. exact genq_get_implicit_roles_for_user_ok. Qed.
Print Assumptions querygen_get_implicit_roles_for_user_ok.

Theorem querygen_get_implicit_permissions_for_user_ok :
  forall ptab ord fuel s u d,
  q_ord_ok ord -> wf (f_rm (e_fs s)) -> S (S (graph_size (f_rm (e_fs s)) d)) <= fuel ->
  answer_equiv (ans_bag (genq_get_implicit_permissions_for_user ord fuel s u d))
               (ask ptab s (QImplicitPerms u d)).
Proof. exact genq_get_implicit_permissions_for_user_ok. Qed.
Print Assumptions querygen_get_implicit_permissions_for_user_ok.

Theorem querygen_get_implicit_users_for_permission_ok :
  forall ptab ord s perm, q_ord_ok ord ->
  answer_equiv (ans_nameset (genq_get_implicit_users_for_permission ptab ord s perm))
               (ask ptab s (QImplicitUsers perm)).
Proof. exact genq_get_implicit_users_for_permission_ok. Qed.
Print Assumptions querygen_get_implicit_users_for_permission_ok.

(* the state on which source and model used to differ (enforce panics on the candidate alice):
   both now answer "panic" *)
Example querygen_implicit_users_witness :
  iu_candidates bad1 = Some [T "alice"] /\
  enforce ptab0 bad1 (map VStr [T "alice"; T "data"; T "read"]) = Panic /\
  ask ptab0 bad1 (QImplicitUsers [T "data"; T "read"]) = AnsPanic /\
  genq_get_implicit_users_for_permission ptab0 (fun l => l) bad1 [T "data"; T "read"] = None.
Proof. exact bad1_both_panic. Qed.

(* the hypotheses are satisfiable on a concrete state (ex1 of Proofs/C13P.v: a diamond with a cycle) *)
Example querygen_example_ord : q_ord_ok (@rev text).
Proof. exact ex_ord_ok. Qed.
Example querygen_example_wf : wf (f_rm (e_fs ex1)).
Proof. exact ex_wf. Qed.
Example querygen_example_fuel : S (S (graph_size (f_rm (e_fs ex1)) None)) <= 6.
Proof. exact ex_fuel. Qed.
(* wf is needed for the equality with the MODEL (whose loop has its own fuel) *)
Example querygen_wf_needed :
  implicit_roles odd_state (T "a") None = [T "b"; T "c"; T "e"; T "z"] /\
  genq_get_implicit_roles_for_user (fun l => l) 7 odd_state (T "a") None =
    Some [T "b"; T "c"; T "e"; T "z"; T "y"] /\
  length (edge_targets (f_rm (e_fs odd_state)) None) + 2 = 7.
Proof. exact wf_needed. Qed.
Example querygen_example_implicit_roles :
  genq_get_implicit_roles_for_user (@rev text) 6 ex1 (T "alice") None = Some [T "r3"; T "r2"; T "r1"] /\
  implicit_roles ex1 (T "alice") None = [T "r2"; T "r1"; T "r3"].
Proof. split; [apply ex_rbac|apply ex_rbac]. Qed.
