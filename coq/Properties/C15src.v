(* C15 (built-in path matchers implement their documented patterns) stated about the TRANSLATED SOURCE.
   Source files behind the functions below (Gallina regenerated from the Rust text on every run):
     gen_key_match, gen_key_get       src/model/function_map.rs key_match, key_get (Gen/StrFnGen.v, part 2)
     gen_key_match2, gen_key_match3   src/model/function_map.rs key_match2, key_match3 - the pattern REWRITING only
                                      (Gen/RegexGen.v, part 14 stretch; the regex engine is the parameter `rm`)
   Section 1 of Properties/C15.v (keyMatch / keyGet, ALL texts, no UTF-8 hypothesis) is restated in full over
   gen_key_match / gen_key_get.
   keyMatch2..5 / keyGet2,3 are NOT fully translated yet: the source compiles the rewritten pattern with Regex::new
   at run time, for which Gen/Regex.v has no parser (Properties/RegexFmGen.v: PARTIAL).  Sections 3-5 of C15 (amatch,
   the exported functions on grammar patterns, the meaning of the specification) therefore STAY ON THE MODEL
   (Properties/C15.v).  What is translated of key_match2 / key_match3 - the rewriting - gets section 2 of C15:
   whatever engine is plugged in, the text it receives for a grammar pattern reads back as the regular expression
   the pattern denotes; and with the model's regex semantics plugged in (model_regex_match = parse_regex + amatch)
   the translated functions decide the segment-wise specification.  key_match4 / key_match5 / key_get2 / key_get3
   have no translation at all (in-function regexes with captures).
   Statements only; proofs in Proofs/C15SrcP.v (Proofs/C15P.v composed with PinChecks/PcStrFnGen.v,
   PinChecks/PcRegexFmGen.v). *)
From CV Require Import Model.Base Model.PathMatch Model.SpecC15 Proofs.BaseP Proofs.C15P.
From CV Require Import Gen.RustStr Gen.StrFnGen Gen.Regex Gen.RegexRt Gen.RegexGen.
From CV Require Import Proofs.C15SrcP.

(* ------------------------------------------------------------------ *)
(* 1. keyMatch / keyGet: the prefix before the first '*', for ALL texts *)
Theorem c15_src_key_match_spec : forall k p,
  gen_key_match k p = (let (pre, found) := before_star p in
                       if found then is_prefix pre k else teqb k p).
Proof. exact src_key_match_spec. Qed.
Print Assumptions c15_src_key_match_spec.

(* keyMatch holds exactly when the key begins with the pattern's text before its first '*', or, without '*',
   equals the pattern *)
Theorem c15_src_key_match : forall k p,
  gen_key_match k p = true <->
  (exists pre rest, p = pre ++ star :: rest /\ ~ In star pre /\ exists t, k = pre ++ t)
  \/ (~ In star p /\ k = p).
Proof. exact src_c15_key_match. Qed.
Print Assumptions c15_src_key_match.

(* keyGet returns the text after that prefix ... *)
Theorem c15_src_key_get_spec : forall k p t, t <> [] ->
  (gen_key_get k p = t <->
   exists pre rest, p = pre ++ star :: rest /\ ~ In star pre /\ k = pre ++ t).
Proof. exact src_key_get_spec. Qed.
Print Assumptions c15_src_key_get_spec.
Theorem c15_src_key_get_match : forall k pre rest t, ~ In star pre -> k = pre ++ t ->
  gen_key_get k (pre ++ star :: rest) = t.
Proof. exact src_c15_key_get_match. Qed.
Print Assumptions c15_src_key_get_match.
(* ... and the empty text otherwise *)
Theorem c15_src_key_get_nomatch : forall k pre rest, ~ In star pre -> (forall t, k <> pre ++ t) ->
  gen_key_get k (pre ++ star :: rest) = [].
Proof. exact src_c15_key_get_nomatch. Qed.
Print Assumptions c15_src_key_get_nomatch.
Theorem c15_src_key_get_nostar : forall k p, ~ In star p -> gen_key_get k p = [].
Proof. exact src_c15_key_get_nostar. Qed.
Print Assumptions c15_src_key_get_nostar.
(* a non-empty keyGet implies keyMatch *)
Theorem c15_src_key_get_implies_match : forall k p, gen_key_get k p <> [] -> gen_key_match k p = true.
Proof. exact src_c15_key_get_implies_match. Qed.
Print Assumptions c15_src_key_get_implies_match.

(* the executable predicate the test driver applies to the REAL functions' outputs holds of the translated ones *)
Theorem c15_src_pred_text_holds : forall k p, c15_pred_text k p (gen_key_match k p) (gen_key_get k p) = true.
Proof. exact src_c15_pred_text_holds. Qed.
Print Assumptions c15_src_pred_text_holds.
Theorem c15_src_key_get_is_spec_kg : forall k p, gen_key_get k p = spec_kg k p.
Proof. exact src_c15_key_get_is_spec_kg. Qed.
Print Assumptions c15_src_key_get_is_spec_kg.

(* ------------------------------------------------------------------ *)
(* 2. the translated rewriting of keyMatch2 / keyMatch3 (c15_rewrite_km2, c15_rewrite_km3): for every regex engine
      `rm`, the pattern text it receives parses to the regular expression the grammar pattern denotes *)
Theorem c15_src_rewrite_km2 : forall rm k p, grammar p = true ->
  exists t, gen_key_match2 rm k (render2 p) = rm k t /\ parse_regex t = Some (compile false false p).
Proof. exact src_c15_rewrite_km2. Qed.
Print Assumptions c15_src_rewrite_km2.
Theorem c15_src_rewrite_km3 : forall rm k p, grammar p = true ->
  exists t, gen_key_match3 rm k (render3 p) = rm k t /\ parse_regex t = Some (compile false false p).
Proof. exact src_c15_rewrite_km3. Qed.
Print Assumptions c15_src_rewrite_km3.

(* PARTIAL counterpart of c15_km2 / c15_km3: with the MODEL's regex semantics plugged in for Regex::new + is_match.
   Missing for the full statement: that the regex crate agrees with parse_regex / amatch on these expressions. *)
Theorem c15_src_km2_partial : forall k p, grammar p = true ->
  gen_key_match2 model_regex_match k (render2 p) = spec_km p k.
Proof. exact src_c15_km2. Qed.
Print Assumptions c15_src_km2_partial.
Theorem c15_src_km3_partial : forall k p, grammar p = true ->
  gen_key_match3 model_regex_match k (render3 p) = spec_km p k.
Proof. exact src_c15_km3. Qed.
Print Assumptions c15_src_km3_partial.

(* ------------------------------------------------------------------ *)
(* non-vacuity: the translated functions compute, with a multi-byte key (U+00E9 = C3 A9) *)
Example c15_src_ex_key_match :
  gen_key_match (T "/foo/bar") (T "/foo/*") = true /\
  gen_key_get (T "/foo/bar/foo") (T "/foo/*") = T "bar/foo" /\
  gen_key_match (T "/foo") (T "/foo/*") = false /\
  gen_key_get (T "/foo/") (T "/foo/*") = [] /\
  gen_key_match (slash :: [ascii_of_nat 195; ascii_of_nat 169]) (T "/a*") = false /\
  gen_key_match (slash :: [ascii_of_nat 195; ascii_of_nat 169] ++ T "a")
                (slash :: [ascii_of_nat 195; ascii_of_nat 169] ++ [star]) = true /\
  gen_key_get (slash :: [ascii_of_nat 195; ascii_of_nat 169] ++ T "a")
              (slash :: [ascii_of_nat 195; ascii_of_nat 169] ++ [star]) = T "a" /\
  gen_key_match (T "/a*b") (T "/a*b") = true /\ gen_key_match (T "/aXYZ") (T "/a*b") = true.
Proof. vm_compute. repeat split. Qed.
Example c15_src_ex_km2 :
  grammar [SLit (T "foo"); SNamed (T "bar"); SLit (T "foo")] = true /\
  gen_key_match2 model_regex_match (T "/foo/x1/foo") (render2 [SLit (T "foo"); SNamed (T "bar"); SLit (T "foo")]) = true /\
  gen_key_match2 model_regex_match (T "/foo//foo") (render2 [SLit (T "foo"); SNamed (T "bar"); SLit (T "foo")]) = false /\
  gen_key_match3 model_regex_match (T "/a/b/c") (render3 [SLit (T "a"); SStar]) = true.
Proof. vm_compute. repeat split. Qed.
