(* C18obs — A reconfigured enforcer answers like a freshly built one, for states
   reached through INCREMENTAL management calls.
   Only statements closed by `exact`; proofs live in Proofs/C18Obs*.v.

   Why.  Properties/C18.v proves set_role_manager / set_effector / add_function
   under `Synced s`: reloading the adapter and rebuilding gives EXACTLY the
   model store and the role graph.  After an incremental removal of a grouping
   rule the graph keeps isolated nodes and another edge order, so Synced fails
   (c18_not_synced_after_remove) although nothing observable differs.

   Vocabulary.
   - `StoreSynced s`  (Proofs/C18Obs.v; decidable: `store_syncedb`, Model/SpecC18.v):
     the store half of Synced — Adapter::load_policy into the emptied model and
     build_role_links reproduce the model store; the adapter's filtered mark
     agrees.  The manager built on the way is NOT compared.
   - `ObsSynced s` = StoreSynced s /\ RoleSync s /\ g_exact /\ shallow
     (decidable sufficient check: `obs_syncedb`).  RoleSync (C05): well-formed
     manager whose edge SET per domain = the links of the stored grouping rules,
     every g handle and role function current.  g_exact: every grouping rule has
     the arity of its definition.  shallow: every chain is shorter than the
     hierarchy limit (the property's own "below the depth limit" clause).
   - `ans_eq` (C05): equal answers, set-valued answers (AnsNameSet, AnsRuleBag)
     compared as sets.
   - `fresh_of s'` = Enforcer::new(re-parsed definition of s', adapter of s') +
     components of s'.  `fresh_from (cur_def s') (e_adapter s') s'`: the same with
     the model store itself used as the definition (the form of C18.v).
   - `reparse_ok md` (Model/SpecC18.v): needed for fresh_of only — the store holds
     no rule outside sections p and g and, outside g, only own handles (re-parsing
     drops such rules: c18_stale_rules_outside_pg).
   - `obs_hist_ok s ops` = C05's `hist_ok s ops` && every call is one C09
     quantifies over (`c09_op`: not set_model / set_adapter / load_filtered_policy
     / enable_auto_save(false)) and names only sections p, g (`pg_op`).  This is
     the CONJUNCTION of the C05 and the C09 history predicates, plus `pg_op`.
   - `Reached s`: what every reached state satisfies (StoreSynced, RoleSync,
     g_exact, auto-build and auto-save on, plain unfiltered memory adapter of
     p/g lines, gdefs_ok, gfuns_current).
   - `reconf3 o`: o is set_role_manager / set_effector / add_function. *)
From CV Require Import Model.Base Model.Effector Model.RoleGraph Model.Expr Model.Enforce Model.Engine
     Model.SpecC05 Model.SpecC09 Model.SpecC18.
From CV Require Import Proofs.ExprP Proofs.ExModels Proofs.C09P Proofs.C05Sync Proofs.C05Load
     Proofs.C05Main Proofs.C05Rebuild Proofs.C05P Proofs.C18P Proofs.C18Q
     Proofs.C18Obs Proofs.C18ObsR Proofs.C18ObsH Proofs.C18ObsF Proofs.C18ObsM.

(* ---- (1) the weaker hypothesis ---- *)
Theorem c18obs_unfold : forall s, ObsSynced s <->
  ((exists ad md m',
      ad_load (e_adapter s) (m_clear_policy (e_model s)) = (ad, md, LROk) /\
      build_of md = (e_model s, m', LOk) /\
      ad_is_filtered ad = ad_is_filtered (e_adapter s)) /\
   RoleSync s /\ g_exact (e_model s) = true /\
   shallow (f_rm_max (e_fs s)) (f_rm (e_fs s))).
Proof. exact obs_synced_unfold. Qed.
Print Assumptions c18obs_unfold.

(* it is decidable: the boolean check implies it *)
Theorem c18obs_decidable : forall s, obs_syncedb s = true -> ObsSynced s.
Proof. exact obs_syncedb_sound. Qed.
Print Assumptions c18obs_decidable.
Theorem c18obs_store_decidable : forall s, store_syncedb s = true -> StoreSynced s.
Proof. exact store_syncedb_sound. Qed.
Print Assumptions c18obs_store_decidable.
Theorem c18obs_store_decidable_conv : forall s, StoreSynced s -> store_syncedb s = true.
Proof. exact store_syncedb_complete. Qed.
Print Assumptions c18obs_store_decidable_conv.

(* Synced is the special case where also the graph is literally the rebuilt one *)
Theorem c18obs_synced_store : forall s, Synced s -> StoreSynced s.
Proof. exact Synced_StoreSynced. Qed.
Print Assumptions c18obs_synced_store.

(* the bridge: an ObsSynced state answers every query like its rebuilt twin,
   which is Synced *)
Theorem c18obs_twin : forall s, ObsSynced s ->
  exists m', Synced (with_rm s m') /\
             forall ptab q, ans_eq (ask ptab s q) (ask ptab (with_rm s m') q).
Proof. exact obs_twin. Qed.
Print Assumptions c18obs_twin.

(* ---- (2) the three reconfiguration calls, against fresh_of ---- *)
Theorem c18obs_set_role_manager : forall ptab s mx s' b f b',
  step s (OSetRoleManager mx) = (s', Ok b) -> fresh_of s' = (f, Ok b') ->
  ObsSynced s -> e_auto_build s = true -> ad_is_filtered (e_adapter s) = false ->
  no_leftover (f_gfuns (e_fs s)) (e_model s) = true ->
  reparse_ok (e_model s) = true ->
  (forall q, ans_eq (ask ptab s' q) (ask ptab f q)) /\ f_rm_max (e_fs f) = mx.
Proof. exact obs_set_role_manager_any. Qed.
Print Assumptions c18obs_set_role_manager.

Theorem c18obs_set_effector : forall ptab s s' b f b',
  step s OSetEffector = (s', Ok b) -> fresh_of s' = (f, Ok b') ->
  ObsSynced s -> ad_is_filtered (e_adapter s) = false ->
  gfuns_exactb (f_gfuns (e_fs s)) (e_model s) = true ->
  reparse_ok (e_model s) = true ->
  forall q, ans_eq (ask ptab s' q) (ask ptab f q).
Proof. exact obs_set_effector_any. Qed.
Print Assumptions c18obs_set_effector.

Theorem c18obs_add_function : forall ptab s n u s' b f b',
  step s (OAddFunction n u) = (s', Ok b) -> fresh_of s' = (f, Ok b') ->
  ObsSynced s -> ad_is_filtered (e_adapter s) = false ->
  gfuns_exactb (f_gfuns (e_fs s)) (e_model s) = true ->
  reparse_ok (e_model s) = true ->
  forall q, ans_eq (ask ptab s' q) (ask ptab f q).
Proof. exact obs_add_function_any. Qed.
Print Assumptions c18obs_add_function.

(* ... and the fresh enforcer CAN be built (fresh_of answers Ok) *)
Theorem c18obs_set_role_manager_built : forall s mx s' b,
  step s (OSetRoleManager mx) = (s', Ok b) ->
  ObsSynced s -> e_auto_build s = true -> ad_is_filtered (e_adapter s) = false ->
  no_leftover (f_gfuns (e_fs s)) (e_model s) = true ->
  reparse_ok (e_model s) = true ->
  exists sf, fresh_of s' = (sf, Ok true) /\
             (forall ptab q, ans_eq (ask ptab s' q) (ask ptab sf q)) /\
             f_rm_max (e_fs s') = mx /\ f_rm_max (e_fs sf) = mx.
Proof. exact obs_set_role_manager_fresh_of. Qed.
Print Assumptions c18obs_set_role_manager_built.
Theorem c18obs_set_effector_built : forall s s' b,
  step s OSetEffector = (s', Ok b) ->
  ObsSynced s -> ad_is_filtered (e_adapter s) = false ->
  gfuns_exactb (f_gfuns (e_fs s)) (e_model s) = true ->
  reparse_ok (e_model s) = true ->
  exists sf, fresh_of s' = (sf, Ok true) /\
             forall ptab q, ans_eq (ask ptab s' q) (ask ptab sf q).
Proof. exact obs_set_effector_fresh_of. Qed.
Print Assumptions c18obs_set_effector_built.
Theorem c18obs_add_function_built : forall s n u s' b,
  step s (OAddFunction n u) = (s', Ok b) ->
  ObsSynced s -> ad_is_filtered (e_adapter s) = false ->
  gfuns_exactb (f_gfuns (e_fs s)) (e_model s) = true ->
  reparse_ok (e_model s) = true ->
  exists sf, fresh_of s' = (sf, Ok true) /\
             forall ptab q, ans_eq (ask ptab s' q) (ask ptab sf q).
Proof. exact obs_add_function_fresh_of. Qed.
Print Assumptions c18obs_add_function_built.

(* ---- the same against the enforcer built from the model store used as the
   definition, exactly the conclusions of c18_set_role_manager / c18_set_effector /
   c18_add_function with Synced weakened to ObsSynced (no reparse_ok) ---- *)
Theorem c18obs_set_role_manager_cur : forall s mx s' b,
  step s (OSetRoleManager mx) = (s', Ok b) ->
  ObsSynced s -> e_auto_build s = true -> ad_is_filtered (e_adapter s) = false ->
  no_leftover (f_gfuns (e_fs s)) (e_model s) = true ->
  exists sf, fresh_from (cur_def s') (e_adapter s') s' = (sf, Ok true) /\
             (forall ptab q, ans_eq (ask ptab s' q) (ask ptab sf q)) /\
             f_rm_max (e_fs sf) = mx.
Proof. exact obs_set_role_manager_fresh. Qed.
Print Assumptions c18obs_set_role_manager_cur.
Theorem c18obs_set_effector_cur : forall s s' b,
  step s OSetEffector = (s', Ok b) ->
  ObsSynced s -> ad_is_filtered (e_adapter s) = false ->
  gfuns_exactb (f_gfuns (e_fs s)) (e_model s) = true ->
  exists sf, fresh_from (cur_def s') (e_adapter s') s' = (sf, Ok true) /\
             forall ptab q, ans_eq (ask ptab s' q) (ask ptab sf q).
Proof. exact obs_set_effector_fresh. Qed.
Print Assumptions c18obs_set_effector_cur.
Theorem c18obs_add_function_cur : forall s n u s' b,
  step s (OAddFunction n u) = (s', Ok b) ->
  ObsSynced s -> ad_is_filtered (e_adapter s) = false ->
  gfuns_exactb (f_gfuns (e_fs s)) (e_model s) = true ->
  exists sf, fresh_from (cur_def s') (e_adapter s') s' = (sf, Ok true) /\
             (forall ptab q, ans_eq (ask ptab s' q) (ask ptab sf q)) /\
             f_ufuns (e_fs s') = (n, u) :: f_ufuns (e_fs s).
Proof. exact obs_add_function_fresh. Qed.
Print Assumptions c18obs_add_function_cur.

(* set_role_manager rebuilds the links from scratch: the STORE half alone gives
   full equivalence (st_equiv: identical answers, decisions included; no depth
   condition), and the reconfigured state is Synced again *)
Theorem c18obs_set_role_manager_store : forall s mx s' b,
  step s (OSetRoleManager mx) = (s', Ok b) ->
  StoreSynced s -> e_auto_build s = true -> ad_is_filtered (e_adapter s) = false ->
  no_leftover (f_gfuns (e_fs s)) (e_model s) = true ->
  exists sf, fresh_from (cur_def s') (e_adapter s') s' = (sf, Ok true) /\ st_equiv s' sf /\
             f_rm_max (e_fs sf) = mx /\ Synced s' /\ e_model s' = e_model s /\
             e_adapter s' = e_adapter s /\
             gfuns_exactb (f_gfuns (e_fs s')) (e_model s') = true.
Proof. exact store_set_role_manager_fresh. Qed.
Print Assumptions c18obs_set_role_manager_store.
Theorem c18obs_set_role_manager_store_fresh_of : forall s mx s' b,
  step s (OSetRoleManager mx) = (s', Ok b) ->
  StoreSynced s -> e_auto_build s = true -> ad_is_filtered (e_adapter s) = false ->
  no_leftover (f_gfuns (e_fs s)) (e_model s) = true ->
  reparse_ok (e_model s) = true ->
  exists sf, fresh_of s' = (sf, Ok true) /\ st_equiv s' sf /\ f_rm_max (e_fs s') = mx.
Proof. exact store_set_role_manager_fresh_of. Qed.
Print Assumptions c18obs_set_role_manager_store_fresh_of.

(* ... and with harmless leftover role functions (as the _leftovers theorems
   of C18.v): nothing the state can evaluate calls a function by a leftover name *)
Theorem c18obs_set_role_manager_leftovers : forall ptab s mx s' b,
  step s (OSetRoleManager mx) = (s', Ok b) ->
  StoreSynced s -> e_auto_build s = true -> ad_is_filtered (e_adapter s) = false ->
  let safe := fun f => safe_name (f_gfuns (e_fs s)) (e_model s) f = true in
  (forall k m, assoc k (e_mexprs s) = Some m -> calls_in safe m) ->
  (forall t e', ptab t = Some e' -> calls_in safe e') ->
  exists sf, fresh_from (cur_def s') (e_adapter s') s' = (sf, Ok true) /\
             forall q, ans_eq (ask ptab s' q) (ask ptab sf q).
Proof. exact obs_set_role_manager_fresh_calls. Qed.
Print Assumptions c18obs_set_role_manager_leftovers.
Theorem c18obs_set_effector_leftovers : forall ptab s s' b,
  step s OSetEffector = (s', Ok b) ->
  ObsSynced s -> ad_is_filtered (e_adapter s) = false ->
  gdefs_ok (e_model s) = true -> gfuns_current (f_gfuns (e_fs s)) (e_model s) = true ->
  let safe := fun f => safe_name (f_gfuns (e_fs s)) (e_model s) f = true in
  (forall k m, assoc k (e_mexprs s) = Some m -> calls_in safe m) ->
  (forall t e', ptab t = Some e' -> calls_in safe e') ->
  exists sf, fresh_from (cur_def s') (e_adapter s') s' = (sf, Ok true) /\
             forall q, ans_eq (ask ptab s' q) (ask ptab sf q).
Proof. exact obs_set_effector_fresh_calls. Qed.
Print Assumptions c18obs_set_effector_leftovers.
Theorem c18obs_add_function_leftovers : forall ptab s n u s' b,
  step s (OAddFunction n u) = (s', Ok b) ->
  ObsSynced s -> ad_is_filtered (e_adapter s) = false ->
  gdefs_ok (e_model s) = true -> gfuns_current (f_gfuns (e_fs s)) (e_model s) = true ->
  let safe := fun f => safe_name (f_gfuns (e_fs s)) (e_model s) f = true in
  (forall k m, assoc k (e_mexprs s) = Some m -> calls_in safe m) ->
  (forall t e', ptab t = Some e' -> calls_in safe e') ->
  exists sf, fresh_from (cur_def s') (e_adapter s') s' = (sf, Ok true) /\
             forall q, ans_eq (ask ptab s' q) (ask ptab sf q).
Proof. exact obs_add_function_fresh_calls. Qed.
Print Assumptions c18obs_add_function_leftovers.

(* a Synced state against fresh_of (upgrades the Synced theorems of C18.v from
   the store-as-definition to the re-parsed definition) *)
Theorem c18obs_synced_fresh_of : forall s,
  Synced s -> ad_is_filtered (e_adapter s) = false ->
  gfuns_exactb (f_gfuns (e_fs s)) (e_model s) = true ->
  reparse_ok (e_model s) = true ->
  exists sf, fresh_of s = (sf, Ok true) /\ st_equiv s sf /\
             e_model sf = e_model s /\ f_rm (e_fs sf) = f_rm (e_fs s).
Proof. exact synced_fresh_of. Qed.
Print Assumptions c18obs_synced_fresh_of.

(* ---- (3) the hypothesis holds in every reached state ---- *)
(* from Enforcer::new(d, MemoryAdapter(l)) — duplicate-free lines keyed in p / g,
   well-formed keys, C05's side conditions — after ANY history allowed by
   obs_hist_ok; `shallow` of the reached state is the property's own clause *)
Theorem c18obs_reachable : forall d l w ops,
  is_ok (snd (new_enforcer d (AMemory l false) w)) = true ->
  NoDup l -> forallb pg_mem_line l = true -> keys_ok_b (d_model d) = true ->
  side_ok (fst (new_enforcer d (AMemory l false) w)) = true ->
  obs_hist_ok (fst (new_enforcer d (AMemory l false) w)) ops = true ->
  let s := run_ops (fst (new_enforcer d (AMemory l false) w)) ops in
  shallow (f_rm_max (e_fs s)) (f_rm (e_fs s)) ->
  ObsSynced s.
Proof. exact obs_reachable. Qed.
Print Assumptions c18obs_reachable.

Theorem c18obs_hist_ok_unfold : forall s ops,
  obs_hist_ok s ops = hist_ok s ops && forallb (fun o => c09_op o && pg_op o) ops.
Proof. exact obs_hist_ok_unfold. Qed.
Print Assumptions c18obs_hist_ok_unfold.

(* ... together with every other hypothesis of the reconfiguration theorems:
   auto-build on, adapter not filtered, role functions exactly the model's
   (gdefs_ok, gfuns_current, no_leftover), and — for a definition as a parser
   produces it — reparse_ok *)
Theorem c18obs_reachable_all : forall d l w ops,
  is_ok (snd (new_enforcer d (AMemory l false) w)) = true ->
  NoDup l -> forallb pg_mem_line l = true -> keys_ok_b (d_model d) = true ->
  side_ok (fst (new_enforcer d (AMemory l false) w)) = true ->
  obs_hist_ok (fst (new_enforcer d (AMemory l false) w)) ops = true ->
  let s := run_ops (fst (new_enforcer d (AMemory l false) w)) ops in
  Reached s /\ no_leftover (f_gfuns (e_fs s)) (e_model s) = true /\
  (clean_def d = true -> reparse_ok (e_model s) = true).
Proof. exact history_state. Qed.
Print Assumptions c18obs_reachable_all.
Theorem c18obs_reached_unfold : forall s, Reached s ->
  StoreSynced s /\ RoleSync s /\ g_exact (e_model s) = true /\ e_auto_build s = true /\
  e_auto_save s = true /\ mem_plain (e_adapter s) = true /\ ad_is_filtered (e_adapter s) = false /\
  gdefs_ok (e_model s) = true /\ gfuns_current (f_gfuns (e_fs s)) (e_model s) = true.
Proof. exact reached_unfold. Qed.
Print Assumptions c18obs_reached_unfold.

(* in a reached state the three calls do succeed *)
Theorem c18obs_reconf_succeeds : forall s o, Reached s -> reconf3 o = true ->
  exists s', step s o = (s', Ok true).
Proof. exact reached_reconf_succeeds. Qed.
Print Assumptions c18obs_reconf_succeeds.

(* ---- (4) the composition ---- *)
(* every history of incremental calls followed by set_role_manager, set_effector
   or add_function: every answer of the reconfigured enforcer equals the answer
   of the enforcer built now from the re-parsed definition and the adapter *)
Theorem c18obs_after_history : forall ptab d l w ops o s' b f b',
  is_ok (snd (new_enforcer d (AMemory l false) w)) = true ->
  NoDup l -> forallb pg_mem_line l = true -> keys_ok_b (d_model d) = true ->
  clean_def d = true ->
  side_ok (fst (new_enforcer d (AMemory l false) w)) = true ->
  obs_hist_ok (fst (new_enforcer d (AMemory l false) w)) ops = true ->
  let s := run_ops (fst (new_enforcer d (AMemory l false) w)) ops in
  shallow (f_rm_max (e_fs s)) (f_rm (e_fs s)) ->
  reconf3 o = true -> step s o = (s', Ok b) -> fresh_of s' = (f, Ok b') ->
  forall q, ans_eq (ask ptab s' q) (ask ptab f q).
Proof. exact after_history. Qed.
Print Assumptions c18obs_after_history.

Theorem c18obs_after_history_built : forall d l w ops o s' b,
  is_ok (snd (new_enforcer d (AMemory l false) w)) = true ->
  NoDup l -> forallb pg_mem_line l = true -> keys_ok_b (d_model d) = true ->
  clean_def d = true ->
  side_ok (fst (new_enforcer d (AMemory l false) w)) = true ->
  obs_hist_ok (fst (new_enforcer d (AMemory l false) w)) ops = true ->
  let s := run_ops (fst (new_enforcer d (AMemory l false) w)) ops in
  shallow (f_rm_max (e_fs s)) (f_rm (e_fs s)) ->
  reconf3 o = true -> step s o = (s', Ok b) ->
  exists sf, fresh_of s' = (sf, Ok true) /\
             forall ptab q, ans_eq (ask ptab s' q) (ask ptab sf q).
Proof. exact after_history_fresh_of. Qed.
Print Assumptions c18obs_after_history_built.

(* against the store-as-definition: any definition d *)
Theorem c18obs_after_history_cur : forall d l w ops o s' b,
  is_ok (snd (new_enforcer d (AMemory l false) w)) = true ->
  NoDup l -> forallb pg_mem_line l = true -> keys_ok_b (d_model d) = true ->
  side_ok (fst (new_enforcer d (AMemory l false) w)) = true ->
  obs_hist_ok (fst (new_enforcer d (AMemory l false) w)) ops = true ->
  let s := run_ops (fst (new_enforcer d (AMemory l false) w)) ops in
  shallow (f_rm_max (e_fs s)) (f_rm (e_fs s)) ->
  reconf3 o = true -> step s o = (s', Ok b) ->
  exists sf, fresh_from (cur_def s') (e_adapter s') s' = (sf, Ok true) /\
             forall ptab q, ans_eq (ask ptab s' q) (ask ptab sf q).
Proof. exact after_history_cur. Qed.
Print Assumptions c18obs_after_history_cur.

(* the executable trace predicate accepts equal answers *)
Theorem c18obs_pred : forall x y, ans_eq x y -> ans_equiv x y = true.
Proof. exact ans_eq_pred. Qed.
Print Assumptions c18obs_pred.

(* ---- (5) non-vacuity: a history WITH removals of grouping rules ---- *)
(* RBAC model, memory adapter [p admin data1 read; g alice admin; p root data2
   write; g admin root]; calls: add p, add g, REMOVE g(admin, root), add g,
   delete_role_for_user(alice, admin), remove p, add g *)
Example c18obs_ex_history_hyps :
  is_ok (snd (new_enforcer rbac_def (AMemory y_lines false) false)) = true /\
  forallb pg_mem_line y_lines = true /\ keys_ok_b (d_model rbac_def) = true /\
  clean_def rbac_def = true /\
  side_ok (fst (new_enforcer rbac_def (AMemory y_lines false) false)) = true /\
  obs_hist_ok (fst (new_enforcer rbac_def (AMemory y_lines false) false)) y_ops = true /\
  shallow_b (f_rm_max (e_fs (run_ops (fst (new_enforcer rbac_def (AMemory y_lines false) false)) y_ops)))
            (f_rm (e_fs (run_ops (fst (new_enforcer rbac_def (AMemory y_lines false) false)) y_ops))) = true.
Proof. exact ex_history_hyps. Qed.
Example c18obs_ex_lines_nodup : NoDup y_lines.
Proof. exact y_lines_nodup. Qed.
(* Synced is false, the weaker hypothesis and all side hypotheses of (2) hold *)
Example c18obs_ex_not_synced_but_obs :
  syncedb y_state = false /\ obs_syncedb y_state = true /\
  store_syncedb y_state = true /\ reparse_ok (e_model y_state) = true /\
  no_leftover (f_gfuns (e_fs y_state)) (e_model y_state) = true /\
  ad_is_filtered (e_adapter y_state) = false /\ e_auto_build y_state = true /\
  gfuns_exactb (f_gfuns (e_fs y_state)) (e_model y_state) = true.
Proof. exact ex_obs_not_synced. Qed.
Example c18obs_ex_reconf_ok :
  snd (step y_state (OSetRoleManager 4)) = Ok true /\ snd (step y_state OSetEffector) = Ok true /\
  snd (step y_state (OAddFunction (T "f") UTrue)) = Ok true /\
  snd (fresh_of (fst (step y_state (OSetRoleManager 4)))) = Ok true /\
  snd (fresh_of (fst (step y_state OSetEffector))) = Ok true /\
  snd (fresh_of (fst (step y_state (OAddFunction (T "f") UTrue)))) = Ok true.
Proof. exact ex_reconf_ok. Qed.
(* the graphs of the reconfigured and of the fresh enforcer differ ... *)
Example c18obs_ex_graphs_differ :
  rmgr_eqb (f_rm (e_fs y_state)) (f_rm (e_fs (fst (fresh_of y_state)))) = false.
Proof. exact ex_graphs_differ. Qed.
(* ... and they answer 14 queries of every kind alike after each of the three calls *)
Example c18obs_ex_answers_equal :
  forallb (fun o =>
    match step y_state o, fresh_of (fst (step y_state o)) with
    | (s', Ok _), (sf, Ok _) =>
      forallb (fun q => ans_equiv (ask no_ptab s' q) (ask no_ptab sf q)) y_queries
    | _, _ => false
    end) [OSetRoleManager 4; OSetEffector; OAddFunction (T "f") UTrue] = true.
Proof. exact ex_answers_equal. Qed.
(* the composition theorem applied to this history *)
Example c18obs_ex_after_history : forall o s' b, reconf3 o = true ->
  step (run_ops (fst (new_enforcer rbac_def (AMemory y_lines false) false)) y_ops) o = (s', Ok b) ->
  exists sf, fresh_of s' = (sf, Ok true) /\
             forall ptab q, ans_eq (ask ptab s' q) (ask ptab sf q).
Proof. exact ex_after_history. Qed.

(* ---- the hypotheses are needed ---- *)
(* shallow: C05's deep state (two g definitions, limit 2, a chain of length 2)
   is reached by incremental calls and satisfies every other hypothesis; after
   set_effector, has_link(a, d) and a decision differ from the fresh enforcer *)
Example c18obs_shallow_needed :
  let s0 := fst (new_enforcer (ex_def two_defs) (AMemory [] false) false) in
  let ops := [ OSetRoleManager 2; OAdd s_p s_p [T "d"; T "data"; T "read"];
               OAdd C05P.g g2 [T "a"; T "b"]; OAdd C05P.g C05P.g [T "a"; T "c"];
               OAdd C05P.g C05P.g [T "b"; T "d"] ] in
  let s := run_ops s0 ops in
  let s' := fst (step s OSetEffector) in
  is_ok (snd (new_enforcer (ex_def two_defs) (AMemory [] false) false)) = true /\
  keys_ok_b (d_model (ex_def two_defs)) = true /\ clean_def (ex_def two_defs) = true /\
  side_ok s0 = true /\ obs_hist_ok s0 ops = true /\
  store_syncedb s = true /\ role_sync_b s = true /\ g_exact (e_model s) = true /\
  reparse_ok (e_model s) = true /\
  gfuns_exactb (f_gfuns (e_fs s)) (e_model s) = true /\
  shallow_b (f_rm_max (e_fs s)) (f_rm (e_fs s)) = false /\
  snd (step s OSetEffector) = Ok true /\ snd (fresh_of s') = Ok true /\
  ask no_ptab s' (QHasLink (T "a") (T "d") None) = AnsBool false /\
  ask no_ptab (fst (fresh_of s')) (QHasLink (T "a") (T "d") None) = AnsBool true /\
  ask no_ptab s' (QEnforce deep_req) = AnsDec (Ok false) /\
  ask no_ptab (fst (fresh_of s')) (QEnforce deep_req) = AnsDec (Ok true).
Proof. exact shallow_needed. Qed.
(* reparse_ok (fresh_of only): rules delivered to section r by an earlier
   adapter survive set_adapter; the state is Synced and ObsSynced, the enforcer
   built from the store-as-definition agrees, the re-parsed one lost the rules *)
Example c18obs_reparse_needed :
  let s := fst (step (mk rbac_def (mem x_rlines)) (OSetAdapter (mem x_lines))) in
  let s' := fst (step s OSetEffector) in
  syncedb s = true /\ obs_syncedb s = true /\ reparse_ok (e_model s) = false /\
  gfuns_exactb (f_gfuns (e_fs s)) (e_model s) = true /\
  snd (fresh_of s') = Ok true /\
  ask no_ptab s' (QGetPolicy s_r s_r) = AnsRules [[bob]; [alice]] /\
  ask no_ptab (fst (fresh_of s')) (QGetPolicy s_r s_r) = AnsRules [] /\
  ask no_ptab (fst (fresh_from (cur_def s') (e_adapter s') s')) (QGetPolicy s_r s_r)
    = AnsRules [[bob]; [alice]].
Proof. exact reparse_needed. Qed.
