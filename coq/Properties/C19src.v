(* C19 stated about the TRANSLATED SOURCE.  `src_step` / `src_run_ops` (Proofs/SrcStepP.v) dispatch every engine
   operation to the Gallina regenerated every run from the Rust text: Gen/InternalGen.v (src/internal_api.rs),
   Gen/ApiGen.v (src/rbac_api.rs, src/management_api.rs), Gen/EnforcerGen.v (src/enforcer.rs); `src_enforce` is the
   translated enforcement loop of Gen/EnforceGen.v (src/enforcer.rs, private_enforce); `src_new_enforcer`
   (Proofs/SrcQueryP.v) is Enforcer::new with the translated initial load.
   THE PROPERTY IS FALSE OF THE CODE (finding D7: all role definitions share one role manager): the full statement
   `src_c19_full_statement` (Proofs/C19SrcP.v: forall ptab d ops rv, src_enforce on the state reached by src_run_ops
   from src_new_enforcer d ANull false equals enforce_indep) is refuted with a concrete witness computed through the
   generated code; the partial statement and the store-level independence hold as in Properties/C19.v.
   Statements only; proofs in Proofs/C19SrcP.v (Properties/C19.v composed with Properties/SrcStep.v). *)
From CV Require Import Model.Base Model.Effector Model.RoleGraph Model.PathMatch Model.Expr
     Model.Enforce Model.Engine Model.SpecC08 Model.SpecC19.
From CV Require Import Proofs.BaseP Proofs.RoleGraphP Proofs.C08P Proofs.C19P.
From CV Require Import Proofs.SrcStepP Proofs.SrcQueryP Proofs.C19SrcP.

(* concrete witness, computed through the generated code: user roles g + resource roles g2, policy (y, data, read),
   ONLY the resource-role link g2: x -> y stored; the translated source grants (x, data, read), the specification
   denies *)
Theorem c19_src_full_statement_refuted : exists ptab d ops rv,
  let s := src_run_ops (fst (src_new_enforcer d ANull false)) ops in
  src_enforce ptab s rv = Ok true /\ enforce_indep ptab s rv = Ok false.
Proof. exact src_c19_full_statement_refuted. Qed.
Print Assumptions c19_src_full_statement_refuted.

Theorem c19_src_full_statement_false : ~ src_c19_full_statement.
Proof. exact src_c19_full_statement_false. Qed.
Print Assumptions c19_src_full_statement_false.

(* ---------- the partial statement that holds ---------- *)
(* shared manager well-formed, every role function bound to it, manager in sync with the stored rules, hierarchy
   shallow, and the evaluation of THIS request performs no role call that the union answers differently from the
   definition's own links: the translated loop's decision is the per-definition decision *)
Theorem c19_src_independent_partial : forall s,
  wf (f_rm (e_fs s)) -> all_cur (e_fs s) = true -> in_sync s -> shallow_state s = true ->
  forall ptab rv,
  enforce_probe ptab s rv <> Panic -> src_enforce ptab s rv = enforce_indep ptab s rv.
Proof. exact src_c19_independent_partial. Qed.
Print Assumptions c19_src_independent_partial.

(* all side conditions executable: a case the classifier does not flag agrees *)
Theorem c19_src_independent_classified : forall ptab s rv,
  wf (f_rm (e_fs s)) -> all_cur (e_fs s) = true -> shallow_state s = true ->
  known_shared_rm_case ptab s rv = false ->
  src_enforce ptab s rv = enforce_indep ptab s rv.
Proof. exact src_c19_independent_classified. Qed.
Print Assumptions c19_src_independent_classified.

(* after ANY history followed by a successful build_role_links *)
Theorem c19_src_independent_after_build : forall ptab d ad w ops s' rv,
  src_step (src_run_ops (fst (src_new_enforcer d ad w)) ops) OBuildRoleLinks = (s', Ok true) ->
  all_cur (e_fs s') = true -> shallow_state s' = true ->
  crosstalk_case ptab s' rv = false ->
  src_enforce ptab s' rv = enforce_indep ptab s' rv.
Proof. exact src_c19_independent_after_build. Qed.
Print Assumptions c19_src_independent_after_build.

(* the executable predicate holds of the translated source's own decision on unclassified cases *)
Theorem c19_src_pred_holds : forall ptab s rv,
  wf (f_rm (e_fs s)) -> all_cur (e_fs s) = true -> shallow_state s = true ->
  known_shared_rm_case ptab s rv = false ->
  c19_pred ptab s rv (src_enforce ptab s rv) = true.
Proof. exact src_c19_pred_holds. Qed.
Print Assumptions c19_src_pred_holds.

(* ---------- store-level independence: always true ---------- *)
(* an add / remove / filtered remove addressed to one definition leaves every other definition's assertion (rules,
   text, tokens, handle) as it was *)
Theorem c19_src_store_independent : forall s o sec pt sec' pt',
  op_target o = Some (sec, pt) -> sec <> sec' \/ pt <> pt' ->
  get_ast (e_model (fst (src_step s o))) sec' pt' = get_ast (e_model s) sec' pt'.
Proof. exact src_c19_store_independent. Qed.
Print Assumptions c19_src_store_independent.

Theorem c19_src_store_independent_run : forall sec' pt' ops s,
  Forall (fun o => exists sec pt, op_target o = Some (sec, pt) /\ (sec <> sec' \/ pt <> pt')) ops ->
  get_ast (e_model (src_run_ops s ops)) sec' pt' = get_ast (e_model s) sec' pt'.
Proof. exact src_c19_store_independent_run. Qed.
Print Assumptions c19_src_store_independent_run.

(* removing a link under one definition leaves the other's link set intact *)
Theorem c19_src_per_def_links_untouched : forall s o sec pt key dk,
  op_target o = Some (sec, pt) -> sec <> s_g \/ pt <> key ->
  per_def_links (fst (src_step s o)) key dk = per_def_links s key dk.
Proof. exact src_c19_per_def_links_untouched. Qed.
Print Assumptions c19_src_per_def_links_untouched.

(* non-vacuity of the partial theorem, through the generated code: user roles and resource roles over disjoint
   names, all hypotheses hold, decisions agree and are not trivial *)
Example c19_src_ex_wf : wf (f_rm (e_fs two_s5)).
Proof. exact two_s5_wf. Qed.
Example c19_src_independent_partial_nonvacuous :
  all_cur (e_fs two_s5) = true /\ shallow_state two_s5 = true /\
  map (known_shared_rm_case no_ptab two_s5) two_reqs = [false; false; false; false; false] /\
  map (src_enforce no_ptab two_s5) two_reqs = [Ok true; Ok false; Ok false; Ok true; Ok false] /\
  map (enforce_indep no_ptab two_s5) two_reqs = [Ok true; Ok false; Ok false; Ok true; Ok false].
Proof. vm_compute. repeat split; reflexivity. Qed.
(* the removal witness of Properties/C19.v through the generated code: remove under g deletes the shared edge
   although g2 still stores (a, b); build_role_links flips the decision back *)
Example c19_src_shared_rm_remove_refuted :
  let '(s3, o) := src_step two_s2 (ORemove s_g (T "g") [T "a"; T "b"]) in
  let '(s4, o') := src_step s3 OBuildRoleLinks in
  o = Ok true /\ o' = Ok true /\
  src_enforce no_ptab two_s2 (req "u" "a" "read") = Ok true /\
  per_def_links s3 (T "g2") DEFAULT_DOMAIN = [(T "a", T "b")] /\
  src_enforce no_ptab s3 (req "u" "a" "read") = Ok false /\
  enforce_indep no_ptab s3 (req "u" "a" "read") = Ok true /\
  src_enforce no_ptab s4 (req "u" "a" "read") = Ok true.
Proof. vm_compute. repeat split; reflexivity. Qed.
