(* C14 stated about the TRANSLATED SOURCE.  `src_step` / `src_run_ops` (Proofs/SrcStepP.v) dispatch every engine
   operation to the Gallina regenerated every run from the Rust text: Gen/InternalGen.v (src/internal_api.rs: the
   five ..._internal entry points with their emit of the PolicyChange event), Gen/ApiGen.v (src/rbac_api.rs,
   src/management_api.rs), Gen/EnforcerGen.v (src/enforcer.rs: clear_policy, save_policy,
   enable_auto_notify_watcher, ...); `src_new_enforcer` (Proofs/SrcQueryP.v) is Enforcer::new with the translated
   initial load; `src_model_trace` is Proofs/C14P.model_trace over src_step.
   Setting and exclusions (load_policy, load_filtered_policy, set_model, set_adapter notify nobody) as in
   Properties/C14.v.
   Statements only; proofs in Proofs/C14SrcP.v (Properties/C14.v composed with Properties/SrcStep.v). *)
From CV Require Import Model.Base Model.Effector Model.RoleGraph Model.PathMatch
     Model.Expr Model.Enforce Model.Engine Model.SpecC14.
From CV Require Import Proofs.BaseP Proofs.C10P Proofs.C14P.
From CV Require Import Proofs.SrcStepP Proofs.SrcQueryP Proofs.C14SrcP.

(* ---- (5a) exactly one registered callback while notifications are on, in every reachable state ---- *)
Theorem c14_src_notify_inv_step : forall s o, NotifyInv s -> NotifyInv (fst (src_step s o)).
Proof. exact src_c14_notify_inv_step. Qed.
Print Assumptions c14_src_notify_inv_step.

Theorem c14_src_notify_inv_reachable : forall d a w ops,
  NotifyInv (src_run_ops (fst (src_new_enforcer d a w)) ops).
Proof. exact src_c14_notify_inv_reachable. Qed.
Print Assumptions c14_src_notify_inv_reachable.

(* ---- (5b) delivery count and payload ---- *)
(* single-call management operations, notifications on: a reported change delivers exactly one event carrying
   exactly `expected_event`; no change, an adapter error or a panic deliver nothing; a late error has delivered *)
Theorem c14_src_delivery_single : forall s o c s' res,
  op_prim o = Some c -> e_watcher s = true -> NotifyInv s -> e_auto_notify s = true ->
  src_step s o = (s', res) ->
  match res with
  | Ok true => e_wlog s' = e_wlog s ++ [expected_event c (e_model s)]
  | Ok false => e_wlog s' = e_wlog s
  | Err EAdapter => e_wlog s' = e_wlog s
  | Err _ => late_ok c (e_model s) -> e_wlog s' = e_wlog s ++ [expected_event c (e_model s)]
  | Panic => e_wlog s' = e_wlog s
  end.
Proof. exact src_c14_delivery_single. Qed.
Print Assumptions c14_src_delivery_single.

(* notifications off: no management call (two-call helpers included) reaches the watcher *)
Theorem c14_src_delivery_off : forall s o,
  is_mgmt o = true -> e_watcher s = true -> e_auto_notify s = false ->
  e_wlog (fst (src_step s o)) = e_wlog s.
Proof. exact src_c14_delivery_off. Qed.
Print Assumptions c14_src_delivery_off.

(* clear_policy / save_policy deliver once per registered callback; nothing when they fail *)
Theorem c14_src_delivery_clear : forall s s' res,
  e_watcher s = true -> src_step s OClear = (s', res) ->
  e_wlog s' = e_wlog s ++ match res with Ok _ => repeat EvClear (e_callbacks s) | _ => [] end.
Proof. exact src_c14_delivery_clear. Qed.
Print Assumptions c14_src_delivery_clear.

Theorem c14_src_delivery_save : forall s s' res,
  e_watcher s = true -> src_step s OSave = (s', res) ->
  e_model s' = e_model s /\
  e_wlog s' = e_wlog s ++
    match res with
    | Ok _ => repeat (EvSave (m_get_all (e_model s) s_p ++ m_get_all (e_model s) s_g)) (e_callbacks s)
    | _ => []
    end.
Proof. exact src_c14_delivery_save. Qed.
Print Assumptions c14_src_delivery_save.

(* one public call, everything at once: the events delivered, the replica step, the predicate's delivery rule *)
Theorem c14_src_step : forall s o,
  e_watcher s = true -> NotifyInv s -> gdefs_ok (e_model s) = true ->
  notified_op o = true -> (mutating o = true -> e_auto_notify s = true) ->
  exists evs,
    e_wlog (fst (src_step s o)) = e_wlog s ++ evs /\
    store_of (e_model (fst (src_step s o))) = replay evs (store_of (e_model s)) /\
    events_ok (e_auto_notify s) (store_of (e_model s))
              (m_get_all (e_model s) s_p) (m_get_all (e_model s) s_g) o (snd (src_step s o)) evs = true.
Proof. exact src_c14_step. Qed.
Print Assumptions c14_src_step.

(* ---- (6) the replica ---- *)
(* for every history of notified operations in which every mutating call runs with notifications on: the events
   logged during the history, folded into the initial store, give the primary's store *)
Theorem c14_src_replica_eq : forall ops s0,
  C14Inv s0 -> forallb notified_op ops = true -> toggles_ok (e_auto_notify s0) ops = true ->
  exists evs,
    e_wlog (src_run_ops s0 ops) = e_wlog s0 ++ evs /\
    store_of (e_model (src_run_ops s0 ops)) = replay evs (store_of (e_model s0)).
Proof. exact src_c14_replica_eq. Qed.
Print Assumptions c14_src_replica_eq.

(* ... at every prefix, as the listings get_all_policy / get_all_grouping_policy, in order *)
Theorem c14_src_replica_eq_listing : forall ops1 ops2 s0,
  C14Inv s0 -> forallb notified_op (ops1 ++ ops2) = true ->
  toggles_ok (e_auto_notify s0) (ops1 ++ ops2) = true ->
  let s := src_run_ops s0 ops1 in
  let replica := replay (new_events s0 s) (store_of (e_model s0)) in
  replica = store_of (e_model s) /\
  st_flat s_p replica = m_get_all (e_model s) s_p /\
  st_flat s_g replica = m_get_all (e_model s) s_g.
Proof. exact src_c14_replica_eq_listing. Qed.
Print Assumptions c14_src_replica_eq_listing.

(* for every successfully constructed enforcer (with a watcher) and every such history *)
Theorem c14_src_replica_eq_constructed : forall d a b ops,
  snd (src_new_enforcer d a true) = Ok b ->
  forallb notified_op ops = true -> toggles_ok true ops = true ->
  let s0 := fst (src_new_enforcer d a true) in
  exists evs,
    e_wlog (src_run_ops s0 ops) = e_wlog s0 ++ evs /\
    store_of (e_model (src_run_ops s0 ops)) = replay evs (store_of (e_model s0)) /\
    m_get_all (e_model (src_run_ops s0 ops)) s_p = st_flat s_p (replay evs (store_of (e_model s0))) /\
    m_get_all (e_model (src_run_ops s0 ops)) s_g = st_flat s_g (replay evs (store_of (e_model s0))).
Proof. exact src_c14_replica_eq_constructed. Qed.
Print Assumptions c14_src_replica_eq_constructed.

(* ---- (7) the translated source's own traces satisfy the executable predicate ---- *)
Theorem c14_src_pred_holds : forall ops s,
  C14Inv s -> forallb notified_op ops = true -> toggles_ok (e_auto_notify s) ops = true ->
  c14_pred (e_auto_notify s) (store_of (e_model s)) (src_model_trace s ops) = true.
Proof. exact src_c14_pred_holds. Qed.
Print Assumptions c14_src_pred_holds.

(* non-vacuity, through the generated code: the invariant and the history hypotheses of Properties/C14.v, the
   results and delivery counts of the 22-call history, the predicate on the translated source's own trace, and the
   replica after it *)
Example c14_src_inv_satisfiable : C14Inv ex_s0.
Proof. exact ex_s0_inv. Qed.
Example c14_src_hist_hyps :
  forallb notified_op ex_hist = true /\ toggles_ok (e_auto_notify ex_s0) ex_hist = true.
Proof. exact ex_hist_hyps. Qed.
Example c14_src_hist_results :
  map o_res (src_model_trace ex_s0 ex_hist) =
  [Ok true; Ok false; Ok true; Ok false; Ok true; Ok true; Ok true; Ok true; Ok true; Ok true;
   Ok true; Ok true; Ok true; Ok true; Ok true; Ok true; Ok false; Ok true; Err EPolicy; Ok true;
   Ok true; Ok true] /\
  map (fun o => length (o_events o)) (src_model_trace ex_s0 ex_hist) =
  [1; 0; 1; 0; 1; 1; 1; 1; 1; 1; 0; 0; 0; 0; 2; 1; 0; 0; 1; 1; 1; 1].
Proof. vm_compute. split; reflexivity. Qed.
Example c14_src_hist_pred :
  c14_pred (e_auto_notify ex_s0) (store_of (e_model ex_s0)) (src_model_trace ex_s0 ex_hist) = true.
Proof. vm_compute. reflexivity. Qed.
Example c14_src_hist_replica :
  replay (new_events ex_s0 (src_run_ops ex_s0 ex_hist)) (store_of (e_model ex_s0))
  = store_of (e_model (src_run_ops ex_s0 ex_hist)).
Proof. vm_compute. reflexivity. Qed.
