(* C17 stated about the TRANSLATED SOURCE.  The generated functions: gen_private_enforce /
   gen_private_enforce_with_context of Gen/EnforceGen.v, regenerated every run from Enforcer::private_enforce /
   private_enforce_with_context of src/enforcer.rs (with the lookup macros of src/macros.rs); src_enforce /
   src_enforce_with_ctx (Proofs/SrcStepP.v) are the same on an enforcer state.
   Statements only; proofs in Proofs/C17SrcP.v (Properties/C17.v composed with PinChecks/PcEnforceGen.v). *)
From CV Require Import Model.Base Model.Effector Model.Expr Model.Enforce Model.Rename Model.Engine.
From CV Require Import Gen.RustStr Gen.RustVec Gen.RustEnf Gen.EnforceGen.
From CV Require Import Proofs.SrcStepP Proofs.C17SrcP Properties.C17.

Theorem c17_src_ctx_eq_plain : forall ptab k enabled md1 md2 mx1 mx2 fs rvals,
  no_underscore k = true ->
  renamed_copy k md1 md2 mx1 mx2 ->
  gen_private_enforce_with_context ptab enabled md2 mx2 fs (s_r ++ k) (s_p ++ k) (s_e ++ k) (s_m ++ k) rvals =
  gen_private_enforce ptab enabled md1 mx1 fs rvals.
Proof. exact src_c17_ctx_eq_plain. Qed.
Print Assumptions c17_src_ctx_eq_plain.

Theorem c17_src_state : forall ptab k s1 s2 rv,
  no_underscore k = true ->
  renamed_copy k (e_model s1) (e_model s2) (e_mexprs s1) (e_mexprs s2) ->
  e_enabled s2 = e_enabled s1 -> e_fs s2 = e_fs s1 ->
  src_enforce_with_ctx ptab s2 k rv = src_enforce ptab s1 rv.
Proof. exact src_c17_state. Qed.
Print Assumptions c17_src_state.

(* non-vacuity: the renamed-copy hypothesis holds of the model of Properties/C17.v (c17_example_copy), and the
   translated functions deny the deny row on both paths *)
Example c17_src_example :
  no_underscore (T "2") = true /\ renamed_copy (T "2") ex_md ex_md ex_mx ex_mx /\
  gen_private_enforce_with_context (fun _ => None) true ex_md ex_mx ex_fs
    (s_r ++ T "2") (s_p ++ T "2") (s_e ++ T "2") (s_m ++ T "2") [VStr (T "alice"); VStr (T "data1")] = Ok false /\
  gen_private_enforce (fun _ => None) true ex_md ex_mx ex_fs [VStr (T "alice"); VStr (T "data1")] = Ok false.
Proof. split; [reflexivity|]. split; [exact c17_example_copy|]. vm_compute. split; reflexivity. Qed.
