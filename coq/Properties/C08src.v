(* C08 stated about the TRANSLATED SOURCE.  `src_step` / `src_run_ops` (Proofs/SrcStepP.v) dispatch every engine
   operation to the Gallina regenerated every run from the Rust text: Gen/InternalGen.v (src/internal_api.rs:
   add_policy_internal, remove_policy_internal with their role-link maintenance), Gen/ApiGen.v (src/rbac_api.rs,
   src/management_api.rs), Gen/EnforcerGen.v (src/enforcer.rs); `src_enforce` is the translated enforcement loop of
   Gen/EnforceGen.v (src/enforcer.rs, private_enforce); `src_new_enforcer` (Proofs/SrcQueryP.v) is Enforcer::new with
   the translated initial load.  Matcher class and shallowness as in Properties/C08.v.
   Statements only; proofs in Proofs/C08SrcP.v (Properties/C08.v composed with Properties/SrcStep.v). *)
From CV Require Import Model.Base Model.Effector Model.RoleGraph Model.PathMatch Model.Expr
     Model.Enforce Model.Engine Model.SpecC08.
From CV Require Import Proofs.BaseP Proofs.RoleGraphP Proofs.ExprP Proofs.C08P.
From CV Require Import Proofs.SrcStepP Proofs.SrcQueryP Proofs.C08SrcP.

(* ---- allow-override: permission rules ---- *)
(* add_policy of a p rule that took effect: every granted request stays granted *)
Theorem c08_src_add_rule_keeps_grants : forall ptab s r s' rv,
  src_step s (OAdd s_p s_p r) = (s', Ok true) ->
  is_allow_override s = true ->
  m_get_policy (e_model s) s_p s_p <> [] ->
  src_enforce ptab s rv = Ok true -> src_enforce ptab s' rv = Ok true.
Proof. exact src_c08_add_rule_keeps_grants. Qed.
Print Assumptions c08_src_add_rule_keeps_grants.

(* remove_policy of a p rule that took effect: every denied request stays denied, provided a rule is left *)
Theorem c08_src_remove_rule_keeps_denials : forall ptab s r s' rv,
  src_step s (ORemove s_p s_p r) = (s', Ok true) ->
  is_allow_override s = true ->
  m_get_policy (e_model s') s_p s_p <> [] ->
  src_enforce ptab s rv = Ok false -> src_enforce ptab s' rv = Ok false.
Proof. exact src_c08_remove_rule_keeps_denials. Qed.
Print Assumptions c08_src_remove_rule_keeps_denials.

(* ---- allow-override: role links (any role definition pt) ---- *)
(* a grouping rule added with auto-build on, hierarchy shallow afterwards, role calls positive in the matcher: a
   granted request is not denied afterwards *)
Theorem c08_src_add_link_keeps_grants : forall ptab s pt r s' rv,
  src_step s (OAdd s_g pt r) = (s', Ok true) ->
  e_auto_build s = true -> wf (f_rm (e_fs s)) -> shallow_state s' = true ->
  is_allow_override s = true -> matcher_negfree s = true ->
  src_enforce ptab s rv = Ok true -> src_enforce ptab s' rv <> Ok false.
Proof. exact src_c08_add_link_keeps_grants. Qed.
Print Assumptions c08_src_add_link_keeps_grants.

Theorem c08_src_add_link_keeps_grants_strict : forall ptab s pt r s' rv,
  src_step s (OAdd s_g pt r) = (s', Ok true) ->
  e_auto_build s = true -> wf (f_rm (e_fs s)) -> shallow_state s' = true ->
  is_allow_override s = true -> matcher_negfree s = true ->
  (exists b, src_enforce ptab s' rv = Ok b) ->
  src_enforce ptab s rv = Ok true -> src_enforce ptab s' rv = Ok true.
Proof. exact src_c08_add_link_keeps_grants_strict. Qed.
Print Assumptions c08_src_add_link_keeps_grants_strict.

(* a grouping rule removed, hierarchy shallow before: a denied request is not granted afterwards *)
Theorem c08_src_remove_link_keeps_denials : forall ptab s pt r s' rv,
  src_step s (ORemove s_g pt r) = (s', Ok true) ->
  e_auto_build s = true -> wf (f_rm (e_fs s)) -> shallow_state s = true ->
  is_allow_override s = true -> matcher_negfree s = true ->
  src_enforce ptab s rv = Ok false -> src_enforce ptab s' rv <> Ok true.
Proof. exact src_c08_remove_link_keeps_denials. Qed.
Print Assumptions c08_src_remove_link_keeps_denials.

Theorem c08_src_remove_link_keeps_denials_strict : forall ptab s pt r s' rv,
  src_step s (ORemove s_g pt r) = (s', Ok true) ->
  e_auto_build s = true -> wf (f_rm (e_fs s)) -> shallow_state s = true ->
  is_allow_override s = true -> matcher_negfree s = true ->
  (exists b, src_enforce ptab s' rv = Ok b) ->
  src_enforce ptab s rv = Ok false -> src_enforce ptab s' rv = Ok false.
Proof. exact src_c08_remove_link_keeps_denials_strict. Qed.
Print Assumptions c08_src_remove_link_keeps_denials_strict.

(* ---- rules with a deny effect, under EVERY effect rule ---- *)
(* adding a rule whose eft field is "deny" never grants anything; removing one never revokes a grant *)
Theorem c08_src_add_deny_never_grants : forall ptab s r s' rv,
  src_step s (OAdd s_p s_p r) = (s', Ok true) ->
  deny_rule s r = true ->
  m_get_policy (e_model s) s_p s_p <> [] ->
  src_enforce ptab s' rv = Ok true -> src_enforce ptab s rv = Ok true.
Proof. exact src_c08_add_deny_never_grants. Qed.
Print Assumptions c08_src_add_deny_never_grants.

Theorem c08_src_remove_deny_never_denies : forall ptab s r s' rv,
  src_step s (ORemove s_p s_p r) = (s', Ok true) ->
  deny_rule s r = true ->
  m_get_policy (e_model s') s_p s_p <> [] ->
  src_enforce ptab s rv = Ok true -> src_enforce ptab s' rv = Ok true.
Proof. exact src_c08_remove_deny_never_denies. Qed.
Print Assumptions c08_src_remove_deny_never_denies.

(* ---- reachable states: no well-formedness hypothesis on the role manager ---- *)
Theorem c08_src_add_link_keeps_grants_reachable : forall ptab d ad w ops pt r s' rv,
  let s := src_run_ops (fst (src_new_enforcer d ad w)) ops in
  src_step s (OAdd s_g pt r) = (s', Ok true) ->
  e_auto_build s = true -> shallow_state s' = true ->
  is_allow_override s = true -> matcher_negfree s = true ->
  src_enforce ptab s rv = Ok true -> src_enforce ptab s' rv <> Ok false.
Proof. exact src_c08_add_link_keeps_grants_reachable. Qed.
Print Assumptions c08_src_add_link_keeps_grants_reachable.

Theorem c08_src_remove_link_keeps_denials_reachable : forall ptab d ad w ops pt r s' rv,
  let s := src_run_ops (fst (src_new_enforcer d ad w)) ops in
  src_step s (ORemove s_g pt r) = (s', Ok true) ->
  e_auto_build s = true -> shallow_state s = true ->
  is_allow_override s = true -> matcher_negfree s = true ->
  src_enforce ptab s rv = Ok false -> src_enforce ptab s' rv <> Ok true.
Proof. exact src_c08_remove_link_keeps_denials_reachable. Qed.
Print Assumptions c08_src_remove_link_keeps_denials_reachable.

(* ---- the executable predicate holds of the translated source's own decisions ---- *)
Theorem c08_src_pred_add_link_holds : forall ptab s pt r s' rvs,
  src_step s (OAdd s_g pt r) = (s', Ok true) ->
  e_auto_build s = true -> wf (f_rm (e_fs s)) -> shallow_state s' = true ->
  is_allow_override s = true -> matcher_negfree s = true ->
  c08_pred KGrow (map (src_enforce ptab s) rvs) (map (src_enforce ptab s') rvs) = true.
Proof. exact src_c08_pred_add_link_holds. Qed.
Print Assumptions c08_src_pred_add_link_holds.

Theorem c08_src_pred_remove_link_holds : forall ptab s pt r s' rvs,
  src_step s (ORemove s_g pt r) = (s', Ok true) ->
  e_auto_build s = true -> wf (f_rm (e_fs s)) -> shallow_state s = true ->
  is_allow_override s = true -> matcher_negfree s = true ->
  c08_pred KShrink (map (src_enforce ptab s) rvs) (map (src_enforce ptab s') rvs) = true.
Proof. exact src_c08_pred_remove_link_holds. Qed.
Print Assumptions c08_src_pred_remove_link_holds.

Theorem c08_src_pred_add_rule_holds : forall ptab s r s' rvs,
  src_step s (OAdd s_p s_p r) = (s', Ok true) ->
  is_allow_override s = true -> m_get_policy (e_model s) s_p s_p <> [] ->
  c08_pred KGrowStrict (map (src_enforce ptab s) rvs) (map (src_enforce ptab s') rvs) = true.
Proof. exact src_c08_pred_add_rule_holds. Qed.
Print Assumptions c08_src_pred_add_rule_holds.

Theorem c08_src_pred_remove_rule_holds : forall ptab s r s' rvs,
  src_step s (ORemove s_p s_p r) = (s', Ok true) ->
  is_allow_override s = true -> m_get_policy (e_model s') s_p s_p <> [] ->
  c08_pred KShrinkStrict (map (src_enforce ptab s) rvs) (map (src_enforce ptab s') rvs) = true.
Proof. exact src_c08_pred_remove_rule_holds. Qed.
Print Assumptions c08_src_pred_remove_rule_holds.

Theorem c08_src_pred_add_deny_holds : forall ptab s r s' rvs,
  src_step s (OAdd s_p s_p r) = (s', Ok true) -> deny_rule s r = true ->
  c08_pred KShrink (map (src_enforce ptab s) rvs) (map (src_enforce ptab s') rvs) = true.
Proof. exact src_c08_pred_add_deny_holds. Qed.
Print Assumptions c08_src_pred_add_deny_holds.

Theorem c08_src_pred_remove_deny_holds : forall ptab s r s' rvs,
  src_step s (ORemove s_p s_p r) = (s', Ok true) -> deny_rule s r = true ->
  c08_pred KGrow (map (src_enforce ptab s) rvs) (map (src_enforce ptab s') rvs) = true.
Proof. exact src_c08_pred_remove_deny_holds. Qed.
Print Assumptions c08_src_pred_remove_deny_holds.

(* non-vacuity, through the generated code: the reachable RBAC state of Properties/C08.v satisfies every hypothesis
   of the link theorems, and the deny-override state those of the deny theorems *)
Example c08_src_ex_wf : wf (f_rm (e_fs ex_s1)).
Proof. exact ex_s1_wf. Qed.
Example c08_src_ex_add_link :
  let '(s', o) := src_step ex_s1 (OAdd s_g s_g [T "alice"; T "admin"]) in
  o = Ok true /\ e_auto_build ex_s1 = true /\ shallow_state s' = true /\
  is_allow_override ex_s1 = true /\ matcher_negfree ex_s1 = true /\
  map (src_enforce no_ptab ex_s1) ex_reqs = [Ok true; Ok false; Ok true; Ok false] /\
  map (src_enforce no_ptab s') ex_reqs = [Ok true; Ok true; Ok true; Ok false].
Proof. vm_compute. repeat split; reflexivity. Qed.
Example c08_src_ex_remove_link :
  let '(s', o) := src_step ex_s1 (ORemove s_g s_g [T "bob"; T "admin"]) in
  o = Ok true /\ shallow_state ex_s1 = true /\
  map (src_enforce no_ptab s') ex_reqs = [Ok false; Ok false; Ok true; Ok false].
Proof. vm_compute. repeat split; reflexivity. Qed.
Example c08_src_ex_add_rule :
  let '(s', o) := src_step ex_s1 (OAdd s_p s_p [T "alice"; T "data"; T "read"]) in
  o = Ok true /\ m_get_policy (e_model ex_s1) s_p s_p <> [] /\
  map (src_enforce no_ptab s') ex_reqs = [Ok true; Ok true; Ok true; Ok false].
Proof. vm_compute. split; [reflexivity|]. split; [discriminate|reflexivity]. Qed.
Example c08_src_ex_add_deny :
  let '(s', o) := src_step ex_do (OAdd s_p s_p [T "alice"; T "data"; T "read"; T "deny"]) in
  o = Ok true /\ deny_rule ex_do [T "alice"; T "data"; T "read"; T "deny"] = true /\
  m_get_policy (e_model ex_do) s_p s_p <> [] /\
  src_enforce no_ptab ex_do (req "alice" "data" "read") = Ok true /\
  src_enforce no_ptab s' (req "alice" "data" "read") = Ok false.
Proof. vm_compute. split; [reflexivity|]. split; [reflexivity|]. split; [discriminate|]. split; reflexivity. Qed.
