(* C08 — Granting never revokes and revoking never grants.
   Only statements closed by `exact`; proofs live in Proofs/C08P.v.

   Matcher class: `negfree_g gn m` — the role functions (names gn) occur only
   positively in m (under &&, ||), never below ==, !=, <, `in`, !, or as an
   argument of another call; `negfree m` is the purely syntactic sub-class of
   the property text (no negation operator anywhere).
   Hierarchies below the depth limit: `shallow_state s` — in every domain every
   reachable pair is reachable in at most max_hierarchy_level - 1 links. *)
From CV Require Import Model.Base Model.Effector Model.RoleGraph Model.PathMatch Model.Expr
     Model.Enforce Model.Engine Model.SpecC08.
From CV Require Import Proofs.BaseP Proofs.RoleGraphP Proofs.ExprP Proofs.C08P.

(* the syntactic class of the property text is inside the class of the theorems *)
Theorem c08_negfree_class : forall gn e, negfree e = true -> negfree_g gn e = true.
Proof. exact negfree_negfree_g. Qed.
Print Assumptions c08_negfree_class.

(* ---------- (2) evaluation is monotone in the role graph ---------- *)

(* two call tables that agree outside the role functions and whose role
   functions can only switch from false to true: the value of a matcher of the
   class is the same, or an error on one side, or a boolean that can only
   switch from false to true *)
Theorem c08_eval_mono : forall call1 call2 gn ptab sc,
  (forall f args, ~ In f gn -> call1 f args = call2 f args) ->
  (forall f args, mono_res (ores (call1 f args)) (ores (call2 f args))) ->
  forall fuel e, negfree_g gn e = true ->
  mono_res (eval call1 ptab sc fuel e) (eval call2 ptab sc fuel e).
Proof. exact eval_mono. Qed.
Print Assumptions c08_eval_mono.

(* on a well-formed shallow graph the bounded BFS is exactly reachability *)
Theorem c08_has_link_shallow : forall maxd m a b d,
  wf m -> shallow maxd (edges_of m d) ->
  has_link maxd m a b d = reachable (edges_of m d) a b.
Proof. exact has_link_shallow. Qed.
Print Assumptions c08_has_link_shallow.

(* more links, shallow afterwards: every inherited role is still inherited *)
Theorem c08_has_link_mono : forall maxd m m' a b d,
  wf m -> wf m' ->
  (forall x y, Edge m d x y -> Edge m' d x y) ->
  shallow maxd (edges_of m' d) ->
  has_link maxd m a b d = true -> has_link maxd m' a b d = true.
Proof. exact has_link_mono. Qed.
Print Assumptions c08_has_link_mono.

(* the executable shallowness test implies the property used above *)
Theorem c08_shallow_rm_sound : forall maxd m,
  shallow_rm maxd m = true -> forall d, shallow maxd (edges_of m d).
Proof. exact shallow_rm_sound. Qed.
Print Assumptions c08_shallow_rm_sound.

(* REFUTED without shallowness: limit 2, links a->b, a->c, b->d, c->e; d is
   found (beyond the limit, the depth counter lags); after add_link(a, e) it is
   not.  Adding a link can revoke an inherited role beyond the depth limit. *)
Example c08_mono_needs_shallow :
  has_link 2 mns_before (T "a") (T "d") None = true /\
  has_link 2 mns_after (T "a") (T "d") None = false /\
  shallow_rm 2 mns_after = false.
Proof. exact mono_needs_shallow. Qed.

(* ---------- (3) allow-override: permission rules ---------- *)

(* add_policy of a p rule that took effect: every granted request stays
   granted.  No condition on the matcher.  The rule list must not be empty
   before (see c08_add_rule_needs_nonempty). *)
Theorem c08_add_rule_keeps_grants : forall ptab s r s' rv,
  step s (OAdd s_p s_p r) = (s', Ok true) ->
  is_allow_override s = true ->
  m_get_policy (e_model s) s_p s_p <> [] ->
  enforce ptab s rv = Ok true -> enforce ptab s' rv = Ok true.
Proof. exact add_rule_keeps_grants. Qed.
Print Assumptions c08_add_rule_keeps_grants.

(* remove_policy of a p rule that took effect: every denied request stays
   denied, provided a rule is left *)
Theorem c08_remove_rule_keeps_denials : forall ptab s r s' rv,
  step s (ORemove s_p s_p r) = (s', Ok true) ->
  is_allow_override s = true ->
  m_get_policy (e_model s') s_p s_p <> [] ->
  enforce ptab s rv = Ok false -> enforce ptab s' rv = Ok false.
Proof. exact remove_rule_keeps_denials. Qed.
Print Assumptions c08_remove_rule_keeps_denials.

(* REFUTED for an empty rule list: the enforcer evaluates the matcher once with
   every p field bound to "" — the all-empty request is granted by an empty
   ACL policy, adding the first rule revokes it, removing the last rule grants
   it again *)
Example c08_add_rule_needs_nonempty :
  let '(s', o) := step ex_acl0 (OAdd s_p s_p [T "alice"; T "data"; T "read"]) in
  o = Ok true /\ is_allow_override ex_acl0 = true /\
  enforce no_ptab ex_acl0 (req "" "" "") = Ok true /\
  enforce no_ptab s' (req "" "" "") = Ok false.
Proof. exact add_rule_needs_nonempty. Qed.
Example c08_remove_rule_needs_nonempty :
  let s1 := run_ops ex_acl0 [OAdd s_p s_p [T "alice"; T "data"; T "read"]] in
  let '(s', o) := step s1 (ORemove s_p s_p [T "alice"; T "data"; T "read"]) in
  o = Ok true /\ enforce no_ptab s1 (req "" "" "") = Ok false /\
  enforce no_ptab s' (req "" "" "") = Ok true.
Proof. exact remove_rule_needs_nonempty. Qed.

(* ---------- (3) allow-override: role links (any role definition pt) ---------- *)

(* a grouping rule added with auto-build on, hierarchy shallow afterwards,
   role calls positive in the matcher: a granted request is not denied
   afterwards (it is granted, or its evaluation now fails) *)
Theorem c08_add_link_keeps_grants : forall ptab s pt r s' rv,
  step s (OAdd s_g pt r) = (s', Ok true) ->
  e_auto_build s = true -> wf (f_rm (e_fs s)) -> shallow_state s' = true ->
  is_allow_override s = true -> matcher_negfree s = true ->
  enforce ptab s rv = Ok true -> enforce ptab s' rv <> Ok false.
Proof. exact add_link_keeps_grants. Qed.
Print Assumptions c08_add_link_keeps_grants.

Theorem c08_add_link_keeps_grants_strict : forall ptab s pt r s' rv,
  step s (OAdd s_g pt r) = (s', Ok true) ->
  e_auto_build s = true -> wf (f_rm (e_fs s)) -> shallow_state s' = true ->
  is_allow_override s = true -> matcher_negfree s = true ->
  (exists b, enforce ptab s' rv = Ok b) ->
  enforce ptab s rv = Ok true -> enforce ptab s' rv = Ok true.
Proof. exact add_link_keeps_grants_strict. Qed.
Print Assumptions c08_add_link_keeps_grants_strict.

(* a grouping rule removed, hierarchy shallow before: a denied request is not
   granted afterwards *)
Theorem c08_remove_link_keeps_denials : forall ptab s pt r s' rv,
  step s (ORemove s_g pt r) = (s', Ok true) ->
  e_auto_build s = true -> wf (f_rm (e_fs s)) -> shallow_state s = true ->
  is_allow_override s = true -> matcher_negfree s = true ->
  enforce ptab s rv = Ok false -> enforce ptab s' rv <> Ok true.
Proof. exact remove_link_keeps_denials. Qed.
Print Assumptions c08_remove_link_keeps_denials.

Theorem c08_remove_link_keeps_denials_strict : forall ptab s pt r s' rv,
  step s (ORemove s_g pt r) = (s', Ok true) ->
  e_auto_build s = true -> wf (f_rm (e_fs s)) -> shallow_state s = true ->
  is_allow_override s = true -> matcher_negfree s = true ->
  (exists b, enforce ptab s' rv = Ok b) ->
  enforce ptab s rv = Ok false -> enforce ptab s' rv = Ok false.
Proof. exact remove_link_keeps_denials_strict. Qed.
Print Assumptions c08_remove_link_keeps_denials_strict.

(* REFUTED in the form "a grant stays a grant": && and || short-circuit, so a
   new link can expose an ill-typed operand; the grant becomes an error *)
Example c08_link_can_raise_error :
  let '(s', o) := step ex_ill (OAdd s_g s_g [T "alice"; T "admin"]) in
  o = Ok true /\ matcher_negfree ex_ill = true /\ is_allow_override ex_ill = true /\
  shallow_state s' = true /\
  enforce no_ptab ex_ill (req "alice" "data" "read") = Ok true /\
  enforce no_ptab s' (req "alice" "data" "read") = Err EEvalc.
Proof. exact link_can_raise_error. Qed.

(* REFUTED beyond the depth limit, on a reachable enforcer state (hierarchy
   limit 2): add_grouping_policy(a, e) turns a grant into a denial *)
Example c08_add_link_needs_shallow :
  let '(s', o) := step ex_deep (OAdd s_g s_g [T "a"; T "e"]) in
  o = Ok true /\ e_auto_build ex_deep = true /\ is_allow_override ex_deep = true /\
  matcher_negfree ex_deep = true /\ shallow_state s' = false /\
  enforce no_ptab ex_deep (req "a" "data" "read") = Ok true /\
  enforce no_ptab s' (req "a" "data" "read") = Ok false.
Proof. exact add_link_needs_shallow. Qed.

(* why == on a role call is outside the class, and why links are an
   allow-override statement only *)
Example c08_eq_false_is_negation :
  let '(s', o) := step ex_eqf (OAdd s_g s_g [T "alice"; T "admin"]) in
  o = Ok true /\ matcher_negfree ex_eqf = false /\
  enforce no_ptab ex_eqf (req "alice" "data" "read") = Ok true /\
  enforce no_ptab s' (req "alice" "data" "read") = Ok false.
Proof. exact eq_false_is_negation. Qed.
Example c08_link_under_deny_override_revokes :
  let '(s', o) := step ex_do (OAdd s_g s_g [T "alice"; T "admin"]) in
  o = Ok true /\ matcher_negfree ex_do = true /\ shallow_state s' = true /\
  is_allow_override ex_do = false /\
  enforce no_ptab ex_do (req "alice" "data" "read") = Ok true /\
  enforce no_ptab s' (req "alice" "data" "read") = Ok false.
Proof. exact link_under_deny_override_revokes. Qed.

(* ---------- (4) rules with a deny effect, under EVERY effect rule ---------- *)

(* adding a rule whose eft field is "deny" never grants anything; removing one
   never revokes a grant *)
Theorem c08_add_deny_never_grants : forall ptab s r s' rv,
  step s (OAdd s_p s_p r) = (s', Ok true) ->
  deny_rule s r = true ->
  m_get_policy (e_model s) s_p s_p <> [] ->
  enforce ptab s' rv = Ok true -> enforce ptab s rv = Ok true.
Proof. exact add_deny_never_grants. Qed.
Print Assumptions c08_add_deny_never_grants.

Theorem c08_remove_deny_never_denies : forall ptab s r s' rv,
  step s (ORemove s_p s_p r) = (s', Ok true) ->
  deny_rule s r = true ->
  m_get_policy (e_model s') s_p s_p <> [] ->
  enforce ptab s rv = Ok true -> enforce ptab s' rv = Ok true.
Proof. exact remove_deny_never_denies. Qed.
Print Assumptions c08_remove_deny_never_denies.

(* without the non-emptiness condition, in the weaker form *)
Theorem c08_add_deny_never_grants_weak : forall ptab s r s' rv,
  step s (OAdd s_p s_p r) = (s', Ok true) ->
  deny_rule s r = true ->
  enforce ptab s rv = Ok false -> enforce ptab s' rv <> Ok true.
Proof. exact add_deny_never_grants_weak. Qed.
Print Assumptions c08_add_deny_never_grants_weak.

Theorem c08_remove_deny_never_denies_weak : forall ptab s r s' rv,
  step s (ORemove s_p s_p r) = (s', Ok true) ->
  deny_rule s r = true ->
  enforce ptab s rv = Ok true -> enforce ptab s' rv <> Ok false.
Proof. exact remove_deny_never_denies_weak. Qed.
Print Assumptions c08_remove_deny_never_denies_weak.

(* the empty rule list again: an evaluation error on the empty pseudo-rule
   becomes a grant when a deny rule is added (deny-override) *)
Example c08_add_deny_needs_nonempty :
  let '(s', o) := step ex_ee (OAdd s_p s_p [T "admin"; T "data"; T "read"; T "deny"]) in
  o = Ok true /\ deny_rule ex_ee [T "admin"; T "data"; T "read"; T "deny"] = true /\
  enforce no_ptab ex_ee (req "alice" "data" "read") = Err EEvalc /\
  enforce no_ptab s' (req "alice" "data" "read") = Ok true.
Proof. exact add_deny_needs_nonempty. Qed.

(* ---------- the executable predicate holds of the model's own decisions ---------- *)
Theorem c08_pred_add_link_holds : forall ptab s pt r s' rvs,
  step s (OAdd s_g pt r) = (s', Ok true) ->
  e_auto_build s = true -> wf (f_rm (e_fs s)) -> shallow_state s' = true ->
  is_allow_override s = true -> matcher_negfree s = true ->
  c08_pred KGrow (map (enforce ptab s) rvs) (map (enforce ptab s') rvs) = true.
Proof. exact c08_pred_add_link. Qed.
Theorem c08_pred_remove_link_holds : forall ptab s pt r s' rvs,
  step s (ORemove s_g pt r) = (s', Ok true) ->
  e_auto_build s = true -> wf (f_rm (e_fs s)) -> shallow_state s = true ->
  is_allow_override s = true -> matcher_negfree s = true ->
  c08_pred KShrink (map (enforce ptab s) rvs) (map (enforce ptab s') rvs) = true.
Proof. exact c08_pred_remove_link. Qed.
Theorem c08_pred_add_rule_holds : forall ptab s r s' rvs,
  step s (OAdd s_p s_p r) = (s', Ok true) ->
  is_allow_override s = true -> m_get_policy (e_model s) s_p s_p <> [] ->
  c08_pred KGrowStrict (map (enforce ptab s) rvs) (map (enforce ptab s') rvs) = true.
Proof. exact c08_pred_add_rule. Qed.
Theorem c08_pred_remove_rule_holds : forall ptab s r s' rvs,
  step s (ORemove s_p s_p r) = (s', Ok true) ->
  is_allow_override s = true -> m_get_policy (e_model s') s_p s_p <> [] ->
  c08_pred KShrinkStrict (map (enforce ptab s) rvs) (map (enforce ptab s') rvs) = true.
Proof. exact c08_pred_remove_rule. Qed.
Theorem c08_pred_add_deny_holds : forall ptab s r s' rvs,
  step s (OAdd s_p s_p r) = (s', Ok true) -> deny_rule s r = true ->
  c08_pred KShrink (map (enforce ptab s) rvs) (map (enforce ptab s') rvs) = true.
Proof. exact c08_pred_add_deny. Qed.
Theorem c08_pred_remove_deny_holds : forall ptab s r s' rvs,
  step s (ORemove s_p s_p r) = (s', Ok true) -> deny_rule s r = true ->
  c08_pred KGrow (map (enforce ptab s) rvs) (map (enforce ptab s') rvs) = true.
Proof. exact c08_pred_remove_deny. Qed.
Print Assumptions c08_pred_add_link_holds.
Print Assumptions c08_pred_remove_deny_holds.

(* ---------- non-vacuity: a reachable RBAC state satisfying every hypothesis ---------- *)
Example c08_ex_wf : wf (f_rm (e_fs ex_s1)).
Proof. exact ex_s1_wf. Qed.
Example c08_ex_add_link :
  let '(s', o) := step ex_s1 (OAdd s_g s_g [T "alice"; T "admin"]) in
  o = Ok true /\ e_auto_build ex_s1 = true /\ shallow_state s' = true /\
  is_allow_override ex_s1 = true /\ matcher_negfree ex_s1 = true /\
  map (enforce no_ptab ex_s1) ex_reqs = [Ok true; Ok false; Ok true; Ok false] /\
  map (enforce no_ptab s') ex_reqs = [Ok true; Ok true; Ok true; Ok false].
Proof. exact ex_add_link. Qed.
Example c08_ex_remove_link :
  let '(s', o) := step ex_s1 (ORemove s_g s_g [T "bob"; T "admin"]) in
  o = Ok true /\ shallow_state ex_s1 = true /\
  map (enforce no_ptab s') ex_reqs = [Ok false; Ok false; Ok true; Ok false].
Proof. exact ex_remove_link. Qed.
Example c08_ex_add_rule :
  let '(s', o) := step ex_s1 (OAdd s_p s_p [T "alice"; T "data"; T "read"]) in
  o = Ok true /\ m_get_policy (e_model ex_s1) s_p s_p <> [] /\
  map (enforce no_ptab s') ex_reqs = [Ok true; Ok true; Ok true; Ok false].
Proof. exact ex_add_rule. Qed.
Example c08_ex_remove_rule :
  let '(s', o) := step ex_s1 (ORemove s_p s_p [T "carol"; T "data"; T "write"]) in
  o = Ok true /\ m_get_policy (e_model s') s_p s_p <> [] /\
  map (enforce no_ptab s') ex_reqs = [Ok true; Ok false; Ok false; Ok false].
Proof. exact ex_remove_rule. Qed.
Example c08_ex_add_deny :
  let '(s', o) := step ex_do (OAdd s_p s_p [T "alice"; T "data"; T "read"; T "deny"]) in
  o = Ok true /\ deny_rule ex_do [T "alice"; T "data"; T "read"; T "deny"] = true /\
  m_get_policy (e_model ex_do) s_p s_p <> [] /\
  enforce no_ptab ex_do (req "alice" "data" "read") = Ok true /\
  enforce no_ptab s' (req "alice" "data" "read") = Ok false /\
  enforce no_ptab s' (req "bob" "data" "read") = Ok true.
Proof. exact ex_add_deny. Qed.
Example c08_ex_remove_deny :
  let '(s', o) := step ex_do (ORemove s_p s_p [T "admin"; T "data"; T "read"; T "deny"]) in
  o = Ok true /\ deny_rule ex_do [T "admin"; T "data"; T "read"; T "deny"] = true /\
  m_get_policy (e_model s') s_p s_p <> [] /\
  enforce no_ptab ex_do (req "admin" "data" "read") = Ok false /\
  enforce no_ptab s' (req "admin" "data" "read") = Ok true.
Proof. exact ex_remove_deny. Qed.

(* ---------- reachable states ---------- *)
(* the shared role manager is well-formed after every history of operations on
   a fresh enforcer, so the link theorems need no well-formedness hypothesis *)
Theorem c08_reachable_rm_wf : forall d a w ops,
  wf (f_rm (e_fs (run_ops (fst (new_enforcer d a w)) ops))).
Proof. exact reachable_rm_wf. Qed.
Print Assumptions c08_reachable_rm_wf.

Theorem c08_add_link_keeps_grants_reachable : forall ptab d ad w ops pt r s' rv,
  let s := run_ops (fst (new_enforcer d ad w)) ops in
  step s (OAdd s_g pt r) = (s', Ok true) ->
  e_auto_build s = true -> shallow_state s' = true ->
  is_allow_override s = true -> matcher_negfree s = true ->
  enforce ptab s rv = Ok true -> enforce ptab s' rv <> Ok false.
Proof. exact add_link_keeps_grants_reachable. Qed.
Print Assumptions c08_add_link_keeps_grants_reachable.

Theorem c08_remove_link_keeps_denials_reachable : forall ptab d ad w ops pt r s' rv,
  let s := run_ops (fst (new_enforcer d ad w)) ops in
  step s (ORemove s_g pt r) = (s', Ok true) ->
  e_auto_build s = true -> shallow_state s = true ->
  is_allow_override s = true -> matcher_negfree s = true ->
  enforce ptab s rv = Ok false -> enforce ptab s' rv <> Ok true.
Proof. exact remove_link_keeps_denials_reachable. Qed.
Print Assumptions c08_remove_link_keeps_denials_reachable.
