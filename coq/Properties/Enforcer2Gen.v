(* rs2coq part 15: the translated on / off / emit, register_g_functions, EnforceContext::new, enforce,
   enforce_mut, enforce_with_context, build_incremental_role_links, new_raw, new of src/enforcer.rs and
   notify_logger_and_watcher, clear_cache of src/emitter.rs (Gen/Enforcer2Gen.v, generated from /repo) equal the
   engine model.  Statements only; the proofs are in PinChecks/PcEnforcer2Gen.v (lemmas in Proofs/Enforcer2P.v).
   renf / abs / eng_coherent / hm_get are defined in Gen/Enforcer2Rt.v, fm_wf / builtins_unshadowed in
   Proofs/Enforcer2P.v. *)
From CV Require Import Model.Base Model.Expr Model.Enforce Model.Engine Model.Cached.
From CV Require Import Gen.InternalPrims Gen.EnforcerPrims Gen.CachedRt Gen.Enforcer2Rt Gen.Enforcer2Gen.
From CV Require Import Proofs.ExModels Proofs.Enforcer2P PinChecks.PcEnforcer2Gen.

Theorem e2gen_translated : gen_enforcer2_translated = true.
Proof. exact gen_enforcer2_translated_ok. Qed.
Print Assumptions e2gen_translated.

(* ---- target 2: event delivery ---- *)
Theorem e2gen_notify_logger_and_watcher : forall x d,
  abs (gen_emitter_notify_logger_and_watcher x d) =
  (if e_watcher (abs x) then upd_wlog (abs x) (e_wlog (abs x) ++ [d]) else abs x).
Proof. exact gen_emitter_notify_logger_and_watcher_ok. Qed.
Print Assumptions e2gen_notify_logger_and_watcher.

Theorem e2gen_clear_cache : forall c d, gen_emitter_clear_cache c d = {| c_inner := c_inner c; c_cache := [] |}.
Proof. exact gen_emitter_clear_cache_ok. Qed.
Print Assumptions e2gen_clear_cache.

Theorem e2gen_on : forall x f, abs (gen_enf_on x KPolicyChange f) = on_policy_change (abs x).
Proof. exact gen_enf_on_ok. Qed.
Print Assumptions e2gen_on.

Theorem e2gen_on_other : forall x f, abs (gen_enf_on x KClearCache f) = abs x.
Proof. exact gen_enf_on_other. Qed.
Print Assumptions e2gen_on_other.

Theorem e2gen_on_events : forall x k f k',
  hm_get evkind_eqb (r_events (gen_enf_on x k f)) k' =
  if evkind_eqb k k' then Some (hm_get_or evkind_eqb (r_events x) k [] ++ [f]) else hm_get evkind_eqb (r_events x) k'.
Proof. exact gen_enf_on_events. Qed.
Print Assumptions e2gen_on_events.

Theorem e2gen_off : forall x, abs (gen_enf_off x KPolicyChange) = off_policy_change (abs x).
Proof. exact gen_enf_off_ok. Qed.
Print Assumptions e2gen_off.

Theorem e2gen_off_other : forall x, abs (gen_enf_off x KClearCache) = abs x.
Proof. exact gen_enf_off_other. Qed.
Print Assumptions e2gen_off_other.

Theorem e2gen_off_events : forall x k k',
  hm_get evkind_eqb (r_events (gen_enf_off x k)) k' = if evkind_eqb k k' then None else hm_get evkind_eqb (r_events x) k'.
Proof. exact gen_enf_off_events. Qed.
Print Assumptions e2gen_off_events.

Theorem e2gen_emit : forall x d, abs (gen_enf_emit x KPolicyChange d) = emit (abs x) d.
Proof. exact gen_enf_emit_ok. Qed.
Print Assumptions e2gen_emit.

Theorem e2gen_emit_clear_cache : forall x d, hm_get evkind_eqb (r_events x) KClearCache = None ->
  gen_enf_emit x KClearCache d = x /\ abs (gen_enf_emit x KClearCache d) = emit_clear_cache (abs x).
Proof. exact gen_enf_emit_clear_cache. Qed.
Print Assumptions e2gen_emit_clear_cache.

Example e2gen_events_ex :
  let x1 := gen_enf_on g2_x KPolicyChange CbNotify in
  let x2 := gen_enf_emit (gen_enf_emit x1 KPolicyChange EvClear) KPolicyChange (EvSave []) in
  e_callbacks (abs x1) = 2 /\ r_watcher x2 = Some [EvClear; EvClear; EvSave []; EvSave []] /\
  e_callbacks (abs (gen_enf_off x2 KPolicyChange)) = 0.
Proof. vm_compute. repeat split. Qed.

(* ---- target 1: register_g_functions ---- *)
Theorem e2gen_register_g_functions : forall x,
  abs (fst (gen_enf_register_g_functions x)) = fst (register_g_functions (abs x)) /\
  snd (gen_enf_register_g_functions x) = lerr_out (snd (register_g_functions (abs x))) true.
Proof. exact gen_enf_register_g_functions_ok. Qed.
Print Assumptions e2gen_register_g_functions.

Theorem e2gen_register_g_functions_coherent_partial : forall x,
  eng_coherent x -> fm_wf (r_fm x) ->
  snd (gen_enf_register_g_functions x) = Ok true ->
  builtins_unshadowed (r_fm x) (f_gfuns (e_fs (abs (fst (gen_enf_register_g_functions x))))) ->
  eng_coherent (fst (gen_enf_register_g_functions x)).
Proof. exact gen_enf_register_g_functions_coherent_partial. Qed.
Print Assumptions e2gen_register_g_functions_coherent_partial.

(* FINDINGS F1, F2: the full statement (PcEnforcer2Gen.gen_enf_register_g_functions_coherent_full) fails *)
Theorem e2gen_register_g_functions_coherent_refuted_default_name :
  exists x, eng_coherent x /\ fm_wf (r_fm x) /\ snd (gen_enf_register_g_functions x) = Ok true /\
            ~ eng_coherent (fst (gen_enf_register_g_functions x)).
Proof. exact gen_enf_register_g_functions_coherent_refuted_default_name. Qed.
Print Assumptions e2gen_register_g_functions_coherent_refuted_default_name.

Theorem e2gen_register_g_functions_coherent_refuted_error_path :
  exists x, eng_coherent x /\ fm_wf (r_fm x) /\ snd (gen_enf_register_g_functions x) = Err EModel /\
            ~ eng_coherent (fst (gen_enf_register_g_functions x)).
Proof. exact gen_enf_register_g_functions_coherent_refuted_error_path. Qed.
Print Assumptions e2gen_register_g_functions_coherent_refuted_error_path.

Example e2gen_register_g_functions_ex :
  eng_coherent (fst (gen_enf_new rbac2_def (mem [pl admin data1 read; gl alice admin]))) /\
  map fst (f_gfuns (e_fs (abs g2_x))) = [(T "g2", 2); (s_g, 2)].
Proof. split; [exact (proj1 gen_enf_coherent_ex)|vm_compute; reflexivity]. Qed.

(* ---- target 3: the wrappers ---- *)
Theorem e2gen_ctx_new : forall k,
  gen_ctx_new k = {| x_r := s_r ++ k; x_p := s_p ++ k; x_e := s_e ++ k; x_m := s_m ++ k |}.
Proof. exact gen_ctx_new_ok. Qed.
Print Assumptions e2gen_ctx_new.

Theorem e2gen_build_incremental_role_links : forall x d,
  (abs (fst (gen_enf_build_incremental_role_links x d)), snd (gen_enf_build_incremental_role_links x d)) =
  (fst (build_incremental_role_links (abs x) d), lerr_out (snd (build_incremental_role_links (abs x) d)) true).
Proof. exact gen_enf_build_incremental_role_links_ok. Qed.
Print Assumptions e2gen_build_incremental_role_links.

Theorem e2gen_enforce : forall ptab x rv, gen_enf_enforce ptab x rv = enforce ptab (abs x) rv.
Proof. exact gen_enf_enforce_ok. Qed.
Print Assumptions e2gen_enforce.

Theorem e2gen_enforce_mut : forall ptab x rv, gen_enf_enforce_mut ptab x rv = (x, enforce ptab (abs x) rv).
Proof. exact gen_enf_enforce_mut_ok. Qed.
Print Assumptions e2gen_enforce_mut.

Theorem e2gen_enforce_with_context : forall ptab x c rv,
  gen_enf_enforce_with_context ptab x c rv = enforce_with_ctx4 ptab (abs x) (x_r c) (x_p c) (x_e c) (x_m c) rv.
Proof. exact gen_enf_enforce_with_context_ok. Qed.
Print Assumptions e2gen_enforce_with_context.

Theorem e2gen_enforce_with_context_new : forall ptab x k rv,
  gen_enf_enforce_with_context ptab x (gen_ctx_new k) rv = enforce_with_ctx ptab (abs x) k rv.
Proof. exact gen_enf_enforce_with_context_new. Qed.
Print Assumptions e2gen_enforce_with_context_new.

Example e2gen_enforce_ex :
  gen_enf_enforce no_ptab g2_x (req alice data1 read) = Ok true /\
  gen_enf_enforce no_ptab g2_x (req bob data2 read) = Ok false /\
  gen_enf_enforce_with_context no_ptab g2_ctx (gen_ctx_new (T "2")) (req bob data2 read) = Ok true /\
  gen_enf_enforce_with_context no_ptab g2_ctx (gen_ctx_new (T "")) (req bob data2 read) = Ok false.
Proof. vm_compute. repeat split. Qed.

(* ---- target 4: the constructors ---- *)
Theorem e2gen_fm_default_table :
  map (fun kf => (fst kf, opfun_arity (snd kf))) fm_default = gen_fm_default_table /\
  (forall n a, In (n, a) gen_fm_default_table -> In (n, OfBuiltin n) fm_default).
Proof. exact gen_fm_default_table_ok. Qed.
Print Assumptions e2gen_fm_default_table.

Theorem e2gen_new_raw : forall d a,
  abs (fst (gen_enf_new_raw d a)) = fst (new_raw d a false) /\
  snd (gen_enf_new_raw d a) = lerr_out (snd (new_raw d a false)) true.
Proof. exact gen_enf_new_raw_ok. Qed.
Print Assumptions e2gen_new_raw.

Theorem e2gen_new_raw_coherent_partial : forall d a,
  snd (gen_enf_new_raw d a) = Ok true ->
  builtins_unshadowed fm_default (f_gfuns (e_fs (abs (fst (gen_enf_new_raw d a))))) ->
  eng_coherent (fst (gen_enf_new_raw d a)).
Proof. exact gen_enf_new_raw_coherent_partial. Qed.
Print Assumptions e2gen_new_raw_coherent_partial.

Theorem e2gen_new : forall d a, (abs (fst (gen_enf_new d a)), snd (gen_enf_new d a)) = new_enforcer d a false.
Proof. exact gen_enf_new_ok. Qed.
Print Assumptions e2gen_new.

Theorem e2gen_new_coherent_partial : forall d a,
  snd (gen_enf_new d a) = Ok true ->
  builtins_unshadowed fm_default (f_gfuns (e_fs (abs (fst (gen_enf_new_raw d a))))) ->
  eng_coherent (fst (gen_enf_new d a)).
Proof. exact gen_enf_new_coherent_partial. Qed.
Print Assumptions e2gen_new_coherent_partial.

Example e2gen_new_ex :
  snd (gen_enf_new rbac2_def (mem [pl admin data1 read; gl alice admin])) = Ok true /\
  e_callbacks (abs g2_x) = 1 /\ f_rm_max (e_fs (abs g2_x)) = 10 /\ roles_for_user (abs g2_x) alice None = [admin].
Proof. vm_compute. repeat split. Qed.
