(* rs2coq part 12: the translated model-text reader (Gen/IniGen.v, generated from /repo/src/config.rs, the
   loading half of /repo/src/model/default_model.rs and Assertion::default of /repo/src/model/assertion.rs)
   equals the model Model/Ini.v.  Statements only; the proofs are in PinChecks/PcIniGen.v (lemmas in
   Proofs/IniRtP.v).  Defined there:
     ascii_text t    every byte of t is below 128 (Rust trims Unicode white space, the model ASCII white space)
     plain_key s     no upper-case ASCII letter and no ':' in s (Config::get lower-cases and splits at "::")
     small n         n < 10^20 (the model prints key suffixes with 20 digits; a u64 ends before)
     conf_ok st c    every lookup in the HashMap<String, HashMap<String, String>> of st equals cfg_get on c,
                     and every value is ASCII
     parse_rd        the two loops of parse_buffer as a fuelled function on the reader
     model_ins, model_of_mdefs, known_secs, conf_add, parse_errf, table_wf, table_wfb, order_text
   `fuel` bounds the iterations of the translated loops; None = a panic or not enough fuel. *)
From CV Require Import Model.Base Model.Csv Model.Ini Model.SpecC16.
From CV Require Import Gen.RustStr Gen.StrFnGen Gen.RustVec Gen.RustIter Gen.Petgraph Gen.IniRt Gen.IniGen.
From CV Require Import Proofs.IniRtP PinChecks.PcIniGen.

Theorem inigen_translated : gen_ini_translated = true.
Proof. exact gen_ini_translated_ok. Qed.
Print Assumptions inigen_translated.

(* ---- config.rs ---- *)
Theorem inigen_add_config : forall self sec opt v,
  gen_add_config self sec opt v = Some {| conf_data := conf_add (conf_data self) sec opt v |}.
Proof. exact gen_add_config_ok. Qed.
Print Assumptions inigen_add_config.

Theorem inigen_add_config_model : forall st c sec k v, conf_ok st c -> ascii_text k -> ascii_text v ->
  exists st', gen_add_config st sec k v = Some st' /\
              conf_ok st' (cfg_set (match sec with [] => DEFAULT_SECTION | _ => sec end, k) v c).
Proof. exact gen_add_config_rel. Qed.
Print Assumptions inigen_add_config_model.

Theorem inigen_parse_buffer : forall fuel st c rd, conf_ok st c -> ascii_text rd -> length rd < fuel ->
  match parse_lines (S (length (ini_lines rd))) (ini_lines rd) [] c with
  | Some c' => exists st', gen_parse_buffer fuel st rd = Some (st', [], ROk tt) /\ conf_ok st' c'
  | None => exists st' rd' e, gen_parse_buffer fuel st rd = Some (st', rd', RErr e)
  end.
Proof. exact gen_parse_buffer_ok. Qed.
Print Assumptions inigen_parse_buffer.

Theorem inigen_from_str : forall fuel t, ascii_text t -> length t < fuel ->
  match parse_config t with
  | Some c => exists st, gen_from_str fuel t = Some (ROk st) /\ conf_ok st c
  | None => exists e, gen_from_str fuel t = Some (RErr e)
  end.
Proof. exact gen_from_str_ok. Qed.
Print Assumptions inigen_from_str.

Theorem inigen_get : forall self sec opt, plain_key sec -> plain_key opt ->
  gen_get self (sec ++ T "::" ++ opt) = Some (conf_lookup (conf_data self) sec opt).
Proof. exact gen_get_sec_opt. Qed.
Print Assumptions inigen_get.

Theorem inigen_get_default : forall self key, plain_key key ->
  gen_get self key = Some (conf_lookup (conf_data self) DEFAULT_SECTION key).
Proof. exact gen_get_default. Qed.
Print Assumptions inigen_get_default.

Theorem inigen_get_str : forall self key, gen_get_str self key = gen_get self key.
Proof. exact gen_get_str_ok. Qed.
Print Assumptions inigen_get_str.

Theorem inigen_from_str_get : forall fuel t, ascii_text t -> length t < fuel ->
  match parse_config t with
  | Some c => exists st, gen_from_str fuel t = Some (ROk st) /\
                (forall sec opt, plain_key sec -> plain_key opt ->
                   gen_get st (sec ++ T "::" ++ opt) = Some (cfg_get (sec, opt) c)) /\
                (forall key, plain_key key -> gen_get st key = Some (cfg_get (DEFAULT_SECTION, key) c))
  | None => exists e, gen_from_str fuel t = Some (RErr e)
  end.
Proof. exact gen_from_str_get. Qed.
Print Assumptions inigen_from_str_get.

(* the ASCII hypothesis cannot be dropped *)
Theorem inigen_from_str_nonascii_refuted :
  exists t fuel st c, length t < fuel /\ gen_from_str fuel t = Some (ROk st) /\ parse_config t = Some c /\
    gen_get st (T "k") = Some (Some (T "v")) /\ cfg_get (DEFAULT_SECTION, T "k") c = Some (T "v" ++ [byte 194; byte 160]).
Proof. exact gen_from_str_nonascii_refuted. Qed.
Print Assumptions inigen_from_str_nonascii_refuted.

(* ---- default_model.rs ---- *)
Theorem inigen_get_key_suffix : forall self i, gen_get_key_suffix self i = key_suffix i.
Proof. exact gen_get_key_suffix_ok. Qed.
Print Assumptions inigen_get_key_suffix.

Theorem inigen_add_def : forall self sec key value, ascii_text value ->
  gen_add_def self sec key value =
  Some (match add_def sec key value with
        | Some d => (model_ins sec self d, true)
        | None => (self, false)
        end).
Proof. exact gen_add_def_ok. Qed.
Print Assumptions inigen_add_def.

Theorem inigen_load_assertion : forall self cfg c sec key,
  conf_ok cfg c -> In sec known_secs -> plain_key key ->
  gen_load_assertion self cfg sec key =
  Some (match cfg_get (sec_name sec, key) c with
        | Some v => match add_def sec key v with
                    | Some d => (model_ins sec self d, ROk true)
                    | None => (self, ROk false)
                    end
        | None => (self, ROk false)
        end).
Proof. exact gen_load_assertion_ok. Qed.
Print Assumptions inigen_load_assertion.

Theorem inigen_load_assertion_unknown : forall self cfg sec key, ~ In sec known_secs ->
  exists e, gen_load_assertion self cfg sec key = Some (self, RErr e).
Proof. exact gen_load_assertion_unknown. Qed.
Print Assumptions inigen_load_assertion_unknown.

Theorem inigen_load_section : forall fuel self cfg c sec, conf_ok cfg c -> In sec known_secs ->
  small (S (length c)) -> S (length c) <= fuel ->
  gen_load_section fuel self cfg sec =
  Some (fold_left (model_ins sec) (load_section (S (length c)) c sec 1) self, ROk tt).
Proof. exact gen_load_section_ok. Qed.
Print Assumptions inigen_load_section.

Theorem inigen_load_section_unknown : forall fuel self cfg sec, ~ In sec known_secs -> 1 <= fuel ->
  exists e, gen_load_section fuel self cfg sec = Some (self, RErr e).
Proof. exact gen_load_section_unknown. Qed.
Print Assumptions inigen_load_section_unknown.

Theorem inigen_model_from_str : forall fuel t, ascii_text t -> length t < fuel -> small (S (length t)) ->
  match model_of_text t with
  | Some md => gen_model_from_str fuel t = Some (ROk {| dm_model := model_of_mdefs md |})
  | None => exists e, gen_model_from_str fuel t = Some (RErr e)
  end.
Proof. exact gen_model_from_str_ok. Qed.
Print Assumptions inigen_model_from_str.

Theorem inigen_mdefs_roundtrip : forall md, mdefs_of {| dm_model := model_of_mdefs md |} = md.
Proof. exact mdefs_of_model_of_mdefs. Qed.
Print Assumptions inigen_mdefs_roundtrip.

(* ---- Model::to_text ---- *)
(* the HashMap of replacements is iterated in insertion order (`ord` the identity: what the model applies); the
   model is canonical (sections r, p, e, m, g, none empty: what load_model builds) and its replacement table is
   well formed (table_wf: patterns pairwise different, none empty); one definition per key in policy_effect *)
Theorem inigen_to_text : forall ord md, (forall l, ord l = l) -> mdefs_canon md = true -> table_wf md ->
  NoDup (map ad_key (sec_defs md (T "e"))) ->
  gen_to_text ord {| dm_model := model_of_mdefs md |} = Some (to_text md).
Proof. exact gen_to_text_ok. Qed.
Print Assumptions inigen_to_text.

(* for an arbitrary iteration order the result is not determined (a FINDING: confirmed on the real code) *)
Theorem inigen_to_text_any_order_refuted :
  exists m md s1 s2, gen_model_from_str 300 order_text = Some (ROk m) /\ model_of_text order_text = Some md /\
    mdefs_canon md = true /\ table_wfb md = true /\
    gen_to_text (fun l => l) m = Some s1 /\ gen_to_text (@rev _) m = Some s2 /\ s1 <> s2.
Proof. exact gen_to_text_any_order_refuted. Qed.
Print Assumptions inigen_to_text_any_order_refuted.

(* ---- the hypotheses are satisfiable: a model text with a continuation line, a comment, a second policy
   definition, a role definition and a deferred section header ---- *)
Definition nlc : string := String (ascii_of_nat 10) EmptyString.
Definition ex_text : text :=
  T ("# RBAC" ++ nlc ++ "[request_definition]" ++ nlc ++ "r = sub, obj, act" ++ nlc ++
     "[policy_definition]" ++ nlc ++ "p = sub, obj, \" ++ nlc ++ "    act" ++ nlc ++ "p2 = sub, act # second" ++ nlc ++
     "[role_definition]" ++ nlc ++ "g = _, _" ++ nlc ++
     "[policy_effect]" ++ nlc ++ "e = some(where (p.eft == allow)) \" ++ nlc ++ "[matchers]" ++ nlc ++
     "m = g(r.sub, p.sub) && r.obj == p.obj").
Example ex_text_ascii : ascii_text ex_text. Proof. vm_compute. reflexivity. Qed.
Example ex_text_fuel : length ex_text < 300. Proof. vm_compute. repeat constructor. Qed.
Example ex_text_small : small (S (length ex_text)). Proof. vm_compute. reflexivity. Qed.
Example ex_text_parses : exists c, parse_config ex_text = Some c /\ length c = 6.
Proof. eexists. split; vm_compute; reflexivity. Qed.
Example ex_plain_keys : plain_key (T "request_definition") /\ plain_key (T "p2").
Proof. split; reflexivity. Qed.
Example ex_model_from_str :
  exists m, gen_model_from_str 300 ex_text = Some (ROk m) /\
            map fst (dm_model m) = [T "r"; T "p"; T "e"; T "m"; T "g"] /\
            option_map (map fst) (hm_get (dm_model m) (T "p")) = Some [T "p"; T "p2"] /\
            Some (mdefs_of m) = model_of_text ex_text.
Proof. eexists. split; [vm_compute; reflexivity|]. repeat split; vm_compute; reflexivity. Qed.
Example ex_error : exists e, gen_model_from_str 50 (T "[matchers]" ++ T nlc ++ T "no equals sign") = Some (RErr e)
                             /\ model_of_text (T "[matchers]" ++ T nlc ++ T "no equals sign") = None.
Proof. eexists. split; vm_compute; reflexivity. Qed.
Example ex_to_text_hyps :
  exists md, model_of_text ex_text = Some md /\ mdefs_canon md = true /\ table_wf md /\
             NoDup (map ad_key (sec_defs md (T "e"))).
Proof.
  eexists. split; [vm_compute; reflexivity|]. split; [vm_compute; reflexivity|].
  split; [apply table_wfb_wf; vm_compute; reflexivity|apply text_nodupb_NoDup; vm_compute; reflexivity].
Qed.
Example ex_to_text :
  exists m md, gen_model_from_str 300 ex_text = Some (ROk m) /\ model_of_text ex_text = Some md /\
               gen_to_text (fun l => l) m = Some (to_text md).
Proof. do 2 eexists. split; [vm_compute; reflexivity|]. split; vm_compute; reflexivity. Qed.
