(* C18 — A reconfigured enforcer equals a freshly built one.
   Only statements closed by `exact`; proofs live in Proofs/C18P.v.

   Vocabulary.
   - `fresh_from d a s` (Model/SpecC18.v): Enforcer::new(d, a), then the
     components and flags of `s` installed through the public API:
     set_role_manager(limit of s) only if it is not the default 10,
     add_function for every user function of s (oldest first), the four
     toggles. "Same components" = hierarchy limit, user functions, flags.
   - `cur_def s`: the model store of s used as the definition (a clone of the
     Model object; the constructor's load empties p and g). `def_of s`: the
     re-parsed definition (every policy emptied, every handle reset).
   - `st_equiv`: same section contents, matchers, enabled flag, filtered mark,
     role manager content and limit, user functions, and the same role function
     (or none) under every name/arity. `obs_eq`: every query of `ask` gets
     the same answer (set/bag answers compared as sets/bags).
   - `Synced s`: loading from the adapter of s and building the links gives
     exactly the model store and role manager s holds. *)
From CV Require Import Model.Base Model.Expr Model.Enforce Model.Engine Model.SpecC18
     Proofs.ExprP Proofs.ExModels Proofs.C18P Proofs.C18Q.

(* equivalent states answer every query identically, decisions included *)
Theorem c18_equiv_same_answers : forall ptab s1 s2 q, st_equiv s1 s2 -> ask ptab s1 q = ask ptab s2 q.
Proof. exact ask_equiv. Qed.
Print Assumptions c18_equiv_same_answers.
Theorem c18_equiv_obs_eq : forall ptab s1 s2, st_equiv s1 s2 -> obs_eq ptab s1 s2.
Proof. exact st_equiv_obs_eq. Qed.
Print Assumptions c18_equiv_obs_eq.
(* the executable predicate on a pair of observed answers holds *)
Theorem c18_pred_holds : forall ptab s1 s2 q, st_equiv s1 s2 ->
  c18_pred (ask ptab s1 q) (ask ptab s2 q) = true.
Proof. exact st_equiv_pred. Qed.
Print Assumptions c18_pred_holds.

(* ---- set_model ----
   After a successful set_model(d), with auto-build on, an adapter not marked
   filtered, and no role function of an earlier model left under a name/arity
   d does not define: the enforcer is equivalent to Enforcer::new(d, adapter as
   handed over) + components; model store, adapter and role manager are EQUAL. *)
Theorem c18_set_model : forall s d s' b,
  step s (OSetModel d) = (s', Ok b) ->
  e_auto_build s = true ->
  ad_is_filtered (e_adapter s) = false ->
  no_leftover (f_gfuns (e_fs s)) (d_model d) = true ->
  exists sf, fresh_from d (e_adapter s) s' = (sf, Ok true) /\ st_equiv s' sf /\
             e_adapter sf = e_adapter s' /\ e_model sf = e_model s' /\
             f_rm (e_fs sf) = f_rm (e_fs s').
Proof. exact set_model_fresh. Qed.
Print Assumptions c18_set_model.

(* the same against the re-parsed definition of the reconfigured state, for a
   definition as a parser produces it (no rules, own handles) *)
Theorem c18_set_model_parsed : forall s d s' b,
  step s (OSetModel d) = (s', Ok b) ->
  clean_def d = true ->
  e_auto_build s = true ->
  ad_is_filtered (e_adapter s) = false ->
  no_leftover (f_gfuns (e_fs s)) (d_model d) = true ->
  exists sf, fresh_from (def_of s') (e_adapter s) s' = (sf, Ok true) /\ st_equiv s' sf.
Proof. exact set_model_fresh_parsed. Qed.
Print Assumptions c18_set_model_parsed.

(* against `fresh_of`: the enforcer built NOW from the re-parsed definition and
   the adapter the state holds after the call (any unscripted adapter; the
   filtered mark does not matter here: the reload has reset it) *)
Theorem c18_set_model_now : forall s d s' b,
  step s (OSetModel d) = (s', Ok b) ->
  clean_def d = true ->
  e_auto_build s = true ->
  ad_unscripted (e_adapter s) = true ->
  no_leftover (f_gfuns (e_fs s)) (d_model d) = true ->
  exists sf, fresh_of s' = (sf, Ok true) /\ st_equiv s' sf /\
             e_adapter sf = e_adapter s' /\ e_model sf = e_model s' /\
             f_rm (e_fs sf) = f_rm (e_fs s').
Proof. exact set_model_fresh_of. Qed.
Print Assumptions c18_set_model_now.

(* role functions are never unregistered: leftovers of the old model are
   harmless as long as nothing the new model can evaluate (its matchers, and
   whatever eval() may parse) calls a function by a leftover name *)
Theorem c18_set_model_leftovers : forall ptab s d s' b,
  step s (OSetModel d) = (s', Ok b) ->
  e_auto_build s = true ->
  ad_is_filtered (e_adapter s) = false ->
  let safe := fun f => safe_name (f_gfuns (e_fs s)) (d_model d) f = true in
  (forall k m, assoc k (d_mexprs d) = Some m -> calls_in safe m) ->
  (forall t e', ptab t = Some e' -> calls_in safe e') ->
  exists sf, fresh_from d (e_adapter s) s' = (sf, Ok true) /\ obs_eq ptab s' sf.
Proof. exact set_model_fresh_calls. Qed.
Print Assumptions c18_set_model_leftovers.

(* ---- set_adapter ---- *)
Theorem c18_set_adapter : forall s a s' b,
  step s (OSetAdapter a) = (s', Ok b) ->
  e_auto_build s = true ->
  ad_is_filtered a = false ->
  gfuns_exactb (f_gfuns (e_fs s)) (e_model s) = true ->
  exists sf, fresh_from (cur_def s) a s' = (sf, Ok true) /\ st_equiv s' sf /\
             e_adapter sf = e_adapter s' /\ e_model sf = e_model s' /\
             f_rm (e_fs sf) = f_rm (e_fs s').
Proof. exact set_adapter_fresh. Qed.
Print Assumptions c18_set_adapter.

(* against the enforcer built now from the adapter as it is after the call *)
Theorem c18_set_adapter_now : forall s a s' b,
  step s (OSetAdapter a) = (s', Ok b) ->
  e_auto_build s = true ->
  ad_unscripted a = true ->
  gfuns_exactb (f_gfuns (e_fs s)) (e_model s) = true ->
  exists sf, fresh_from (cur_def s) (e_adapter s') s' = (sf, Ok true) /\ st_equiv s' sf /\
             e_adapter sf = e_adapter s' /\ e_model sf = e_model s' /\
             f_rm (e_fs sf) = f_rm (e_fs s').
Proof. exact set_adapter_fresh_now. Qed.
Print Assumptions c18_set_adapter_now.

Theorem c18_set_adapter_leftovers : forall ptab s a s' b,
  step s (OSetAdapter a) = (s', Ok b) ->
  e_auto_build s = true -> ad_is_filtered a = false ->
  gdefs_ok (e_model s) = true -> gfuns_current (f_gfuns (e_fs s)) (e_model s) = true ->
  let safe := fun f => safe_name (f_gfuns (e_fs s)) (e_model s) f = true in
  (forall k m, assoc k (e_mexprs s) = Some m -> calls_in safe m) ->
  (forall t e', ptab t = Some e' -> calls_in safe e') ->
  exists sf, fresh_from (cur_def s) a s' = (sf, Ok true) /\ obs_eq ptab s' sf.
Proof. exact set_adapter_fresh_calls. Qed.
Print Assumptions c18_set_adapter_leftovers.

(* ---- set_role_manager, set_effector, add_function: no reload happens, so
   the memory must already be what the adapter would load (Synced) ---- *)
Theorem c18_set_role_manager : forall s mx s' b,
  step s (OSetRoleManager mx) = (s', Ok b) ->
  Synced s -> e_auto_build s = true -> ad_is_filtered (e_adapter s) = false ->
  no_leftover (f_gfuns (e_fs s)) (e_model s) = true ->
  exists sf, fresh_from (cur_def s') (e_adapter s') s' = (sf, Ok true) /\ st_equiv s' sf /\
             f_rm_max (e_fs sf) = mx.
Proof. exact set_role_manager_fresh. Qed.
Print Assumptions c18_set_role_manager.

Theorem c18_set_effector : forall s s' b,
  step s OSetEffector = (s', Ok b) ->
  Synced s -> ad_is_filtered (e_adapter s) = false ->
  gfuns_exactb (f_gfuns (e_fs s)) (e_model s) = true ->
  exists sf, fresh_from (cur_def s') (e_adapter s') s' = (sf, Ok true) /\ st_equiv s' sf.
Proof. exact set_effector_fresh. Qed.
Print Assumptions c18_set_effector.

Theorem c18_add_function : forall s n u s' b,
  step s (OAddFunction n u) = (s', Ok b) ->
  Synced s -> ad_is_filtered (e_adapter s) = false ->
  gfuns_exactb (f_gfuns (e_fs s)) (e_model s) = true ->
  exists sf, fresh_from (cur_def s') (e_adapter s') s' = (sf, Ok true) /\ st_equiv s' sf /\
             f_ufuns (e_fs sf) = (n, u) :: f_ufuns (e_fs s).
Proof. exact add_function_fresh. Qed.
Print Assumptions c18_add_function.

(* ... and with harmless leftovers *)
Theorem c18_set_role_manager_leftovers : forall ptab s mx s' b,
  step s (OSetRoleManager mx) = (s', Ok b) ->
  Synced s -> e_auto_build s = true -> ad_is_filtered (e_adapter s) = false ->
  let safe := fun f => safe_name (f_gfuns (e_fs s)) (e_model s) f = true in
  (forall k m, assoc k (e_mexprs s) = Some m -> calls_in safe m) ->
  (forall t e', ptab t = Some e' -> calls_in safe e') ->
  exists sf, fresh_from (cur_def s') (e_adapter s') s' = (sf, Ok true) /\ obs_eq ptab s' sf.
Proof. exact set_role_manager_fresh_calls. Qed.
Print Assumptions c18_set_role_manager_leftovers.
Theorem c18_set_effector_leftovers : forall ptab s s' b,
  step s OSetEffector = (s', Ok b) ->
  Synced s -> ad_is_filtered (e_adapter s) = false ->
  gdefs_ok (e_model s) = true -> gfuns_current (f_gfuns (e_fs s)) (e_model s) = true ->
  let safe := fun f => safe_name (f_gfuns (e_fs s)) (e_model s) f = true in
  (forall k m, assoc k (e_mexprs s) = Some m -> calls_in safe m) ->
  (forall t e', ptab t = Some e' -> calls_in safe e') ->
  exists sf, fresh_from (cur_def s') (e_adapter s') s' = (sf, Ok true) /\ obs_eq ptab s' sf.
Proof. exact set_effector_fresh_calls. Qed.
Print Assumptions c18_set_effector_leftovers.
Theorem c18_add_function_leftovers : forall ptab s n u s' b,
  step s (OAddFunction n u) = (s', Ok b) ->
  Synced s -> ad_is_filtered (e_adapter s) = false ->
  gdefs_ok (e_model s) = true -> gfuns_current (f_gfuns (e_fs s)) (e_model s) = true ->
  let safe := fun f => safe_name (f_gfuns (e_fs s)) (e_model s) f = true in
  (forall k m, assoc k (e_mexprs s) = Some m -> calls_in safe m) ->
  (forall t e', ptab t = Some e' -> calls_in safe e') ->
  exists sf, fresh_from (cur_def s') (e_adapter s') s' = (sf, Ok true) /\ obs_eq ptab s' sf.
Proof. exact add_function_fresh_calls. Qed.
Print Assumptions c18_add_function_leftovers.

(* Synced is decidable: the boolean check implies it *)
Theorem c18_synced_decidable : forall s, syncedb s = true -> Synced s.
Proof. exact syncedb_Synced. Qed.
Print Assumptions c18_synced_decidable.

(* ---- what the reconfiguration never touches: the definition part ---- *)
Theorem c18_set_model_definition : forall s d s' b, e_auto_build s = true -> clean_def d = true ->
  step s (OSetModel d) = (s', Ok b) -> def_of s' = d.
Proof. exact def_of_set_model. Qed.
Print Assumptions c18_set_model_definition.

(* building the links is idempotent and blind to the handles *)
Theorem c18_build_idempotent : forall md md' m', build_of md = (md', m', LOk) -> Built md' m'.
Proof. exact build_of_idem. Qed.
Print Assumptions c18_build_idempotent.

(* ---- non-vacuity ---- *)
Example c18_set_model_nonvacuous :
  snd (step x_rbac (OSetModel rbac2_def)) = Ok true /\ e_auto_build x_rbac = true /\
  ad_is_filtered (e_adapter x_rbac) = false /\ clean_def rbac2_def = true /\
  no_leftover (f_gfuns (e_fs x_rbac)) (d_model rbac2_def) = true.
Proof. exact ex_set_model_hyps. Qed.
Example c18_set_model_nonvacuous_configured :
  snd (step x_rbac_cfg (OSetModel rbac2_def)) = Ok true /\ e_auto_build x_rbac_cfg = true /\
  ad_is_filtered (e_adapter x_rbac_cfg) = false /\
  no_leftover (f_gfuns (e_fs x_rbac_cfg)) (d_model rbac2_def) = true /\
  f_rm_max (e_fs x_rbac_cfg) = 3.
Proof. exact ex_set_model_hyps_cfg. Qed.
Example c18_set_adapter_nonvacuous :
  snd (step x_rbac (OSetAdapter (mem x_lines2))) = Ok true /\ e_auto_build x_rbac = true /\
  ad_is_filtered (mem x_lines2) = false /\
  gfuns_exactb (f_gfuns (e_fs x_rbac)) (e_model x_rbac) = true.
Proof. exact ex_set_adapter_hyps. Qed.
(* a state reached through management calls satisfies the hypotheses of the
   three non-reloading theorems *)
Example c18_synced_nonvacuous : Synced x_managed /\ ad_is_filtered (e_adapter x_managed) = false /\
  gfuns_exactb (f_gfuns (e_fs x_managed)) (e_model x_managed) = true /\
  e_auto_build x_managed = true /\
  no_leftover (f_gfuns (e_fs x_managed)) (e_model x_managed) = true.
Proof. exact ex_synced. Qed.
(* switching from {g, g2} to {g}: g2 stays registered and is never called *)
Example c18_leftovers_nonvacuous : forall s' b, step x_rbac2 (OSetModel rbac_def) = (s', Ok b) ->
  exists sf, fresh_from rbac_def (e_adapter x_rbac2) s' = (sf, Ok true) /\ obs_eq no_ptab s' sf.
Proof. exact ex_set_model_calls. Qed.

(* ---- witnesses: each hypothesis is needed ---- *)
(* D14 (repaired): without register_g_functions in set_model, switching from a
   model with g to one with g and g2 makes the matcher fail *)
Example c18_set_model_needs_registration :
  let s' := fst (step_set_model_noreg x_rbac rbac2_def) in
  snd (step_set_model_noreg x_rbac rbac2_def) = Ok true /\
  enforce no_ptab s' k_req = Err EEvalc /\
  enforce no_ptab (fst (fresh_from rbac2_def (e_adapter x_rbac) s')) k_req = Ok true /\
  enforce no_ptab (fst (step x_rbac (OSetModel rbac2_def))) k_req = Ok true.
Proof. exact set_model_needs_registration. Qed.
(* (i) a model calling g2 without defining it: works after a switch from a
   model that had g2, fails (function not found) when built fresh *)
Example c18_set_model_needs_no_leftover :
  let s' := fst (step x_rbac2 (OSetModel rbac_calls_g2)) in
  snd (step x_rbac2 (OSetModel rbac_calls_g2)) = Ok true /\
  e_auto_build x_rbac2 = true /\ ad_is_filtered (e_adapter x_rbac2) = false /\
  clean_def rbac_calls_g2 = true /\
  no_leftover (f_gfuns (e_fs x_rbac2)) (d_model rbac_calls_g2) = false /\
  enforce no_ptab s' k_req = Ok true /\
  snd (fresh_from rbac_calls_g2 (e_adapter x_rbac2) s') = Ok true /\
  enforce no_ptab (fst (fresh_from rbac_calls_g2 (e_adapter x_rbac2) s')) k_req = Err EEvalc.
Proof. exact set_model_needs_no_leftover. Qed.
(* an adapter marked filtered: set_model / set_adapter load everything, the
   constructor skips the initial load *)
Example c18_set_model_needs_unfiltered :
  let s' := fst (step x_filtered (OSetModel rbac_def)) in
  snd (step x_filtered (OSetModel rbac_def)) = Ok true /\
  ad_is_filtered (e_adapter x_filtered) = true /\
  enforce no_ptab s' k_req = Ok true /\
  snd (fresh_from rbac_def (e_adapter x_filtered) s') = Ok true /\
  enforce no_ptab (fst (fresh_from rbac_def (e_adapter x_filtered) s')) k_req = Ok false.
Proof. exact set_model_needs_unfiltered. Qed.
Example c18_set_adapter_needs_unfiltered :
  let a := AMemory x_lines true in
  let s' := fst (step x_rbac (OSetAdapter a)) in
  snd (step x_rbac (OSetAdapter a)) = Ok true /\
  enforce no_ptab s' k_req = Ok true /\
  enforce no_ptab (fst (fresh_from (cur_def x_rbac) a s')) k_req = Ok false.
Proof. exact set_adapter_needs_unfiltered. Qed.
(* (iv) auto-build off: the reload keeps the old role links *)
Example c18_set_adapter_needs_auto_build :
  let s := fst (step x_rbac (OEnableAutoBuild false)) in
  let a := mem [pl admin data1 read] in
  let s' := fst (step s (OSetAdapter a)) in
  snd (step s (OSetAdapter a)) = Ok true /\
  gfuns_exactb (f_gfuns (e_fs s)) (e_model s) = true /\ ad_is_filtered a = false /\
  enforce no_ptab s' k_req = Ok true /\
  snd (fresh_from (cur_def s) a s') = Ok true /\
  enforce no_ptab (fst (fresh_from (cur_def s) a s')) k_req = Ok false.
Proof. exact set_adapter_needs_auto_build. Qed.
(* a failed set_model is not rolled back: the malformed model stays installed,
   set_adapter then succeeds on a model no enforcer can be built from *)
Example c18_set_adapter_needs_gdefs_ok :
  let s := fst (step x_rbac (OSetModel g4_def)) in
  let s' := fst (step s (OSetAdapter (mem x_lines))) in
  snd (step x_rbac (OSetModel g4_def)) = Err EModel /\
  model_gkeys (e_model s) = [(s_g, 2); (T "g4", 4)] /\
  gdefs_ok (e_model s) = false /\
  snd (step s (OSetAdapter (mem x_lines))) = Ok true /\
  enforce no_ptab s' k_req = Ok true /\
  snd (fresh_from (cur_def s) (mem x_lines) s') = Err EModel.
Proof. exact set_adapter_needs_gdefs_ok. Qed.
(* (ii) the non-reloading calls need memory and adapter in sync *)
Example c18_add_function_needs_synced :
  let s := run_ops x_rbac [OEnableAutoSave false; OAdd s_p s_p [bob; data1; read]] in
  let s' := fst (step s (OAddFunction (T "f") UTrue)) in
  ad_is_filtered (e_adapter s) = false /\
  gfuns_exactb (f_gfuns (e_fs s)) (e_model s) = true /\
  enforce no_ptab s' (req bob data1 read) = Ok true /\
  snd (fresh_from (cur_def s') (e_adapter s') s') = Ok true /\
  enforce no_ptab (fst (fresh_from (cur_def s') (e_adapter s') s')) (req bob data1 read) = Ok false.
Proof. exact add_function_needs_synced. Qed.
(* rules outside p and g are never emptied by a load; re-parsing drops them *)
Example c18_set_model_parsed_needs_clean_def :
  let s' := fst (step x_rbac (OSetModel dirty_def)) in
  snd (step x_rbac (OSetModel dirty_def)) = Ok true /\ clean_def dirty_def = false /\
  ask no_ptab s' (QGetPolicy s_r s_r) = AnsRules [[alice]] /\
  ask no_ptab (fst (fresh_from (def_of s') (e_adapter x_rbac) s')) (QGetPolicy s_r s_r) = AnsRules [].
Proof. exact set_model_parsed_needs_clean_def. Qed.
(* a fault-injecting adapter whose next load fails: nothing can be built now *)
Example c18_set_model_now_needs_unscripted :
  let s := mk rbac_def (AScripted (mem x_lines) [RPass; RPass; RFail]) in
  let s' := fst (step s (OSetModel rbac2_def)) in
  snd (step s (OSetModel rbac2_def)) = Ok true /\ ad_unscripted (e_adapter s) = false /\
  snd (fresh_of s') = Err EAdapter.
Proof. exact set_model_fresh_of_needs_unscripted. Qed.
(* Synced by computation: after management calls, after construction, after set_model *)
Example c18_syncedb_examples : syncedb x_managed = true /\ syncedb x_rbac = true /\
  syncedb (fst (step x_rbac (OSetModel rbac2_def))) = true.
Proof. exact ex_syncedb. Qed.
(* limit of the exact notion: an incremental removal leaves isolated nodes behind
   (closed in Properties/C18obs.v: the same three theorems under the weaker
   `ObsSynced`, which holds after every history of incremental calls) *)
Example c18_not_synced_after_remove :
  syncedb (fst (step x_rbac (ORemove s_g s_g [admin; root]))) = false.
Proof. exact ex_not_synced_after_remove. Qed.

(* ---- sequences of reconfiguration calls ---- *)
(* a successful reload (load_policy, set_model, set_adapter) from an unscripted
   adapter leaves the state Synced: reloading again changes nothing *)
Theorem c18_reload_synced : forall s s' b,
  e_auto_build s = true -> ad_unscripted (e_adapter s) = true -> pg_lines (e_adapter s) = true ->
  step_load s = (s', Ok b) ->
  Synced s' /\ ad_is_filtered (e_adapter s') = false /\
  ad_unscripted (e_adapter s') = true /\ pg_lines (e_adapter s') = true.
Proof. exact reload_synced. Qed.
Print Assumptions c18_reload_synced.

(* the invariant `Settled` (Synced, auto-build on, unscripted unfiltered
   adapter, well-formed and registered role definitions) holds after
   construction and is kept by every successful reconfiguration call *)
Theorem c18_settled_new : forall d a w s b,
  new_enforcer d a w = (s, Ok b) ->
  ad_unscripted a = true -> pg_lines a = true -> ad_is_filtered a = false -> Settled s.
Proof. exact settled_new. Qed.
Print Assumptions c18_settled_new.
Theorem c18_settled_step : forall s o s' b,
  Settled s -> reconf_ok o = true -> step s o = (s', Ok b) -> Settled s'.
Proof. exact settled_step. Qed.
Print Assumptions c18_settled_step.
Theorem c18_settled_run : forall ops s,
  Settled s -> forallb reconf_ok ops = true -> run_all_ok s ops = true ->
  Settled (run_ops s ops).
Proof. exact settled_run. Qed.
Print Assumptions c18_settled_run.

(* MAIN for sequences: after ANY sequence of successful set_model / set_adapter
   / set_role_manager / set_effector / add_function / load_policy / toggle
   calls on a freshly constructed enforcer, every query is answered as by the
   enforcer built now from the model store, the adapter and the components *)
Theorem c18_sequences : forall ptab d a w s0 b0 ops,
  new_enforcer d a w = (s0, Ok b0) ->
  ad_unscripted a = true -> pg_lines a = true -> ad_is_filtered a = false ->
  forallb reconf_ok ops = true -> run_all_ok s0 ops = true ->
  let s := run_ops s0 ops in
  let safe := fun f => safe_name (f_gfuns (e_fs s)) (e_model s) f = true in
  (forall k m, assoc k (e_mexprs s) = Some m -> calls_in safe m) ->
  (forall t e', ptab t = Some e' -> calls_in safe e') ->
  exists sf, fresh_from (cur_def s) (e_adapter s) s = (sf, Ok true) /\ obs_eq ptab s sf.
Proof. exact reconfigured_run_fresh. Qed.
Print Assumptions c18_sequences.

Example c18_sequence_nonvacuous :
  let s := run_ops x_rbac x_ops in
  exists sf, fresh_from (cur_def s) (e_adapter s) s = (sf, Ok true) /\ obs_eq no_ptab s sf.
Proof. exact ex_sequence. Qed.
(* quirk: rules keyed outside p and g are never emptied (see the comment in
   Proofs/C18Q.v): they survive set_adapter; a re-parsed model has none *)
Example c18_stale_rules_outside_pg :
  let s1 := mk rbac_def (mem x_rlines) in
  let s2 := fst (step s1 (OSetAdapter (mem x_lines))) in
  pg_lines (mem x_rlines) = false /\ syncedb s1 = true /\ syncedb s2 = true /\
  ask no_ptab s2 (QGetPolicy s_r s_r) = AnsRules [[bob]; [alice]] /\
  ask no_ptab (fst (fresh_from (cur_def s1) (mem x_lines) s2)) (QGetPolicy s_r s_r)
    = AnsRules [[bob]; [alice]] /\
  ask no_ptab (fst (fresh_of s2)) (QGetPolicy s_r s_r) = AnsRules [].
Proof. exact ex_stale_rules_outside_pg. Qed.
(* a FAILED set_role_manager leaves the role functions bound to the replaced
   manager: decisions follow the old links even after a later successful
   set_adapter, while has_link on the current manager and a fresh enforcer
   follow the new ones (why the theorems require gfuns_current) *)
Example c18_set_adapter_needs_gfuns_current :
  let s' := fst (step x_broken (OSetAdapter (mem x_lines3))) in
  let sf := fst (fresh_from (cur_def x_broken) (mem x_lines3) s') in
  snd (step (run_ops x_rbac [OEnableAutoBuild false; OAdd s_g s_g [bob]; OEnableAutoBuild true])
            (OSetRoleManager 5)) = Err EPolicy /\
  gfuns_current (f_gfuns (e_fs x_broken)) (e_model x_broken) = false /\
  gdefs_ok (e_model x_broken) = true /\
  no_leftover (f_gfuns (e_fs x_broken)) (e_model x_broken) = true /\
  e_auto_build x_broken = true /\
  snd (step x_broken (OSetAdapter (mem x_lines3))) = Ok true /\
  enforce no_ptab s' (req alice data1 read) = Ok true /\
  enforce no_ptab s' (req bob data1 read) = Ok false /\
  ask no_ptab s' (QHasLink alice admin None) = AnsBool false /\
  ask no_ptab s' (QHasLink bob admin None) = AnsBool true /\
  snd (fresh_from (cur_def x_broken) (mem x_lines3) s') = Ok true /\
  enforce no_ptab sf (req alice data1 read) = Ok false /\
  enforce no_ptab sf (req bob data1 read) = Ok true.
Proof. exact set_adapter_needs_gfuns_current. Qed.
