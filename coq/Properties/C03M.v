(* C03M - the role manager WITH matching functions (Model/RoleGraphM.v,
   Model/SpecC03M.v): conservativity over the plain role manager, the
   Match-edge invariant, pattern-aware inheritance = pattern reachability,
   domain patterns.  Only statements closed by `exact`; the proofs live in
   Proofs/GenBfsP.v, Proofs/RoleGraphMA.v, Proofs/RoleGraphMP.v,
   Proofs/RoleGraphMC.v. *)
From CV Require Import Model.Base Model.RoleGraph Model.RoleGraphM Model.PathMatch Model.SpecC03M
     Proofs.BaseP Proofs.RoleGraphP Proofs.GenBfsP Proofs.RoleGraphMA Proofs.RoleGraphMP
     Proofs.RoleGraphMC.

(* ================= A. conservativity ================= *)
(* On every plain history the matching role manager gives the plain answers:
   its state is the embedding of the plain state (Link edges only, no
   functions), so has_link / get_roles / get_users / the delete flags agree. *)
Theorem c03m_conservative_has : forall h maxd a b d,
  m_has_link maxd (mrun (map mop_of h)) a b d = has_link maxd (lrun h) a b d.
Proof. exact conservative_has. Qed.
Print Assumptions c03m_conservative_has.

Theorem c03m_conservative_roles : forall h n d,
  m_get_roles (mrun (map mop_of h)) n d = get_roles (lrun h) n d.
Proof. exact conservative_roles. Qed.
Print Assumptions c03m_conservative_roles.

Theorem c03m_conservative_users : forall h n d,
  m_get_users (mrun (map mop_of h)) n d = get_users (lrun h) n d.
Proof. exact conservative_users. Qed.
Print Assumptions c03m_conservative_users.

(* lrun_flags [] h = the list of `snd (lstep ..)` along lrun h *)
Theorem c03m_conservative_flags : forall h,
  mrun_flags empty_mrm (map mop_of h) = lrun_flags [] h.
Proof. exact conservative_flags. Qed.
Print Assumptions c03m_conservative_flags.

(* the simulation relation itself: no functions, same keys in the same order,
   same node lists, edges = the plain edges as Link edges *)
Theorem c03m_conservative_state : forall h, sim (lrun h) (mrun (map mop_of h)).
Proof. exact mrun_sim. Qed.
Print Assumptions c03m_conservative_state.

Theorem c03m_conservative_bfs : forall g fuel maxd q disc depth rem,
  m_bfs_visit fuel false (embed_g g) maxd q disc depth rem = bfs_visit fuel g maxd q disc depth rem.
Proof. exact m_bfs_visit_embed. Qed.
Print Assumptions c03m_conservative_bfs.

Example c03m_conservative_ex_flags :
  mrun_flags empty_mrm (map mop_of ex_cons_history) = [true; true; true; false; true; true; true]
  /\ lrun_flags [] ex_cons_history = [true; true; true; false; true; true; true].
Proof. exact ex_cons_flags. Qed.
Example c03m_conservative_ex_has :
  m_has_link 10 (mrun (map mop_of ex_cons_history)) (T "a") (T "c") None = true /\
  has_link 10 (lrun ex_cons_history) (T "a") (T "c") None = true /\
  m_has_link 10 (mrun (map mop_of ex_cons_history)) (T "a") (T "b") None = false.
Proof. exact ex_cons_has. Qed.

(* ================= B. the Match-edge invariant ================= *)
(* role function f installed first and never changed; any adds/deletes/clears *)
Theorem c03m_match_edges_sound : forall f df h, forallb no_setfns_op h = true ->
  forall k g, In (k, g) (r_doms (mrun (MSetFns (Some f) df :: h))) ->
  NoDup (m_nodes g) /\
  forall e, In e (m_edges g) ->
    e_src e <> e_dst e /\ In (e_src e) (m_nodes g) /\ In (e_dst e) (m_nodes g) /\
    (e_kind e = KMatch -> f (e_dst e) (e_src e) = true).
Proof. exact match_edges_sound. Qed.
Print Assumptions c03m_match_edges_sound.

(* without deletes every matching pair of distinct nodes has its Match edge *)
Theorem c03m_match_edges_complete : forall f df h, forallb no_del_op h = true ->
  forall k g, In (k, g) (r_doms (mrun (MSetFns (Some f) df :: h))) ->
  forall x y, In x (m_nodes g) -> In y (m_nodes g) -> x <> y -> f y x = true ->
  In {| e_src := x; e_dst := y; e_kind := KMatch |} (m_edges g).
Proof. exact match_edges_complete. Qed.
Print Assumptions c03m_match_edges_complete.

(* with a delete the first edge x -> y is removed whatever its kind:
   add_link alice "*"; delete_link "*" alice  drops the Match edge "*" -> alice *)
Theorem c03m_delete_can_drop_match_refuted :
  exists h, forallb no_setfns_op h = true /\
  exists k g x y, In (k, g) (r_doms (mrun (MSetFns (Some (mf_apply FKeyMatch)) None :: h))) /\
    In x (m_nodes g) /\ In y (m_nodes g) /\ x <> y /\ mf_apply FKeyMatch y x = true /\
    ~ In {| e_src := x; e_dst := y; e_kind := KMatch |} (m_edges g).
Proof. exact delete_can_drop_match_refuted. Qed.
Print Assumptions c03m_delete_can_drop_match_refuted.

Example c03m_match_edges_ex :
  forallb no_del_op [MAdd (T "bob") (T "g") None; MAdd (T "*") (T "g") None] = true /\
  r_doms (mrun (MSetFns (Some (mf_apply FKeyMatch)) None ::
                [MAdd (T "bob") (T "g") None; MAdd (T "*") (T "g") None])) =
  [(DEFAULT_DOMAIN,
    {| m_nodes := [T "bob"; T "g"; T "*"];
       m_edges := [mk_edge (T "*") (T "g") KLink; mk_edge (T "*") (T "g") KMatch;
                   mk_edge (T "*") (T "bob") KMatch; mk_edge (T "bob") (T "g") KLink] |})].
Proof. exact ex_match_hist_sat. Qed.

(* ================= C. pattern-aware C03 ================= *)
(* pattern histories: MSetFns (Some f) None first, then adds and clears only;
   f is ANY role function (mrun_i instances below) *)
Theorem c03m_graph_refines : forall f adds d, adds_only adds = true ->
  let g := mgraph_of (mrun (MSetFns (Some f) None :: map mop_of_i adds)) (dom_key d) in
  let ns := spec_nodes adds (dom_key d) [] in
  let l := spec_mlinks adds (dom_key d) [] in
  m_nodes g = ns /\
  (forall a b, In {| e_src := a; e_dst := b; e_kind := KLink |} (m_edges g) <-> In (a, b) l) /\
  (forall x y, In {| e_src := x; e_dst := y; e_kind := KMatch |} (m_edges g) <->
               In x ns /\ In y ns /\ x <> y /\ f y x = true).
Proof. exact graph_refines. Qed.
Print Assumptions c03m_graph_refines.

Theorem c03m_succs_spec : forall f adds d x, adds_only adds = true ->
  let g := mgraph_of (mrun (MSetFns (Some f) None :: map mop_of_i adds)) (dom_key d) in
  let ns := spec_nodes adds (dom_key d) [] in
  let l := spec_mlinks adds (dom_key d) [] in
  In x (m_nodes g) ->
  forall y, In y (m_succs true g x) <-> In y (mstep_succs f ns l x).
Proof. exact succs_spec. Qed.
Print Assumptions c03m_succs_spec.

(* a role that is not pattern-reachable is never reported, whatever the limit *)
Theorem c03m_sound : forall f adds maxd a b d, adds_only adds = true ->
  m_has_link maxd (mrun (MSetFns (Some f) None :: map mop_of_i adds)) a b d = true ->
  a = b \/ exists s k,
    spec_start f (spec_nodes adds (dom_key d) []) a = Some s /\
    mreach_within f (spec_nodes adds (dom_key d) []) (spec_mlinks adds (dom_key d) []) k s b = true.
Proof. exact pattern_sound. Qed.
Print Assumptions c03m_sound.

(* within the hierarchy limit every pattern-reachable role is reported *)
Theorem c03m_complete : forall f adds maxd a b d s k, adds_only adds = true ->
  spec_start f (spec_nodes adds (dom_key d) []) a = Some s ->
  mreach_within f (spec_nodes adds (dom_key d) []) (spec_mlinks adds (dom_key d) []) k s b = true ->
  k < maxd ->
  m_has_link maxd (mrun (MSetFns (Some f) None :: map mop_of_i adds)) a b d = true.
Proof. exact pattern_complete. Qed.
Print Assumptions c03m_complete.

(* the instances for identifier histories (SpecC03M.mrun_i) *)
Theorem c03m_sound_i : forall rf adds maxd a b d, adds_only adds = true ->
  m_has_link maxd (fst (mrun_i (ISetFns (Some rf) None :: adds))) a b d = true ->
  a = b \/ exists s k,
    spec_start (mf_apply rf) (spec_nodes adds (dom_key d) []) a = Some s /\
    mreach_within (mf_apply rf) (spec_nodes adds (dom_key d) []) (spec_mlinks adds (dom_key d) []) k s b = true.
Proof. exact pattern_sound_i. Qed.
Print Assumptions c03m_sound_i.

Theorem c03m_complete_i : forall rf adds maxd a b d s k, adds_only adds = true ->
  spec_start (mf_apply rf) (spec_nodes adds (dom_key d) []) a = Some s ->
  mreach_within (mf_apply rf) (spec_nodes adds (dom_key d) []) (spec_mlinks adds (dom_key d) []) k s b = true ->
  k < maxd ->
  m_has_link maxd (fst (mrun_i (ISetFns (Some rf) None :: adds))) a b d = true.
Proof. exact pattern_complete_i. Qed.
Print Assumptions c03m_complete_i.

(* the bound used by the predicate: pattern reachability at any depth is
   pattern reachability within `length ns` steps (BFS levels saturate) *)
Theorem c03m_reach_saturates : forall f adds dk k s b, adds_only adds = true ->
  In s (spec_nodes adds dk []) ->
  mreach_within f (spec_nodes adds dk []) (spec_mlinks adds dk []) k s b = true ->
  mreach_within f (spec_nodes adds dk []) (spec_mlinks adds dk [])
                (length (spec_nodes adds dk [])) s b = true.
Proof. exact pattern_saturate. Qed.
Print Assumptions c03m_reach_saturates.

(* The model satisfies the executable predicate on EVERY history, every query
   and every limit (with limit 0 the predicate demands soundness only; the
   `length ns` bound it uses is c03m_reach_saturates). *)
Theorem c03m_pred_model : forall maxd h q,
  c03m_pred maxd h q (manswer maxd (fst (mrun_i h)) q) <> Some false.
Proof. exact pred_model. Qed.
Print Assumptions c03m_pred_model.

(* limit 0: nothing is reported although the start node itself matches b
   (0-step pattern reachability); accepted by the predicate *)
Example c03m_ex_maxd0 :
  manswer 0 (fst (mrun_i ex_maxd0_history)) (QHas (T "alice") (T "*") None) = ABool false /\
  c03m_pred 0 ex_maxd0_history (QHas (T "alice") (T "*") None) (ABool false) = Some true /\
  mreach_within key_match (spec_nodes (tl ex_maxd0_history) DEFAULT_DOMAIN [])
                (spec_mlinks (tl ex_maxd0_history) DEFAULT_DOMAIN []) (0 - 1) (T "*") (T "*") = true.
Proof. exact ex_maxd0_pred. Qed.

(* One more add_link never loses a pattern-reachable pair, PROVIDED the start
   node of a does not switch from a pattern node to a freshly created exact
   node a (a already a node, or still not a node afterwards): same start, and
   reachable within the same number of steps. *)
Theorem c03m_add_link_monotone : forall f adds x y d' dk a s k b,
  let ns := spec_nodes adds dk [] in
  let l := spec_mlinks adds dk [] in
  let ns' := spec_nodes (adds ++ [IAdd x y d']) dk [] in
  let l' := spec_mlinks (adds ++ [IAdd x y d']) dk [] in
  spec_start f ns a = Some s -> In a ns \/ ~ In a ns' ->
  spec_start f ns' a = Some s /\
  (mreach_within f ns l k s b = true -> mreach_within f ns' l' k s b = true).
Proof. exact add_link_monotone. Qed.
Print Assumptions c03m_add_link_monotone.

(* hence, below the limit, has_link is true before and stays true after *)
Theorem c03m_add_link_monotone_has : forall f adds x y d' maxd a b d s k, adds_only adds = true ->
  spec_start f (spec_nodes adds (dom_key d) []) a = Some s ->
  In a (spec_nodes adds (dom_key d) []) \/
  ~ In a (spec_nodes (adds ++ [IAdd x y d']) (dom_key d) []) ->
  mreach_within f (spec_nodes adds (dom_key d) []) (spec_mlinks adds (dom_key d) []) k s b = true ->
  k < maxd ->
  m_has_link maxd (mrun (MSetFns (Some f) None :: map mop_of_i adds)) a b d = true /\
  m_has_link maxd (mrun (MSetFns (Some f) None :: map mop_of_i (adds ++ [IAdd x y d']))) a b d = true.
Proof. exact add_link_monotone_has. Qed.
Print Assumptions c03m_add_link_monotone_has.

(* the proviso cannot be dropped: if the added link creates node a, the walk
   starts at a instead of the pattern node a matched, and for a non-transitive
   f (f a s, f s b, not f a b) has_link a b flips from true to false, in the
   model and in the specification alike *)
Theorem c03m_add_link_start_change_refuted :
  exists f adds x y d' maxd a b d,
    adds_only adds = true /\
    m_has_link maxd (mrun (MSetFns (Some f) None :: map mop_of_i adds)) a b d = true /\
    m_has_link maxd (mrun (MSetFns (Some f) None :: map mop_of_i (adds ++ [IAdd x y d']))) a b d = false /\
    (exists s, spec_start f (spec_nodes adds (dom_key d) []) a = Some s /\
       mreach_within f (spec_nodes adds (dom_key d) []) (spec_mlinks adds (dom_key d) []) 0 s b = true) /\
    (exists s', spec_start f (spec_nodes (adds ++ [IAdd x y d']) (dom_key d) []) a = Some s' /\
       mreach_within f (spec_nodes (adds ++ [IAdd x y d']) (dom_key d) [])
                     (spec_mlinks (adds ++ [IAdd x y d']) (dom_key d) []) 10 s' b = false).
Proof. exact add_link_start_change_refuted. Qed.
Print Assumptions c03m_add_link_start_change_refuted.

Example c03m_ex_add_link_monotone :
  adds_only ex_km1 = true /\
  spec_start key_match (spec_nodes ex_km1 DEFAULT_DOMAIN []) (T "alice") = Some (T "*") /\
  memb teqb (T "alice") (spec_nodes (ex_km1 ++ [IAdd (T "eve") (T "root") None]) DEFAULT_DOMAIN []) = false /\
  mreach_within key_match (spec_nodes ex_km1 DEFAULT_DOMAIN []) (spec_mlinks ex_km1 DEFAULT_DOMAIN [])
                1 (T "*") (T "book_group") = true /\
  m_has_link 10 (pat_run key_match (ex_km1 ++ [IAdd (T "eve") (T "root") None]))
             (T "alice") (T "book_group") None = true.
Proof. exact ex_add_link_monotone_sat. Qed.

(* the two key_match unit tests of the Rust code *)
Example c03m_ex_adds_only : adds_only ex_km1 = true /\ adds_only ex_km2 = true.
Proof. exact ex_km1_adds. Qed.
Example c03m_ex1_alice_book :
  m_has_link 10 (mrun (MSetFns (Some key_match) None :: map mop_of_i ex_km1))
             (T "alice") (T "book_group") None = true.
Proof. exact ex_km1_alice_book. Qed.
Example c03m_ex1_eve_book :
  m_has_link 10 (mrun (MSetFns (Some key_match) None :: map mop_of_i ex_km1))
             (T "eve") (T "book_group") None = true.
Proof. exact ex_km1_eve_book. Qed.
Example c03m_ex1_alice_roles :
  seteqb teqb (m_get_roles (mrun (MSetFns (Some key_match) None :: map mop_of_i ex_km1)) (T "alice") None)
         [T "book_group"; T "pen_group"] = true.
Proof. exact ex_km1_alice_roles. Qed.
Example c03m_ex2_alice_pen :
  m_has_link 10 (mrun (MSetFns (Some key_match) None :: map mop_of_i ex_km2))
             (T "alice") (T "pen_group") None = true.
Proof. exact ex_km2_alice_pen. Qed.
Example c03m_ex2_bob_book :
  m_has_link 10 (mrun (MSetFns (Some key_match) None :: map mop_of_i ex_km2))
             (T "bob") (T "book_group") None = false.
Proof. exact ex_km2_bob_book. Qed.
Example c03m_ex2_star_users :
  m_get_users (mrun (MSetFns (Some key_match) None :: map mop_of_i ex_km2)) (T "*") None = [T "alice"].
Proof. exact ex_km2_star_users. Qed.
(* hypotheses of c03m_complete on the first test: alice starts at "*", and
   book_group is one pattern step away *)
Example c03m_ex1_spec :
  spec_start key_match (spec_nodes ex_km1 DEFAULT_DOMAIN []) (T "alice") = Some (T "*") /\
  mreach_within key_match (spec_nodes ex_km1 DEFAULT_DOMAIN []) (spec_mlinks ex_km1 DEFAULT_DOMAIN [])
                1 (T "*") (T "book_group") = true.
Proof. exact ex_km1_spec. Qed.
(* the predicate discriminates *)
Example c03m_ex1_pred :
  c03m_pred 10 (ISetFns (Some FKeyMatch) None :: ex_km1) (QHas (T "eve") (T "book_group") None)
            (ABool true) = Some true /\
  c03m_pred 10 (ISetFns (Some FKeyMatch) None :: ex_km1) (QHas (T "eve") (T "book_group") None)
            (ABool false) = Some false.
Proof. exact ex_km1_pred. Qed.

(* ================= D. domain patterns ================= *)
(* with a domain function, has_link is the union over the matched domains *)
Theorem c03m_domain_fn_union : forall maxd m a b d df, r_dfn m = Some df ->
  (m_has_link maxd m a b d = true <->
   a = b \/ exists dk, In dk (map fst (r_doms m)) /\ df (dom_key d) dk = true /\
                       m_has_link_in maxd m (mgraph_of m dk) a b = true).
Proof. exact domain_fn_union. Qed.
Print Assumptions c03m_domain_fn_union.

Theorem c03m_domain_fn_union_bool : forall maxd m a b d df, r_dfn m = Some df ->
  m_has_link maxd m a b d =
  teqb a b || existsb (fun dk => df (dom_key d) dk && m_has_link_in maxd m (mgraph_of m dk) a b)
                      (map fst (r_doms m)).
Proof. exact domain_fn_union_bool. Qed.
Print Assumptions c03m_domain_fn_union_bool.

(* without one, only the domain itself is consulted *)
Theorem c03m_domain_none_single : forall maxd m a b d, r_dfn m = None ->
  (m_has_link maxd m a b d = true <->
   a = b \/ (In (dom_key d) (map fst (r_doms m)) /\
             m_has_link_in maxd m (mgraph_of m (dom_key d)) a b = true)).
Proof. exact domain_none_single. Qed.
Print Assumptions c03m_domain_none_single.

(* and links added / deleted in another domain change no answer in d *)
Theorem c03m_domain_local_m : forall maxd m o a b n d, r_dfn m = None ->
  (match o with MAdd _ _ d' | MDel _ _ d' => dom_key d' <> dom_key d | _ => False end) ->
  m_has_link maxd (fst (mstep m o)) a b d = m_has_link maxd m a b d /\
  m_get_roles (fst (mstep m o)) n d = m_get_roles m n d /\
  m_get_users (fst (mstep m o)) n d = m_get_users m n d.
Proof. exact domain_local_m. Qed.
Print Assumptions c03m_domain_local_m.

Example c03m_ex_domain_fn :
  r_dfn ex_dom_state = Some key_match /\
  m_has_link 10 ex_dom_state (T "u") (T "r") (Some (T "d1")) = true /\
  m_has_link 10 ex_dom_state (T "r") (T "admin") (Some (T "d1")) = true /\
  m_has_link 10 ex_dom_state (T "r") (T "admin") (Some (T "d2")) = false /\
  m_has_link 10 ex_dom_state (T "u") (T "r") (Some (T "d2")) = true.
Proof. exact ex_dom_fn. Qed.
Example c03m_ex_domain_local :
  r_dfn (pat_run key_match ex_km1) = None /\
  dom_key (Some (T "other")) <> dom_key None /\
  m_has_link 10 (fst (mstep (pat_run key_match ex_km1) (MAdd (T "alice") (T "root") (Some (T "other")))))
             (T "alice") (T "root") None = false /\
  m_has_link 10 (fst (mstep (pat_run key_match ex_km1) (MAdd (T "alice") (T "root") (Some (T "other")))))
             (T "alice") (T "root") (Some (T "other")) = true.
Proof. exact ex_dom_local. Qed.
