(* C16e: escaping commutes with printing.

   The matcher text handed to the real crate is print_expr e; the crate first
   applies util::escape_assertion to it and evaluates the result, in which a
   variable `p.f` has become the identifier p_f, looked up in the scope.  The
   model's evaluator (Expr.eval) works on the AST and looks `EVar p f` up under
   tok p f = p_f.  The theorems here close the step between the two: for every
   well-formed AST the escaped text IS the AST printed with variables as tokens.

   Definitions (Model/SpecC16e.v): print_expr_at_tok / print_expr_tok, esc_wf
   (esc_wf_at), pieces / render / pvars / evars, print_gen, dotted.
   Proofs: Proofs/EscPrintP.v.

   esc_wf, condition by condition (each has a witness below that dropping it
   breaks the equation):
   - EVar p f / EEval p f: rp_prefix p (r, p, r2, p2 ...): other prefixes are not
     rewritten by the crate at all (wf_drop_prefix);
   - fields (EVar, EEval, EProp) are identifiers (word bytes, no dot): a dot
     inside a field can open a second site (wf_drop_field_ident,
     wf_drop_prop_ident);
   - a field that is followed by a dot (the base of an EProp) must not look
     like a prefix itself: r.p2.x becomes r_p2_x (wf_drop_field_dn,
     wf_drop_prop_dn); not followed by a dot it is harmless (wf_field_p2_ok);
   - function names are identifiers (wf_drop_fname);
   - string literals contain no site: "r.x" becomes "r_x" (D23, wf_drop_string);
   - integer and boolean literals: no condition. *)
From CV Require Import Model.Base Model.PathMatch Model.Expr Model.SpecC16 Model.SpecC16e.
From CV Require Import Proofs.EscPrintP.

(* ------------------------------------------------------------------ *)
(* 1. the main statement                                                *)
(* ------------------------------------------------------------------ *)
Theorem c16e_escape_print : forall e, esc_wf e = true ->
  escape_assertion (print_expr e) = print_expr_tok e.
Proof. exact escape_print. Qed.
Print Assumptions c16e_escape_print.

(* at any printing level *)
Theorem c16e_escape_print_at : forall ctx e, esc_wf e = true ->
  escape_assertion (print_expr_at ctx e) = print_expr_at_tok ctx e.
Proof. exact escape_print_at. Qed.
Print Assumptions c16e_escape_print_at.

(* the generalisation that is proved by induction: a printed sub-expression,
   started at a word boundary outside a look-ahead, followed by ANY text t that
   cannot complete a look-ahead (dn = false), or by any text at all when the
   expression is well-formed for a base position (dn = true, level >= 6) *)
Theorem c16e_escape_print_piece : forall e ctx dn t,
  (dn = true -> 6 <= ctx) -> esc_wf_at dn e = true -> (dn = false -> la_dead t = true) ->
  esc_go false false (print_expr_at ctx e ++ t) =
  print_expr_at_tok ctx e ++ esc_go false (pw_after false (print_expr_at ctx e)) t.
Proof. exact escape_print_piece. Qed.
Print Assumptions c16e_escape_print_piece.

(* the tokenised text is what the crate keeps: escaping it again changes nothing *)
Theorem c16e_tok_stable : forall e, esc_wf e = true ->
  escape_assertion (print_expr_tok e) = print_expr_tok e.
Proof. exact escape_print_tok_stable. Qed.
Print Assumptions c16e_tok_stable.

(* ------------------------------------------------------------------ *)
(* 2. print_expr_tok is print_expr with the variables renamed           *)
(* ------------------------------------------------------------------ *)
(* The AST has no bare-identifier node, so there is no AST renaming to state
   this with.  Instead: both texts are renderings of ONE sequence of pieces
   (fixed chunks and variable occurrences, independent of the rendering); the
   variable occurrences are exactly those of the AST, in order (evars e);
   print_expr writes an occurrence (p, f) as p.f, print_expr_tok as tok p f -
   the key under which Expr.eval looks EVar p f / EEval p f up in the scope. *)
Theorem c16e_tok_vars : forall ctx e,
  print_expr_at ctx e = render dotted (pieces ctx e) /\
  print_expr_at_tok ctx e = render tok (pieces ctx e) /\
  pvars (pieces ctx e) = evars e.
Proof. exact tok_vars. Qed.
Print Assumptions c16e_tok_vars.

(* the same, as one printer parameterised by the rendering of a variable *)
Theorem c16e_print_gen_dotted : forall e ctx, print_expr_at ctx e = print_gen dotted ctx e.
Proof. exact print_at_gen. Qed.
Print Assumptions c16e_print_gen_dotted.
Theorem c16e_print_gen_tok : forall e ctx, print_expr_at_tok ctx e = print_gen tok ctx e.
Proof. exact print_at_tok_gen. Qed.
Print Assumptions c16e_print_gen_tok.

(* well-formedness for a base position implies plain well-formedness *)
Theorem c16e_wf_at_weaken : forall e, esc_wf_at true e = true -> esc_wf_at false e = true.
Proof. exact esc_wf_at_weaken. Qed.
Print Assumptions c16e_wf_at_weaken.

(* ------------------------------------------------------------------ *)
(* 3. examples: the documented matchers                                 *)
(* ------------------------------------------------------------------ *)
(* v p f = EVar, str = string literal, call = ECall, eq3 = the basic ACL matcher;
   ex_ok e src dst (Proofs/EscPrintP.v) := esc_wf e = true /\
     escape_assertion (print_expr e) = print_expr_tok e /\
     print_expr e = T src /\ print_expr_tok e = T dst *)

(* basic ACL *)
Example ex01_acl : ex_ok eq3
  "r.sub == p.sub && r.obj == p.obj && r.act == p.act"
  "r_sub == p_sub && r_obj == p_obj && r_act == p_act".
Proof. vm_compute. repeat split; reflexivity. Qed.
(* ACL with superuser *)
Example ex02_root : ex_ok (EOr eq3 (EEq (v "r" "sub") (str "root")))
  "r.sub == p.sub && r.obj == p.obj && r.act == p.act || r.sub == ""root"""
  "r_sub == p_sub && r_obj == p_obj && r_act == p_act || r_sub == ""root""".
Proof. vm_compute. repeat split; reflexivity. Qed.
(* RBAC *)
Example ex03_rbac : ex_ok
  (EAnd (EAnd (call "g" [v "r" "sub"; v "p" "sub"]) (EEq (v "r" "obj") (v "p" "obj")))
        (EEq (v "r" "act") (v "p" "act")))
  "g(r.sub, p.sub) && r.obj == p.obj && r.act == p.act"
  "g(r_sub, p_sub) && r_obj == p_obj && r_act == p_act".
Proof. vm_compute. repeat split; reflexivity. Qed.
(* RBAC with resource roles *)
Example ex04_resource_roles : ex_ok
  (EAnd (EAnd (call "g" [v "r" "sub"; v "p" "sub"]) (call "g2" [v "r" "obj"; v "p" "obj"]))
        (EEq (v "r" "act") (v "p" "act")))
  "g(r.sub, p.sub) && g2(r.obj, p.obj) && r.act == p.act"
  "g(r_sub, p_sub) && g2(r_obj, p_obj) && r_act == p_act".
Proof. vm_compute. repeat split; reflexivity. Qed.
(* RBAC with domains *)
Example ex05_domains : ex_ok
  (EAnd (EAnd (EAnd (call "g" [v "r" "sub"; v "p" "sub"; v "r" "dom"]) (EEq (v "r" "dom") (v "p" "dom")))
              (EEq (v "r" "obj") (v "p" "obj")))
        (EEq (v "r" "act") (v "p" "act")))
  "g(r.sub, p.sub, r.dom) && r.dom == p.dom && r.obj == p.obj && r.act == p.act"
  "g(r_sub, p_sub, r_dom) && r_dom == p_dom && r_obj == p_obj && r_act == p_act".
Proof. vm_compute. repeat split; reflexivity. Qed.
(* keyMatch / regexMatch (RESTful) *)
Example ex06_keymatch : ex_ok
  (EAnd (EAnd (EEq (v "r" "sub") (v "p" "sub")) (call "keyMatch" [v "r" "obj"; v "p" "obj"]))
        (call "regexMatch" [v "r" "act"; v "p" "act"]))
  "r.sub == p.sub && keyMatch(r.obj, p.obj) && regexMatch(r.act, p.act)"
  "r_sub == p_sub && keyMatch(r_obj, p_obj) && regexMatch(r_act, p_act)".
Proof. vm_compute. repeat split; reflexivity. Qed.
(* keyMatch2 *)
Example ex07_keymatch2 : ex_ok
  (EAnd (EAnd (EEq (v "r" "sub") (v "p" "sub")) (call "keyMatch2" [v "r" "obj"; v "p" "obj"]))
        (call "regexMatch" [v "r" "act"; v "p" "act"]))
  "r.sub == p.sub && keyMatch2(r.obj, p.obj) && regexMatch(r.act, p.act)"
  "r_sub == p_sub && keyMatch2(r_obj, p_obj) && regexMatch(r_act, p_act)".
Proof. vm_compute. repeat split; reflexivity. Qed.
(* regexMatch on the subject, with a role and a parenthesised alternative *)
Example ex08_regex_or : ex_ok
  (EAnd (call "regexMatch" [v "r" "sub"; v "p" "sub"])
        (EOr (call "g" [v "r" "sub"; v "p" "sub"]) (EEq (v "p" "sub") (str "*"))))
  "regexMatch(r.sub, p.sub) && (g(r.sub, p.sub) || p.sub == ""*"")"
  "regexMatch(r_sub, p_sub) && (g(r_sub, p_sub) || p_sub == ""*"")".
Proof. vm_compute. repeat split; reflexivity. Qed.
(* ABAC: only the first dot of r.obj.owner is a site *)
Example ex09_abac : ex_ok (EEq (v "r" "sub") (EProp (v "r" "obj") (T "owner")))
  "r.sub == r.obj.owner" "r_sub == r_obj.owner".
Proof. vm_compute. repeat split; reflexivity. Qed.
(* in-operator with string literals *)
Example ex10_in : ex_ok
  (EAnd (EAnd (EEq (v "r" "sub") (v "p" "sub")) (EIn (v "r" "obj") [str "data2"; str "data3"]))
        (EEq (v "r" "act") (v "p" "act")))
  "r.sub == p.sub && r.obj in [""data2"", ""data3""] && r.act == p.act"
  "r_sub == p_sub && r_obj in [""data2"", ""data3""] && r_act == p_act".
Proof. vm_compute. repeat split; reflexivity. Qed.
(* ABAC rule in the policy: eval *)
Example ex11_eval : ex_ok
  (EAnd (EAnd (EEval (T "p") (T "sub_rule")) (EEq (v "r" "obj") (v "p" "obj")))
        (EEq (v "r" "act") (v "p" "act")))
  "eval(p.sub_rule) && r.obj == p.obj && r.act == p.act"
  "eval(p_sub_rule) && r_obj == p_obj && r_act == p_act".
Proof. vm_compute. repeat split; reflexivity. Qed.
(* more shapes: numbered prefixes, negation, comparison, integers, booleans, priority/deny *)
Example ex12_misc : ex_ok
  (EAnd (EAnd (ENot (call "g" [v "r2" "sub"; v "p2" "sub"]))
              (ECmp CGe (EProp (v "r" "sub") (T "age")) (ELit (SInt 18%Z))))
        (ENeq (v "p" "eft") (ELit (SBool true))))
  "!g(r2.sub, p2.sub) && r.sub.age >= 18 && p.eft != true"
  "!g(r2_sub, p2_sub) && r_sub.age >= 18 && p_eft != true".
Proof. vm_compute. repeat split; reflexivity. Qed.

(* the hypotheses of c16e_escape_print_piece with dn = true: a base followed by a dot *)
Example ex_piece_dn :
  esc_wf_at true (v "r" "obj") = true /\
  esc_go false false (print_expr_at 6 (v "r" "obj") ++ T ".owner == 1")
  = print_expr_at_tok 6 (v "r" "obj") ++ T ".owner == 1".
Proof. vm_compute. split; reflexivity. Qed.
(* c16e_tok_vars on the ABAC matcher: the pieces, and the variables *)
Example ex_pieces :
  pieces 0 (EEq (v "r" "sub") (EProp (v "r" "obj") (T "owner")))
  = [PVar (T "r") (T "sub"); PTxt (T " == "); PVar (T "r") (T "obj"); PTxt (T ".owner")] /\
  evars (EEq (v "r" "sub") (EProp (v "r" "obj") (T "owner"))) = [(T "r", T "sub"); (T "r", T "obj")].
Proof. vm_compute. split; reflexivity. Qed.

(* ------------------------------------------------------------------ *)
(* 4. each condition of esc_wf is needed: witnesses                     *)
(* ------------------------------------------------------------------ *)
(* breaks e got want (Proofs/EscPrintP.v) := esc_wf e = false /\
     escape_assertion (print_expr e) = T got /\ print_expr_tok e = T want /\
     escape_assertion (print_expr e) <> print_expr_tok e *)

(* D23: a string literal that contains a site is rewritten by the crate *)
Example wf_drop_string : breaks (EEq (v "r" "sub") (str "r.x"))
  "r_sub == ""r_x""" "r_sub == ""r.x""".
Proof. breaks_tac. Qed.
(* a prefix that is not r/p + digits is not rewritten *)
Example wf_drop_prefix : breaks (EEq (v "x" "sub") (v "p" "sub")) "x.sub == p_sub" "x_sub == p_sub".
Proof. breaks_tac. Qed.
Example wf_drop_prefix_eval : breaks (EEval (T "q") (T "rule")) "eval(q.rule)" "eval(q_rule)".
Proof. breaks_tac. Qed.
(* a field with a dot in it *)
Example wf_drop_field_ident : breaks (v "r" "a.p.b") "r_a.p_b" "r_a.p.b".
Proof. breaks_tac. Qed.
Example wf_drop_prop_ident : breaks (EProp (v "r" "obj") (T "a.p.b")) "r_obj.a.p_b" "r_obj.a.p.b".
Proof. breaks_tac. Qed.
(* a field named like a prefix, followed by a dot: both dots are rewritten *)
Example wf_drop_field_dn : breaks (EProp (v "r" "p2") (T "x")) "r_p2_x" "r_p2.x".
Proof. breaks_tac. Qed.
Example wf_drop_prop_dn : breaks (EProp (EProp (v "r" "obj") (T "p")) (T "x")) "r_obj.p_x" "r_obj.p.x".
Proof. breaks_tac. Qed.
(* ... but the same field not followed by a dot is fine *)
Example wf_field_p2_ok :
  esc_wf (EEq (v "r" "p2") (EProp (v "r" "obj") (T "r"))) = true /\
  escape_assertion (print_expr (EEq (v "r" "p2") (EProp (v "r" "obj") (T "r")))) = T "r_p2 == r_obj.r".
Proof. vm_compute. split; reflexivity. Qed.
(* a function name with a site *)
Example wf_drop_fname : breaks (call "r.f" [v "r" "sub"]) "r_f(r_sub)" "r.f(r_sub)".
Proof. breaks_tac. Qed.
