(* rs2coq part 23, FINDINGS: with matching functions the has_link cache of DefaultRoleManager can serve a
   stale answer.  Statements only; proofs (concrete runs of the translated code, by vm_compute) in
   PinChecks/PcRmCacheFindings.v.  gen_c_run / gen_u_run / cop are defined in PinChecks/PcRmCacheGen.v. *)
From CV Require Import Model.Base Model.RoleGraph Model.RoleGraphM Model.RmCache.
From CV Require Import Gen.RustStr Gen.RustVec Gen.RustIter Gen.Petgraph Gen.MokaRt Gen.Model2Gen Gen.RoleManagerGen
                       Gen.RmCacheRt Gen.RmCacheGen.
From CV Require Import Proofs.PetgraphP Proofs.RmCacheP Proofs.RmCacheGenP.
From CV Require Import PinChecks.PcRoleManagerGen PinChecks.PcRmCacheGen PinChecks.PcRmCacheFindings.

(* ---- FINDINGS: with matching functions the cache discipline of the source is incomplete ---- *)
(* F1: matching_fn leaves the cache as it is *)
Theorem rmcgen_matching_fn_keeps : forall s c rf df s' c',
  gen_c_matching_fn s c rf df = Some (s', c') -> c' = c.
Proof. exact gen_c_matching_fn_keeps. Qed.
Print Assumptions rmcgen_matching_fn_keeps.

Theorem rmcgen_matching_fn_stale_refuted :
  exists hfin ord fuel sched lvl h,
    ord_ok ord /\ (forall l1 l2, In l1 [[T "a"; T "x"; T "DEFAULT"]] -> In l2 [[T "a"; T "x"; T "DEFAULT"]] -> hfin l1 = hfin l2 -> l1 = l2) /\
    gen_c_run hfin ord fuel (fst (gen_c_new sched lvl)) (snd (gen_c_new sched lvl)) h = Some [true; false; true; false] /\
    gen_u_run ord fuel (gen_new lvl) h = Some [true; false; true; true].
Proof. exact gen_c_matching_fn_stale_refuted. Qed.
Print Assumptions rmcgen_matching_fn_stale_refuted.

(* F2: delete_link creates roles (and the graph of a new domain) without clearing *)
Theorem rmcgen_delete_link_stale_refuted :
  exists hfin ord fuel sched lvl h,
    ord_ok ord /\
    gen_c_run hfin ord fuel (fst (gen_c_new sched lvl)) (snd (gen_c_new sched lvl)) h = Some [true; true; true; false; true; false] /\
    gen_u_run ord fuel (gen_new lvl) h = Some [true; true; true; false; true; true].
Proof. exact gen_c_delete_link_stale_refuted. Qed.
Print Assumptions rmcgen_delete_link_stale_refuted.

(* the statement for ALL histories (matching_fn included) is false *)
Theorem rmcgen_all_histories_refuted : ~ gen_c_all_histories_statement.
Proof. exact gen_c_all_histories_refuted. Qed.
Print Assumptions rmcgen_all_histories_refuted.
