(* C03 stated about the TRANSLATED SOURCE (Gen/RoleManagerGen.v, regenerated every run from
   src/rbac/default_role_manager.rs): for every history of add_link / delete_link / clear run from
   DefaultRoleManager::new(lvl), every HashMap iteration order `ord` and every sufficient loop fuel, the translated
   code does not panic, returns the specification's delete flags, and
     - has_link a b d = true only if a = b or b is reachable from a in the set-semantics edge set of domain d,
     - has_link a b d = true whenever b is reachable through a chain shorter than lvl,
     - get_roles / get_users are exactly the direct neighbours.
   Statement only; proof in Proofs/C03SrcP.v (composition of C03, C03M conservativity and the translation theorems). *)
From CV Require Import Model.Base Model.RoleGraph Model.RoleGraphM.
From CV Require Import Proofs.BaseP Proofs.RoleGraphP Proofs.RoleGraphMA.
From CV Require Import Gen.RustStr Gen.RustVec Gen.RustIter Gen.Petgraph Gen.RoleManagerGen.
From CV Require Import Proofs.PetgraphP PinChecks.PcRoleManagerGen Proofs.C03SrcP.
From Coq Require Import Relations Permutation.

Theorem c03_src : forall ord lvl (h : list lop), ord_ok ord ->
  exists s F, src_run ord lvl h = Some (s, lrun_flags [] h) /\
    (forall fuel a b d, F <= fuel -> exists v, gen_has_link ord fuel s a b d = Some v /\
       (v = true -> a = b \/ clos_trans text (fun x y => In (x, y) (spec_links h (dom_key d) [])) a b) /\
       (forall k, path (fun x y => In (x, y) (spec_links h (dom_key d) [])) k a b -> k < lvl -> v = true)) /\
    (forall n d, exists l, gen_get_roles ord s n d = Some l /\
       forall y, In y l <-> In (n, y) (spec_links h (dom_key d) [])) /\
    (forall n d, exists l, gen_get_users ord s n d = Some l /\
       forall y, In y l <-> In (y, n) (spec_links h (dom_key d) [])).
Proof. exact src_c03. Qed.
Print Assumptions c03_src.

(* the hypothesis is satisfiable *)
Example c03_src_ord : ord_ok (@rev text).
Proof. exact ord_ok_rev. Qed.
