(* rs2coq part 17: the translated WRITE side and file reading of the file adapter, save / clear of the string
   adapter and the incremental stubs of both (Gen/FsaveGen.v, generated from /repo/src/adapter/file_adapter.rs and
   string_adapter.rs over the TRUSTED runtime Gen/FsRt.v) against Model/FileSave.v (save_new, run_cut,
   save_new_failed), Model/Csv.v + Model/SpecC16.v (render_line_file / render_line_string, save_text_file /
   save_text_string) and Model/Engine.v (ad0_save, ad0_clear, ad0_load, ad0_load_filtered, ad0_add ..
   ad0_remove_filtered on AFile / AString), for all models, texts, paths and fault scripts.
   Statements only; the proofs are in PinChecks/PcFsaveGen.v (lemmas in Proofs/FsaveP.v).
   save_spec, load_spec, read_lines, tmp_of, mkw, all_ok, errc_of / out_of / lres_of, render_step are defined in
   Proofs/FsaveP.v; file_view, file_view3, file_load_view, inc_view, str_view, filt_step, missing_p,
   not_implemented, file_failed_load_mark_full and the example values in PinChecks/PcFsaveGen.v. *)
From CV Require Import Model.Base Model.Csv Model.Enforce Model.Engine Model.FileSave Model.SpecC16.
From CV Require Import Gen.RustStr Gen.RustVec Gen.StrFnGen Gen.AdaptersPrims Gen.AdaptersGen Gen.FsRt Gen.FsaveGen.
From CV Require Import Proofs.BaseP Proofs.AdaptersP Proofs.FsaveP PinChecks.PcAdaptersGen PinChecks.PcFsaveGen.

Theorem fsavegen_translated : gen_fsave_translated = true.
Proof. exact gen_fsave_translated_ok. Qed.
Print Assumptions fsavegen_translated.

Theorem fsavegen_save_policy_file_spec : forall path flt w bytes,
  gen_save_policy_file path flt w bytes = Some (save_spec path w bytes).
Proof. exact gen_save_policy_file_spec. Qed.
Print Assumptions fsavegen_save_policy_file_spec.

Theorem fsavegen_save_policy_file_calls : forall path flt fs ops sc bytes, all_ok sc = true ->
  gen_save_policy_file path flt (mkw fs ops sc false) bytes
  = Some (mkw (run_fops fs (save_new (tmp_of path) path bytes)) (ops ++ save_new (tmp_of path) path bytes) (skipn 4 sc) false,
          ROk tt).
Proof. exact gen_save_policy_file_calls. Qed.
Print Assumptions fsavegen_save_policy_file_calls.

Theorem fsavegen_save_policy_file_cut : forall path flt w bytes w' r,
  gen_save_policy_file path flt w bytes = Some (w', r) ->
  exists n k, w_fs w' = run_cut (save_new (tmp_of path) path bytes) n k (w_fs w)
           \/ w_fs w' = save_new_failed (tmp_of path) path bytes n k (w_fs w).
Proof. exact gen_save_policy_file_cut. Qed.
Print Assumptions fsavegen_save_policy_file_cut.

Theorem fsavegen_save_policy_file_atomic : forall path flt w bytes w' r,
  gen_save_policy_file path flt w bytes = Some (w', r) ->
  content (w_fs w') path = content (w_fs w) path \/ content (w_fs w') path = Some bytes.
Proof. exact gen_save_policy_file_atomic. Qed.
Print Assumptions fsavegen_save_policy_file_atomic.

Theorem fsavegen_save_policy_file_truthful : forall path flt w bytes w' r,
  gen_save_policy_file path flt w bytes = Some (w', r) ->
  (r = ROk tt -> content (w_fs w') path = Some bytes /\ content (w_fs w') (tmp_of path) = None) /\
  (r <> ROk tt -> content (w_fs w') path = content (w_fs w) path).
Proof. exact gen_save_policy_file_truthful. Qed.
Print Assumptions fsavegen_save_policy_file_truthful.

Theorem fsavegen_save_policy_file_ops : forall path flt w bytes w' r,
  gen_save_policy_file path flt w bytes = Some (w', r) ->
  exists m, w_ops w' = w_ops w ++ firstn m (save_new (tmp_of path) path bytes)
         \/ w_ops w' = w_ops w ++ firstn m (save_new (tmp_of path) path bytes) ++ [Remove (tmp_of path)].
Proof. exact gen_save_policy_file_ops. Qed.
Print Assumptions fsavegen_save_policy_file_ops.

Theorem fsavegen_save_policy_file_one_error : forall path flt fs ops n k rest bytes, n <= 2 -> all_ok rest = true ->
  gen_save_policy_file path flt (mkw fs ops (repeat FOk n ++ FErr k :: rest) false) bytes
  = Some (mkw (save_new_failed (tmp_of path) path bytes n k fs)
              (ops ++ firstn (S n) [Create (tmp_of path); Append (tmp_of path) bytes] ++ [Remove (tmp_of path)])
              (tl rest) false, RErr (ErrIo IoOs)).
Proof. exact gen_save_policy_file_one_error. Qed.
Print Assumptions fsavegen_save_policy_file_one_error.

Theorem fsavegen_save_policy_file_rename_error : forall path flt fs ops k rest bytes,
  gen_save_policy_file path flt (mkw fs ops (repeat FOk 3 ++ FErr k :: rest) false) bytes
  = Some (mkw (run_cut (save_new (tmp_of path) path bytes) 2 0 fs) (ops ++ save_new (tmp_of path) path bytes) rest false,
          RErr (ErrIo IoOs)).
Proof. exact gen_save_policy_file_rename_error. Qed.
Print Assumptions fsavegen_save_policy_file_rename_error.

Theorem fsavegen_save_policy_file_rename_error_leaves_tmp : forall path flt fs ops k rest bytes w' r,
  gen_save_policy_file path flt (mkw fs ops (repeat FOk 3 ++ FErr k :: rest) false) bytes = Some (w', r) ->
  content (w_fs w') (tmp_of path) = Some bytes /\ content (w_fs w') path = content fs path.
Proof. exact gen_save_policy_file_rename_error_leaves_tmp. Qed.
Print Assumptions fsavegen_save_policy_file_rename_error_leaves_tmp.

Theorem fsavegen_save_policy_file_killed : forall path flt fs ops n k rest bytes w' r, n <= 3 ->
  gen_save_policy_file path flt (mkw fs ops (repeat FOk n ++ FCrash k :: rest) false) bytes = Some (w', r) ->
  w_fs w' = run_cut (save_new (tmp_of path) path bytes) (Nat.min n 2) k fs /\ w_dead w' = true.
Proof. exact gen_save_policy_file_killed. Qed.
Print Assumptions fsavegen_save_policy_file_killed.

Theorem fsavegen_file_save_policy_spec : forall path flt md w,
  gen_file_save_policy path flt md w =
  match path with
  | [] => Some ((path, flt, md, w), RErr (ErrIo (IoNew (T "Other") (T "save policy failed, file path is empty"))))
  | _ :: _ =>
    match assoc s_p md with
    | None => Some ((path, flt, md, w), RErr (ErrModel (ModelErrP missing_p)))
    | Some _ => Some ((path, flt, md, fst (save_spec path w (save_text_file md))), snd (save_spec path w (save_text_file md)))
    end
  end.
Proof. exact gen_file_save_policy_spec. Qed.
Print Assumptions fsavegen_file_save_policy_spec.

Theorem fsavegen_file_save_policy_atomic : forall path flt md w p' f' md' w' r,
  gen_file_save_policy path flt md w = Some ((p', f', md', w'), r) ->
  p' = path /\ f' = flt /\ md' = md /\
  (content (w_fs w') path = content (w_fs w) path \/ content (w_fs w') path = Some (save_text_file md)) /\
  (r = ROk tt -> content (w_fs w') path = Some (save_text_file md)) /\
  (r <> ROk tt -> content (w_fs w') path = content (w_fs w) path).
Proof. exact gen_file_save_policy_atomic. Qed.
Print Assumptions fsavegen_file_save_policy_atomic.

Theorem fsavegen_file_save_policy_run : forall c path flt md fs ops sc amp, all_ok sc = true -> assoc s_p md = Some amp ->
  gen_file_save_policy (c :: path) flt md (mkw fs ops sc false)
  = Some ((c :: path, flt, md,
           mkw (run_fops fs (save_new (tmp_of (c :: path)) (c :: path) (save_text_file md)))
               (ops ++ save_new (tmp_of (c :: path)) (c :: path) (save_text_file md)) (skipn 4 sc) false), ROk tt).
Proof. exact gen_file_save_policy_run. Qed.
Print Assumptions fsavegen_file_save_policy_run.

Theorem fsavegen_file_save_policy_ok : forall c path flt md fs ops sc old, all_ok sc = true ->
  content fs (c :: path) = Some old -> model_text_safe_r md = true ->
  file_view (gen_file_save_policy (c :: path) flt md (mkw fs ops sc false))
  = Some (ad0_save (AFile (parsed_lines old) flt) md).
Proof. exact gen_file_save_policy_ok. Qed.
Print Assumptions fsavegen_file_save_policy_ok.

Theorem fsavegen_file_clear_policy_spec : forall path flt w,
  gen_file_clear_policy path flt w = Some ((path, flt, fst (save_spec path w [])), snd (save_spec path w [])).
Proof. exact gen_file_clear_policy_spec. Qed.
Print Assumptions fsavegen_file_clear_policy_spec.

Theorem fsavegen_file_clear_policy_ok : forall path flt fs ops sc l, all_ok sc = true ->
  file_view3 (gen_file_clear_policy path flt (mkw fs ops sc false)) = Some (ad0_clear (AFile l flt)).
Proof. exact gen_file_clear_policy_ok. Qed.
Print Assumptions fsavegen_file_clear_policy_ok.

Theorem fsavegen_file_clear_policy_atomic : forall path flt w p' f' w' r,
  gen_file_clear_policy path flt w = Some ((p', f', w'), r) ->
  p' = path /\ f' = flt /\
  (content (w_fs w') path = content (w_fs w) path \/ content (w_fs w') path = Some []) /\
  (r <> ROk tt -> content (w_fs w') path = content (w_fs w) path).
Proof. exact gen_file_clear_policy_atomic. Qed.
Print Assumptions fsavegen_file_clear_policy_atomic.

Theorem fsavegen_load_policy_file_spec : forall path flt md w (handler : model -> text -> option (model * unit)),
  gen_load_policy_file path flt md w handler =
  match load_spec (fun m l => option_map fst (handler m l)) path md w with
  | Some (md', w', r) => Some ((path, flt, md', w'), r)
  | None => None
  end.
Proof. exact gen_load_policy_file_spec. Qed.
Print Assumptions fsavegen_load_policy_file_spec.

Theorem fsavegen_load_filtered_policy_file_spec : forall path flt md w fp fg handler,
  gen_load_filtered_policy_file path flt md w fp fg handler =
  match load_spec (filt_step handler fp fg) path (false, md) w with
  | Some ((b, md'), w', r) => Some ((md', w'), match r with ROk _ => ROk b | RErr e => RErr e end)
  | None => None
  end.
Proof. exact gen_load_filtered_policy_file_spec. Qed.
Print Assumptions fsavegen_load_filtered_policy_file_spec.

Theorem fsavegen_file_load_policy_spec : forall path flt md w,
  gen_file_load_policy path flt md w =
  match load_spec (fun m l => Some (raw_step load_line m l)) path md w with
  | Some (md', w', r) => Some ((path, match r with ROk _ => false | RErr _ => flt end, md', w'), r)
  | None => None
  end.
Proof. exact gen_file_load_policy_spec. Qed.
Print Assumptions fsavegen_file_load_policy_spec.

Theorem fsavegen_file_load_filtered_policy_spec : forall path flt md w fp fg,
  gen_file_load_filtered_policy path flt md w fp fg =
  match load_spec (fun x l => Some (file_filtered_loop fp fg x l)) path (false, md) w with
  | Some ((b, md'), w', r) => Some ((path, match r with ROk _ => b | RErr _ => flt end, md', w'), r)
  | None => None
  end.
Proof. exact gen_file_load_filtered_policy_spec. Qed.
Print Assumptions fsavegen_file_load_filtered_policy_spec.

Theorem fsavegen_file_load_policy_run : forall path flt md fs ops sc bytes, all_ok sc = true -> content fs path = Some bytes ->
  gen_file_load_policy path flt md (mkw fs ops sc false)
  = Some ((path, false, fold_left load_line (parsed_lines bytes) md,
           mkw fs ops (skipn (2 + length (rs_buf_lines bytes)) sc) false), ROk tt).
Proof. exact gen_file_load_policy_run. Qed.
Print Assumptions fsavegen_file_load_policy_run.

Theorem fsavegen_file_load_policy_ok : forall path flt md fs ops sc bytes, all_ok sc = true -> content fs path = Some bytes ->
  file_load_view (parsed_lines bytes) (gen_file_load_policy path flt md (mkw fs ops sc false))
  = Some (ad0_load (AFile (parsed_lines bytes) flt) md).
Proof. exact gen_file_load_policy_ok. Qed.
Print Assumptions fsavegen_file_load_policy_ok.

Theorem fsavegen_file_load_filtered_policy_run : forall path flt md fs ops sc bytes fp fg, all_ok sc = true ->
  content fs path = Some bytes ->
  gen_file_load_filtered_policy path flt md (mkw fs ops sc false) fp fg
  = Some ((path, snd (str_load_filtered fp fg md (parsed_lines bytes)), fst (str_load_filtered fp fg md (parsed_lines bytes)),
           mkw fs ops (skipn (2 + length (rs_buf_lines bytes)) sc) false), ROk tt).
Proof. exact gen_file_load_filtered_policy_run. Qed.
Print Assumptions fsavegen_file_load_filtered_policy_run.

Theorem fsavegen_file_load_filtered_policy_ok : forall path flt md fs ops sc bytes fp fg, all_ok sc = true ->
  content fs path = Some bytes ->
  file_load_view (parsed_lines bytes) (gen_file_load_filtered_policy path flt md (mkw fs ops sc false) fp fg)
  = Some (ad0_load_filtered (AFile (parsed_lines bytes) flt) fp fg md).
Proof. exact gen_file_load_filtered_policy_ok. Qed.
Print Assumptions fsavegen_file_load_filtered_policy_ok.

Theorem fsavegen_file_load_policy_missing : forall path flt md w, content (w_fs w) path = None ->
  exists w', gen_file_load_policy path flt md w = Some ((path, flt, md, w'), RErr (ErrIo IoOs)) /\ w_fs w' = w_fs w.
Proof. exact gen_file_load_policy_missing. Qed.
Print Assumptions fsavegen_file_load_policy_missing.

Theorem fsavegen_file_load_policy_any : forall path flt md w bytes, content (w_fs w) path = Some bytes ->
  exists j w' r,
    gen_file_load_policy path flt md w
    = Some ((path, match r with ROk _ => false | RErr _ => flt end,
             fold_left (raw_step load_line) (firstn j (rs_buf_lines bytes)) md, w'), r) /\
    (r = ROk tt -> j = length (rs_buf_lines bytes)) /\ w_fs w' = w_fs w /\ w_ops w' = w_ops w.
Proof. exact gen_file_load_policy_any. Qed.
Print Assumptions fsavegen_file_load_policy_any.

Theorem fsavegen_file_load_filtered_policy_any : forall path flt md w fp fg bytes, content (w_fs w) path = Some bytes ->
  exists j w' r,
    gen_file_load_filtered_policy path flt md w fp fg
    = Some ((path, match r with ROk _ => fst (fold_left (file_filtered_loop fp fg) (firstn j (rs_buf_lines bytes)) (false, md))
                                 | RErr _ => flt end,
             snd (fold_left (file_filtered_loop fp fg) (firstn j (rs_buf_lines bytes)) (false, md)), w'), r) /\
    (r = ROk tt -> j = length (rs_buf_lines bytes)) /\ w_fs w' = w_fs w /\ w_ops w' = w_ops w.
Proof. exact gen_file_load_filtered_policy_any. Qed.
Print Assumptions fsavegen_file_load_filtered_policy_any.

Theorem fsavegen_file_incremental_ok : forall path l f sec pt r rs idx vals,
  inc_view (AFile l) (gen_file_add_policy path f sec pt r) = Some (ad0_add (AFile l f) sec pt r) /\
  inc_view (AFile l) (gen_file_add_policies path f sec pt rs) = Some (ad0_add_many (AFile l f) sec pt rs) /\
  inc_view (AFile l) (gen_file_remove_policy path f sec pt r) = Some (ad0_remove (AFile l f) sec pt r) /\
  inc_view (AFile l) (gen_file_remove_policies path f sec pt rs) = Some (ad0_remove_many (AFile l f) sec pt rs) /\
  inc_view (AFile l) (gen_file_remove_filtered_policy path f sec pt idx vals) = Some (ad0_remove_filtered (AFile l f) sec pt idx vals) /\
  gen_file_add_policy path f sec pt r = Some ((path, f), ROk true) /\
  gen_file_add_policies path f sec pt rs = Some ((path, f), ROk true) /\
  gen_file_remove_policy path f sec pt r = Some ((path, f), ROk true) /\
  gen_file_remove_policies path f sec pt rs = Some ((path, f), ROk true) /\
  gen_file_remove_filtered_policy path f sec pt idx vals = Some ((path, f), ROk true).
Proof. exact gen_file_incremental_ok. Qed.
Print Assumptions fsavegen_file_incremental_ok.

Theorem fsavegen_str_incremental_ok : forall content l f sec pt r rs idx vals,
  inc_view (AString l) (gen_str_add_policy content f sec pt r) = Some (ad0_add (AString l f) sec pt r) /\
  inc_view (AString l) (gen_str_add_policies content f sec pt rs) = Some (ad0_add_many (AString l f) sec pt rs) /\
  inc_view (AString l) (gen_str_remove_policy content f sec pt r) = Some (ad0_remove (AString l f) sec pt r) /\
  inc_view (AString l) (gen_str_remove_policies content f sec pt rs) = Some (ad0_remove_many (AString l f) sec pt rs) /\
  inc_view (AString l) (gen_str_remove_filtered_policy content f sec pt idx vals) = Some (ad0_remove_filtered (AString l f) sec pt idx vals) /\
  gen_str_add_policy content f sec pt r = Some ((content, f), RErr not_implemented) /\
  gen_str_add_policies content f sec pt rs = Some ((content, f), RErr not_implemented) /\
  gen_str_remove_policy content f sec pt r = Some ((content, f), RErr not_implemented) /\
  gen_str_remove_policies content f sec pt rs = Some ((content, f), RErr not_implemented) /\
  gen_str_remove_filtered_policy content f sec pt idx vals = Some ((content, f), RErr not_implemented).
Proof. exact gen_str_incremental_ok. Qed.
Print Assumptions fsavegen_str_incremental_ok.

Theorem fsavegen_is_filtered_ok : forall path content l f,
  gen_file_is_filtered path f = Some (ad_is_filtered (AFile l f)) /\
  gen_str_is_filtered content f = Some (ad_is_filtered (AString l f)).
Proof. exact gen_is_filtered_ok. Qed.
Print Assumptions fsavegen_is_filtered_ok.

Theorem fsavegen_str_save_policy_spec : forall content flt md,
  gen_str_save_policy content flt md =
  match assoc s_p md with
  | None => Some ((content, flt, md), RErr (ErrModel (ModelErrP missing_p)))
  | Some _ => Some ((save_text_string md, flt, md), ROk tt)
  end.
Proof. exact gen_str_save_policy_spec. Qed.
Print Assumptions fsavegen_str_save_policy_spec.

Theorem fsavegen_str_save_policy_ok : forall content flt md, model_text_safe_r md = true ->
  str_view (gen_str_save_policy content flt md) = Some (ad0_save (AString (parsed_lines content) flt) md) /\
  option_map (fun x => snd (fst x)) (gen_str_save_policy content flt md) = Some md.
Proof. exact gen_str_save_policy_ok. Qed.
Print Assumptions fsavegen_str_save_policy_ok.

Theorem fsavegen_str_save_policy_replaces : forall c1 c2 flt md,
  option_map (fun x => fst (fst (fst x))) (gen_str_save_policy c1 flt md)
  = match assoc s_p md with Some _ => Some (save_text_string md) | None => Some c1 end /\
  (assoc s_p md <> None -> gen_str_save_policy c1 flt md = gen_str_save_policy c2 flt md).
Proof. exact gen_str_save_policy_replaces. Qed.
Print Assumptions fsavegen_str_save_policy_replaces.

Theorem fsavegen_str_clear_policy_ok : forall content l flt,
  option_map (fun x => (AString (parsed_lines (fst (fst x))) (snd (fst x)), lres_of (snd x))) (gen_str_clear_policy content flt)
  = Some (ad0_clear (AString l flt)).
Proof. exact gen_str_clear_policy_ok. Qed.
Print Assumptions fsavegen_str_clear_policy_ok.

Theorem fsavegen_file_failed_load_mark_refuted :
  exists path flt md w bytes f' md' w' e,
    content (w_fs w) path = Some bytes /\
    gen_file_load_policy path flt md w = Some ((path, f', md', w'), RErr e) /\
    f' = true /\
    ad_is_filtered (fst (fst (ad_load (AScripted (AFile (parsed_lines bytes) flt) [RFailLate]) md))) = false.
Proof. exact file_failed_load_mark_refuted. Qed.
Print Assumptions fsavegen_file_failed_load_mark_refuted.

Theorem fsavegen_not_file_failed_load_mark_full : ~ file_failed_load_mark_full.
Proof. exact not_file_failed_load_mark_full. Qed.
Print Assumptions fsavegen_not_file_failed_load_mark_full.

Theorem fsavegen_file_failed_load_keeps_mark : forall path flt md w f' md' w' e,
  gen_file_load_policy path flt md w = Some ((path, f', md', w'), RErr e) -> f' = flt.
Proof. exact gen_file_failed_load_keeps_mark. Qed.
Print Assumptions fsavegen_file_failed_load_keeps_mark.

Theorem fsavegen_file_failed_filtered_load_keeps_mark : forall path flt md w fp fg f' md' w' e,
  gen_file_load_filtered_policy path flt md w fp fg = Some ((path, f', md', w'), RErr e) -> f' = flt.
Proof. exact gen_file_failed_filtered_load_keeps_mark. Qed.
Print Assumptions fsavegen_file_failed_filtered_load_keeps_mark.

Theorem fsavegen_str_save_policy_unsafe_refuted :
  model_text_safe_r nl_store = false /\
  str_view (gen_str_save_policy [] false nl_store) <> Some (ad0_save (AString [] false) nl_store).
Proof. exact gen_str_save_policy_unsafe_refuted. Qed.
Print Assumptions fsavegen_str_save_policy_unsafe_refuted.

Example fsavegen_ex_hyps : all_ok [FOk; FOk; FOk; FOk; FOk] = true /\ model_text_safe_r ex_md = true /\
                  content ex_fs ex_path = Some ex_old /\ assoc s_p ex_md <> None /\ save_text_file ex_md = ex_new.
Proof. exact ex_hyps. Qed.

Example fsavegen_gen_file_save_ex :
  (* nothing fails: p before g, a value with a comma in quotes, the three calls of save_new *)
  show (gen_file_save_policy ex_path false ex_md (mk_world ex_fs []))
  = Some (Some ex_new, None, save_new (tmp_of ex_path) ex_path ex_new, false, ROk tt) /\
  (* write_all fails after 9 bytes: the temporary file is removed, the policy file is the old one *)
  show (gen_file_save_policy ex_path false ex_md (mk_world ex_fs [FOk; FErr 9]))
  = Some (Some ex_old, None, [Create (tmp_of ex_path); Append (tmp_of ex_path) ex_new; Remove (tmp_of ex_path)], false,
          RErr (ErrIo IoOs)) /\
  (* ... and the removal fails too: a partial temporary file stays, the policy file is the old one *)
  show (gen_file_save_policy ex_path false ex_md (mk_world ex_fs [FOk; FErr 9; FErr 0]))
  = Some (Some ex_old, Some (T "p, alice,"), [Create (tmp_of ex_path); Append (tmp_of ex_path) ex_new; Remove (tmp_of ex_path)],
          false, RErr (ErrIo IoOs)) /\
  (* the rename fails: the complete temporary file stays (O1) *)
  show (gen_file_save_policy ex_path false ex_md (mk_world ex_fs [FOk; FOk; FOk; FErr 0]))
  = Some (Some ex_old, Some ex_new, save_new (tmp_of ex_path) ex_path ex_new, false, RErr (ErrIo IoOs)) /\
  (* killed during the write *)
  show (gen_file_save_policy ex_path false ex_md (mk_world ex_fs [FOk; FCrash 9]))
  = Some (Some ex_old, Some (T "p, alice,"), [Create (tmp_of ex_path); Append (tmp_of ex_path) ex_new], true, RErr (ErrIo IoOs)) /\
  (* an empty path, a model without section p: errors before any call *)
  option_map snd (show (gen_file_save_policy [] false ex_md (mk_world ex_fs [])))
  = Some (RErr (ErrIo (IoNew (T "Other") (T "save policy failed, file path is empty")))) /\
  show (gen_file_save_policy ex_path true [] (mk_world ex_fs []))
  = Some (Some ex_old, None, [], false, RErr (ErrModel (ModelErrP missing_p))) /\
  (* clear_policy: the same protocol with an empty text *)
  option_map (fun x => (content (w_fs (snd (fst x))) ex_path, snd x)) (gen_file_clear_policy ex_path true (mk_world ex_fs []))
  = Some (Some [], ROk tt).
Proof. exact gen_file_save_ex. Qed.

Example fsavegen_gen_file_load_ex :
  (* CRLF, a comment, an empty line, a last line without line feed, a quoted value; the mark is reset *)
  showl (gen_file_load_policy ex_path true ex_store (mk_world [(ex_path, ex_text)] []))
  = Some (false, [[T "alice"; T "data1"; T "read"]], [[T "x, y"; T "z"]], [[T "alice"; T "admin"]], ROk tt) /\
  (* the third next_line fails: the first line was delivered, the mark is kept *)
  showl (gen_file_load_policy ex_path true ex_store (mk_world [(ex_path, ex_text)] [FOk; FOk; FOk; FErr 0]))
  = Some (true, [[T "alice"; T "data1"; T "read"]], [], [], RErr (ErrIo IoOs)) /\
  (* no such file *)
  showl (gen_file_load_policy ex_path true ex_store (mk_world [] []))
  = Some (true, [], [], [], RErr (ErrIo IoOs)) /\
  (* filtered: the p filter leaves p lines out (a shorter line too) and sets the mark; a g filter that matches does not *)
  showl (gen_file_load_filtered_policy ex_path false ex_store (mk_world [(ex_path, ex_text)] []) [T "bob"] [])
  = Some (true, [], [], [[T "alice"; T "admin"]], ROk tt) /\
  showl (gen_file_load_filtered_policy ex_path true ex_store (mk_world [(ex_path, ex_text)] []) [] [T "alice"])
  = Some (false, [[T "alice"; T "data1"; T "read"]], [[T "x, y"; T "z"]], [[T "alice"; T "admin"]], ROk tt).
Proof. exact gen_file_load_ex. Qed.

Example fsavegen_gen_str_save_ex :
  gen_str_save_policy (T "old text") true ex_md
  = Some ((T "p, alice, data1, read
p, bob, data2, write
p2, carol
p2, ""x, y"", z
g, alice, admin
", true, ex_md), ROk tt) /\
  gen_str_save_policy (T "old text") true [] = Some ((T "old text", true, []), RErr (ErrModel (ModelErrP missing_p))) /\
  gen_str_clear_policy (T "old text") true = Some (([], false), ROk tt) /\
  gen_str_add_policy (T "old text") true (T "p") (T "p") [T "a"] = Some ((T "old text", true), RErr not_implemented) /\
  gen_file_remove_filtered_policy ex_path true (T "p") (T "p") 0 [T "a"] = Some ((ex_path, true), ROk true).
Proof. exact gen_str_save_ex. Qed.
