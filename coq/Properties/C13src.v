(* C13 (RBAC queries agree with enforcement) stated about the TRANSLATED SOURCE.
   Source files behind the functions below (Gallina regenerated from the Rust text on every run):
     genq_get_implicit_roles_for_user, genq_get_implicit_permissions_for_user, genq_get_roles_for_user,
     genq_get_users_for_role, genq_has_role_for_user, genq_get_implicit_users_for_permission   src/rbac_api.rs
     genq_get_policy, genq_get_grouping_policy, genq_get_all_subjects, genq_get_all_roles        src/management_api.rs
                                                                              (Gen/QueryGen.v, part 13)
     src_enforce                                          src/enforcer.rs (Gen/EnforceGen.v)
     src_step / src_run_ops                               src/internal_api.rs, src/rbac_api.rs, src/management_api.rs,
                                                          src/enforcer.rs (Proofs/SrcStepP.v)
     src_ask2                                             Proofs/SrcAskP.v (all of the above as one query interface)
   Same quantifiers and hypotheses as Properties/C13.v plus what part 13 needs: `q_ord_ok ord` (EVERY iteration order
   of the hash containers) and fuel above the size of the role graph (the source's work-list loop has no bound).
   The listings come out of a HashSet / in visiting order, which is not the model's order: they are characterised by
   their members, and where C13 uses a listing only through existsb / In, the statement is about the source's list.
   `nonempty_names`, `shallow`, `links_mirror`, `quiet`, `rbac_eq` are conditions on the STATE (as in C13.v).
   Statements only; proofs in Proofs/C13SrcP.v (Proofs/C13P.v composed with PinChecks/PcQueryGen.v, SrcStepP.v). *)
From CV Require Import Model.Base Model.Effector Model.RoleGraph Model.PathMatch Model.Expr
     Model.Enforce Model.Engine Model.SpecC13.
From CV Require Import Gen.RustStr Gen.RustVec Gen.RustIter Gen.QueryRt Gen.QueryGen.
From CV Require Import Proofs.BaseP Proofs.RoleGraphP Proofs.C13P Proofs.C18P Proofs.QueryP PinChecks.PcQueryGen.
From CV Require Import Proofs.SrcStepP Proofs.SrcQueryP Proofs.SrcAskP Proofs.C13SrcP.
From Coq Require Import Relations.

(* the two tables the statements speak about are what the translated getters return *)
Theorem c13_src_p_rules : forall s, genq_get_policy s = Some (p_rules s).
Proof. exact src_p_rules. Qed.
Print Assumptions c13_src_p_rules.
Theorem c13_src_g_rules : forall s, genq_get_grouping_policy s = Some (g_rules s).
Proof. exact src_g_rules. Qed.
Print Assumptions c13_src_g_rules.

(* ---------- (1) implicit roles = transitive closure of the links (c13_implicit_roles, _nodup) ---------- *)
Theorem c13_src_implicit_roles : forall ord fuel s u d,
  q_ord_ok ord -> wf (f_rm (e_fs s)) -> S (S (graph_size (f_rm (e_fs s)) d)) <= fuel ->
  exists l, genq_get_implicit_roles_for_user ord fuel s u d = Some l /\ NoDup l /\
            forall r, In r l <-> clos_trans text (Edge (f_rm (e_fs s)) d) u r.
Proof. exact src_c13_implicit_roles. Qed.
Print Assumptions c13_src_implicit_roles.

(* ---------- (2) implicit permissions (c13_implicit_perms) ---------- *)
Theorem c13_src_implicit_perms : forall ord fuel s u l rule,
  q_ord_ok ord -> S (S (graph_size (f_rm (e_fs s)) None)) <= fuel ->
  wf (f_rm (e_fs s)) -> (forall r, In r (p_rules s) -> r <> []) ->
  nonempty_names s u None = true ->
  genq_get_implicit_permissions_for_user ord fuel s u None = Some l ->
  (In rule l <-> In rule (p_rules s) /\
                 (hd [] rule = u \/ clos_trans text (Edge (f_rm (e_fs s)) None) u (hd [] rule))).
Proof. exact src_c13_implicit_perms. Qed.
Print Assumptions c13_src_implicit_perms.

(* ---------- (3) a request is granted iff it is an implicit permission (c13_enforce_eq_perm, _iff_perm, _dom) -- *)
Theorem c13_src_enforce_eq_perm : forall ptab ord fuel s u o a,
  q_ord_ok ord -> S (S (graph_size (f_rm (e_fs s)) None)) <= fuel ->
  rbac_eq s = true -> p_arityb 3 s = true ->
  wf (f_rm (e_fs s)) -> shallow (f_rm_max (e_fs s)) (f_rm (e_fs s)) None ->
  nonempty_names s u None = true ->
  exists l, genq_get_implicit_permissions_for_user ord fuel s u None = Some l /\
    src_enforce ptab s [VStr u; VStr o; VStr a] = Ok (existsb (fun rule => reqb (tl rule) [o; a]) l).
Proof. exact src_c13_enforce_eq_perm. Qed.
Print Assumptions c13_src_enforce_eq_perm.

Theorem c13_src_enforce_iff_perm : forall ptab ord fuel s u o a l,
  q_ord_ok ord -> S (S (graph_size (f_rm (e_fs s)) None)) <= fuel ->
  rbac_eq s = true -> p_arityb 3 s = true ->
  wf (f_rm (e_fs s)) -> shallow (f_rm_max (e_fs s)) (f_rm (e_fs s)) None ->
  nonempty_names s u None = true ->
  genq_get_implicit_permissions_for_user ord fuel s u None = Some l ->
  (src_enforce ptab s [VStr u; VStr o; VStr a] = Ok true <->
   exists rule, In rule l /\ tl rule = [o; a]) /\
  (src_enforce ptab s [VStr u; VStr o; VStr a] = Ok false <->
   ~ exists rule, In rule l /\ tl rule = [o; a]).
Proof. exact src_c13_enforce_iff_perm. Qed.
Print Assumptions c13_src_enforce_iff_perm.

Theorem c13_src_enforce_eq_perm_dom : forall ptab ord fuel s u d o a,
  q_ord_ok ord -> S (S (graph_size (f_rm (e_fs s)) (Some d))) <= fuel ->
  rbac_dom_eq s = true -> p_arityb 4 s = true ->
  wf (f_rm (e_fs s)) -> shallow (f_rm_max (e_fs s)) (f_rm (e_fs s)) (Some d) ->
  nonempty_names s u (Some d) = true -> d <> [] ->
  exists l, genq_get_implicit_permissions_for_user ord fuel s u (Some d) = Some l /\
    src_enforce ptab s [VStr u; VStr d; VStr o; VStr a] =
    Ok (existsb (fun rule => reqb (tl rule) [d; o; a]) l).
Proof. exact src_c13_enforce_eq_perm_dom. Qed.
Print Assumptions c13_src_enforce_eq_perm_dom.

(* everything together, for every state the translated source reaches from a state in scope by an arbitrary
   management history (c13_after_any_history) *)
Theorem c13_src_after_any_history : forall ptab ord fuel s0 ops u o a,
  q_ord_ok ord ->
  rbac_eq s0 = true -> rm_wf s0 -> forallb is_mgmt ops = true ->
  let s := src_run_ops s0 ops in
  S (S (graph_size (f_rm (e_fs s)) None)) <= fuel ->
  p_arityb 3 s = true -> shallow (f_rm_max (e_fs s)) (f_rm (e_fs s)) None ->
  nonempty_names s u None = true ->
  (exists lr, genq_get_implicit_roles_for_user ord fuel s u None = Some lr /\ NoDup lr /\
              forall r, In r lr <-> clos_trans text (Edge (f_rm (e_fs s)) None) u r) /\
  (forall r x, exists lr lu, genq_get_roles_for_user ord s x None = Some lr /\
                             genq_get_users_for_role ord s r None = Some lu /\ (In r lr <-> In x lu)) /\
  exists l, genq_get_implicit_permissions_for_user ord fuel s u None = Some l /\
    (forall rule, In rule l <-> In rule (p_rules s) /\
       (hd [] rule = u \/ clos_trans text (Edge (f_rm (e_fs s)) None) u (hd [] rule))) /\
    src_enforce ptab s [VStr u; VStr o; VStr a] = Ok (existsb (fun rule => reqb (tl rule) [o; a]) l).
Proof. exact src_c13_after_any_history. Qed.
Print Assumptions c13_src_after_any_history.

(* ---------- (4) users-for-role and roles-for-user are inverse views (c13_roles_users_inverse, c13_has_role) --- *)
Theorem c13_src_roles_users_inverse : forall ord s u r d, q_ord_ok ord -> g_handle_wf s ->
  exists lr lu, genq_get_roles_for_user ord s u d = Some lr /\ genq_get_users_for_role ord s r d = Some lu /\
                (In r lr <-> In u lu).
Proof. exact src_c13_roles_users_inverse. Qed.
Print Assumptions c13_src_roles_users_inverse.

Theorem c13_src_has_role : forall ptab ord fuel s u r d, q_ord_ok ord ->
  (src_ask2 ptab ord fuel s (QHasRole u r d) = AnsBool true <->
   exists lr, genq_get_roles_for_user ord s u d = Some lr /\ In r lr).
Proof. exact src_c13_ask2_has_role. Qed.
Print Assumptions c13_src_has_role.

(* ---------- (5) delete_user / delete_permission (c13_delete_user, c13_deleted_user_powerless,
   c13_deleted_permission_denied) ---------- *)
Theorem c13_src_delete_user : forall s n s' b,
  src_step s (ORbac (RDeleteUser n)) = (s', Ok b) -> quiet s ->
  st_frame s s' /\
  genq_get_grouping_policy s' = Some (filter (fun r => negb (fsel 0 [n] r)) (g_rules s)) /\
  genq_get_policy s' = Some (filter (fun r => negb (fsel 0 [n] r)) (p_rules s)) /\
  (forall sec pt, ~ (sec = s_g /\ pt = s_g) -> ~ (sec = s_p /\ pt = s_p) ->
     m_get_policy (e_model s') sec pt = m_get_policy (e_model s) sec pt).
Proof. exact src_c13_delete_user. Qed.
Print Assumptions c13_src_delete_user.

Theorem c13_src_deleted_user_powerless : forall ptab ord fuel s n s' b,
  q_ord_ok ord ->
  src_step s (ORbac (RDeleteUser n)) = (s', Ok b) -> quiet s -> n <> [] ->
  rbac_eq s = true -> p_arityb 3 s = true ->
  wf (f_rm (e_fs s')) -> links_mirror s' ->
  S (S (graph_size (f_rm (e_fs s')) None)) <= fuel ->
  rbac_eq s' = true /\ p_arityb 3 s' = true /\
  genq_get_roles_for_user ord s' n None = Some [] /\
  genq_get_implicit_roles_for_user ord fuel s' n None = Some [] /\
  forall o a, src_enforce ptab s' [VStr n; VStr o; VStr a] = Ok false.
Proof. exact src_c13_deleted_user_powerless. Qed.
Print Assumptions c13_src_deleted_user_powerless.

Theorem c13_src_deleted_permission_denied : forall ptab s o a s' b,
  src_step s (ORbac (RDeletePermission [o; a])) = (s', Ok b) -> quiet s ->
  (o <> [] \/ a <> []) ->
  rbac_eq s = true -> p_arityb 3 s = true ->
  rbac_eq s' = true /\ p_arityb 3 s' = true /\
  forall u, src_enforce ptab s' [VStr u; VStr o; VStr a] = Ok false.
Proof. exact src_c13_deleted_permission_denied. Qed.
Print Assumptions c13_src_deleted_permission_denied.

(* ---------- (6) implicit users (c13_implicit_users) ---------- *)
Theorem c13_src_implicit_users : forall ptab ord s perm res,
  q_ord_ok ord ->
  genq_get_implicit_users_for_permission ptab ord s perm = Some res ->
  exists subjects roles,
    genq_get_all_subjects s = Some subjects /\
    genq_get_all_roles s = Some roles /\
    NoDup res /\
    forall u, In u res <->
      ((In u subjects \/ exists r, In r roles /\ In u (get_users (f_rm (e_fs s)) r None)) /\
       ~ In u roles /\
       src_enforce ptab s (map VStr (u :: perm)) = Ok true).
Proof. exact src_c13_implicit_users. Qed.
Print Assumptions c13_src_implicit_users.

(* ---------- non-vacuity: ex1 of Proofs/C13P.v (a reachable state with a diamond and a cycle), reversed iteration
   order, fuel 6, through the generated code ---------- *)
Example c13_src_ex_hyps :
  q_ord_ok (@rev text) /\ rm_wf ex1 /\ S (S (graph_size (f_rm (e_fs ex1)) None)) <= 6 /\
  rbac_eq ex1 = true /\ p_arityb 3 ex1 = true /\
  shallowb (f_rm_max (e_fs ex1)) (f_rm (e_fs ex1)) None = true /\
  nonempty_names ex1 (T "alice") None = true.
Proof. exact src_c13_ex_hyps. Qed.
Example c13_src_ex_reachable : ex1 = src_run_ops ex0 ex_ops /\ forallb is_mgmt ex_ops = true /\ rbac_eq ex0 = true.
Proof. exact src_c13_ex_reachable. Qed.
Example c13_src_ex_answers :
  genq_get_implicit_roles_for_user (@rev text) 6 ex1 (T "alice") None = Some [T "r3"; T "r2"; T "r1"] /\
  option_map (@length rule) (genq_get_implicit_permissions_for_user (@rev text) 6 ex1 (T "alice") None) = Some 3 /\
  src_enforce ptab0 ex1 [VStr (T "alice"); VStr (T "data"); VStr (T "read")] = Ok true /\
  src_enforce ptab0 ex1 [VStr (T "bob"); VStr (T "data"); VStr (T "read")] = Ok false /\
  genq_get_users_for_role (@rev text) ex1 (T "r3") None = Some [T "r1"; T "r2"].
Proof. vm_compute. repeat split; reflexivity. Qed.
Example c13_src_ex_delete_user :
  src_step ex1 (ORbac (RDeleteUser (T "alice"))) = (ex_del_user, Ok true) /\
  quiet_adapter ex1 = true /\ links_mirrorb ex_del_user = true /\
  genq_get_roles_for_user (@rev text) ex_del_user (T "alice") None = Some [] /\
  genq_get_implicit_roles_for_user (@rev text) 6 ex_del_user (T "alice") None = Some [] /\
  src_enforce ptab0 ex_del_user [VStr (T "alice"); VStr (T "data"); VStr (T "read")] = Ok false.
Proof. vm_compute. repeat split; reflexivity. Qed.
