(* C12 — Filtered loading loads exactly the matching subset.
   Only statements closed by `exact`; proofs live in Proofs/C12P.v.

   Vocabulary (Model/SpecC12.v, Model/SpecC09.v, Proofs/C12P.v):
   - `keeps f rule`: for every i, f[i] = "" or rule[i] exists and equals f[i];
   - `filter_spec fp fg md`: md with every policy list of section p filtered by
     `keeps fp`, of section g by `keeps fg`; nothing else changes;
   - `stored_lines a`: the lines of a bundled adapter in memory format
     (`sec :: ptype :: fields`; for the text adapters sec = first character of
     the ptype, `conv`);
   - `line_out fp fg ln`: the stored line ln is rejected by the filter of its
     section (a filter value addressing a field beyond the end of the line
     rejects it -- on all three adapters since the file adapter's repair);
   - `EmptyPG md`: every policy list of sections p and g is empty (true of
     `m_clear_policy md`);  `KeysND md`: keys of p and g pairwise distinct;
     `AllKnown md L`: every line of section p/g in L names a definition of md. *)
From CV Require Import Model.Base Model.Effector Model.RoleGraph Model.PathMatch
     Model.Expr Model.Enforce Model.Engine Model.SpecC09 Model.SpecC12.
From CV Require Import Proofs.BaseP Proofs.C09P Proofs.C12P.

(* ---------- (5) the specification means what it says ---------- *)
Theorem c12_keeps_spec : forall f r,
  keeps f r = true <->
  forall i v, nth_error f i = Some v -> v = [] \/ nth_error r i = Some v.
Proof. exact keeps_spec. Qed.
Print Assumptions c12_keeps_spec.
(* every definition keeps exactly the passing rules, in order; definitions
   exist in the filtered model iff they exist in the original *)
Theorem c12_filter_spec_policy : forall fp fg md sec pt,
  mpol (filter_spec fp fg md) sec pt =
  option_map (filter (keeps (sec_filter fp fg sec))) (mpol md sec pt).
Proof. exact mpol_filter_spec. Qed.
Print Assumptions c12_filter_spec_policy.
Theorem c12_filter_spec_get_all : forall fp fg md,
  m_get_all (filter_spec fp fg md) s_p =
    filter (fun ln => keeps fp (skipn 2 ln)) (m_get_all md s_p) /\
  m_get_all (filter_spec fp fg md) s_g =
    filter (fun ln => keeps fg (skipn 2 ln)) (m_get_all md s_g).
Proof. exact m_get_all_filter_spec. Qed.

(* the loaders' test (one function for all three adapters) is the
   specification's test *)
Theorem c12_loader_test : forall f r, get_filtered_out f r = negb (keeps f r).
Proof. exact get_filtered_out_keeps. Qed.
Print Assumptions c12_loader_test.

(* ---------- (6) filtered load = specification applied to the full load ---------- *)
(* for all three adapters, every list of stored lines (duplicates and unknown
   policy types included), every filter and every starting model *)
Theorem c12_load_filtered_general : forall a L fp fg md,
  stored_lines a = Some L ->
  snd (fst (ad0_load_filtered a fp fg (filter_spec fp fg md))) =
    filter_spec fp fg (snd (fst (ad0_load a md))) /\
  snd (ad0_load_filtered a fp fg (filter_spec fp fg md)) = LROk /\
  ad_is_filtered (fst (fst (ad0_load_filtered a fp fg (filter_spec fp fg md)))) =
    existsb (line_out fp fg) L /\
  stored_lines (fst (fst (ad0_load_filtered a fp fg (filter_spec fp fg md)))) = Some L.
Proof. exact ad0_load_filtered_spec. Qed.
Print Assumptions c12_load_filtered_general.

(* the statement for the emptied model (what load_filtered_policy does):
   model = filter_spec (full load); no error; (7) the mark is set iff some
   stored line of section p/g was rejected; the store is untouched *)
Theorem c12_load_filtered : forall a L fp fg md0,
  stored_lines a = Some L -> EmptyPG md0 ->
  snd (fst (ad0_load_filtered a fp fg md0)) = filter_spec fp fg (snd (fst (ad0_load a md0))) /\
  snd (ad0_load_filtered a fp fg md0) = LROk /\
  ad_is_filtered (fst (fst (ad0_load_filtered a fp fg md0))) = existsb (line_out fp fg) L /\
  stored_lines (fst (fst (ad0_load_filtered a fp fg md0))) = Some L.
Proof. exact load_filtered_is_filter_spec. Qed.
Print Assumptions c12_load_filtered.
Theorem c12_cleared_is_empty : forall md, EmptyPG (m_clear_policy md).
Proof. exact cleared_is_empty. Qed.

(* all three bundled adapters are total: never a panic, never an error *)
Theorem c12_load_filtered_total : forall a fp fg md, is_bundled a = true ->
  snd (ad0_load_filtered a fp fg md) = LROk.
Proof. exact load_filtered_total. Qed.
Print Assumptions c12_load_filtered_total.

(* ---------- (7) the is_filtered mark ---------- *)
Theorem c12_flag_meaning : forall fp fg L,
  existsb (line_out fp fg) L = true <->
  exists s p f, In (s :: p :: f) L /\ is_pg s = true /\ keeps (sec_filter fp fg s) f = false.
Proof. exact flag_meaning. Qed.
(* when every stored line names a known definition: mark = "the filtered policy
   differs from the full policy" *)
Theorem c12_flag_iff_rule_missing : forall fp fg L md0,
  EmptyPG md0 -> KeysND md0 -> AllKnown md0 L ->
  existsb (line_out fp fg) L =
  negb (rules_eqb (m_get_all (filter_spec fp fg (full_of L md0)) s_p ++
                   m_get_all (filter_spec fp fg (full_of L md0)) s_g)
                  (m_get_all (full_of L md0) s_p ++ m_get_all (full_of L md0) s_g)).
Proof. exact flag_iff_rule_missing. Qed.
Print Assumptions c12_flag_iff_rule_missing.

(* the executable predicate accepts the model's own observations *)
Theorem c12_pred_holds : forall a L fp fg md0,
  stored_lines a = Some L ->
  EmptyPG md0 -> KeysND md0 -> AllKnown md0 L ->
  c12_pred fp fg
    (m_get_all (snd (fst (ad0_load a md0))) s_p) (m_get_all (snd (fst (ad0_load a md0))) s_g)
    (m_get_all (snd (fst (ad0_load_filtered a fp fg md0))) s_p)
    (m_get_all (snd (fst (ad0_load_filtered a fp fg md0))) s_g)
    (ad_is_filtered (fst (fst (ad0_load_filtered a fp fg md0)))) = true.
Proof. exact c12_pred_model. Qed.
Print Assumptions c12_pred_holds.

(* through the public calls: the policy after load_filtered_policy is the
   filter of the policy after load_policy (every section, every ptype),
   is_filtered() reports the mark, the store is untouched, no panic *)
Theorem c12_enforcer_load_filtered : forall ptab s L fp fg,
  stored_lines (e_adapter s) = Some L ->
  let s' := fst (step s (OLoadFiltered fp fg)) in
  (forall sec pt, m_get_policy (e_model s') sec pt =
                  filter (keeps (sec_filter fp fg sec))
                         (m_get_policy (e_model (fst (step s OLoad))) sec pt)) /\
  ask ptab s' QIsFiltered = AnsBool (existsb (line_out fp fg) L) /\
  stored_lines (e_adapter s') = Some L /\
  snd (step s (OLoadFiltered fp fg)) <> Panic.
Proof. exact step_load_filtered_spec. Qed.
Print Assumptions c12_enforcer_load_filtered.
(* a full load clears the mark *)
Theorem c12_full_load_resets : forall ptab s,
  is_bundled (e_adapter s) = true ->
  ask ptab (fst (step s OLoad)) QIsFiltered = AnsBool false.
Proof. exact full_load_resets_flag. Qed.
Print Assumptions c12_full_load_resets.

(* ---------- (8) a filtered enforcer cannot overwrite the store ---------- *)
Theorem c12_save_guard : forall s, ad_is_filtered (e_adapter s) = true -> step s OSave = (s, Panic).
Proof. exact save_guard. Qed.
Print Assumptions c12_save_guard.
(* the constructor performs no load on an adapter already marked filtered *)
Theorem c12_constructor_skips_load : forall d a w, ad_is_filtered a = true ->
  e_model (fst (new_enforcer d a w)) = d_model d /\
  e_adapter (fst (new_enforcer d a w)) = a /\
  snd (new_enforcer d a w) = lerr_out (snd (new_raw d a w)) true.
Proof. exact constructor_skips_load. Qed.
Print Assumptions c12_constructor_skips_load.

(* ---------- non-vacuity ---------- *)
(* p (3 fields), p2 (2 fields) and g rules in all three adapters; filters with
   empty, matching, non-matching values, a gap, and one longer than the p2 rules *)
Example c12_ex_hyps : all_known_b c12_md0 c12_mem = true /\ keys_ok_b c12_md0 = true.
Proof. exact ex_c12_hyps. Qed.
Example c12_ex_stored : map stored_lines c12_adapters = [Some c12_mem; Some c12_mem; Some c12_mem].
Proof. exact ex_c12_stored. Qed.
Example c12_ex_pred :
  forallb (fun a => forallb (c12_check a) c12_filters) c12_adapters = true.
Proof. exact ex_c12_pred_all. Qed.
Example c12_ex_loaded :
  forallb (fun a =>
    let r := ad0_load_filtered a (L [""; "data2"]%string) (L ["bob"%string]) c12_md0 in
    rules_eqb (m_get_policy (snd (fst r)) s_p (T "p"))
              [L ["bob";"data2";"write"]; L ["alice";"data2";"read"]]%string &&
    rules_eqb (m_get_policy (snd (fst r)) s_p (T "p2")) [] &&
    rules_eqb (m_get_policy (snd (fst r)) s_g (T "g")) [L ["bob";"user"]%string] &&
    ad_is_filtered (fst (fst r))) c12_adapters = true.
Proof. exact ex_c12_loaded. Qed.
Example c12_ex_empty_filter :
  forallb (fun a =>
    let r := ad0_load_filtered a [] [] c12_md0 in
    negb (ad_is_filtered (fst (fst r))) &&
    Nat.eqb (length (m_get_all (snd (fst r)) s_p ++ m_get_all (snd (fst r)) s_g)) 6) c12_adapters = true.
Proof. exact ex_c12_empty_filter. Qed.
(* the repaired behaviour: a filter longer than a rule (value "read" at index 2,
   the p2 rules have two fields).  On all three adapters, the file adapter
   included, the short rule is simply left out: no panic, result Ok, mark set *)
Example c12_ex_long_filter :
  let fp := L ["alice";"";"read"]%string in
  forallb (fun a =>
    let r := ad0_load_filtered a fp [] c12_md0 in
    match snd r with LROk => true | _ => false end &&
    rules_eqb (m_get_policy (snd (fst r)) s_p (T "p2")) [] &&
    rules_eqb (m_get_policy (snd (fst r)) s_p (T "p"))
              [L ["alice";"data1";"read"]; L ["alice";"data2";"read"]]%string &&
    ad_is_filtered (fst (fst r))) c12_adapters = true /\
  m_get_policy (snd (fst (ad0_load (AFile c12_txt false) c12_md0))) s_p (T "p2") =
    [L ["alice";"write"]%string].
Proof. exact ex_c12_long_filter. Qed.
(* AllKnown is necessary for "mark = some rule missing": a rejected line of an
   unknown ptype sets the mark although loaded = full *)
Example c12_flag_needs_all_known :
  let a := AMemory c12_unknown false in
  let fp := L ["alice"%string] in
  let full := snd (fst (ad0_load a c12_md0)) in
  let r := ad0_load_filtered a fp [] c12_md0 in
  all_known_b c12_md0 c12_unknown = false /\
  m_get_all (snd (fst r)) s_p = m_get_all full s_p /\
  m_get_all (snd (fst r)) s_g = m_get_all full s_g /\
  ad_is_filtered (fst (fst r)) = true /\
  c12_flag (m_get_all full s_p) (m_get_all full s_g)
           (m_get_all (snd (fst r)) s_p) (m_get_all (snd (fst r)) s_g)
           (ad_is_filtered (fst (fst r))) = false.
Proof. exact flag_needs_all_known. Qed.
(* filtered load, then save panics and leaves the store; a full load re-enables save *)
Example c12_ex_save_guard :
  forallb (fun a =>
    let s := upd_adapter ex_s0 a in
    match step s (OLoadFiltered (L ["alice"%string]) []) with
    | (s1, Ok true) =>
      ad_is_filtered (e_adapter s1) &&
      match step s1 OSave with
      | (s2, Panic) =>
        match stored_lines (e_adapter s2) with Some l => rules_eqb l c12_mem | None => false end
      | _ => false end &&
      negb (ad_is_filtered (e_adapter (fst (step s1 OLoad)))) &&
      match snd (step (fst (step s1 OLoad)) OSave) with Ok true => true | _ => false end
    | _ => false end) c12_adapters = true.
Proof. exact ex_c12_save_guard. Qed.
Example c12_ex_constructor :
  let r := new_enforcer ex_def (AMemory c12_mem true) false in
  snd r = Ok true /\ m_get_all (e_model (fst r)) s_p = [] /\ m_get_all (e_model (fst r)) s_g = [] /\
  snd (step (fst r) OSave) = Panic.
Proof. exact ex_c12_constructor. Qed.
