(* C06 — Enforcement is total and fails closed on request-controlled input.
   Only statements closed by `exact`; proofs live in Proofs/C06P.v.

   Totality.  Every exported function of the model is a Gallina function and
   therefore total: "returns a decision or an error, never hangs" holds of the
   model by construction.  What the theorems below add is that the outcome
   class `Panic` (resp. `EPanic` inside the evaluator) is unreachable from
   request-controlled input, and that errors never turn into grants.
   NOT covered by any theorem: termination and panic-freedom of the `regex`
   crate and of rhai themselves (third-party; the model restates their
   measured behaviour).  That part rests on the differential run under
   catch_unwind + watchdog only. *)
From CV Require Import Model.Base Model.Effector Model.RoleGraph Model.PathMatch Model.Expr
     Model.Enforce Model.Engine Model.SpecC15.
From CV Require Import Proofs.EnforceP Proofs.C06P.

(* ------------------------------------------------------------------ *)
(* 1. No registered function panics                                      *)

(* keyMatch / keyGet (after the repair: prefix comparison instead of slicing
   the key at a byte offset of the pattern) return a value for all texts *)
Theorem c06_builtin_no_panic : forall f ss r, builtin f ss = Some r -> r <> EPanic.
Proof. exact builtin_no_panic. Qed.
Print Assumptions c06_builtin_no_panic.

(* user functions, role functions g(..) and built-ins: whenever a function is
   found for the argument types it returns a value *)
Theorem c06_call_fn_no_panic : forall fs f args r, call_fn fs f args = Some r -> r <> EPanic.
Proof. exact call_fn_no_panic. Qed.
Print Assumptions c06_call_fn_no_panic.


(* the matcher evaluator: for every function table state, every parse table
   (whatever the parser returns for the text handed to eval()), every scope
   (= every request and policy values, of any type), every expression *)
Theorem c06_eval_no_panic : forall fs ptab sc fuel e, eval (call_fn fs) ptab sc fuel e <> EPanic.
Proof. exact eval_no_panic. Qed.
Print Assumptions c06_eval_no_panic.

(* ------------------------------------------------------------------ *)
(* 2. enforce never panics, for ANY request list (any arity, any values of
      any type, any bytes).  The one remaining Panic is an effect text the
      effector does not support: model side, fixed at load time.           *)

Theorem c06_no_panic : forall ptab en md mx fs rk pk ek mk et rv,
  (forall e_ast, get_ast md s_e ek = Some e_ast -> parse_erule (a_value e_ast) <> None) ->
  enforce_core ptab en md mx fs rk pk ek mk et rv <> Panic.
Proof. exact enforce_no_panic. Qed.
Print Assumptions c06_no_panic.

(* the hypothesis is necessary: with an unsupported effect text every
   well-formed request panics (DefaultEffector's `panic!("unsupported effect")`) *)
Theorem c06_panic_needs_effect : forall ptab md mx fs rk pk ek mk et rv r_ast p_ast m_ast e_ast,
  get_ast md s_r rk = Some r_ast -> get_ast md s_p pk = Some p_ast ->
  get_ast md s_m mk = Some m_ast -> get_ast md s_e ek = Some e_ast ->
  length (a_tokens r_ast) = length rv ->
  parse_erule (a_value e_ast) = None ->
  enforce_core ptab true md mx fs rk pk ek mk et rv = Panic.
Proof. exact enforce_panics_on_bad_effect. Qed.
Print Assumptions c06_panic_needs_effect.

(* for an enforcer state: plain and context-qualified requests *)
Theorem c06_state_no_panic : forall ptab s rv,
  effect_supported s s_e -> enforce ptab s rv <> Panic.
Proof. exact state_enforce_no_panic. Qed.
Print Assumptions c06_state_no_panic.
Theorem c06_state_ctx_no_panic : forall ptab s k rv,
  effect_supported s (s_e ++ k) -> enforce_with_ctx ptab s k rv <> Panic.
Proof. exact state_enforce_ctx_no_panic. Qed.
Print Assumptions c06_state_ctx_no_panic.

(* ------------------------------------------------------------------ *)
(* 3. Wrong arity is a request error (with the enforcer enabled)          *)

Theorem c06_arity : forall ptab md mx fs rk pk ek mk et rv r_ast p_ast m_ast e_ast,
  get_ast md s_r rk = Some r_ast -> get_ast md s_p pk = Some p_ast ->
  get_ast md s_m mk = Some m_ast -> get_ast md s_e ek = Some e_ast ->
  length (a_tokens r_ast) <> length rv ->
  enforce_core ptab true md mx fs rk pk ek mk et rv = Err ERequest.
Proof. exact enforce_arity. Qed.
Print Assumptions c06_arity.

(* CAVEAT: a DISABLED enforcer grants before any check, also a request of the
   wrong arity (enforcer.rs: `if !self.enabled { return Ok(true) }`) *)
Theorem c06_disabled_grants_everything : forall ptab md mx fs rk pk ek mk et rv,
  enforce_core ptab false md mx fs rk pk ek mk et rv = Ok true.
Proof. exact enforce_disabled. Qed.
Print Assumptions c06_disabled_grants_everything.

(* a missing r/p/e/m section is a model error, never a decision *)
Theorem c06_missing_section : forall ptab md mx fs rk pk ek mk et rv,
  (get_ast md s_r rk = None \/ get_ast md s_p pk = None \/
   get_ast md s_m mk = None \/ get_ast md s_e ek = None) ->
  enforce_core ptab true md mx fs rk pk ek mk et rv = Err EModel.
Proof. exact enforce_missing_section. Qed.
Print Assumptions c06_missing_section.

(* ------------------------------------------------------------------ *)
(* 4. Errors never grant                                                  *)

(* If the rules before `bad` evaluate to effects that do not yet complete the
   effect stream (`forced er effs = None`) and evaluating `bad` fails with
   class c (malformed rule, failing matcher), the answer is Err c — whatever
   comes after, in particular never Ok true. *)
Theorem c06_error_never_grants :
  forall ptab md mx fs rk pk ek mk et rv r_ast p_ast m_ast e_ast er m good bad rest effs c,
  get_ast md s_r rk = Some r_ast -> get_ast md s_p pk = Some p_ast ->
  get_ast md s_m mk = Some m_ast -> get_ast md s_e ek = Some e_ast ->
  parse_erule (a_value e_ast) = Some er -> assoc mk mx = Some m ->
  length (a_tokens r_ast) = length rv ->
  a_policy p_ast = good ++ bad :: rest ->
  map (rule_outcome ptab fs m et (a_tokens p_ast) (bind (a_tokens r_ast) rv [])) good = map Ok effs ->
  forced er effs = None ->
  rule_outcome ptab fs m et (a_tokens p_ast) (bind (a_tokens r_ast) rv []) bad = Err c ->
  enforce_core ptab true md mx fs rk pk ek mk et rv = Err c.
Proof. exact enforce_error_reached. Qed.
Print Assumptions c06_error_never_grants.

(* the malformed stored rule (wrong number of values) *)
Theorem c06_malformed_rule :
  forall ptab md mx fs rk pk ek mk et rv r_ast p_ast m_ast e_ast er m good bad rest effs,
  get_ast md s_r rk = Some r_ast -> get_ast md s_p pk = Some p_ast ->
  get_ast md s_m mk = Some m_ast -> get_ast md s_e ek = Some e_ast ->
  parse_erule (a_value e_ast) = Some er -> assoc mk mx = Some m ->
  length (a_tokens r_ast) = length rv ->
  a_policy p_ast = good ++ bad :: rest ->
  map (rule_outcome ptab fs m et (a_tokens p_ast) (bind (a_tokens r_ast) rv [])) good = map Ok effs ->
  forced er effs = None ->
  length (a_tokens p_ast) <> length bad ->
  enforce_core ptab true md mx fs rk pk ek mk et rv = Err EPolicy.
Proof. exact enforce_malformed_rule. Qed.
Print Assumptions c06_malformed_rule.

(* the failing matcher evaluation, as a per-rule outcome *)
Theorem c06_matcher_error_outcome : forall ptab fs m et ptoks sc0 pvals c,
  length ptoks = length pvals ->
  eval_matcher ptab fs m (bind ptoks (map VStr pvals) sc0) = Err c ->
  rule_outcome ptab fs m et ptoks sc0 pvals = Err c.
Proof. exact rule_outcome_matcher_error. Qed.
Print Assumptions c06_matcher_error_outcome.

(* with an empty policy the single evaluation's error is the answer *)
Theorem c06_error_empty_policy :
  forall ptab md mx fs rk pk ek mk et rv r_ast p_ast m_ast e_ast er m c,
  get_ast md s_r rk = Some r_ast -> get_ast md s_p pk = Some p_ast ->
  get_ast md s_m mk = Some m_ast -> get_ast md s_e ek = Some e_ast ->
  parse_erule (a_value e_ast) = Some er -> assoc mk mx = Some m ->
  length (a_tokens r_ast) = length rv ->
  a_policy p_ast = [] ->
  eval_matcher ptab fs m (bind (a_tokens p_ast) (map (fun _ => VStr []) (a_tokens p_ast))
                               (bind (a_tokens r_ast) rv [])) = Err c ->
  enforce_core ptab true md mx fs rk pk ek mk et rv = Err c.
Proof. exact enforce_error_empty_policy. Qed.
Print Assumptions c06_error_empty_policy.

(* the combination function, both directions: the result is Err c exactly when
   an Err c is reached before the effects force a result *)
Theorem c06_combine_error_reached : forall r c rest effs seen,
  forced r (seen ++ effs) = None ->
  perm_combine r seen (map Ok effs ++ Err c :: rest) = Err c.
Proof. intros. apply perm_combine_err_reached. assumption. Qed.
Print Assumptions c06_combine_error_reached.
Theorem c06_combine_error_inv : forall r c outs seen,
  forced r seen = None -> perm_combine r seen outs = Err c ->
  exists effs rest, outs = map Ok effs ++ Err c :: rest /\ forced r (seen ++ effs) = None.
Proof. exact perm_combine_err. Qed.
Print Assumptions c06_combine_error_inv.

(* contrapositive, user-readable: a decision (a grant in particular) comes from
   a prefix of rules that ALL evaluated without error, whose effects force it
   or, at the very end of the list, declaratively yield it *)
Theorem c06_decision_has_clean_prefix : forall r outs seen b,
  perm_combine r seen outs = Ok b ->
  exists effs rest, outs = map Ok effs ++ rest /\
    (forced r (seen ++ effs) = Some b \/ (rest = [] /\ decl r (seen ++ effs) = b)).
Proof. exact grant_has_clean_prefix. Qed.
Print Assumptions c06_decision_has_clean_prefix.

(* ------------------------------------------------------------------ *)
(* 5. The regex-based matchers are defined on every key (the request side)
      for every pattern of the documented grammar (the policy side)         *)
Theorem c06_matchers_defined : forall p, grammar p = true -> forall k v,
  key_match2 k (render2 p) <> None /\ key_match3 k (render3 p) <> None /\
  key_match4 k (render3 p) <> None /\ key_match5 k (render3 p) <> None /\
  key_get2 k (render2 p) v <> None /\ key_get3 k (render3 p) v <> None.
Proof. exact matchers_defined. Qed.
Print Assumptions c06_matchers_defined.

(* ------------------------------------------------------------------ *)
(* 6. The executable predicate holds of the model's outcomes               *)
Theorem c06_pred_holds : forall ptab en md mx fs rk pk ek mk et rv r_ast p_ast m_ast e_ast,
  get_ast md s_r rk = Some r_ast -> get_ast md s_p pk = Some p_ast ->
  get_ast md s_m mk = Some m_ast -> get_ast md s_e ek = Some e_ast ->
  parse_erule (a_value e_ast) <> None ->
  c06_pred en (length (a_tokens r_ast)) (length rv)
           (enforce_core ptab en md mx fs rk pk ek mk et rv) = true.
Proof. exact c06_pred_model. Qed.
Print Assumptions c06_pred_holds.

(* ------------------------------------------------------------------ *)
(* 7. Non-vacuity: model r = sub, obj, act; p = sub, obj, act; allow-override;
      m = r.sub == p.sub && keyMatch(r.obj, p.obj) && r.act == p.act; policy
      [alice,/data/*,read] [bob,/x] (MALFORMED) [carol,/c,read]              *)
Definition e_acute : text := [ascii_of_nat 195; ascii_of_nat 169].
Definition rq (l : list text) : list value := map VStr l.

(* the hypotheses of c06_no_panic / c06_error_never_grants are satisfiable *)
Example c06_ex_effect_supported :
  forall e_ast, get_ast (ex06_model s_allow_override) s_e s_e = Some e_ast ->
                parse_erule (a_value e_ast) <> None.
Proof. intros e_ast H. vm_compute in H. inversion H; subst. vm_compute. discriminate. Qed.

(* a grant from the first rule (multi-byte request value, forced by allow-override:
   the malformed rule behind it is not reached) *)
Example c06_ex_grant :
  ex06_enforce s_allow_override (rq [T "alice"; T "/data/" ++ e_acute; T "read"]) = Ok true.
Proof. vm_compute. reflexivity. Qed.
(* the malformed second rule is reached: policy error, not a decision — even
   for carol, whose (third) rule would grant *)
Example c06_ex_malformed_reached :
  ex06_enforce s_allow_override (rq [T "carol"; T "/c"; T "read"]) = Err EPolicy /\
  ex06_enforce s_allow_override (rq [T "*"; T "{}:?."; []]) = Err EPolicy.
Proof. vm_compute. auto. Qed.
(* arities 0, 2, 6 *)
Example c06_ex_arity :
  ex06_enforce s_allow_override [] = Err ERequest /\
  ex06_enforce s_allow_override (rq [T "alice"; T "/data/1"]) = Err ERequest /\
  ex06_enforce s_allow_override (rq [[]; []; []; []; []; []]) = Err ERequest.
Proof. vm_compute. auto. Qed.
(* a request value that is not a string: keyMatch is "not found" for that
   argument type, the evaluation fails, the answer is an error *)
Example c06_ex_matcher_error :
  ex06_enforce s_allow_override [VStr (T "alice"); VInt 1%Z; VStr (T "read")] = Err EEvalc.
Proof. vm_compute. reflexivity. Qed.
(* unsupported effect text: the one remaining panic *)
Example c06_ex_bad_effect :
  ex06_enforce (T "some(where (p_eft == maybe))") (rq [T "alice"; T "/data/1"; T "read"]) = Panic.
Proof. vm_compute. reflexivity. Qed.
(* instance of c06_malformed_rule's premises: good = first rule, effect Indet *)
Example c06_ex_premises :
  let p_toks := [T "p_sub"; T "p_obj"; T "p_act"] in
  let sc0 := bind [T "r_sub"; T "r_obj"; T "r_act"] (rq [T "carol"; T "/c"; T "read"]) [] in
  map (rule_outcome ex06_ptab ex06_fs ex06_matcher (tok s_p s_eft) p_toks sc0)
      [[T "alice"; T "/data/*"; T "read"]] = map Ok [Indet] /\
  forced AllowOverride [Indet] = None /\
  length p_toks <> length [T "bob"; T "/x"].
Proof. vm_compute. repeat split. discriminate. Qed.
