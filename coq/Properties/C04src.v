(* C04 stated about the TRANSLATED SOURCE.  `src_step` (Proofs/SrcStepP.v) dispatches every engine operation to the
   Gallina regenerated every run from the Rust text: Gen/InternalGen.v (src/internal_api.rs: the five ..._internal
   management entry points), Gen/ApiGen.v (src/rbac_api.rs, src/management_api.rs), Gen/EnforcerGen.v
   (src/enforcer.rs: clear / load / save / build_role_links / set_... / enable_...); `src_enforce*` are the translated enforcement
   loops of Gen/EnforceGen.v (src/enforcer.rs, private_enforce and private_enforce_with_context).  `src_run_ops` folds src_step over a history and
   `src_model_trace` is Proofs/C04P.model_trace over src_step.
   Statements only; proofs in Proofs/C04SrcP.v (Properties/C04.v composed with Properties/SrcStep.v). *)
From CV Require Import Model.Base Model.Effector Model.RoleGraph Model.Expr Model.Enforce Model.Engine Model.SpecC04.
From CV Require Import Proofs.BaseP Proofs.C04InvP Proofs.C04StepP Proofs.C04P Proofs.C04LinksP Proofs.C04ExP.
From CV Require Import Proofs.SrcStepP Proofs.C04SrcP.

(* every translated operation keeps the store a family of duplicate-free lists under distinct keys *)
Theorem c04_src_inv_step : forall s o, StoreInv s -> op_ok o -> StoreInv (fst (src_step s o)).
Proof. exact src_c04_inv_step. Qed.
Print Assumptions c04_src_inv_step.

Theorem c04_src_inv_run : forall ops s,
  StoreInv s -> Forall op_ok ops -> StoreInv (src_run_ops s ops).
Proof. exact src_c04_inv_run. Qed.
Print Assumptions c04_src_inv_run.

(* an accepted management call: the addressed list is the ideal ordered-set result, all others untouched *)
Theorem c04_src_accept : forall s o sec pt b ad a l' flag rs s' res,
  bop_of o = Some (sec, pt, b) ->
  adapter_call s sec pt b = (ad, Ok true) ->
  get_ast (e_model s) sec pt = Some a ->
  sp_apply b (a_policy a) = Some (l', flag, rs) ->
  src_step s o = (s', res) ->
  m_get_policy (e_model s') sec pt = l' /\
  (forall sec' pt', (sec', pt') <> (sec, pt) ->
                    m_get_policy (e_model s') sec' pt' = m_get_policy (e_model s) sec' pt') /\
  eqh (e_model s') (set_policy (e_model s) sec pt l') /\
  e_adapter s' = ad /\ frame s s' /\
  res = mgmt_answer s sec pt b flag rs /\
  e_fs s' = set_rm (e_fs s) (mgmt_rm s sec pt b flag rs).
Proof. exact src_c04_accept. Qed.
Print Assumptions c04_src_accept.

Theorem c04_src_refuse : forall s o sec pt b ad r,
  bop_of o = Some (sec, pt, b) -> adapter_call s sec pt b = (ad, r) -> r <> Ok true ->
  src_step s o = (upd_adapter s ad, r).
Proof. exact src_c04_refuse. Qed.
Print Assumptions c04_src_refuse.

(* the boolean result says whether the store changed; a call reporting no change is the identity *)
Theorem c04_src_flag_is_change : forall s o s' c, mgmt_op o -> src_step s o = (s', Ok c) ->
  (c = true <-> pols_differ (e_model s) (e_model s')).
Proof. exact src_c04_flag_is_change. Qed.
Print Assumptions c04_src_flag_is_change.

Theorem c04_src_false_is_identity : forall s o s',
  mgmt_op o -> src_step s o = (s', Ok false) -> unchanged s s'.
Proof. exact src_c04_false_is_identity. Qed.
Print Assumptions c04_src_false_is_identity.

Theorem c04_src_false_keeps_decisions : forall ptab s o s', mgmt_op o -> src_step s o = (s', Ok false) ->
  (forall rv, src_enforce ptab s' rv = src_enforce ptab s rv) /\
  (forall k rv, src_enforce_with_ctx ptab s' k rv = src_enforce_with_ctx ptab s k rv).
Proof. exact src_c04_false_keeps_decisions. Qed.
Print Assumptions c04_src_false_keeps_decisions.

(* the executable predicate holds of the translated source's own trace, for every history in scope *)
Theorem c04_src_pred_holds : forall ops s,
  accepting s -> Forall (fun o => in_scope (e_auto_build s) o = true) ops ->
  c04_check (ideal_of (e_model s)) (src_model_trace s ops) = true.
Proof. exact src_c04_pred_holds. Qed.
Print Assumptions c04_src_pred_holds.

(* non-vacuity, through the generated code: the hypotheses of c04_src_pred_holds hold of ex_s2 / ex_ops
   (Properties/C04.c04_pred_scope); the check passes on the full example history; a re-add answers Ok false and a
   batch add appends in order *)
Example c04_src_pred_scope : accepting ex_s2 /\ forallb (in_scope (e_auto_build ex_s2)) ex_ops = true.
Proof. exact ex_scope. Qed.
Example c04_src_pred_example : c04_check (ideal_of (e_model ex_s0)) (src_model_trace ex_s0 ex_ops) = true.
Proof. vm_compute. reflexivity. Qed.
Example c04_src_example :
  snd (src_step ex_s0 (OAdd s_p s_p (R ["alice"; "data1"; "read"]))) = Ok false /\
  snd (src_step ex_s0 (OAddMany s_p s_p ex_batch)) = Ok true /\
  m_get_policy (e_model (fst (src_step ex_s0 (OAddMany s_p s_p ex_batch)))) s_p s_p =
  (ex_pp ++ [R ["dave"; "data1"; "read"]; R ["erin"; "data1"; "read"]])%list.
Proof. vm_compute. repeat split; reflexivity. Qed.
