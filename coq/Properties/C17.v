(* C17 — Context-qualified enforcement equals plain enforcement.
   Only statements closed by `exact`; proofs live in Proofs/EnforceP.v. *)
From CV Require Import Model.Base Model.Effector Model.Expr Model.Enforce Model.Rename
     Model.Engine Proofs.EnforceP.

(* enforce_with_context with suffix k on a model whose k-suffixed r/p/e/m
   definitions are renamed copies of the unsuffixed ones (same rules stored
   under the suffixed policy type) decides every request exactly as plain
   enforce does on the unsuffixed definitions — effect columns, both arity
   errors, the empty-policy path and evaluation errors included. *)
Theorem c17_ctx_eq_plain : forall ptab k enabled md1 md2 mx1 mx2 fs rvals,
  no_underscore k = true ->
  renamed_copy k md1 md2 mx1 mx2 ->
  enforce_ctx ptab enabled md2 mx2 fs k rvals = enforce_plain ptab enabled md1 mx1 fs rvals.
Proof. exact ctx_eq_plain. Qed.
Print Assumptions c17_ctx_eq_plain.

(* non-vacuity: a model holding both the plain and the "2"-suffixed copy of a
   priority model with an effect column; deny rows deny in both paths *)
Definition ex_ast v toks pol := {| a_value := v; a_tokens := toks; a_policy := pol; a_handle := HOwn |}.
Definition ex_pol : list rule := [[T "alice"; T "data1"; T "deny"]; [T "alice"; T "data1"; T "allow"]].
Definition ex_md : model :=
  [(s_r, [(T "r", ex_ast (T "sub, obj") [T "r_sub"; T "r_obj"] []);
          (T "r2", ex_ast (T "sub, obj") [T "r2_sub"; T "r2_obj"] [])]);
   (s_p, [(T "p", ex_ast (T "sub, obj, eft") [T "p_sub"; T "p_obj"; T "p_eft"] ex_pol);
          (T "p2", ex_ast (T "sub, obj, eft") [T "p2_sub"; T "p2_obj"; T "p2_eft"] ex_pol)]);
   (s_e, [(T "e", ex_ast s_priority [] []); (T "e2", ex_ast s_priority [] [])]);
   (s_m, [(T "m", ex_ast [] [] []); (T "m2", ex_ast [] [] [])])].
Definition ex_m : expr :=
  EAnd (EEq (EVar (T "r") (T "sub")) (EVar (T "p") (T "sub")))
       (EEq (EVar (T "r") (T "obj")) (EVar (T "p") (T "obj"))).
Definition ex_mx : list (text * expr) := [(T "m", ex_m); (T "m2", rename_expr (T "2") ex_m)].
Definition ex_fs : fstate := {| f_rm := []; f_rm_max := 10; f_gfuns := []; f_ufuns := [] |}.

Example c17_example_copy : renamed_copy (T "2") ex_md ex_md ex_mx ex_mx.
Proof.
  unfold renamed_copy.
  exists [T "sub"; T "obj"], [T "sub"; T "obj"; T "eft"].
  do 9 eexists. repeat split; try reflexivity.
Qed.
Example c17_example_decides :
  enforce_ctx (fun _ => None) true ex_md ex_mx ex_fs (T "2") [VStr (T "alice"); VStr (T "data1")] = Ok false
  /\ enforce_plain (fun _ => None) true ex_md ex_mx ex_fs [VStr (T "alice"); VStr (T "data1")] = Ok false.
Proof. vm_compute. split; reflexivity. Qed.
