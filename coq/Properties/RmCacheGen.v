(* rs2coq part 23: the translated CACHED DefaultRoleManager (Gen/RmCacheGen.v, generated from
   /repo/src/rbac/default_role_manager.rs with `feature = "cached"` ON by tools/rs2coq_rmcache.py)
   refines the hand model Model/RmCache.v and answers every has_link as the uncached translation of
   part 11 (Gen/RoleManagerGen.v) does.  Statements only; the proofs are in PinChecks/PcRmCacheGen.v
   (general lemmas in Proofs/RmCacheGenP.v).  ret_sim / crel / grel / cop / gen_c_run / gen_u_run /
   cop_of / keys_of are defined in PinChecks/PcRmCacheGen.v; flow_sim / nlook / kept_or_cleared /
   query_outcome / hkey / hfin_inj_on / cache_sub in Proofs/RmCacheGenP.v.

   The hypothesis about the hasher is `hfin_inj_on hfin S`: the digest `hfin` of "DefaultHasher::new(),
   fed name1, name2, domain.unwrap_or(DEFAULT_DOMAIN) by three str::hash calls in this order, finish()"
   does not collide on the keys S in play (for a history: the keys of its has_link calls). *)
From CV Require Import Model.Base Model.RoleGraph Model.RoleGraphM Model.RmCache.
From CV Require Import Gen.RustStr Gen.RustVec Gen.RustIter Gen.Petgraph Gen.MokaRt Gen.Model2Gen Gen.RoleManagerGen
                       Gen.RmCacheRt Gen.RmCacheGen.
From CV Require Import Proofs.RoleGraphMA Proofs.PetgraphP Proofs.RmCacheP Proofs.RmCacheGenP.
From CV Require Import PinChecks.PcRoleManagerGen PinChecks.PcRmCacheGen.

Theorem rmcgen_translated : gen_rmcache_translated = true.
Proof. exact gen_rmcache_translated_ok. Qed.
Print Assumptions rmcgen_translated.

(* ---- each translated function against the uncached translation: same state / value, and what it does
        to the cache ---- *)
Theorem rmcgen_new : forall sched lvl,
  fst (gen_c_new sched lvl) = gen_new lvl /\ mk_entries (snd (gen_c_new sched lvl)) = [] /\
  mk_sched (snd (gen_c_new sched lvl)) = sched.
Proof. exact gen_c_new_ok. Qed.
Print Assumptions rmcgen_new.

Theorem rmcgen_get_or_create_role : forall s c n d,
  ret_sim (fun (r1 : rm_state * ncache * node_index) (r2 : rm_state * node_index) =>
             fst (fst r1) = fst r2 /\ snd r1 = snd r2 /\ kept_or_cleared c (snd (fst r1)))
          (gen_c_get_or_create_role s c n d) (gen_get_or_create_role s n d).
Proof. exact gen_c_get_or_create_role_sim. Qed.
Print Assumptions rmcgen_get_or_create_role.

(* with a role matching function: the cache is cleared whenever creating the role adds a Match edge *)
Theorem rmcgen_get_or_create_role_clears : forall s c n d, rm_inv s ->
  exists s' c', gen_c_get_or_create_role s c n d = Some (s', c', n) /\
    (m_edges (m_create_node (rm_role_matching_fn s) (mgraph_of (rm_abs s) (dom_key d)) n) <>
     m_edges (mgraph_of (rm_abs s) (dom_key d)) -> mk_entries c' = []).
Proof. exact gen_c_get_or_create_role_clears. Qed.
Print Assumptions rmcgen_get_or_create_role_clears.

Example rmcgen_ex_goc_clears :
  match option_map fst (gen_run (fun l => l) (gen_new 3) [MSetFns (Some ex_all) None; MAdd (T "a") (T "b") None]) with
  | Some s =>
      m_edges (m_create_node (rm_role_matching_fn s) (mgraph_of (rm_abs s) (dom_key None)) (T "z")) <>
      m_edges (mgraph_of (rm_abs s) (dom_key None)) /\
      let c := gen_cache_set nat bool Nat.eqb (snd (gen_c_new [] 3)) 7 true in
      mk_entries c = [(7, true)] /\
      option_map (fun r => mk_entries (snd (fst r))) (gen_c_get_or_create_role s c (T "z") None) = Some []
  | None => False
  end.
Proof. exact ex_goc_clears. Qed.

Theorem rmcgen_clear : forall s c,
  ret_sim (fun (r1 : rm_state * ncache) (r2 : rm_state) => fst r1 = r2 /\ mk_entries (snd r1) = [])
          (gen_c_clear s c) (gen_clear s).
Proof. exact gen_c_clear_sim. Qed.
Print Assumptions rmcgen_clear.

Theorem rmcgen_matching_fn : forall s c rf df,
  ret_sim (fun (r1 : rm_state * ncache) (r2 : rm_state) => fst r1 = r2 /\ kept_or_cleared c (snd r1))
          (gen_c_matching_fn s c rf df) (gen_matching_fn s rf df).
Proof. exact gen_c_matching_fn_sim. Qed.
Print Assumptions rmcgen_matching_fn.

Theorem rmcgen_has_link : forall hfin ord fuel s c a b d,
  match gen_has_link ord fuel s a b d with
  | Some ur => exists c' r, gen_c_has_link hfin ord fuel s c a b d = Some (c', r) /\
                            query_outcome c c' (hfin [a; b; dom_key d]) (negb (teqb a b)) ur r
  | None => True
  end.
Proof. exact gen_c_has_link_sim. Qed.
Print Assumptions rmcgen_has_link.

Theorem rmcgen_add_link : forall s c a b d, rm_inv s ->
  exists s' c', gen_c_add_link s c a b d = Some (s', c') /\ gen_add_link s a b d = Some s' /\
    kept_or_cleared c c' /\
    (teqb a b = false ->
     m_find_edge (m_create_node (r_rfn (rm_abs s)) (m_create_node (r_rfn (rm_abs s)) (mgraph_of (rm_abs s) (dom_key d)) a) b) a b
       <> Some KLink ->
     mk_entries c' = []).
Proof. exact gen_c_add_link_ok. Qed.
Print Assumptions rmcgen_add_link.

Theorem rmcgen_delete_link : forall ord s c a b d, ord_ok ord -> rm_inv s ->
  exists s' c' r, gen_c_delete_link ord s c a b d = Some (s', c', r) /\ gen_delete_link ord s a b d = Some (s', r) /\
    kept_or_cleared c c' /\
    (teqb a b = false -> domain_has_role (rm_abs s) a d = true -> domain_has_role (rm_abs s) b d = true ->
     m_find_edge (m_create_node (r_rfn (rm_abs s)) (m_create_node (r_rfn (rm_abs s)) (mgraph_of (rm_abs s) (dom_key d)) a) b) a b
       <> None ->
     mk_entries c' = []).
Proof. exact gen_c_delete_link_ok. Qed.
Print Assumptions rmcgen_delete_link.

(* ---- each translated function refines the rc_* of Model/RmCache.v (crel: same graph state, the translated
        cache a sub-cache of the model's), for all states, arguments and eviction schedules ---- *)
Theorem rmcgen_new_refines : forall hfin S sched lvl,
  crel hfin S lvl (fst (gen_c_new sched lvl)) (snd (gen_c_new sched lvl)) {| rc_rm := []; rc_cache := [] |}.
Proof. exact gen_c_new_refines. Qed.
Print Assumptions rmcgen_new_refines.

Theorem rmcgen_add_link_refines : forall hfin S lvl s c M a b d, crel hfin S lvl s c M ->
  exists s' c', gen_c_add_link s c a b d = Some (s', c') /\ gen_add_link s a b d = Some s' /\
                crel hfin S lvl s' c' (rc_add_link M a b d).
Proof. exact gen_c_add_link_refines. Qed.
Print Assumptions rmcgen_add_link_refines.

Theorem rmcgen_delete_link_refines : forall hfin S lvl ord s c M a b d, ord_ok ord -> crel hfin S lvl s c M ->
  exists s' c' r, gen_c_delete_link ord s c a b d = Some (s', c', r) /\ gen_delete_link ord s a b d = Some (s', r) /\
                  rs_is_ok r = snd (rc_delete_link M a b d) /\
                  crel hfin S lvl s' c' (fst (rc_delete_link M a b d)).
Proof. exact gen_c_delete_link_refines. Qed.
Print Assumptions rmcgen_delete_link_refines.

Theorem rmcgen_clear_refines : forall hfin S lvl s c M, crel hfin S lvl s c M ->
  exists s' c', gen_c_clear s c = Some (s', c') /\ gen_clear s = Some s' /\ crel hfin S lvl s' c' (rc_clear M).
Proof. exact gen_c_clear_refines. Qed.
Print Assumptions rmcgen_clear_refines.

Theorem rmcgen_has_link_refines : forall hfin S lvl ord fuel s c M a b d,
  hfin_inj_on hfin S -> S (rkey_of a b d) -> ord_ok ord -> fuel_ok fuel s -> crel hfin S lvl s c M ->
  exists c', gen_c_has_link hfin ord fuel s c a b d = Some (c', snd (rc_has_link lvl M a b d)) /\
             gen_has_link ord fuel s a b d = Some (snd (rc_has_link lvl M a b d)) /\
             crel hfin S lvl s c' (fst (rc_has_link lvl M a b d)).
Proof. exact gen_c_has_link_refines. Qed.
Print Assumptions rmcgen_has_link_refines.

(* ---- whole histories ---- *)
Theorem rmcgen_run_refines : forall hfin ord lvl S, ord_ok ord -> hfin_inj_on hfin S ->
  forall h s M, (forall k, keys_of h k -> S k) -> grel lvl s M ->
  exists F, forall fuel c, F <= fuel -> cache_sub hfin S c (rc_cache M) ->
    gen_c_run hfin ord fuel s c (map cop_of h) = Some (rc_run lvl M h) /\
    gen_u_run ord fuel s (map cop_of h) = Some (rc_run lvl M h).
Proof. exact gen_c_run_refines. Qed.
Print Assumptions rmcgen_run_refines.

(* END TO END: the cached translation, the uncached translation and the uncached model agree on every output
   of every history of add_link / delete_link / clear / has_link from DefaultRoleManager::new(lvl) *)
Theorem rmcgen_history : forall hfin ord sched lvl (h : list rcop), ord_ok ord -> hfin_inj_on hfin (keys_of h) ->
  exists F, forall fuel, F <= fuel ->
    gen_c_run hfin ord fuel (fst (gen_c_new sched lvl)) (snd (gen_c_new sched lvl)) (map cop_of h) = Some (rm_run lvl [] h) /\
    gen_u_run ord fuel (gen_new lvl) (map cop_of h) = Some (rm_run lvl [] h).
Proof. exact gen_c_history_ok. Qed.
Print Assumptions rmcgen_history.

Theorem rmcgen_history_inj : forall hfin ord sched lvl (h : list rcop), ord_ok ord ->
  (forall l1 l2, hfin l1 = hfin l2 -> l1 = l2) ->
  exists F, forall fuel, F <= fuel ->
    gen_c_run hfin ord fuel (fst (gen_c_new sched lvl)) (snd (gen_c_new sched lvl)) (map cop_of h) =
    gen_u_run ord fuel (gen_new lvl) (map cop_of h).
Proof. exact gen_c_history_ok_inj. Qed.
Print Assumptions rmcgen_history_inj.

(* ... hence m_has_link on the state reached by the mutators of the history *)
Theorem rmcgen_answer : forall hfin ord sched lvl (h : list rcop) a b d, ord_ok ord ->
  hfin_inj_on hfin (keys_of (h ++ [RCHas a b d])) ->
  exists F, forall fuel, F <= fuel ->
    gen_c_run hfin ord fuel (fst (gen_c_new sched lvl)) (snd (gen_c_new sched lvl)) (map cop_of (h ++ [RCHas a b d])) =
    Some (rm_run lvl [] h ++ [m_has_link lvl (mrun (map mop_of (writes_of h))) a b d]).
Proof. exact gen_c_answer_ok. Qed.
Print Assumptions rmcgen_answer.

(* the hypotheses are satisfiable: a digest without collision on the keys of a concrete history (with hits,
   a delete that removes nothing, a clear, a reflexive query), run with and without evictions *)
Example rmcgen_ex_inj : hfin_inj_on ex_hfin (keys_of ex_c_history).
Proof. exact ex_c_hfin_inj. Qed.

Example rmcgen_ex_run :
  gen_c_run ex_hfin (@rev text) 10 (fst (gen_c_new ex_sched 3)) (snd (gen_c_new ex_sched 3)) (map cop_of ex_c_history)
    = Some (rm_run 3 [] ex_c_history) /\
  gen_c_run ex_hfin (fun l => l) 10 (fst (gen_c_new [] 3)) (snd (gen_c_new [] 3)) (map cop_of ex_c_history)
    = Some (rm_run 3 [] ex_c_history) /\
  gen_u_run (fun l => l) 10 (gen_new 3) (map cop_of ex_c_history) = Some (rm_run 3 [] ex_c_history) /\
  rm_run 3 [] ex_c_history = [true; true; true; true; true; true; true; false; true; false; true; true; false; true].
Proof. exact ex_c_run. Qed.

(* without the hypothesis on the hasher the statement is false *)
Example rmcgen_ex_collision :
  let hbad := fun _ : hasher => 0 in
  let h := [RCWrite (LAdd (T "a") (T "b") None); RCHas (T "a") (T "b") None; RCHas (T "b") (T "a") None] in
  gen_c_run hbad (fun l => l) 10 (fst (gen_c_new [] 3)) (snd (gen_c_new [] 3)) (map cop_of h) = Some [true; true; true] /\
  gen_u_run (fun l => l) 10 (gen_new 3) (map cop_of h) = Some [true; true; false].
Proof. exact ex_collision_refuted. Qed.
