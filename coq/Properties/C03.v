(* C03 — Role inheritance is reachability within the domain.
   Only statements closed by `exact`; proofs live in Proofs/RoleGraphP.v. *)
From CV Require Import Model.Base Model.RoleGraph Proofs.BaseP Proofs.RoleGraphP.
From Coq Require Import Relations.

(* every state reached by a history of add_link/delete_link/clear is well-formed *)
Theorem c03_wf_reachable : forall h, wf (lrun h).
Proof. exact wf_lrun. Qed.
Print Assumptions c03_wf_reachable.

(* the graph of a domain holds exactly the links of the set-semantics spec
   (add inserts unless reflexive, delete removes, clear empties everything) *)
Theorem c03_links_refine : forall h d a b,
  In (a, b) (edges_of (lrun h) d) <-> In (a, b) (spec_links h (dom_key d) []).
Proof. exact links_refine. Qed.
Print Assumptions c03_links_refine.

(* a role that is not reachable is never reported, whatever the depth limit *)
Theorem c03_sound : forall maxd m a b d, wf m -> has_link maxd m a b d = true ->
  a = b \/ clos_trans text (Edge m d) a b.
Proof. exact has_link_sound. Qed.
Print Assumptions c03_sound.

(* a role reachable through a chain shorter than the hierarchy limit is reported
   (the code's depth counter never exceeds the BFS level of the popped node) *)
Theorem c03_complete : forall maxd m a b d k, wf m -> path (Edge m d) k a b -> k < maxd ->
  has_link maxd m a b d = true.
Proof. exact has_link_complete. Qed.
Print Assumptions c03_complete.

Theorem c03_reflexive : forall maxd m a d, has_link maxd m a a d = true.
Proof. intros. unfold has_link. rewrite teqb_refl. reflexivity. Qed.
Print Assumptions c03_reflexive.

(* the BFS never runs out of fuel: the model's bound is not what stops it *)
Theorem c03_fuel_enough : forall g maxd a extra, wf_graph g -> In a (nodes g) ->
  bfs_visit (S (length (nodes g)) + extra) g maxd [a] [a] 0 1 = bfs_from g maxd a.
Proof. exact fuel_enough. Qed.
Print Assumptions c03_fuel_enough.

(* listings are exactly the out- and in-neighbours, without duplicates *)
Theorem c03_roles : forall m n d x, wf m -> In x (get_roles m n d) <-> Edge m d n x.
Proof. exact get_roles_spec. Qed.
Print Assumptions c03_roles.
Theorem c03_users : forall m n d x, wf m -> In x (get_users m n d) <-> Edge m d x n.
Proof. exact get_users_spec. Qed.
Print Assumptions c03_users.
Theorem c03_roles_nodup : forall m n d, wf m -> NoDup (get_roles m n d).
Proof. exact get_roles_NoDup. Qed.
Theorem c03_users_nodup : forall m n d, wf m -> NoDup (get_users m n d).
Proof. exact get_users_NoDup. Qed.

(* links in one domain never touch another domain's graph (hence none of its
   has_link / get_roles / get_users answers, which read that graph only) *)
Theorem c03_domain_local : forall m o d, wf m ->
  (match o with LAdd _ _ d' | LDel _ _ d' => dom_key d' <> dom_key d | LClear => False end) ->
  graph_of (fst (lstep m o)) d = graph_of m d.
Proof. exact domain_local. Qed.
Print Assumptions c03_domain_local.

(* the executable reference used by the predicate means what it says *)
Theorem c03_within_spec : forall l k a b,
  In b (within l k a) <-> exists j, j <= k /\ path (fun x y => In (x, y) l) j a b.
Proof. exact within_spec. Qed.
Theorem c03_reachable_spec : forall l a b,
  reachable l a b = true <-> (a = b \/ clos_trans text (fun x y => In (x, y) l) a b).
Proof. exact reachable_spec. Qed.
Print Assumptions c03_reachable_spec.

(* the model's answers satisfy the executable C03 predicate after every
   history, for every query and every limit *)
Theorem c03_pred_holds : forall maxd h q, c03_pred maxd h q (answer maxd (lrun h) q) = true.
Proof. exact c03_pred_model. Qed.
Print Assumptions c03_pred_holds.

(* non-vacuity and tightness of the bound *)
Example c03_chain9_found : has_link 10 (lrun (ex_chain 9)) (ex_node 0) (ex_node 9) None = true.
Proof. exact chain9. Qed.
Example c03_chain10_not_found : has_link 10 (lrun (ex_chain 10)) (ex_node 0) (ex_node 10) None = false.
Proof. exact chain10. Qed.
