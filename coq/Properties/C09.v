(* C09 — Stored policy and in-memory policy stay identical.
   Only statements closed by `exact`; proofs live in Proofs/C09P.v.

   Vocabulary (Model/SpecC09.v, Proofs/C09P.v):
   - a MemoryAdapter holds a list of lines `sec :: ptype :: fields`;
     `lines_for sec pt l` = the rules stored for (sec, pt), in storage order;
     `mem_of a` = the lines of a MemoryAdapter, possibly behind one scripting
     wrapper (`AScripted (AMemory ..) script`);
   - `mpol md sec pt` = Some (policy list of the definition) / None if unknown;
   - `SyncLM l md` : l is duplicate-free and, for every KNOWN definition
     (sec, pt) of sections p and g, `lines_for sec pt l` IS its policy list
     (same rules, same order);
   - `AdapterSync s` : the adapter of s is a memory adapter whose lines are
     SyncLM with the model of s;
   - `KeysOkP md` (= keys_ok_b): keys of sections p and g are pairwise distinct
     and start with the section letter;  `PolND md`: policy lists of p and g
     are duplicate-free;
   - `Inv s` := auto-save on /\ KeysOkP (model) /\ AdapterSync s;
   - `c09_op o`: every call except set_model, set_adapter,
     load_filtered_policy and enable_auto_save(false). *)
From CV Require Import Model.Base Model.Effector Model.RoleGraph Model.PathMatch
     Model.Expr Model.Enforce Model.Engine Model.SpecC09.
From CV Require Import Proofs.BaseP Proofs.C09P.

(* ---------- (1) what "in sync" means ---------- *)
(* the executable check decides the invariant *)
Theorem c09_sync_decidable : forall s, adapter_sync_b s = true <-> AdapterSync s.
Proof. exact adapter_sync_b_spec. Qed.
Print Assumptions c09_sync_decidable.

Theorem c09_keys_ok_decidable : forall md, keys_ok_b md = true <-> KeysOkP md.
Proof. exact keys_ok_b_spec. Qed.

(* for a duplicate-free adapter, SyncLM says exactly: Adapter::load_policy into
   the emptied model gives back every p and g policy list, rule for rule and
   in the same order *)
Theorem c09_sync_iff_reload : forall l md, NoDup l ->
  (SyncLM l md <->
   forall sec pt, is_pg sec = true ->
     mpol (fold_left load_mem_line l (m_clear_policy md)) sec pt = mpol md sec pt).
Proof. exact sync_iff_reload. Qed.
Print Assumptions c09_sync_iff_reload.

(* the harness's reload view (a load into a scratch copy) of a synchronised
   state shows the in-memory policy; it can only fail when a script says so *)
Theorem c09_reload_view : forall s s1 md1,
  AdapterSync s -> reload_view s = (s1, md1, LROk) ->
  forall sec pt, is_pg sec = true -> m_get_policy md1 sec pt = m_get_policy (e_model s) sec pt.
Proof. exact reload_view_shows_policy. Qed.
Print Assumptions c09_reload_view.
Theorem c09_reload_view_result : forall s l, mem_of (e_adapter s) = Some l ->
  snd (reload_view s) = LROk \/ exists e, snd (reload_view s) = LRErr e.
Proof. exact reload_view_result. Qed.

(* ---------- (2) every management call keeps adapter and model in sync ---------- *)
(* one call: whatever its outcome (done, duplicate, refused or failed by the
   adapter, late Err from the role-link update, panic of a filter index) *)
Theorem c09_step : forall s o, c09_op o = true -> Inv s -> Inv (fst (step s o)).
Proof. exact step_preserves_Inv. Qed.
Print Assumptions c09_step.

(* all histories, and after every prefix of a history *)
Theorem c09_history : forall ops s, forallb c09_op ops = true -> Inv s -> Inv (run_ops s ops).
Proof. exact run_ops_preserves_Inv. Qed.
Print Assumptions c09_history.
Theorem c09_every_prefix : forall ops s n,
  forallb c09_op ops = true -> Inv s -> Inv (run_ops s (firstn n ops)).
Proof. exact Inv_every_prefix. Qed.
Print Assumptions c09_every_prefix.

(* the constructor establishes the invariant: plain MemoryAdapter (whatever the
   outcome of the initial role-link build), or any scripted one when it
   answers Ok *)
Theorem c09_constructor : forall d lines w s0,
  NoDup lines -> KeysOkP (d_model d) ->
  new_raw d (AMemory lines false) w = (s0, LOk) ->
  Inv (fst (new_enforcer d (AMemory lines false) w)).
Proof. exact new_enforcer_Inv. Qed.
Print Assumptions c09_constructor.
Theorem c09_constructor_ok : forall d a w lines s b,
  mem_of a = Some lines -> ad_is_filtered a = false -> NoDup lines -> KeysOkP (d_model d) ->
  new_enforcer d a w = (s, Ok b) -> Inv s.
Proof. exact new_enforcer_Inv_ok. Qed.
Print Assumptions c09_constructor_ok.

(* the executable predicate (ideal ordered set read off the adapter lines)
   accepts the model's own observations *)
Theorem c09_pred_holds : forall s l sec pt a,
  Inv s -> mem_of (e_adapter s) = Some l -> is_pg sec = true ->
  get_ast (e_model s) sec pt = Some a ->
  c09_pred l sec pt (m_get_policy (e_model s) sec pt) = true.
Proof. exact c09_pred_model. Qed.
Print Assumptions c09_pred_holds.

(* ---------- (3) load_policy on a synchronised enforcer changes no policy list ---------- *)
Theorem c09_reload_identity : forall s, AdapterSync s ->
  forall sec pt, is_pg sec = true ->
    m_get_policy (e_model (fst (step s OLoad))) sec pt = m_get_policy (e_model s) sec pt.
Proof. exact reload_identity. Qed.
Print Assumptions c09_reload_identity.
Theorem c09_reload_keeps_sync : forall s, AdapterSync s -> AdapterSync (fst (step s OLoad)).
Proof. exact reload_keeps_sync. Qed.

(* ---------- (4) save_policy ; load_policy is the identity, all bundled adapters ---------- *)
Theorem c09_roundtrip : forall s s1,
  is_bundled (e_adapter s) = true -> KeysOkP (e_model s) -> PolND (e_model s) ->
  step s OSave = (s1, Ok true) ->
  forall sec pt, is_pg sec = true ->
    m_get_policy (e_model (fst (step s1 OLoad))) sec pt = m_get_policy (e_model s) sec pt.
Proof. exact save_load_roundtrip. Qed.
Print Assumptions c09_roundtrip.
(* ... and the save does succeed unless the adapter is marked filtered or (text
   adapters) the model has no p section *)
Theorem c09_save_succeeds : forall s,
  is_bundled (e_adapter s) = true -> ad_is_filtered (e_adapter s) = false ->
  assoc s_p (e_model s) <> None -> snd (step s OSave) = Ok true.
Proof. exact save_succeeds. Qed.
Theorem c09_pol_nodup_decidable : forall md, pol_nodup_b md = true -> PolND md.
Proof. exact pol_nodup_b_PolND. Qed.

(* ---------- non-vacuity ---------- *)
(* a model with p, p2, g; an adapter with rules for all three plus a line of an
   unknown ptype; the invariant holds initially ... *)
Example c09_ex_initial :
  e_auto_save ex_s0 = true /\ keys_ok_b (e_model ex_s0) = true /\ adapter_sync_b ex_s0 = true /\
  m_get_policy (e_model ex_s0) s_p (T "p") =
    [L ["alice";"data1";"read"]; L ["bob";"data2";"write"]]%string.
Proof. exact ex_s0_inv. Qed.
(* ... and after each of 17 calls of every kind (checked by computation) *)
Example c09_ex_history_allowed : forallb c09_op ex_ops = true.
Proof. exact ex_ops_allowed. Qed.
Example c09_ex_history :
  forallb (fun n => adapter_sync_b (run_ops ex_s0 (firstn n ex_ops))) (seq 0 (S (length ex_ops))) = true.
Proof. exact ex_sync_after_every_call. Qed.
(* the call ending in a late Err stored the rule on both sides *)
Example c09_ex_late_err :
  let s := run_ops ex_s0 (firstn 4 ex_ops) in
  snd (step s (OAdd s_g (T "g") (L ["alice"%string]))) = Err EPolicy /\
  m_get_policy (e_model (fst (step s (OAdd s_g (T "g") (L ["alice"%string]))))) s_g (T "g") =
    [L ["alice";"admin"]; L ["alice"]]%string /\
  adapter_sync_b (fst (step s (OAdd s_g (T "g") (L ["alice"%string])))) = true.
Proof. exact ex_late_err. Qed.
(* scripted adapter: refused, failed, passed, then two failing loads *)
Example c09_ex_scripted :
  map (fun n => (adapter_sync_b (run_ops ex_scr (firstn n ex_scr_ops)),
                 length (m_get_policy (e_model (run_ops ex_scr (firstn n ex_scr_ops))) s_p (T "p"))))
      (seq 0 6) = [(true, 2); (true, 2); (true, 2); (true, 3); (true, 3); (true, 3)] /\
  map (fun n => snd (step (run_ops ex_scr (firstn n ex_scr_ops)) (nth n ex_scr_ops OClear))) (seq 0 5)
  = [Ok false; Err EAdapter; Ok true; Err EAdapter; Err EAdapter].
Proof. exact ex_scr_sync. Qed.
(* round trip on the three adapters *)
Example c09_ex_roundtrip :
  forallb (fun a =>
    let s := upd_adapter ex_s0 a in
    match step s OSave with
    | (s1, Ok true) =>
      forallb (fun k => rules_eqb (m_get_policy (e_model (fst (step s1 OLoad))) (fst k) (snd k))
                                  (m_get_policy (e_model ex_s0) (fst k) (snd k)))
              [(s_p, T "p"); (s_p, T "p2"); (s_g, T "g")]
    | _ => false end) [AMemory [] false; AFile [] false; AString [] false] = true /\
  pol_nodup_b (e_model ex_s0) = true.
Proof. exact ex_roundtrip_all. Qed.

(* ---------- side conditions are necessary / observations ---------- *)
(* an UNKNOWN ptype: the MemoryAdapter stores the line, the model ignores it,
   the call answers Ok(false).  Not visible to a reload (the loader drops the
   line), so the invariant survives; but the store now holds a rule the
   enforcer never had *)
Example c09_unknown_ptype_stored :
  let r := step ex_s0 (OAdd s_p (T "p9") (L ["ghost"%string])) in
  snd r = Ok false /\
  mem_of (e_adapter (fst r)) = Some (ex_lines ++ [L ["p";"p9";"ghost"]%string]) /\
  e_model (fst r) = e_model ex_s0 /\ adapter_sync_b (fst r) = true.
Proof. exact ex_unknown_ptype. Qed.

(* a policy type of section p whose key does not start with "p": in sync until
   save_policy, which files the rule under the section named by the key's
   first character; the reload then loses it (memory and file adapters) *)
Example c09_sync_needs_keys_ok :
  keys_ok_b (e_model (bad_s (AMemory [] false))) = false /\
  adapter_sync_b (bad_s (AMemory [] false)) = true /\
  c09_op OSave = true /\
  adapter_sync_b (fst (step (bad_s (AMemory [] false)) OSave)) = false.
Proof. exact sync_needs_keys_ok. Qed.
Example c09_roundtrip_needs_keys_ok :
  forallb (fun a =>
    let s := bad_s a in
    match step s OSave with
    | (s1, Ok true) =>
      rules_eqb (m_get_policy (e_model s) s_p (T "x")) [L ["a";"b"]%string] &&
      rules_eqb (m_get_policy (e_model (fst (step s1 OLoad))) s_p (T "x")) []
    | _ => false end) [AMemory [] false; AFile [] false] = true.
Proof. exact roundtrip_needs_keys_ok. Qed.
(* duplicate-free policy lists (always true of reachable models) *)
Example c09_roundtrip_needs_nodup :
  let s := upd_model (upd_adapter ex_s0 (AFile [] false)) dup_model in
  keys_ok_b dup_model = true /\ pol_nodup_b dup_model = false /\
  snd (step s OSave) = Ok true /\
  m_get_policy (e_model (fst (step (fst (step s OSave)) OLoad))) s_p (T "p") = [L ["a"%string]].
Proof. exact roundtrip_needs_nodup. Qed.
