(* C07 — Tenants are isolated in domain models.
   Only statements closed by `exact`; proofs live in Proofs/C07P.v.
   Scope: `rbac_dom_any s` (r = sub,dom,obj,act; p = sub,dom,obj,act with an
   optional eft column; one role definition g = _,_,_ read through the
   enforcer's manager; any of the four effect rules; matcher
   g(r.sub,p.sub,r.dom) && r.dom == p.dom && r.obj == p.obj && r.act == p.act).
   `view d s` = the p/p rules with d in column 1, the g/g rules with d in
   column 2 (both in order) and the role graph of domain d.
   `confined d' o` (executable, Model/SpecC07.v): o is an add / remove /
   batch on p/p or g/g whose rules carry d' in the domain column, a filtered
   removal whose filter pins the domain column to the NON-EMPTY value d', or an
   RBAC helper that is one such call. *)
From CV Require Import Model.Base Model.Effector Model.RoleGraph Model.PathMatch Model.Expr
     Model.Enforce Model.Engine Model.SpecC13 Model.SpecC07.
From CV Require Import Proofs.BaseP Proofs.RoleGraphP Proofs.C13P Proofs.C07P.

(* ---------- (8) one step of another tenant ---------- *)

(* whatever its outcome (accepted, refused by the adapter, failing, panicking),
   an operation confined to d' <> d leaves the view of d untouched ... *)
Theorem c07_view_preserved : forall s o d d',
  rbac_dom_any s = true -> confined d' o = true -> d' <> d ->
  view d (fst (step s o)) = view d s.
Proof. exact view_preserved. Qed.
Print Assumptions c07_view_preserved.

(* ... and the definitions, matcher, functions and flags too *)
Theorem c07_confined_frame : forall s o d',
  rbac_dom_any s = true -> confined d' o = true -> st_frame s (fst (step s o)).
Proof. exact confined_frame. Qed.
Print Assumptions c07_confined_frame.

(* role-link updates never leave their domain's graph *)
Theorem c07_link_rules_local : forall insert (rs : list rule) m (d' d : text),
  (forall r, In r rs -> nth 2 r [] = d') -> d' <> d ->
  graph_of (fst (link_rules 3 insert m rs)) (Some d) = graph_of m (Some d).
Proof. exact link_rules_other. Qed.
Print Assumptions c07_link_rules_local.

(* ---------- (9) decisions and role queries are functions of the view ---------- *)

(* closed form of enforcement in scope (all four effect rules, with or without
   eft column): always Ok; effs4 lists the per-rule effects *)
Theorem c07_enforce_closed : forall ptab s u d o a,
  rbac_dom_any s = true -> p_arity_ok s ->
  enforce ptab s [VStr u; VStr d; VStr o; VStr a] = Ok (decl (the_erule s) (effs4 s u d o a)).
Proof. exact enforce_dom_closed. Qed.
Print Assumptions c07_enforce_closed.

(* undetermined effects, wherever they are inserted or removed, change no
   declarative result (all four rules; in particular "no rule at all" and
   "only foreign rules" coincide, also for deny-override) *)
Theorem c07_decl_indet_invariant : forall r l1 l2, strip l1 = strip l2 -> decl r l1 = decl r l2.
Proof. exact decl_indet_invariant. Qed.
Print Assumptions c07_decl_indet_invariant.

(* two configurations with the same definitions that store the same things for
   d decide every request of d alike (errors included) *)
Theorem c07_decided_by_view : forall ptab s1 s2 d,
  rbac_dom_any s1 = true -> rbac_dom_any s2 = true -> same_conf s1 s2 ->
  p_arity_ok s1 -> p_arity_ok s2 ->
  view d s1 = view d s2 -> d <> [] ->
  forall sub obj act,
    enforce ptab s1 [VStr sub; VStr d; VStr obj; VStr act] =
    enforce ptab s2 [VStr sub; VStr d; VStr obj; VStr act].
Proof. exact decided_by_view. Qed.
Print Assumptions c07_decided_by_view.

Theorem c07_roles_by_view : forall s1 s2 d n,
  rbac_dom_any s1 = true -> rbac_dom_any s2 = true -> view d s1 = view d s2 ->
  roles_for_user s1 n (Some d) = roles_for_user s2 n (Some d) /\
  users_for_role s1 n (Some d) = users_for_role s2 n (Some d) /\
  implicit_roles s1 n (Some d) = implicit_roles s2 n (Some d).
Proof. exact roles_by_view. Qed.
Print Assumptions c07_roles_by_view.

Theorem c07_has_link_by_view : forall s1 s2 d a b,
  f_rm_max (e_fs s1) = f_rm_max (e_fs s2) -> view d s1 = view d s2 ->
  has_link (f_rm_max (e_fs s1)) (f_rm (e_fs s1)) a b (Some d) =
  has_link (f_rm_max (e_fs s2)) (f_rm (e_fs s2)) a b (Some d).
Proof. exact has_link_by_view. Qed.
Print Assumptions c07_has_link_by_view.

Theorem c07_perms_by_view : forall s1 s2 d n,
  rbac_dom_any s1 = true -> rbac_dom_any s2 = true ->
  two_fields s1 -> two_fields s2 -> view d s1 = view d s2 -> d <> [] ->
  perms_for_user s1 n (Some d) = perms_for_user s2 n (Some d) /\
  implicit_perms s1 n (Some d) = implicit_perms s2 n (Some d).
Proof. exact perms_by_view. Qed.
Print Assumptions c07_perms_by_view.

(* ---------- (10) isolation over histories ---------- *)

(* any history in which every operation is confined to some domain other than d
   (not necessarily the same one) keeps the view of d and the scope *)
Theorem c07_isolation_view : forall d ops s,
  rbac_dom_any s = true -> Forall (foreign d) ops ->
  view d (run_ops s ops) = view d s /\ rbac_dom_any (run_ops s ops) = true /\
  same_conf s (run_ops s ops).
Proof. exact isolation_view. Qed.
Print Assumptions c07_isolation_view.

(* hence every decision and every role query of d is unchanged *)
Theorem c07_isolation : forall ptab d ops s,
  rbac_dom_any s = true -> Forall (foreign d) ops -> d <> [] ->
  let s' := run_ops s ops in
  (p_arity_ok s -> p_arity_ok s' ->
   forall sub obj act,
     enforce ptab s' [VStr sub; VStr d; VStr obj; VStr act] =
     enforce ptab s [VStr sub; VStr d; VStr obj; VStr act]) /\
  (forall n, roles_for_user s' n (Some d) = roles_for_user s n (Some d) /\
             users_for_role s' n (Some d) = users_for_role s n (Some d) /\
             implicit_roles s' n (Some d) = implicit_roles s n (Some d)) /\
  (forall a b, has_link (f_rm_max (e_fs s')) (f_rm (e_fs s')) a b (Some d) =
               has_link (f_rm_max (e_fs s)) (f_rm (e_fs s)) a b (Some d)) /\
  (two_fields s -> two_fields s' ->
   forall n, perms_for_user s' n (Some d) = perms_for_user s n (Some d) /\
             implicit_perms s' n (Some d) = implicit_perms s n (Some d)).
Proof. exact isolation. Qed.
Print Assumptions c07_isolation.

Theorem c07_foreign_decidable : forall d o d', foreign_op d o d' = true -> foreign d o.
Proof. exact foreign_opb. Qed.

(* ---------- the executable predicate ---------- *)
Theorem c07_query_stable : forall ptab d ops s q,
  rbac_dom_any s = true -> Forall (foreign d) ops -> d <> [] ->
  p_arity_ok s -> p_arity_ok (run_ops s ops) ->
  dom_query d q = true ->
  ask ptab (run_ops s ops) q = ask ptab s q.
Proof. exact dom_query_stable. Qed.
Print Assumptions c07_query_stable.

Theorem c07_pred_holds : forall ptab d ops s qs,
  rbac_dom_any s = true -> Forall (foreign d) ops -> d <> [] ->
  p_arity_ok s -> p_arity_ok (run_ops s ops) ->
  forallb (dom_query d) qs = true ->
  c07_pred (map (ask ptab s) qs) (map (ask ptab (run_ops s ops)) qs) = true.
Proof. exact c07_pred_model. Qed.
Print Assumptions c07_pred_holds.

Theorem c07_arity_decidable : forall n s,
  p_arityb n s = true -> length (the_ptoks s) = n -> p_arity_ok s.
Proof. exact p_arityb_ok. Qed.

(* ---------- non-vacuity: two tenants with the same user and role names ---------- *)
Example c07_ex_in_scope :
  rbac_dom_any exd1 = true /\ rbac_dom_eq exd1 = true /\ p_arityb 4 exd1 = true /\
  p_arityb 4 exd2 = true /\ length (the_ptoks exd1) = 4 /\ length (the_ptoks exd2) = 4 /\
  shallowb (f_rm_max (e_fs exd1)) (f_rm (e_fs exd1)) (Some d1) = true /\
  nonempty_names exd1 (T "alice") (Some d1) = true.
Proof. exact exd_in_scope. Qed.
Example c07_ex_foreign_history : Forall (foreign d1) exd_foreign.
Proof. exact exd_foreign_confined. Qed.
Example c07_ex_history_not_trivial :
  p_rules exd2 <> p_rules exd1 /\ g_rules exd2 <> g_rules exd1 /\
  view d2 exd2 <> view d2 exd1 /\ view d1 exd2 = view d1 exd1.
Proof. exact exd_history_not_trivial. Qed.
Example c07_ex_answers :
  enforce ptab0 exd1 [VStr (T "alice"); VStr d1; VStr (T "data"); VStr (T "own")] = Ok true /\
  enforce ptab0 exd1 [VStr (T "alice"); VStr d2; VStr (T "data"); VStr (T "write")] = Ok false /\
  enforce ptab0 exd1 [VStr (T "bob"); VStr d2; VStr (T "data"); VStr (T "write")] = Ok true /\
  enforce ptab0 exd1 [VStr (T "bob"); VStr d1; VStr (T "data"); VStr (T "read")] = Ok false /\
  implicit_roles exd1 (T "alice") (Some d1) = [T "admin"; T "root"] /\
  implicit_roles exd1 (T "alice") (Some d2) = [] /\
  implicit_perms exd1 (T "alice") (Some d1) =
    Some [[T "admin"; d1; T "data"; T "read"]; [T "root"; d1; T "data"; T "own"]].
Proof. exact exd_answers. Qed.
Example c07_ex_deny_override_with_eft :
  rbac_dom_any exe1 = true /\ the_erule exe1 = DenyOverride /\ p_arityb 5 exe1 = true /\
  enforce ptab0 exe1 [VStr (T "alice"); VStr d1; VStr (T "data"); VStr (T "read")] = Ok true /\
  enforce ptab0 exe1 [VStr (T "alice"); VStr d1; VStr (T "data"); VStr (T "write")] = Ok false.
Proof. exact exe_in_scope. Qed.
Example c07_ex_pred :
  let qs := [QEnforce [VStr (T "alice"); VStr d1; VStr (T "data"); VStr (T "own")];
             QEnforce [VStr (T "bob"); VStr d1; VStr (T "data"); VStr (T "read")];
             QRolesFor (T "alice") (Some d1); QUsersFor (T "admin") (Some d1);
             QImplicitRoles (T "alice") (Some d1); QImplicitPerms (T "alice") (Some d1);
             QHasLink (T "alice") (T "root") (Some d1)] in
  forallb (dom_query d1) qs = true /\
  c07_pred (map (ask ptab0 exd1) qs) (map (ask ptab0 exd2) qs) = true /\
  c07_pred (map (ask ptab0 exd1) [QPermsFor (T "admin") (Some d2)])
           (map (ask ptab0 exd2) [QPermsFor (T "admin") (Some d2)]) = false.
Proof. exact c07_pred_example. Qed.

(* delete_user / delete_role take no domain: they are NOT confined, they span
   every tenant by design (C13 covers them) *)
Example c07_ex_delete_user_spans_tenants :
  step exd1 (ORbac (RDeleteUser (T "alice"))) = (exd_del, Ok true) /\
  quiet_adapter exd1 = true /\ links_mirror_domb exd_del = true /\
  links_mirror_domb exd1 = true /\
  enforce ptab0 exd_del [VStr (T "alice"); VStr d1; VStr (T "data"); VStr (T "own")] = Ok false.
Proof. exact delete_user_dom_example. Qed.

(* ---------- witnesses ---------- *)

(* FINDING. p_arity_ok is necessary: add_policy does not check the number of
   fields, and the enforcement loop fails on the first rule of the wrong length
   whatever its domain. One malformed rule stored by tenant2 turns tenant1's
   refusals (and every decision not forced earlier in the list) into errors. *)
Example c07_malformed_foreign_rule_breaks_tenant :
  confined d2 (OAdd s_p s_p [T "x"; d2]) = true /\
  view d1 (fst (step exd1 (OAdd s_p s_p [T "x"; d2]))) = view d1 exd1 /\
  enforce ptab0 exd1 [VStr (T "bob"); VStr d1; VStr (T "data"); VStr (T "read")] = Ok false /\
  enforce ptab0 (fst (step exd1 (OAdd s_p s_p [T "x"; d2])))
          [VStr (T "bob"); VStr d1; VStr (T "data"); VStr (T "read")] = Err EPolicy.
Proof. exact malformed_foreign_rule_breaks_tenant. Qed.

(* d <> "" is necessary: on an empty store the matcher is evaluated once with
   empty policy values; the all-empty request of the empty domain is granted
   until ANY tenant stores a rule *)
Example c07_empty_domain_not_isolated :
  let o := OAdd s_p s_p [T "admin"; d2; T "data"; T "read"] in
  confined d2 o = true /\ view [] (fst (step exd0 o)) = view [] exd0 /\
  enforce ptab0 exd0 [VStr []; VStr []; VStr []; VStr []] = Ok true /\
  enforce ptab0 (fst (step exd0 o)) [VStr []; VStr []; VStr []; VStr []] = Ok false.
Proof. exact empty_domain_not_isolated. Qed.

(* the filter must pin a NON-EMPTY domain: delete_roles_for_user_in_domain(u, "")
   removes u's roles in every domain *)
Example c07_delete_roles_empty_domain_crosses_tenants :
  let o := ORbac (RDeleteRoles (T "alice") (Some [])) in
  confined [] o = false /\ snd (step exd1 o) = Ok true /\
  view d1 (fst (step exd1 o)) <> view d1 exd1 /\
  enforce ptab0 (fst (step exd1 o)) [VStr (T "alice"); VStr d1; VStr (T "data"); VStr (T "own")]
  = Ok false.
Proof. exact delete_roles_empty_domain_crosses_tenants. Qed.
