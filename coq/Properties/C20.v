(* C20 — Concurrent enforcement is deterministic and deadlock-free.
   The part a theorem can carry: the lock protocol of Model/Locks.v (outer
   RwLock around the enforcer, inner RwLock of the role-manager handle, both
   writer-preferring and not re-entrant; thread programs pinned to the source:
   every guard is a statement temporary).  For ANY number of threads, ANY call
   lists and ANY interleaving: the lock bookkeeping is consistent, no state is
   a deadlock, every run is finite and ends with all calls completed, and what
   the reads observed is what a serial execution of the writes explains.
   Real scheduling, parking_lot, the memory model are exercised elsewhere.
   Only statements closed by `exact`; proofs live in Proofs/C20P.v. *)
From CV Require Import Model.Base Model.Locks Model.SpecC20 Proofs.C20P.

(* ------------------------------------------------------------------ *)
(* (1) protocol invariant                                              *)
(* ------------------------------------------------------------------ *)
(* ProtoInv holds initially, is preserved by every step of every thread, hence
   holds after every schedule and in every reachable state *)
Theorem c20_inv_init : forall tss, ProtoInv (init_sys tss).
Proof. exact ProtoInv_init. Qed.
Print Assumptions c20_inv_init.
Theorem c20_inv_step : forall s i s', ProtoInv s -> step_thread s i = Some s' -> ProtoInv s'.
Proof. exact ProtoInv_step. Qed.
Print Assumptions c20_inv_step.
Theorem c20_inv_reachable : forall tss s, sreach (init_sys tss) s -> ProtoInv s.
Proof. exact proto_inv_reachable. Qed.
Print Assumptions c20_inv_reachable.
Theorem c20_inv_schedule : forall tss sched, ProtoInv (run_schedule (init_sys tss) sched).
Proof. exact proto_inv_schedule. Qed.
Print Assumptions c20_inv_schedule.
(* reachable by steps = result of some schedule *)
Theorem c20_reach_schedule : forall s0 s, sreach s0 s <-> exists sched, s = run_schedule s0 sched.
Proof.
  intros s0 s. split; [apply sreach_is_schedule|]. intros [sched ->]. apply sreach_schedule.
Qed.
Print Assumptions c20_reach_schedule.

(* what the invariant says, spelled out.  Lock words agree with what threads
   hold: readers = number of read holders, writer flag = number of write
   holders (so at most one), a write-held lock has no readers, the writer
   queue counts exactly the threads registered as waiting writers *)
Theorem c20_lock_bookkeeping : forall tss s l, sreach (init_sys tss) s ->
  readers (get_lock s l) = sumf (hct l MR) (threads s) /\
  b2n (writer (get_lock s l)) = sumf (hct l MW) (threads s) /\
  (writer (get_lock s l) = true -> readers (get_lock s l) = 0) /\
  wqueue (get_lock s l) = sumf (wq l) (threads s).
Proof. exact lock_bookkeeping_reachable. Qed.
Print Assumptions c20_lock_bookkeeping.

(* every thread is at one of these positions: holding nothing between calls;
   about to take RM holding nothing (handle) or only OUTER (never RM itself:
   no re-acquisition); Read only under RM-read, Write only under RM-write
   inside OUTER-write, Begin/End only under OUTER-write; a release always
   releases the most recently taken lock; a thread holding RM is never about
   to acquire anything *)
Theorem c20_thread_positions : forall tss s t, sreach (init_sys tss) s -> In t (threads s) ->
  (prog t = [] /\ held t = []) \/
  (exists m p', prog t = Acq OUTER m :: p' /\ held t = []) \/
  (exists p', prog t = Acq RM MR :: p' /\ (held t = [] \/ held t = [(OUTER, MR)])) \/
  (exists p', prog t = Acq RM MW :: p' /\ held t = [(OUTER, MW)]) \/
  (exists p', prog t = Read :: p' /\ (held t = [(RM, MR)] \/ held t = [(RM, MR); (OUTER, MR)])) \/
  (exists p', prog t = Write :: p' /\ held t = [(RM, MW); (OUTER, MW)]) \/
  (exists p', prog t = Begin :: p' /\ held t = [(OUTER, MW)]) \/
  (exists p', prog t = End :: p' /\ held t = [(OUTER, MW)]) \/
  (exists p' m h', prog t = Rel RM :: p' /\ held t = (RM, m) :: h' /\ (h' = [] \/ h' = [(OUTER, m)])) \/
  (exists p' m, prog t = Rel OUTER :: p' /\ held t = [(OUTER, m)]).
Proof. exact thread_cases_reachable. Qed.
Print Assumptions c20_thread_positions.

(* the finer statement: (remaining program, held list) is one of the eleven
   position patterns of tshape (suffixes of the call programs) *)
Theorem c20_thread_shape : forall s t, ProtoInv s -> In t (threads s) -> tshape (prog t) (held t).
Proof. exact thread_shape. Qed.
Print Assumptions c20_thread_shape.

(* a thread flagged as queued is indeed waiting on a write acquisition *)
Theorem c20_queued_waits : forall tss s t, sreach (init_sys tss) s -> In t (threads s) ->
  queued t = true -> exists l p, prog t = Acq l MW :: p.
Proof. exact queued_reachable. Qed.
Print Assumptions c20_queued_waits.

(* the in-call flag is set exactly while one thread is between Begin and End *)
Theorem c20_in_call_flag : forall tss s, sreach (init_sys tss) s ->
  b2n (in_call (dat s)) = sumf midt (threads s).
Proof. exact in_call_reachable. Qed.
Print Assumptions c20_in_call_flag.

(* mutual exclusion *)
Theorem c20_excl_writer_reader : forall s l t1 t2, ProtoInv s ->
  In t1 (threads s) -> In t2 (threads s) -> hct l MW t1 >= 1 -> hct l MR t2 = 0.
Proof. exact excl_writer_reader. Qed.
Print Assumptions c20_excl_writer_reader.
Theorem c20_excl_writer_writer : forall s l i j t1 t2, ProtoInv s ->
  nth_error (threads s) i = Some t1 -> nth_error (threads s) j = Some t2 -> i <> j ->
  hct l MW t1 >= 1 -> hct l MW t2 = 0.
Proof. exact excl_writer_writer. Qed.
Print Assumptions c20_excl_writer_writer.

(* ------------------------------------------------------------------ *)
(* (2) no deadlock, no call blocks forever                             *)
(* ------------------------------------------------------------------ *)
(* in every reachable state that is not finished some thread can move *)
Theorem c20_progress : forall tss s, sreach (init_sys tss) s -> all_done s = false ->
  exists i, step_thread s i <> None.
Proof. exact progress. Qed.
Print Assumptions c20_progress.
Theorem c20_progress_inv : forall s, ProtoInv s -> all_done s = false ->
  exists i, step_thread s i <> None.
Proof. exact progress_inv. Qed.
Print Assumptions c20_progress_inv.

(* a reachable state in which nobody can move is a finished state *)
Theorem c20_stuck_is_done : forall tss s, sreach (init_sys tss) s ->
  (forall i, step_thread s i = None) -> all_done s = true.
Proof. exact stuck_is_done. Qed.
Print Assumptions c20_stuck_is_done.

(* "thread i can move" read thread-locally *)
Theorem c20_enabled_spec : forall s i t, nth_error (threads s) i = Some t ->
  (step_thread s i <> None <-> enabled s t = true).
Proof. exact step_enabled. Qed.
Print Assumptions c20_enabled_spec.

(* every step (a queue registration included) strictly decreases a natural
   number: there is no infinite run, and a run has at most smeasure s steps *)
Theorem c20_step_decreases : forall s s', sstep s s' -> smeasure s' < smeasure s.
Proof. exact sstep_decreases. Qed.
Print Assumptions c20_step_decreases.
Theorem c20_wf : well_founded (fun s' s => sstep s s').
Proof. exact sstep_wf. Qed.
Print Assumptions c20_wf.
Theorem c20_no_infinite_run : forall f : nat -> sys, ~ (forall n, sstep (f n) (f (S n))).
Proof. exact no_infinite_run. Qed.
Print Assumptions c20_no_infinite_run.
Theorem c20_run_length : forall s n s', srun s n s' -> smeasure s' + n <= smeasure s.
Proof. exact run_length_bounded. Qed.
Print Assumptions c20_run_length.

(* from every reachable state the system can be run to completion *)
Theorem c20_can_complete : forall s, ProtoInv s -> exists sched, all_done (run_schedule s sched) = true.
Proof. exact can_complete_inv. Qed.
Print Assumptions c20_can_complete.

(* under ANY fair schedule (rounds that each mention every thread, in any
   order, with any repetitions) all calls of all threads complete within
   smeasure rounds: no call blocks forever *)
Theorem c20_fair_completes : forall tss segs,
  Forall (covers (length tss)) segs -> smeasure (init_sys tss) <= length segs ->
  all_done (run_schedule (init_sys tss) (concat segs)) = true.
Proof. exact fair_schedule_completes. Qed.
Print Assumptions c20_fair_completes.
Theorem c20_round_robin_completes : forall tss,
  all_done (run_schedule (init_sys tss)
              (concat (repeat (seq 0 (length tss)) (smeasure (init_sys tss))))) = true.
Proof. exact round_robin_completes. Qed.
Print Assumptions c20_round_robin_completes.

(* ------------------------------------------------------------------ *)
(* (3) what reads observe                                              *)
(* ------------------------------------------------------------------ *)
(* version = number of management calls completed, writes = number of
   mutations applied: nothing is lost or applied twice, whatever the
   interleaving; at the end no call is left half applied *)
Theorem c20_counters : forall tss s, sreach (init_sys tss) s ->
  version (dat s) + pending is_end s = sumf n_mgmt tss /\
  writes (dat s) + pending is_write s = sumf n_writes tss.
Proof. exact counters_reachable. Qed.
Print Assumptions c20_counters.
Theorem c20_final_counters : forall tss s, sreach (init_sys tss) s -> all_done s = true ->
  version (dat s) = sumf n_mgmt tss /\ writes (dat s) = sumf n_writes tss /\ in_call (dat s) = false.
Proof. exact final_counters. Qed.
Print Assumptions c20_final_counters.

(* while any thread holds the outer lock for reading no management call is in
   progress (and, the outer lock being held, none can start) *)
Theorem c20_outer_reader_quiescent : forall s t, ProtoInv s -> In t (threads s) ->
  hct OUTER MR t >= 1 -> in_call (dat s) = false.
Proof. exact outer_reader_quiescent. Qed.
Print Assumptions c20_outer_reader_quiescent.

(* the invariant relating each thread to its original call list *)
Theorem c20_read_inv : forall tss s, sreach (init_sys tss) s -> ReadInv tss s.
Proof. exact read_inv_reachable. Qed.
Print Assumptions c20_read_inv.

(* at any time the observations of a thread split along its calls: every
   completed enforce call contributed k reads of ONE version with no call in
   progress; the call under way a prefix of such a block *)
Theorem c20_seen_structure : forall tss s i cs t, sreach (init_sys tss) s ->
  nth_error tss i = Some cs -> nth_error (threads s) i = Some t ->
  exists pre post bs cur, cs = pre ++ post /\ Forall2 block_full pre bs /\
    seen t = concat bs ++ cur /\
    (cur = [] \/ exists c post', post = c :: post' /\ block_partial c cur).
Proof. exact seen_structure. Qed.
Print Assumptions c20_seen_structure.
Theorem c20_seen_final : forall tss s i cs t, sreach (init_sys tss) s ->
  nth_error tss i = Some cs -> nth_error (threads s) i = Some t -> prog t = [] ->
  exists bs, Forall2 block_full cs bs /\ seen t = concat bs.
Proof. exact seen_blocks_final. Qed.
Print Assumptions c20_seen_final.

(* a thread that only enforces never sees a half-applied management call *)
Theorem c20_enforce_quiescent : forall tss s i cs t, sreach (init_sys tss) s ->
  nth_error tss i = Some cs -> nth_error (threads s) i = Some t ->
  Forall is_enforce cs -> forall x, In x (seen t) -> snd x = false.
Proof. exact enforce_reads_quiescent. Qed.
Print Assumptions c20_enforce_quiescent.

(* along every thread the versions seen never go back and are never ahead of
   the current version *)
Theorem c20_versions_monotone : forall tss s, sreach (init_sys tss) s ->
  Forall (fun t => nondecr (map fst (seen t)) /\
                   Forall (fun y => y <= version (dat s)) (map fst (seen t))) (threads s).
Proof. exact mono_reachable. Qed.
Print Assumptions c20_versions_monotone.

(* every observation is the data of an actual intermediate state of the run:
   together with c20_counters, "version v" means "exactly the first v
   management calls in OUTER-write order have been applied" *)
Theorem c20_reads_are_snapshots : forall tss sched i t x,
  nth_error (threads (run_schedule (init_sys tss) sched)) i = Some t -> In x (seen t) ->
  exists pre suf, sched = pre ++ suf /\
    x = (version (dat (run_schedule (init_sys tss) pre)), in_call (dat (run_schedule (init_sys tss) pre))).
Proof. exact reads_are_snapshots. Qed.
Print Assumptions c20_reads_are_snapshots.

(* with no management call anywhere, every read of every thread sees the
   initial state: threads obtain exactly what a single thread obtains *)
Theorem c20_no_writer_single_thread : forall tss s i t, sumf n_mgmt tss = 0 ->
  sreach (init_sys tss) s -> nth_error (threads s) i = Some t ->
  forall x, In x (seen t) -> x = (0, false).
Proof. exact no_mgmt_reads_initial. Qed.
Print Assumptions c20_no_writer_single_thread.

(* RM exclusion: per-read atomicity also for the handle used outside OUTER *)
Theorem c20_read_write_exclusive : forall s t1 t2 p1 p2, ProtoInv s ->
  In t1 (threads s) -> In t2 (threads s) ->
  prog t1 = Read :: p1 -> prog t2 = Write :: p2 -> False.
Proof. exact read_write_exclusive. Qed.
Print Assumptions c20_read_write_exclusive.
Theorem c20_write_write_exclusive : forall s i j t1 t2 p1 p2, ProtoInv s ->
  nth_error (threads s) i = Some t1 -> nth_error (threads s) j = Some t2 -> i <> j ->
  prog t1 = Write :: p1 -> prog t2 = Write :: p2 -> False.
Proof. exact write_write_exclusive. Qed.
Print Assumptions c20_write_write_exclusive.

(* ...but only per read: the handle can observe a management call half applied
   (1 of its 2 mutations done).  Not a model defect: it is what using the
   role-manager handle outside the outer lock means. *)
Example c20_handle_sees_in_call :
  let s := run_schedule (init_sys ex_handle_tss) [0; 0; 0; 0; 0; 1; 1] in
  seen_of s = [[]; [(0, true)]] /\ writes (dat s) = 1 /\ in_call (dat s) = true /\
  sreach (init_sys ex_handle_tss) s.
Proof. exact handle_sees_in_call. Qed.

(* the executable predicate of Model/SpecC20.v holds of every finished run *)
Theorem c20_pred_holds : forall tss s, sreach (init_sys tss) s -> all_done s = true ->
  c20_pred tss (seen_of s) = true.
Proof. exact c20_pred_model. Qed.
Print Assumptions c20_pred_holds.
Example c20_pred_not_trivial :
  c20_pred [[CEnforce 2]; [CMgmt 1]] [[(0, false); (1, false)]; []] = false /\
  c20_pred [[CEnforce 1]; [CMgmt 1]] [[(0, true)]; []] = false /\
  c20_pred [[CEnforce 2]; [CMgmt 1]] [[(1, false); (1, false)]; []] = true.
Proof. exact c20_pred_rejects_torn. Qed.

(* ------------------------------------------------------------------ *)
(* (4) non-vacuity and what the source pin protects                    *)
(* ------------------------------------------------------------------ *)
(* enforce k=2, management k=2, handle k=2 under three schedules *)
Example c20_run_round_robin :
  let s := run_schedule (init_sys ex_tss) (ex_rr 3 25) in
  all_done s = true /\ dat s = {| version := 1; in_call := false; writes := 2 |} /\
  seen_of s = [[(0, false); (0, false)]; []; [(0, false); (0, false)]].
Proof. exact ex_run_rr. Qed.
Example c20_run_writer_first :
  let s := run_schedule (init_sys ex_tss) (repeat 1 10 ++ repeat 2 6 ++ repeat 0 8) in
  all_done s = true /\ seen_of s = [[(1, false); (1, false)]; []; [(1, false); (1, false)]].
Proof. exact ex_run_writer_first. Qed.
Example c20_run_reverse :
  let s := run_schedule (init_sys ex_tss) (concat (repeat [2; 1; 0] 25)) in
  all_done s = true /\ version (dat s) = 1 /\ writes (dat s) = 2 /\
  seen_of s = [[(1, false); (1, false)]; []; [(0, false); (0, true)]].
Proof. exact ex_run_reverse. Qed.

(* writer preference: reader 0 holds OUTER, writer 1 queues, reader 2 must wait
   although the lock is only read-held; everything still completes *)
Example c20_writer_preference :
  let s := run_schedule (init_sys ex_wp_tss) [0; 1] in
  step_thread s 2 = None /\ step_thread s 1 = None /\ step_thread s 0 <> None /\
  wqueue (l_outer s) = 1 /\ readers (l_outer s) = 1 /\
  let s' := run_schedule s (ex_rr 3 25) in
  all_done s' = true /\ seen_of s' = [[(0, false)]; []; [(1, false)]].
Proof. exact ex_writer_preference. Qed.

(* successive enforce calls of one thread see successive versions, one each *)
Example c20_versions_advance :
  let s := run_schedule (init_sys ex_two_calls) (repeat 0 8 ++ repeat 1 7 ++ repeat 0 8) in
  all_done s = true /\ seen_of s = [[(0, false); (0, false); (1, false); (1, false)]; []].
Proof. exact ex_versions_advance. Qed.

(* NEGATIVE witness: a thread that takes the RM read guard again while still
   holding it deadlocks as soon as a writer queues in between.  This is what
   the source pin "no guard is held across another acquisition" protects. *)
Example c20_nested_read_deadlocks :
  let s := run_schedule bad_sys [0; 1; 1; 1] in
  sreach bad_sys s /\ (forall i, step_thread s i = None) /\ all_done s = false.
Proof. exact nested_read_deadlocks. Qed.
Print Assumptions c20_nested_read_deadlocks.
Example c20_unnested_read_completes :
  all_done (run_schedule (init_sys [[CHandle 2]; [CMgmt 1]]) ([0; 1; 1; 1] ++ ex_rr 2 25)) = true.
Proof. exact unnested_read_completes. Qed.
Example c20_nested_reader_not_shaped : ~ tshape [Acq RM MR; Read; Rel RM; Rel RM] [(RM, MR)].
Proof. exact nested_reader_not_shaped. Qed.

(* while some thread holds OUTER for reading, no step of any thread changes the
   version or the in-call flag: what an enforce call reads is frozen for its
   whole duration *)
Theorem c20_outer_reader_freezes_data : forall s i s' t, ProtoInv s -> In t (threads s) ->
  hct OUTER MR t >= 1 -> step_thread s i = Some s' ->
  version (dat s') = version (dat s) /\ in_call (dat s') = in_call (dat s).
Proof. exact outer_reader_freezes_data. Qed.
Print Assumptions c20_outer_reader_freezes_data.
