(* The query interface over the TRANSLATED SOURCE, second version (statements; proofs in Proofs/SrcAskP.v).
   `src_ask2 ptab ord fuel s q` answers every query constructor for which rs2coq part 13 generated a function THROUGH
   that function (Gen/QueryGen.v, regenerated every run from src/rbac_api.rs and src/management_api.rs: genq_get_policy,
   genq_get_named_policy, genq_get_filtered_*, genq_has_*, genq_get_all_*, genq_get_roles_for_user,
   genq_get_users_for_role, genq_has_role_for_user, genq_get_permissions_for_user, genq_get_implicit_roles_for_user,
   genq_get_implicit_permissions_for_user, genq_get_implicit_users_for_permission) and the decision queries through the
   translated enforcement loops (src_enforce / src_enforce_with_ctx: Gen/EnforceGen.v from src/enforcer.rs).
   Left on the model, because the source has no function / part 13 no translation for them: management queries on a
   section other than "p" / "g", QValues at a field index without a getter, QIsFiltered, QHasLink.
   `ord` = the iteration order of the hash containers, `fuel` = bound of the work-list loop of
   get_implicit_roles_for_user;  q_side fuel s q = what part 13 needs for query q on state s:
     QImplicitRoles _ d, QImplicitPerms _ d :  wf (f_rm (e_fs s)) /\ S (S (graph_size (f_rm (e_fs s)) d)) <= fuel
     every other query                        :  True
   answer_equiv (Proofs/C18P.v): listings the source returns out of a hash container compared as sets / bags. *)
From CV Require Import Model.Base Model.Effector Model.RoleGraph Model.Expr Model.Enforce Model.Engine Model.SpecC13.
From CV Require Import Gen.RustStr Gen.RustVec Gen.RustIter Gen.QueryRt Gen.QueryGen.
From CV Require Import Proofs.BaseP Proofs.RoleGraphP Proofs.C13P Proofs.C18P Proofs.QueryP PinChecks.PcQueryGen.
From CV Require Import Proofs.SrcStepP Proofs.SrcQueryP Proofs.SrcAskP.

Theorem src_ask2_ok : forall ptab ord fuel s q, q_ord_ok ord -> q_side fuel s q ->
  answer_equiv (src_ask2 ptab ord fuel s q) (ask ptab s q).
Proof. exact src_ask2_equiv. Qed.
Print Assumptions src_ask2_ok.

(* one hypothesis for all queries at once *)
Theorem src_ask2_side_all : forall fuel s, wf (f_rm (e_fs s)) ->
  (forall d, S (S (graph_size (f_rm (e_fs s)) d)) <= fuel) -> forall q, q_side fuel s q.
Proof. exact q_side_all. Qed.
Print Assumptions src_ask2_side_all.

Theorem src_ask2_side_fuel : forall fuel s q, wf (f_rm (e_fs s)) -> q_fuel s q <= fuel -> q_side fuel s q.
Proof. exact q_side_fuel. Qed.
Print Assumptions src_ask2_side_fuel.

(* the hypotheses hold on every state the translated source reaches from the translated constructor, for every fuel
   above q_fuel (the size of the role graph + 2 for the two work-list queries, 0 otherwise) *)
Theorem src_ask2_reachable_ok : forall ptab ord d a w ops q fuel, q_ord_ok ord ->
  let s := src_run_ops (fst (src_new_enforcer d a w)) ops in
  q_fuel s q <= fuel ->
  answer_equiv (src_ask2 ptab ord fuel s q) (ask ptab s q).
Proof. exact src_ask2_reachable. Qed.
Print Assumptions src_ask2_reachable_ok.

Theorem src_ask2_reachable_some_fuel : forall ptab ord d a w ops q, q_ord_ok ord ->
  let s := src_run_ops (fst (src_new_enforcer d a w)) ops in
  exists F, forall fuel, F <= fuel -> answer_equiv (src_ask2 ptab ord fuel s q) (ask ptab s q).
Proof. exact src_ask2_reachable_ex. Qed.
Print Assumptions src_ask2_reachable_some_fuel.

(* it agrees with the first source-level query interface *)
Theorem src_ask2_agrees_src_ask : forall ptab ord fuel s q, q_ord_ok ord -> q_side fuel s q ->
  answer_equiv (src_ask2 ptab ord fuel s q) (src_ask ptab s q).
Proof. exact src_ask2_src_ask. Qed.
Print Assumptions src_ask2_agrees_src_ask.

(* answer_equiv is symmetric and transitive, hence: two states the model cannot tell apart by a query are not told
   apart by the translated query functions (how the theorems stated with `forall q, ask .. s' q = ask .. s q` move) *)
Theorem src_answer_equiv_sym : forall a b, answer_equiv a b -> answer_equiv b a.
Proof. exact answer_equiv_sym. Qed.
Print Assumptions src_answer_equiv_sym.
Theorem src_answer_equiv_trans : forall a b c, answer_equiv a b -> answer_equiv b c -> answer_equiv a c.
Proof. exact answer_equiv_trans. Qed.
Print Assumptions src_answer_equiv_trans.

Theorem src_ask2_respects_model_equiv : forall ptab ord fuel s1 s2 q,
  q_ord_ok ord -> q_side fuel s1 q -> q_side fuel s2 q ->
  answer_equiv (ask ptab s1 q) (ask ptab s2 q) ->
  answer_equiv (src_ask2 ptab ord fuel s1 q) (src_ask2 ptab ord fuel s2 q).
Proof. exact src_ask2_transfer. Qed.
Print Assumptions src_ask2_respects_model_equiv.

(* ---- the hypotheses are satisfiable: ex1 of Proofs/C13P.v (a reachable state with a diamond and a cycle), the
   reversed iteration order, fuel 6 ---- *)
Example src_ask2_ex_hyps : q_ord_ok (@rev text) /\ q_side 6 ex1 (QImplicitRoles (T "alice") None).
Proof. exact src_ask2_ex_side. Qed.

(* ... and the translated functions compute on it: the source's order of the listings differs from the model's *)
Example src_ask2_ex_run :
  src_ask2 ptab0 (@rev text) 6 ex1 (QImplicitRoles (T "alice") None) = AnsNameSet [T "r3"; T "r2"; T "r1"] /\
  ask ptab0 ex1 (QImplicitRoles (T "alice") None) = AnsNameSet [T "r2"; T "r1"; T "r3"] /\
  src_ask2 ptab0 (@rev text) 6 ex1 (QHasRole (T "alice") (T "r1") None) = AnsBool true /\
  src_ask2 ptab0 (@rev text) 6 ex1 (QEnforce [VStr (T "alice"); VStr (T "data"); VStr (T "read")]) = AnsDec (Ok true) /\
  src_ask2 ptab0 (@rev text) 6 ex1 (QGetPolicy s_p s_p) = ask ptab0 ex1 (QGetPolicy s_p s_p) /\
  src_ask2 ptab0 (@rev text) 6 ex1 (QValues s_g s_g 1) = ask ptab0 ex1 (QValues s_g s_g 1) /\
  src_ask2 ptab0 (@rev text) 6 ex1 (QImplicitUsers [T "data"; T "read"]) =
    ask ptab0 ex1 (QImplicitUsers [T "data"; T "read"]).
Proof. vm_compute. repeat split; reflexivity. Qed.
