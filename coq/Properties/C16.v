(* C16 — Model and policy text formats round-trip.
   Only statements closed by `exact`; proofs live in Proofs/CsvP.v, IniP.v,
   EscP.v, ModelTextP.v, ToTextP.v, ReplaceP.v, ToText2P.v (umbrella C16P.v).
   All functions involved (parse_csv_line, parsed_lines, parse_config,
   model_of_text, to_text, escape_assertion) are total Gallina functions: every
   text is either parsed or rejected (None). That the REAL code never panics on
   arbitrary text is covered by the differential noise stream and the source
   pins, not by a theorem here. *)
From CV Require Import Model.Base Model.PathMatch Model.Expr Model.Enforce Model.Engine.
From CV Require Import Model.Csv Model.Ini Model.SpecC16.
From CV Require Import Proofs.C16P.

(* ================================================================== *)
(* A. policy lines (CSV)                                                *)
(* ================================================================== *)

(* (1) trimming removes exactly the surrounding white space of a text that is
   empty or starts and ends with a non-blank; it is idempotent *)
Theorem c16_trim_pad : forall w1 s w2,
  all_ws w1 = true -> all_ws w2 = true -> tight s = true -> trim (w1 ++ s ++ w2) = s.
Proof. exact trim_pad. Qed.
Print Assumptions c16_trim_pad.
Theorem c16_trim_idem : forall s, trim (trim s) = trim s.
Proof. exact trim_idem. Qed.
Theorem c16_trim_tight : forall s, tight (trim s) = true.
Proof. exact trim_tight. Qed.
Print Assumptions c16_trim_tight.

(* (2) one column: whatever blanks surround a safe value, quoted or bare, the
   scanner takes exactly the rendered column up to the separating comma, and
   the column's value is the original value *)
Theorem c16_column_scan : forall f v rest,
  colfmt_ok f = true -> csv_safe v = true ->
  (rest = [] \/ exists r, rest = comma :: r) ->
  esc_c_match (render_col f v ++ rest) = (render_col f v, rest) /\
  column_of (render_col f v) = v.
Proof.
  intros f v rest Hf Hv Hrest. apply colfmt_ok_wsok in Hf. apply csv_safe_safeP in Hv. split.
  - apply esc_c_match_col; [exact Hf|exact Hv|].
    destruct Hrest as [->|[r ->]]; [exact I|reflexivity].
  - apply column_of_col; assumption.
Qed.
Print Assumptions c16_column_scan.

(* (3) a rendered rule, under every spacing / quoting variant, parses to the
   rule: policy type then the values *)
Theorem c16_parse_render_row : forall fs pt vs,
  ptype_safe pt = true -> forallb csv_safe vs = true -> forallb colfmt_ok fs = true ->
  length fs = S (length vs) ->
  parse_csv_line (render_row fs (pt :: vs)) = Some (pt :: vs).
Proof. exact parse_render_row. Qed.
Print Assumptions c16_parse_render_row.
(* the same with any white space (CR, VT, FF) around the values *)
Theorem c16_parse_render_row_ws : forall fs pt vs,
  ptype_safe pt = true -> forallb csv_safe vs = true -> forallb colfmt_wsok fs = true ->
  length fs = S (length vs) ->
  parse_csv_line (render_row fs (pt :: vs)) = Some (pt :: vs).
Proof. exact parse_render_row_ws. Qed.
Print Assumptions c16_parse_render_row_ws.
(* white space around the whole line is irrelevant *)
Theorem c16_parse_line_pad : forall w1 l w2, all_ws w1 = true -> all_ws w2 = true ->
  parse_csv_line (w1 ++ l ++ w2) = parse_csv_line l.
Proof. exact parse_csv_line_pad. Qed.
(* the scanner's fuel bound is never what stops it, on any text *)
Theorem c16_scan_fuel_enough : forall s adj extra,
  scan_cols (S (S (length s)) + extra) s adj = scan_cols (S (S (length s))) s adj.
Proof. exact scan_cols_fuel_enough. Qed.
Print Assumptions c16_scan_fuel_enough.

(* (4) a policy file — rows in any column layout, blank lines, comment lines,
   LF or CRLF line ends, last line with or without terminator — stands for
   exactly its rows, in order *)
Theorem c16_parsed_lines_file : forall items final,
  forallb (fun ib => fitem_ok (fst ib)) items = true ->
  (match final with Some it => fitem_ok it | None => true end) = true ->
  parsed_lines (render_file items final) = file_rows items final.
Proof. exact parsed_lines_file. Qed.
Print Assumptions c16_parsed_lines_file.

(* the executable predicates hold of the model *)
Theorem c16_csv_pred_holds : forall fs pt vs,
  ptype_safe pt = true -> forallb csv_safe vs = true -> forallb colfmt_ok fs = true ->
  length fs = S (length vs) ->
  c16_csv_pred (pt :: vs) (parse_csv_line (render_row fs (pt :: vs))) = true.
Proof. exact c16_csv_pred_model. Qed.
Theorem c16_file_pred_holds : forall items final,
  forallb (fun ib => fitem_ok (fst ib)) items = true ->
  (match final with Some it => fitem_ok it | None => true end) = true ->
  c16_file_pred (file_rows items final) (parsed_lines (render_file items final)) = true.
Proof. exact c16_file_pred_model. Qed.
Print Assumptions c16_file_pred_holds.

(* non-vacuity: a file with quoting, blanks, tabs, comments, CRLF *)
Example c16_ex_file_ok : forallb (fun ib => fitem_ok (fst ib)) ex_file_items = true.
Proof. exact ex_file_ok. Qed.
Example c16_ex_file_rows :
  parsed_lines (render_file ex_file_items (Some (FRow [f_plain; f_sp] (T "p") [T "last"])))
  = [[T "p"; T "alice"; T "x,y"; T "a b"]; [T "g2"; T "bob"; T "admin"]; [T "p"; T "last"]].
Proof. exact ex_file_rows. Qed.

(* (5) D18, repaired: before the repair the blanks after a closing quote were
   read as an extra empty column *)
Example c16_d18_before : parse_csv_line_old (T """a,b"" , c") = Some [T "a,b"; []; T "c"].
Proof. exact d18_old_splitter. Qed.
Example c16_d18_after : parse_csv_line (T """a,b"" , c") = Some [T "a,b"; T "c"].
Proof. exact d18_repaired. Qed.
(* the restrictions on values are needed: see Properties/C09text.v *)

(* ================================================================== *)
(* B. model text (ini)                                                  *)
(* ================================================================== *)

(* (6) the plain rendering `[section]` / `key = value` parses to exactly those
   bindings *)
Theorem c16_parse_plain : forall secs, plain_ok secs = true ->
  parse_config (render_plain secs) = Some (cfg_of_plain secs).
Proof. exact parse_plain. Qed.
Print Assumptions c16_parse_plain.

(* (7) layout independence, exact form. A layout is any sequence of blank
   lines, '#' / ';' comment lines, section headers and definitions, with
   arbitrary white space before a header, after it, before a key, around '=',
   after the value, CR before LF, and continuation breaks `\` (with white space
   on either side, any indentation of the next line). The configuration read
   is the one the layout stands for: the value of a definition is the
   concatenation of its pieces (the blank at a break is LOST). *)
Theorem c16_parse_layout : forall items, forallb litem_ok items = true ->
  parse_config (render_layout items) = Some (cfg_of_defs (layout_defs items [])).
Proof. exact parse_layout_defs. Qed.
Print Assumptions c16_parse_layout.
(* hence two layouts of the same definitions give the same configuration and
   the same model (without continuation breaks: the same values exactly) *)
Theorem c16_layout_independence : forall items items',
  forallb litem_ok items = true -> forallb litem_ok items' = true ->
  layout_defs items [] = layout_defs items' [] ->
  parse_config (render_layout items) = parse_config (render_layout items') /\
  model_of_text (render_layout items) = model_of_text (render_layout items').
Proof. exact layout_independence. Qed.
Print Assumptions c16_layout_independence.
(* the last line may lack its terminator *)
Theorem c16_last_line_unterminated : forall ls l,
  Forall (fun x => ~ In nl x) ls -> ~ In nl l -> l <> [] ->
  parse_config (render_lines ls ++ l) = parse_config (render_lines (ls ++ [l])).
Proof. exact parse_config_last_unterminated. Qed.
Print Assumptions c16_last_line_unterminated.

(* (7) modulo white space: a layout with continuation breaks reads as the same
   layout with every break replaced by one blank, up to blanks outside string
   literals in the values (breaks must not fall inside a string literal) *)
Theorem c16_layout_breaks_equiv : forall items,
  forallb litem_ok items = true -> forallb breaks_outside_strings items = true ->
  exists c c', parse_config (render_layout items) = Some c /\
               parse_config (render_layout (map unbreak items)) = Some c' /\
               cfg_equiv c c'.
Proof. exact layout_breaks_equiv. Qed.
Print Assumptions c16_layout_breaks_equiv.

(* (7) at the model level: with continuation breaks in the matchers only
   (between lexemes that do not fuse, outside string literals, no '#'), the
   model loaded has the same keys and tokens, identical request / policy / role
   / effect values, and matcher values equal up to blanks outside string
   literals *)
Theorem c16_model_layout_breaks : forall items,
  forallb litem_ok items = true -> breaks_in_matchers_only items [] = true ->
  exists m m', model_of_text (render_layout items) = Some m /\
               model_of_text (render_layout (map unbreak items)) = Some m' /\
               c16_model_equiv (dump_of m) (dump_of m') = true.
Proof. exact model_layout_breaks. Qed.
Print Assumptions c16_model_layout_breaks.
Theorem c16_model_equiv_refl : forall d, c16_model_equiv d d = true.
Proof. exact c16_model_equiv_refl. Qed.

(* request / policy definitions: whatever blanks surround the fields of
   `r = sub, obj, act`, the definition has the tokens key_sub, key_obj, key_act
   (fields: non-empty, no blank at either end, no comma, no '#') *)
Theorem c16_rp_tokens_spacing : forall sec key pads fields,
  sec = T "r" \/ sec = T "p" -> fields <> [] -> length pads = length fields ->
  forallb (fun p => all_ws (fst p) && all_ws (snd p)) pads = true ->
  forallb rp_field_ok fields = true ->
  add_def sec key (rp_value pads fields)
  = Some {| ad_key := key; ad_value := trim_end (rp_value pads fields);
            ad_tokens := map (fun f => key ++ underscore :: f) fields |}.
Proof. exact rp_tokens_spacing. Qed.
Print Assumptions c16_rp_tokens_spacing.
Example c16_rp_tokens_ex :
  add_def (T "r") (T "r2") (rp_value [([], T " "); (T "  ", []); (T " ", T "  ")] [T "sub"; T "obj"; T "act"])
  = Some {| ad_key := T "r2"; ad_value := T "sub ,  obj, act";
            ad_tokens := [T "r2_sub"; T "r2_obj"; T "r2_act"] |}.
Proof. exact rp_tokens_ex. Qed.

(* non-vacuity: a wild layout (comments, blank lines, tabs, CR, a matcher over
   three lines) and what it loads as *)
Example c16_ex_layout_ok :
  forallb litem_ok ex_layout = true /\ breaks_in_matchers_only ex_layout [] = true.
Proof. split; [exact ex_layout_ok|exact ex_layout_breaks_ok]. Qed.
Example c16_ex_layout_model :
  option_map dump_of (model_of_text (render_layout ex_layout)) =
  Some [ (T "r", T "sub, obj, act", [T "r_sub"; T "r_obj"; T "r_act"]);
         (T "p", T "sub, obj, act", [T "p_sub"; T "p_obj"; T "p_act"]);
         (T "e", T "some(where (p_eft == allow))", []);
         (T "m", T "g(r_sub, p_sub) &&r_obj == p_obj &&r_act == p_act", []);
         (T "g", T "_, _", []) ].
Proof. exact ex_layout_model. Qed.

(* D21 (known quirk, outside the layout grammar): a blank or comment line
   inside a continuation ends it; the remainder of the value is read as a
   separate line — silently as another key when it contains '=', a parse error
   otherwise *)
Example c16_d21_comment_in_continuation :
  parse_config d21_text =
  Some [ ((T "matchers", T "m"), T "r.sub == p.sub &&");
         ((T "matchers", T "r.obj"), T "= p.obj") ].
Proof. exact d21_comment_in_continuation. Qed.
Example c16_d21_blank_in_continuation : parse_config d21_text2 = None.
Proof. exact d21_blank_in_continuation. Qed.
(* the break conditions are needed *)
Example c16_break_inside_variable :
  (escape_assertion (T "r" ++ T ".sub == p.sub"), escape_assertion (T "r" ++ " "%char :: T ".sub == p.sub"))
  = (T "r_sub == p_sub", T "r .sub == p_sub").
Proof. exact break_inside_variable. Qed.
Example c16_break_fuses_words :
  (escape_assertion (T "x" ++ T "r.sub"), escape_assertion (T "x" ++ " "%char :: T "r.sub"))
  = (T "xr.sub", T "x r_sub").
Proof. exact break_fuses_words. Qed.

(* ================================================================== *)
(* (8) escape_assertion                                                 *)
(* ================================================================== *)
(* a variable `p.f` (p = r, p, r2, p2, ...; f free of rewriting sites, e.g. an
   identifier) becomes the token `p_f`, whatever follows *)
Theorem c16_escape_var : forall p f, rp_prefix p = true -> has_site false f = false ->
  escape_assertion (p ++ dot :: f) = tok p f.
Proof. exact escape_var. Qed.
Theorem c16_escape_var_ident : forall p f, rp_prefix p = true -> ~ In dot f ->
  escape_assertion (p ++ dot :: f) = tok p f.
Proof. exact escape_var_ident. Qed.
Theorem c16_escape_var_gen : forall p f t, rp_prefix p = true ->
  escape_assertion (p ++ dot :: f ++ t) = tok p (esc_go false false (f ++ t)).
Proof. exact escape_var_gen. Qed.
Print Assumptions c16_escape_var_gen.
(* text without an r/p-prefixed dotted name at a word boundary is unchanged;
   in particular text without dots *)
Theorem c16_escape_no_site : forall s, has_site false s = false -> escape_assertion s = s.
Proof. exact escape_no_site. Qed.
Theorem c16_escape_no_dot : forall s, ~ In dot s -> escape_assertion s = s.
Proof. exact escape_no_dot. Qed.
(* idempotence, on every text *)
Theorem c16_escape_idem : forall s, escape_assertion (escape_assertion s) = escape_assertion s.
Proof. exact escape_idem. Qed.
Print Assumptions c16_escape_idem.
(* compositional where no look-ahead is pending *)
Theorem c16_escape_app : forall a b, la_dead b = true ->
  escape_assertion (a ++ b) = escape_assertion a ++ esc_go false (pw_after false a) b.
Proof. exact escape_app. Qed.
Print Assumptions c16_escape_app.
Example c16_escape_print :
  escape_assertion (print_expr (EAnd (ECall (T "g") [EVar (T "r") (T "sub"); EVar (T "p") (T "sub")])
                                     (EEq (EVar (T "r2") (T "obj")) (EProp (EVar (T "p") (T "obj")) (T "owner")))))
  = T "g(r_sub, p_sub) && r2_obj == p_obj.owner".
Proof. exact esc_print_ex. Qed.

(* ================================================================== *)
(* (9) to_text                                                          *)
(* ================================================================== *)
(* to_text writes the plain rendering of the model's definitions, r/p/e/m
   values passed through the replacement table *)
Theorem c16_to_text_plain : forall m, to_text m = render_plain (totext_secs m).
Proof. exact to_text_plain. Qed.
(* reading it back yields, definition by definition, what add_def makes of the
   written values (keys sec, sec2, ... distinct; written values single-line) *)
Theorem c16_to_text_reload : forall m, totext_wf m = true ->
  model_of_text (to_text m) = Some (reload_model m).
Proof. exact to_text_reload. Qed.
Print Assumptions c16_to_text_reload.
(* the replace-based un-escaping followed by escape_assertion is the identity
   on an escaped value in which tokens occur at word boundaries only — for
   every order of the replacement table (a HashMap in the real code) *)
Theorem c16_escape_apply_table : forall tb tb' v,
  (forall tu, In tu tb' -> In tu tb) ->
  table_ok tb = true -> value_totext_ok tb v = true ->
  escape_assertion (apply_table tb' v) = v.
Proof. exact escape_apply_table_any_order. Qed.
Print Assumptions c16_escape_apply_table.
(* the round trip: the model comes back, hence decides identically *)
Theorem c16_to_text_roundtrip : forall m,
  totext_wf m = true -> mdefs_canon m = true -> table_ok (token_table m) = true ->
  totext_defs_ok m = true -> model_of_text (to_text m) = Some m.
Proof. exact to_text_roundtrip_structural. Qed.
Print Assumptions c16_to_text_roundtrip.
(* what load_model builds is always in canonical section order *)
Theorem c16_load_model_canon : forall c, mdefs_canon (load_model c) = true.
Proof. exact load_model_canon. Qed.

(* the documented models satisfy the hypotheses, and round-trip *)
Example c16_totext_basic : structural_ok basic_model_text = true /\ totext_roundtrip_ok basic_model_text = true.
Proof. split; [exact structural_basic|exact totext_basic]. Qed.
Example c16_totext_rbac : structural_ok rbac_model_text = true /\ totext_roundtrip_ok rbac_model_text = true.
Proof. split; [exact structural_rbac|exact totext_rbac]. Qed.
Example c16_totext_rbac_domains :
  structural_ok rbac_domains_model_text = true /\ totext_roundtrip_ok rbac_domains_model_text = true.
Proof. split; [exact structural_rbac_domains|exact totext_rbac_domains]. Qed.
Example c16_totext_priority :
  structural_ok priority_model_text = true /\ totext_roundtrip_ok priority_model_text = true.
Proof. split; [exact structural_priority|exact totext_priority]. Qed.
Example c16_totext_multi :
  structural_ok multi_model_text = true /\ totext_roundtrip_ok multi_model_text = true.
Proof. split; [exact structural_multi|exact totext_multi]. Qed.
Example c16_totext_abac : structural_ok abac_model_text = true /\ totext_roundtrip_ok abac_model_text = true.
Proof. split; [exact structural_abac|exact totext_abac]. Qed.

(* the hypotheses are needed. A token inside a longer word (here in a string
   literal) is un-escaped by to_text and not re-escaped by the reader: the
   reloaded matcher compares with "user.obj" instead of "user_obj" *)
Example c16_totext_substring_refuted :
  totext_roundtrip_ok substring_model_text = false /\ structural_ok substring_model_text = false.
Proof. split; [exact totext_substring_refuted|exact structural_substring]. Qed.
Example c16_totext_substring_matcher :
  match model_of_text substring_model_text with
  | Some m => option_map (fun m' => map ad_value (sec_defs m' (T "m"))) (model_of_text (to_text m))
  | None => None
  end = Some [T "r_sub == p_sub && r_obj == ""user.obj"""].
Proof. exact totext_substring_matcher. Qed.
(* a field named like a prefix (`p`) whose property is read *)
Example c16_totext_field_named_p :
  let tb := [(T "r_p", T "r.p"); (T "p_sub", T "p.sub")] in
  (table_ok tb, value_totext_ok tb (T "r_p.x == p_sub"),
   escape_assertion (apply_table tb (T "r_p.x == p_sub")))
  = (false, true, T "r_p_x == p_sub").
Proof. exact field_named_p_refuted. Qed.
