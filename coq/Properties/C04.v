(* C04 — the policy store behaves as an insertion-ordered set under the
   management API.
   Only statements closed by `exact`; proofs live in Proofs/C04SetP.v (lists,
   model-level operations), Proofs/C04StepP.v (the management entry points),
   Proofs/C04InvP.v (invariant), Proofs/C04P.v (lift, flag = change, views,
   predicate) and Proofs/C04ExP.v (concrete witnesses).
   The specification (sp_*, sp_match, ideal store, c04_check) is
   Model/SpecC04.v. *)
From CV Require Import Model.Base Model.Effector Model.RoleGraph Model.Expr Model.Enforce
     Model.Engine Model.SpecC04.
From CV Require Import Proofs.BaseP Proofs.C04P Proofs.C04LinksP Proofs.C04ExP.

(* ====================================================================== *)
(* (1) Store invariant: every rule list is duplicate-free and the keys of  *)
(*     every section are distinct -- initially, after every call, after    *)
(*     every history.                                                      *)
(* ====================================================================== *)

(* StoreInv is decidable: model_invb is its boolean form *)
Theorem c04_inv_decidable : forall md, model_invb md = true <-> ModelInv md.
Proof. exact model_invb_spec. Qed.
Print Assumptions c04_inv_decidable.

(* a freshly built enforcer satisfies it, whatever the adapter delivers
   (arbitrary lines, scripted failures, filtered mark), provided the model
   definition itself does *)
Theorem c04_inv_initial : forall d a w,
  ModelInv (d_model d) -> StoreInv (fst (new_enforcer d a w)).
Proof. exact new_enforcer_inv. Qed.
Print Assumptions c04_inv_initial.

(* in particular when the definition carries no rules and no repeated key *)
Theorem c04_inv_initial_empty : forall d a w,
  (forall sec am, In (sec, am) (d_model d) ->
                  NoDup (map fst am) /\ forall k a0, In (k, a0) am -> a_policy a0 = []) ->
  StoreInv (fst (new_enforcer d a w)).
Proof. exact new_enforcer_inv_empty. Qed.
Print Assumptions c04_inv_initial_empty.

(* EVERY operation keeps it: all management and RBAC calls, clear, load,
   filtered load, save, rebuilding links, reconfiguration; accepted, refused,
   failed or panicking; every adapter.  The only side condition: a model
   definition installed by set_model must itself be a store of sets (it is, by
   its type, in the implementation). *)
Theorem c04_inv_step : forall s o, StoreInv s -> op_ok o -> StoreInv (fst (step s o)).
Proof. exact step_inv. Qed.
Print Assumptions c04_inv_step.

Theorem c04_inv_run : forall ops s,
  StoreInv s -> Forall op_ok ops -> StoreInv (run_ops s ops).
Proof. exact run_ops_inv. Qed.
Print Assumptions c04_inv_run.

(* the side condition is needed: set_model with a definition holding a
   duplicate, and a failing load, leaves the duplicate in the store *)
Example c04_inv_needs_op_ok :
  model_invb (e_model ex_sF) = true /\
  model_invb (e_model (after ex_sF (OSetModel ex_dup_def))) = false.
Proof. exact ex_inv_needs_op_ok. Qed.
Print Assumptions c04_inv_needs_op_ok.

(* ====================================================================== *)
(* (2) The model-level operations implement the ideal ordered set.         *)
(* ====================================================================== *)

(* sanity of the specification itself *)
Theorem c04_first_occ_set : forall rs x, In x (first_occ rs) <-> In x rs.
Proof. exact first_occ_In. Qed.
Print Assumptions c04_first_occ_set.
Theorem c04_first_occ_nodup : forall rs, NoDup (first_occ rs).
Proof. exact first_occ_NoDup. Qed.
Print Assumptions c04_first_occ_nodup.
Theorem c04_first_occ_id : forall rs, NoDup rs -> first_occ rs = rs.
Proof. exact first_occ_id. Qed.
Print Assumptions c04_first_occ_id.

(* a rule matches a filter iff every non-empty value equals the field at its
   position *)
Theorem c04_match_true : forall vals idx r,
  sp_match idx vals r = Some true <->
  (forall i v, nth_error vals i = Some v -> v <> [] -> nth_error r (idx + i) = Some v).
Proof. exact sp_match_true. Qed.
Print Assumptions c04_match_true.

(* the out-of-range outcome: the first position that is neither a wildcard
   nor equal lies beyond the end of the rule (all earlier ones fit) *)
Theorem c04_match_out_of_range : forall vals idx r,
  sp_match idx vals r = None <->
  (exists i v, nth_error vals i = Some v /\ v <> [] /\ nth_error r (idx + i) = None /\
               fits idx vals r i).
Proof. exact sp_match_oob. Qed.
Print Assumptions c04_match_out_of_range.

(* the model's tail-walking filter is that index-based specification *)
Theorem c04_fmatch : forall vals idx r, fmatch vals (skipn idx r) = sp_match idx vals r.
Proof. exact fmatch_sp_match. Qed.
Print Assumptions c04_fmatch.
Theorem c04_select : forall idx vals l, select_filtered idx vals l = sp_select idx vals l.
Proof. exact select_filtered_spec. Qed.
Print Assumptions c04_select.

(* every specification operation keeps a list duplicate-free *)
Theorem c04_spec_nodup : forall b l l' flag rs,
  NoDup l -> sp_apply b l = Some (l', flag, rs) -> NoDup l'.
Proof. exact sp_apply_NoDup. Qed.
Print Assumptions c04_spec_nodup.

(* the flag of a specification operation says whether the list changed *)
Theorem c04_spec_flag : forall b l l' flag rs,
  sp_apply b l = Some (l', flag, rs) -> (flag = true <-> l' <> l).
Proof. exact sp_apply_flag. Qed.
Print Assumptions c04_spec_flag.

(* the five model functions, one by one, on a known (sec, pt) *)
Theorem c04_m_add : forall md sec pt r a, get_ast md sec pt = Some a ->
  m_add_policy md sec pt r =
  (set_policy md sec pt (fst (sp_add (a_policy a) r)), snd (sp_add (a_policy a) r)).
Proof. exact m_add_policy_spec. Qed.
Print Assumptions c04_m_add.
Theorem c04_m_add_many : forall md sec pt rs a, get_ast md sec pt = Some a ->
  m_add_policies md sec pt rs =
  (set_policy md sec pt (fst (sp_add_many (a_policy a) rs)), snd (sp_add_many (a_policy a) rs)).
Proof. exact m_add_policies_spec. Qed.
Print Assumptions c04_m_add_many.
Theorem c04_m_remove : forall md sec pt r a, get_ast md sec pt = Some a ->
  m_remove_policy md sec pt r =
  (set_policy md sec pt (fst (sp_remove (a_policy a) r)), snd (sp_remove (a_policy a) r)).
Proof. exact m_remove_policy_spec. Qed.
Print Assumptions c04_m_remove.
Theorem c04_m_remove_many : forall md sec pt rs a, get_ast md sec pt = Some a ->
  m_remove_policies md sec pt rs =
  (set_policy md sec pt (fst (sp_remove_many (a_policy a) rs)), snd (sp_remove_many (a_policy a) rs)).
Proof. exact m_remove_policies_spec. Qed.
Print Assumptions c04_m_remove_many.
Theorem c04_m_remove_filtered : forall md sec pt idx vals a, get_ast md sec pt = Some a ->
  m_remove_filtered md sec pt idx vals =
  match sp_remove_filtered (a_policy a) idx vals with
  | None => None
  | Some (l', flag, rem) => Some (set_policy md sec pt l', flag, rem)
  end.
Proof. exact m_remove_filtered_spec. Qed.
Print Assumptions c04_m_remove_filtered.

(* all five at once, including the unknown type: nothing changes, flag false *)
Theorem c04_model_ops : forall md sec pt b,
  m_apply md sec pt b =
  match get_ast md sec pt with
  | None => Some (md, false, bop_payload b)
  | Some a => match sp_apply b (a_policy a) with
              | None => None
              | Some (l', flag, rs) => Some (set_policy md sec pt l', flag, rs)
              end
  end.
Proof. exact m_apply_spec. Qed.
Print Assumptions c04_model_ops.

(* `set_policy md sec pt l` replaces that one list and nothing else: every
   other assertion is literally the same, the addressed one keeps its value,
   tokens and handle; sections and keys (the skeleton) are untouched *)
Theorem c04_set_policy_get : forall md sec pt l sec' pt',
  get_ast (set_policy md sec pt l) sec' pt' =
  if teqb sec' sec && teqb pt' pt
  then option_map (fun a => with_policy a l) (get_ast md sec' pt')
  else get_ast md sec' pt'.
Proof. exact get_set_policy. Qed.
Theorem c04_set_policy_skeleton : forall md sec pt l, skeleton (set_policy md sec pt l) = skeleton md.
Proof. exact skeleton_set_policy. Qed.
Print Assumptions c04_set_policy_skeleton.
Theorem c04_set_policy_same : forall md sec pt a,
  get_ast md sec pt = Some a -> set_policy md sec pt (a_policy a) = md.
Proof. exact set_policy_id. Qed.
Print Assumptions c04_set_policy_same.
Print Assumptions c04_set_policy_get.

(* clear: every list of sections p and g becomes empty, nothing else changes *)
Theorem c04_m_clear : forall md sec k,
  get_ast (m_clear_policy md) sec k =
  if sec_ok sec then option_map (fun a => with_policy a []) (get_ast md sec k)
  else get_ast md sec k.
Proof. exact get_clear_policy. Qed.
Theorem c04_m_clear_skeleton : forall md, skeleton (m_clear_policy md) = skeleton md.
Proof. exact skeleton_clear_policy. Qed.
Print Assumptions c04_m_clear_skeleton.
Print Assumptions c04_m_clear.

(* ====================================================================== *)
(* (3) The management API.                                                 *)
(* ====================================================================== *)

(* the five entry points share one shape *)
Theorem c04_step_shape : forall s o sec pt b,
  bop_of o = Some (sec, pt, b) -> step s o = step_basic s sec pt b.
Proof. exact step_is_basic. Qed.
Print Assumptions c04_step_shape.

(* accepting adapters: auto-save off, the null adapter, the file adapter;
   the memory adapter applies the same set rules to its own lines; the string
   adapter always fails *)
Theorem c04_accepts_no_auto_save : forall s sec pt b,
  e_auto_save s = false -> adapter_call s sec pt b = (e_adapter s, Ok true).
Proof. exact accepts_no_auto_save. Qed.
Print Assumptions c04_accepts_no_auto_save.
Theorem c04_accepts_null : forall s sec pt b,
  e_adapter s = ANull -> adapter_call s sec pt b = (e_adapter s, Ok true).
Proof. exact accepts_null. Qed.
Print Assumptions c04_accepts_null.
Theorem c04_accepts_file : forall s sec pt b l f,
  e_adapter s = AFile l f -> adapter_call s sec pt b = (e_adapter s, Ok true).
Proof. exact accepts_file. Qed.
Print Assumptions c04_accepts_file.
Theorem c04_memory_add : forall s sec pt r l f,
  e_auto_save s = true -> e_adapter s = AMemory l f ->
  adapter_call s sec pt (BAdd r) =
  if sp_mem (sec :: pt :: r) l then (AMemory l f, Ok false)
  else (AMemory (l ++ [sec :: pt :: r]) f, Ok true).
Proof. exact memory_add. Qed.
Print Assumptions c04_memory_add.
Theorem c04_string_fails : forall s sec pt b l f,
  e_auto_save s = true -> e_adapter s = AString l f ->
  adapter_call s sec pt b = (e_adapter s, Err EAdapter).
Proof. exact string_fails. Qed.
Print Assumptions c04_string_fails.

(* ACCEPTED call on a known type, filter in range: the addressed list is the
   ideal result, every other list is as before, the definitions are as before
   up to role-manager handles, nothing outside model / adapter / role manager
   / watcher log moves; the answer and the new role manager are given by
   mgmt_answer / mgmt_rm *)
Theorem c04_accept : forall s o sec pt b ad a l' flag rs s' res,
  bop_of o = Some (sec, pt, b) ->
  adapter_call s sec pt b = (ad, Ok true) ->
  get_ast (e_model s) sec pt = Some a ->
  sp_apply b (a_policy a) = Some (l', flag, rs) ->
  step s o = (s', res) ->
  m_get_policy (e_model s') sec pt = l' /\
  (forall sec' pt', (sec', pt') <> (sec, pt) ->
                    m_get_policy (e_model s') sec' pt' = m_get_policy (e_model s) sec' pt') /\
  eqh (e_model s') (set_policy (e_model s) sec pt l') /\
  e_adapter s' = ad /\ frame s s' /\
  res = mgmt_answer s sec pt b flag rs /\
  e_fs s' = set_rm (e_fs s) (mgmt_rm s sec pt b flag rs).
Proof. exact step_mgmt_accept. Qed.
Print Assumptions c04_accept.

(* outside section g, or with auto-build off, or when a guarded call changed
   nothing, the complete next state is known and the answer is the flag *)
Theorem c04_accept_exact : forall s o sec pt b ad a l' flag rs,
  bop_of o = Some (sec, pt, b) ->
  adapter_call s sec pt b = (ad, Ok true) ->
  get_ast (e_model s) sec pt = Some a ->
  sp_apply b (a_policy a) = Some (l', flag, rs) ->
  links_active (bop_guard b) s sec flag = false ->
  step s o = (emit_mgmt (upd_model (upd_adapter s ad) (set_policy (e_model s) sec pt l')) flag
                        (bop_event sec pt b rs), Ok flag).
Proof. exact step_mgmt_accept_exact. Qed.
Print Assumptions c04_accept_exact.

(* the answer is `Ok flag` EXACTLY when the role-link update is not reached or
   succeeds; otherwise it is the update's error -- and then the store has
   already changed (see c04_accept: the list is l' regardless of res) *)
Theorem c04_answer_ok_iff : forall s sec pt b flag rs,
  mgmt_answer s sec pt b flag rs = Ok flag <->
  (links_active (bop_guard b) s sec flag = false \/
   links_result (e_model s) (f_rm (e_fs s)) pt (bop_insert b) rs = LOk).
Proof. exact mgmt_answer_ok_iff. Qed.
Print Assumptions c04_answer_ok_iff.
Theorem c04_answer_cases : forall s sec pt b flag rs,
  mgmt_answer s sec pt b flag rs = Ok flag \/
  (exists e, mgmt_answer s sec pt b flag rs = Err e /\
             teqb sec s_g = true /\ e_auto_build s = true /\ (flag = true \/ bop_guard b = false) /\
             links_result (e_model s) (f_rm (e_fs s)) pt (bop_insert b) rs = LErr e).
Proof. exact mgmt_answer_cases. Qed.
Print Assumptions c04_answer_cases.

(* when exactly the update succeeds: the definition has at least 2
   underscores and `links_okb` holds, i.e. every rule handed over has at least
   that many fields, fewer than 4 underscores, and for removals delete_link
   finds both names (or they are equal) *)
Theorem c04_links_result_ok_iff : forall md m pt insert rs,
  links_result md m pt insert rs = LOk <->
  (forall a, get_ast md s_g pt = Some a ->
             2 <= count_us (a_value a) /\ links_okb (count_us (a_value a)) insert m rs = true).
Proof. exact links_result_ok_iff. Qed.
Theorem c04_link_rules_ok_iff : forall cnt insert rs m,
  snd (link_rules cnt insert m rs) = LOk <-> links_okb cnt insert m rs = true.
Proof. exact link_rules_ok_iff. Qed.
(* the error of a single rule *)
Theorem c04_link_rule_cases : forall cnt insert m r,
  snd (link_rule cnt insert m r) =
  if Nat.ltb (length r) cnt then LErr EPolicy
  else if Nat.leb 4 cnt then LErr EModel
  else if insert || has_nodes m (nth 0 r []) (nth 1 r []) (link_dom cnt r) then LOk
  else LErr ERbac.
Proof. exact link_rule_cases. Qed.
Print Assumptions c04_link_rule_cases.
Print Assumptions c04_links_result_ok_iff.
Print Assumptions c04_link_rules_ok_iff.

(* hence under the natural well-formedness condition no error is possible *)
Theorem c04_answer_fine : forall s sec pt b flag rs,
  g_links_fine s pt (bop_insert b) rs -> mgmt_answer s sec pt b flag rs = Ok flag.
Proof. exact mgmt_answer_fine. Qed.
Theorem c04_links_ok_insert : forall cnt m rs,
  cnt < 4 -> (forall r, In r rs -> cnt <= length r) -> links_okb cnt true m rs = true.
Proof. exact links_okb_insert. Qed.
Print Assumptions c04_links_ok_insert.
Theorem c04_links_ok_delete : forall cnt m rs,
  cnt < 4 -> (forall r, In r rs -> cnt <= length r) ->
  (forall r, In r rs -> has_nodes m (nth 0 r []) (nth 1 r []) (link_dom cnt r) = true) ->
  links_okb cnt false m rs = true.
Proof. exact links_okb_delete. Qed.
Print Assumptions c04_links_ok_delete.
Print Assumptions c04_answer_fine.

(* the condition is satisfiable, and not redundant *)
Example c04_links_fine_add : g_links_fine ex_s0 s_g true [R ["dave"; "admin"]].
Proof. exact ex_links_fine_add. Qed.
Print Assumptions c04_links_fine_add.
Example c04_links_fine_del : g_links_fine ex_s0 s_g false [R ["alice"; "admin"]].
Proof. exact ex_links_fine_del. Qed.
Print Assumptions c04_links_fine_del.
Example c04_short_g_rule_not_atomic :
  snd (step ex_s0 (OAdd s_g s_g (R ["x"]))) = Err EPolicy /\
  pol (after ex_s0 (OAdd s_g s_g (R ["x"]))) "g" "g" = [R ["alice"; "admin"]; R ["bob"; "admin"]; R ["x"]] /\
  links_okb 2 true (f_rm (e_fs ex_s0)) [R ["x"]] = false.
Proof. exact ex_short_g_rule_not_atomic. Qed.
Print Assumptions c04_short_g_rule_not_atomic.
Example c04_unknown_names_not_atomic :
  snd (step ex_s3 (ORemove s_g s_g (R ["zoe"; "staff"]))) = Err ERbac /\
  pol ex_s3 "g" "g" = [R ["alice"; "admin"]; R ["bob"; "admin"]; R ["zoe"; "staff"]] /\
  pol (after ex_s3 (ORemove s_g s_g (R ["zoe"; "staff"]))) "g" "g" = [R ["alice"; "admin"]; R ["bob"; "admin"]] /\
  links_okb 2 false (f_rm (e_fs ex_s3)) [R ["zoe"; "staff"]] = false.
Proof. exact ex_unknown_names_not_atomic. Qed.
Print Assumptions c04_unknown_names_not_atomic.
Example c04_nomatch_bad_def :
  snd (step ex_b0 (ORemoveFiltered s_g s_g 0 (R ["zed"]))) = Err EModel /\
  snd (step ex_b0 (ORemove s_g s_g (R ["zed"; "y"]))) = Ok false.
Proof. exact ex_nomatch_bad_def. Qed.
Print Assumptions c04_nomatch_bad_def.

(* ---- where the "names known to the role manager" part comes from ----
   GSync s: every stored grouping rule could be unlinked right now (its
   definition has >= 2 underscores, the rule is long enough, < 4 underscores,
   and delete_link would find both names).  It is established by every
   successful rebuild (initial load, clear), kept by every management call
   that answers Ok while auto-build is on, and makes every accepted removal in
   section g answer its flag.  It is NOT an invariant of arbitrary histories
   (auto-build can be switched off and on again: c04_unknown_names_not_atomic). *)
Theorem c04_gsync_removal_answer : forall s pt b a l' flag rs,
  GSync s -> bop_insert b = false -> get_ast (e_model s) s_g pt = Some a ->
  sp_apply b (a_policy a) = Some (l', flag, rs) ->
  (flag = false -> bop_guard b = false -> 2 <= count_us (a_value a)) ->
  mgmt_answer s s_g pt b flag rs = Ok flag.
Proof. exact gsync_removal_answer. Qed.
Print Assumptions c04_gsync_removal_answer.

Theorem c04_gsync_kept : forall s o s' c,
  mgmt_op o -> GSync s -> e_auto_build s = true -> step s o = (s', Ok c) -> GSync s'.
Proof. exact mgmt_gsync. Qed.
Print Assumptions c04_gsync_kept.

Theorem c04_gsync_rebuild : forall s s', build_role_links s = (s', LOk) -> GSync s'.
Proof. exact rebuild_gsync. Qed.
Print Assumptions c04_gsync_rebuild.
Theorem c04_gsync_initial : forall d a w s b,
  ad_is_filtered a = false -> new_enforcer d a w = (s, Ok b) -> GSync s /\ e_auto_build s = true.
Proof. exact new_enforcer_gsync. Qed.
Theorem c04_gsync_clear : forall s ad s' res,
  clear_call s = (ad, LROk) -> step s OClear = (s', res) -> GSync s'.
Proof. exact clear_gsync. Qed.
Print Assumptions c04_gsync_clear.
Theorem c04_gsync_run : forall ops s,
  GSync s -> e_auto_build s = true -> all_ok s ops ->
  GSync (run_ops s ops) /\ e_auto_build (run_ops s ops) = true.
Proof. exact run_gsync. Qed.
Print Assumptions c04_gsync_initial.
Print Assumptions c04_gsync_run.

Example c04_gsync_example : GSync ex_s0 /\ e_auto_build ex_s0 = true.
Proof. exact ex_gsync. Qed.
Print Assumptions c04_gsync_example.
Example c04_all_ok_example : all_ok ex_s0 ex_g_ops.
Proof. exact ex_all_ok. Qed.
Print Assumptions c04_all_ok_example.
Example c04_not_gsync_example : ~ GSync ex_s3.
Proof. exact ex_not_gsync. Qed.
Print Assumptions c04_not_gsync_example.

(* unknown policy type: nothing but the adapter changes, answer Ok false *)
Theorem c04_unknown : forall s o sec pt b ad,
  bop_of o = Some (sec, pt, b) -> adapter_call s sec pt b = (ad, Ok true) ->
  get_ast (e_model s) sec pt = None -> step s o = (upd_adapter s ad, Ok false).
Proof. exact step_mgmt_unknown. Qed.
(* filter out of range for some stored rule: panic, nothing but the adapter changes *)
Theorem c04_out_of_range : forall s o sec pt b ad a,
  bop_of o = Some (sec, pt, b) -> adapter_call s sec pt b = (ad, Ok true) ->
  get_ast (e_model s) sec pt = Some a -> sp_apply b (a_policy a) = None ->
  step s o = (upd_adapter s ad, Panic).
Proof. exact step_mgmt_out_of_range. Qed.
(* the adapter refuses (Ok false), fails (Err) or panics: its answer is the
   call's answer; model, role manager, watcher log and everything else but the
   adapter are untouched *)
Theorem c04_refuse : forall s o sec pt b ad r,
  bop_of o = Some (sec, pt, b) -> adapter_call s sec pt b = (ad, r) -> r <> Ok true ->
  step s o = (upd_adapter s ad, r).
Proof. exact step_mgmt_refuse. Qed.
Print Assumptions c04_unknown.
Print Assumptions c04_out_of_range.
Print Assumptions c04_refuse.

(* RBAC helpers are one call, or two calls run in sequence (g/g then p/p) whose
   flags are or-ed; the second is not run when the first does not answer Ok *)
Theorem c04_rbac_shape : forall s r,
  step_rbac s r =
  match rbac_ops r with
  | (o1, None) => step s o1
  | (o1, Some o2) => seq_or (step s o1) (fun s' => step s' o2)
  end.
Proof. exact step_rbac_ops. Qed.
Print Assumptions c04_rbac_shape.
Theorem c04_rbac_one : forall s r o1, rbac_ops r = (o1, None) -> step s (ORbac r) = step s o1.
Proof. exact rbac_one_call. Qed.
Print Assumptions c04_rbac_one.
Theorem c04_rbac_two : forall s r o1 o2 s' c, rbac_ops r = (o1, Some o2) ->
  (step s (ORbac r) = (s', Ok c) <->
   exists s1 a b, step s o1 = (s1, Ok a) /\ step s1 o2 = (s', Ok b) /\ c = a || b).
Proof. exact rbac_two_calls. Qed.
Theorem c04_rbac_first_fails : forall s r o1 o2 s1 res, rbac_ops r = (o1, Some o2) ->
  step s o1 = (s1, res) -> (forall a, res <> Ok a) -> step s (ORbac r) = (s1, res).
Proof. exact rbac_first_fails. Qed.
Print Assumptions c04_rbac_first_fails.
Theorem c04_rbac_second_fails : forall s r o1 o2 s1 a s2 res, rbac_ops r = (o1, Some o2) ->
  step s o1 = (s1, Ok a) -> step s1 o2 = (s2, res) -> (forall b, res <> Ok b) ->
  step s (ORbac r) = (s2, res).
Proof. exact rbac_second_fails. Qed.
Print Assumptions c04_rbac_second_fails.
Print Assumptions c04_rbac_two.

(* clear, accepted: all p and g lists empty, the rest as before; the answer is
   Ok true unless auto-build is on and a grouping definition has fewer than two
   underscores; the role manager is emptied iff auto-build is on *)
Theorem c04_clear_accept : forall s ad s' res,
  clear_call s = (ad, LROk) -> step s OClear = (s', res) ->
  (forall sec pt, m_get_policy (e_model s') sec pt =
                  if sec_ok sec then [] else m_get_policy (e_model s) sec pt) /\
  eqh (e_model s') (m_clear_policy (e_model s)) /\
  e_adapter s' = ad /\ frame s s' /\
  res = (if e_auto_build s && negb (g_defs_ok (e_model s)) then Err EModel else Ok true) /\
  f_rm (e_fs s') = (if e_auto_build s then [] else f_rm (e_fs s)).
Proof. exact clear_accept. Qed.
Theorem c04_clear_refuse : forall s ad r s' res,
  clear_call s = (ad, r) -> r <> LROk -> step s OClear = (s', res) ->
  res = lres_out r /\ e_model s' = e_model s /\ e_fs s' = e_fs s /\ e_wlog s' = e_wlog s /\
  e_adapter s' = ad.
Proof. exact clear_refuse_unchanged. Qed.
Print Assumptions c04_clear_refuse.
Print Assumptions c04_clear_accept.

(* ====================================================================== *)
(* (4) flag = change; no change = identity.                                *)
(*     Holds for EVERY adapter (an adapter answering Ok false is just      *)
(*     another way of reporting "no change").  No invariant is needed.     *)
(* ====================================================================== *)
Theorem c04_flag_is_change : forall s o s' c, mgmt_op o -> step s o = (s', Ok c) ->
  (c = true <-> pols_differ (e_model s) (e_model s')).
Proof. exact flag_is_change. Qed.
Print Assumptions c04_flag_is_change.

(* `unchanged`: the model up to role-manager handles, the whole function
   state (role manager included), the watcher log, all flags *)
Theorem c04_false_is_identity : forall s o s',
  mgmt_op o -> step s o = (s', Ok false) -> unchanged s s'.
Proof. exact false_is_identity. Qed.
Print Assumptions c04_false_is_identity.

Theorem c04_false_keeps_decisions : forall ptab s o s', mgmt_op o -> step s o = (s', Ok false) ->
  (forall rv, enforce ptab s' rv = enforce ptab s rv) /\
  (forall k rv, enforce_with_ctx ptab s' k rv = enforce_with_ctx ptab s k rv).
Proof. exact false_keeps_decisions. Qed.
Print Assumptions c04_false_keeps_decisions.

Theorem c04_false_keeps_lists : forall md md' sec pt,
  eqh md md' -> m_get_policy md sec pt = m_get_policy md' sec pt.
Proof. exact eqh_pol. Qed.
Print Assumptions c04_false_keeps_lists.

(* "up to handles" cannot be improved: an Ok false call may redirect a handle *)
Example c04_false_moves_handle :
  option_map a_handle (get_ast (e_model ex_h0) s_g s_g) = Some HOwn /\
  snd (step ex_h0 (ORemoveFiltered s_g s_g 0 (R ["zed"]))) = Ok false /\
  option_map a_handle (get_ast (e_model (after ex_h0 (ORemoveFiltered s_g s_g 0 (R ["zed"])))) s_g s_g) = Some HCur.
Proof. exact ex_false_moves_handle. Qed.
Print Assumptions c04_false_moves_handle.

(* OClear is NOT covered: it answers Ok true also on an empty store *)
Example c04_clear_true_on_empty :
  snd (step ex_empty OClear) = Ok true /\ e_model (after ex_empty OClear) = e_model ex_empty.
Proof. exact ex_clear_true_on_empty. Qed.
Print Assumptions c04_clear_true_on_empty.

(* ====================================================================== *)
(* (5) Read views of the same lists.                                       *)
(* ====================================================================== *)
Theorem c04_view_get : forall ptab s sec pt,
  ask ptab s (QGetPolicy sec pt) = AnsRules (m_get_policy (e_model s) sec pt).
Proof. exact view_get. Qed.
Print Assumptions c04_view_get.
Theorem c04_view_has : forall ptab s sec pt r,
  ask ptab s (QHasPolicy sec pt r) = AnsBool (sp_mem r (m_get_policy (e_model s) sec pt)).
Proof. exact view_has. Qed.
Print Assumptions c04_view_has.
Theorem c04_view_has_in : forall md sec pt r,
  m_has_policy md sec pt r = true <-> In r (m_get_policy md sec pt).
Proof. exact has_policy_In. Qed.
Print Assumptions c04_view_has_in.
(* filtered get = the matching rules in stored order; panics when a non-empty
   filter value lies beyond the end of some stored rule *)
Theorem c04_view_filtered : forall ptab s sec pt idx vals,
  ask ptab s (QGetFiltered sec pt idx vals) =
  match sp_select idx vals (m_get_policy (e_model s) sec pt) with
  | Some l => AnsRules l
  | None => AnsPanic
  end.
Proof. exact view_filtered. Qed.
(* distinct values of a column: each value once, ordered by LAST occurrence;
   panics when some stored rule has no such column *)
Theorem c04_view_values : forall ptab s sec pt idx,
  ask ptab s (QValues sec pt idx) =
  match column idx (m_get_policy (e_model s) sec pt) with
  | Some c => AnsNames (last_occ c)
  | None => AnsPanic
  end.
Proof. exact view_values. Qed.
Theorem c04_column_some : forall idx l c, column idx l = Some c ->
  c = map (fun r => nth idx r []) l /\ forall r, In r l -> idx < length r.
Proof. exact column_some. Qed.
Print Assumptions c04_column_some.
Theorem c04_column_none : forall idx l,
  column idx l = None <-> exists r, In r l /\ length r <= idx.
Proof. exact column_none. Qed.
Print Assumptions c04_column_none.
Theorem c04_last_occ_set : forall l x, In x (last_occ l) <-> In x l.
Proof. exact last_occ_In. Qed.
Print Assumptions c04_last_occ_set.
Theorem c04_last_occ_nodup : forall l, NoDup (last_occ l).
Proof. exact last_occ_NoDup. Qed.
Print Assumptions c04_last_occ_nodup.
Theorem c04_last_occ_is_nodup : forall l, last_occ l = nodup text_eq_dec l.
Proof. exact last_occ_nodup. Qed.
Print Assumptions c04_last_occ_is_nodup.
Theorem c04_distinct_last : forall l, distinct_last l = last_occ l.
Proof. exact distinct_last_spec. Qed.
Print Assumptions c04_distinct_last.
(* get_all of a section = its lists, types in definition order *)
Theorem c04_view_get_all : forall ptab s (sec : text) (am : amap),
  StoreInv s -> assoc sec (e_model s) = Some am ->
  ask ptab s (QGetAll sec) =
  AnsRules (flat_map (fun k => map (fun r => sec :: k :: r) (m_get_policy (e_model s) sec k))
                     (map fst am)).
Proof. exact view_get_all. Qed.
Print Assumptions c04_view_filtered.
Print Assumptions c04_view_values.
Print Assumptions c04_view_get_all.

Example c04_views_example :
  m_get_filtered (e_model ex_s0) s_p s_p 1 (R ["data1"]) =
  Some [R ["alice"; "data1"; "read"]; R ["carol"; "data1"; "write"]] /\
  m_values (e_model ex_s0) s_p s_p 0 = Some (R ["bob"; "alice"; "carol"]) /\
  m_values (e_model ex_s0) s_p s_p 3 = None /\
  m_has_policy (e_model ex_s0) s_p s_p (R ["bob"; "data2"; "write"]) = true.
Proof. exact ex_views. Qed.
Print Assumptions c04_views_example.

(* ====================================================================== *)
(* (6) The executable predicate.                                           *)
(* ====================================================================== *)
(* the ideal store a model stands for agrees with its listings *)
Theorem c04_ideal_get : forall md sec pt,
  i_get (ideal_of md) (sec, pt) =
  if sec_ok sec then option_map a_policy (get_ast md sec pt) else None.
Proof. exact i_get_ideal_of. Qed.
Print Assumptions c04_ideal_get.
Theorem c04_ideal_all : forall md sec, sec_ok sec = true -> i_all (ideal_of md) sec = m_get_all md sec.
Proof. exact i_all_ideal_of. Qed.
Print Assumptions c04_ideal_all.

(* with an always-accepting adapter (auto-save off, or the null adapter) and
   calls that do not reach the role-link update, the model's own trace
   satisfies c04_check, for every history *)
Theorem c04_pred_holds : forall ops s,
  accepting s -> Forall (fun o => in_scope (e_auto_build s) o = true) ops ->
  c04_check (ideal_of (e_model s)) (model_trace s ops) = true.
Proof. exact c04_check_model. Qed.
Print Assumptions c04_pred_holds.

Example c04_pred_scope : accepting ex_s2 /\ forallb (in_scope (e_auto_build ex_s2)) ex_ops = true.
Proof. exact ex_scope. Qed.
Print Assumptions c04_pred_scope.
Example c04_pred_example_full : c04_check (ideal_of (e_model ex_s0)) (model_trace ex_s0 ex_ops) = true.
Proof. exact ex_check_full. Qed.
Print Assumptions c04_pred_example_full.
Example c04_pred_rejects_flag :
  c04_check (ideal_of (e_model ex_s2))
            [(OAdd s_p s_p (R ["alice"; "data1"; "read"]), Ok true,
              m_get_all (e_model ex_s2) s_p, m_get_all (e_model ex_s2) s_g)] = false.
Proof. exact ex_check_rejects_flag. Qed.
Print Assumptions c04_pred_rejects_flag.

(* ====================================================================== *)
(* Non-vacuity: one concrete state, every kind of call.                    *)
(* ====================================================================== *)
Example c04_ex_init :
  snd (new_enforcer ex_def (AMemory ex_lines false) true) = Ok true /\
  model_invb (e_model ex_s0) = true /\
  pol ex_s0 "p" "p" = ex_pp /\ pol ex_s0 "p" "p2" = [R ["alice"; "admin"]] /\
  pol ex_s0 "g" "g" = [R ["alice"; "admin"]; R ["bob"; "admin"]] /\
  pol ex_s0 "g" "g2" = [R ["alice"; "admin"; "dom1"]].
Proof. exact ex_init. Qed.
Print Assumptions c04_ex_init.
Example c04_ex_readd :
  snd (step ex_s1 (OAdd s_p s_p (R ["alice"; "data1"; "read"]))) = Ok false /\
  pol (after ex_s1 (OAdd s_p s_p (R ["alice"; "data1"; "read"]))) "p" "p" = ex_pp /\
  snd (step ex_s0 (OAdd s_p s_p (R ["alice"; "data1"; "read"]))) = Ok false /\
  pol (after ex_s0 (OAdd s_p s_p (R ["alice"; "data1"; "read"]))) "p" "p" = ex_pp.
Proof. exact ex_readd. Qed.
Print Assumptions c04_ex_readd.
Example c04_ex_batch_dup :
  snd (step ex_s0 (OAddMany s_p s_p ex_batch)) = Ok true /\
  pol (after ex_s0 (OAddMany s_p s_p ex_batch)) "p" "p" =
  (ex_pp ++ [R ["dave"; "data1"; "read"]; R ["erin"; "data1"; "read"]])%list.
Proof. exact ex_batch_dup. Qed.
Print Assumptions c04_ex_batch_dup.
Example c04_ex_filtered_wild :
  snd (step ex_s0 (ORemoveFiltered s_p s_p 0 (R ["alice"; ""; "read"]))) = Ok true /\
  pol (after ex_s0 (ORemoveFiltered s_p s_p 0 (R ["alice"; ""; "read"]))) "p" "p" =
  [R ["bob"; "data2"; "write"]; R ["carol"; "data1"; "write"]].
Proof. exact ex_filtered_wild. Qed.
Print Assumptions c04_ex_filtered_wild.
Example c04_ex_out_of_range :
  snd (step ex_s1 (ORemoveFiltered s_p (T "p2") 0 (R [""; ""; "x"]))) = Panic /\
  sp_remove_filtered (pol ex_s1 "p" "p2") 0 (R [""; ""; "x"]) = None /\
  e_model (after ex_s1 (ORemoveFiltered s_p (T "p2") 0 (R [""; ""; "x"]))) = e_model ex_s1.
Proof. exact ex_out_of_range. Qed.
Print Assumptions c04_ex_out_of_range.
Example c04_ex_unknown :
  snd (step ex_s1 (OAdd s_p (T "p9") (R ["alice"; "data1"; "read"]))) = Ok false /\
  e_model (after ex_s1 (OAdd s_p (T "p9") (R ["alice"; "data1"; "read"]))) = e_model ex_s1 /\
  snd (step ex_s1 (ORemoveFiltered s_p (T "p9") 0 (R ["alice"]))) = Ok false.
Proof. exact ex_unknown. Qed.
Print Assumptions c04_ex_unknown.
Example c04_ex_delete_user :
  snd (step ex_s0 (ORbac (RDeleteUser (T "alice")))) = Ok true /\
  pol (after ex_s0 (ORbac (RDeleteUser (T "alice")))) "g" "g" = [R ["bob"; "admin"]] /\
  pol (after ex_s0 (ORbac (RDeleteUser (T "alice")))) "p" "p" =
  [R ["bob"; "data2"; "write"]; R ["carol"; "data1"; "write"]] /\
  pol (after ex_s0 (ORbac (RDeleteUser (T "alice")))) "p" "p2" = [R ["alice"; "admin"]] /\
  snd (step ex_s0 (ORbac (RDeleteUser (T "zed")))) = Ok false.
Proof. exact ex_delete_user. Qed.
Print Assumptions c04_ex_delete_user.
Example c04_ex_accept_hyps :
  adapter_call ex_s1 s_p s_p (BAdd (R ["dave"; "data1"; "read"])) = (e_adapter ex_s1, Ok true) /\
  option_map a_policy (get_ast (e_model ex_s1) s_p s_p) = Some ex_pp /\
  sp_apply (BAdd (R ["dave"; "data1"; "read"])) ex_pp =
  Some ((ex_pp ++ [R ["dave"; "data1"; "read"]])%list, true, [R ["dave"; "data1"; "read"]]).
Proof. exact ex_accept_hyps. Qed.
Print Assumptions c04_ex_accept_hyps.
