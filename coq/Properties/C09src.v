(* C09 (stored policy and in-memory policy stay identical) and its text clause (Properties/C09text.v) stated about
   the TRANSLATED SOURCE.
   Source files behind the functions below (Gallina regenerated from the Rust text on every run):
     src_step / src_run_ops / src_new_enforcer   src/internal_api.rs, src/rbac_api.rs, src/management_api.rs,
                                                 src/enforcer.rs (Proofs/SrcStepP.v, Proofs/SrcQueryP.v)
     gen_mem_save_policy, gen_mem_load_policy    src/adapter/memory_adapter.rs (Gen/AdaptersGen.v, part 9)
     gen_str_load_policy                         src/adapter/string_adapter.rs (Gen/AdaptersGen.v)
     gen_file_load_policy_line (in src_file_load: the `for line in lines` loop around it, file I/O left out)
                                                 src/adapter/file_adapter.rs (Gen/AdaptersGen.v)
     gen_parse_csv_line                          src/util.rs parse_csv_line (Gen/RegexGen.v, part 14)
     gen_csv_field (in src_render_line_file / src_render_line_string / src_save_text_file / src_save_text_string:
       the save_policy formatting of the two text adapters, restated by the same text over the translated csv_field -
       their file / string plumbing is not translated)   src/util.rs csv_field (Gen/StrFnGen.v, part 2)
   Same quantifiers and hypotheses as Properties/C09.v / C09text.v; the adapter-level round trip (part B) needs no
   hypothesis beyond C09's own KeysOkP / PolND (they imply what the translation theorem of save_policy needs:
   c09_src_keys_polnd_store).  Inv, AdapterSync, SyncLM, KeysOkP, PolND, c09_op: Proofs/C09P.v, Model/SpecC09.v.
   Statements only; proofs in Proofs/C09SrcP.v (Proofs/C09P.v, Proofs/CsvP.v composed with SrcStepP.v and the
   translation theorems of PinChecks/PcAdaptersGen.v, PcRegexGen.v, PcStrFnGen.v). *)
From CV Require Import Model.Base Model.Effector Model.RoleGraph Model.PathMatch
     Model.Expr Model.Enforce Model.Engine Model.Csv Model.SpecC09 Model.SpecC16.
From CV Require Import Proofs.BaseP Proofs.C09P Proofs.CsvP.
From CV Require Import Gen.RustStr Gen.StrFnGen Gen.RustVec Gen.RustIter Gen.Regex Gen.RegexRt Gen.RegexGen.
From CV Require Import Gen.AdaptersPrims Gen.AdaptersGen Proofs.AdaptersP.
From CV Require Import Proofs.SrcStepP Proofs.SrcQueryP Proofs.SrcTextP Proofs.C09SrcP.

(* ---------- A. every management call of the translated source keeps adapter and model in sync
   (c09_step, c09_history, c09_every_prefix, c09_constructor, c09_constructor_ok) ---------- *)
Theorem c09_src_step : forall s o, c09_op o = true -> Inv s -> Inv (fst (src_step s o)).
Proof. exact src_c09_step. Qed.
Print Assumptions c09_src_step.

Theorem c09_src_history : forall ops s, forallb c09_op ops = true -> Inv s -> Inv (src_run_ops s ops).
Proof. exact src_c09_history. Qed.
Print Assumptions c09_src_history.

Theorem c09_src_every_prefix : forall ops s n,
  forallb c09_op ops = true -> Inv s -> Inv (src_run_ops s (firstn n ops)).
Proof. exact src_c09_every_prefix. Qed.
Print Assumptions c09_src_every_prefix.

Theorem c09_src_constructor : forall d lines w s0,
  NoDup lines -> KeysOkP (d_model d) ->
  new_raw d (AMemory lines false) w = (s0, LOk) ->
  Inv (fst (src_new_enforcer d (AMemory lines false) w)).
Proof. exact src_c09_constructor. Qed.
Print Assumptions c09_src_constructor.

Theorem c09_src_constructor_ok : forall d a w lines s b,
  mem_of a = Some lines -> ad_is_filtered a = false -> NoDup lines -> KeysOkP (d_model d) ->
  src_new_enforcer d a w = (s, Ok b) -> Inv s.
Proof. exact src_c09_constructor_ok. Qed.
Print Assumptions c09_src_constructor_ok.

(* from the translated constructor through any history of allowed calls *)
Theorem c09_src_reachable : forall d lines w s0 ops,
  NoDup lines -> KeysOkP (d_model d) ->
  new_raw d (AMemory lines false) w = (s0, LOk) -> forallb c09_op ops = true ->
  Inv (src_run_ops (fst (src_new_enforcer d (AMemory lines false) w)) ops).
Proof. exact src_c09_reachable. Qed.
Print Assumptions c09_src_reachable.

(* load_policy on a synchronised enforcer changes no policy list (c09_reload_identity, c09_reload_keeps_sync) *)
Theorem c09_src_reload_identity : forall s, AdapterSync s ->
  forall sec pt, is_pg sec = true ->
    m_get_policy (e_model (fst (src_step s OLoad))) sec pt = m_get_policy (e_model s) sec pt.
Proof. exact src_c09_reload_identity. Qed.
Print Assumptions c09_src_reload_identity.
Theorem c09_src_reload_keeps_sync : forall s, AdapterSync s -> AdapterSync (fst (src_step s OLoad)).
Proof. exact src_c09_reload_keeps_sync. Qed.
Print Assumptions c09_src_reload_keeps_sync.

(* save_policy ; load_policy is the identity, all bundled adapters (c09_roundtrip, c09_save_succeeds) *)
Theorem c09_src_roundtrip : forall s s1,
  is_bundled (e_adapter s) = true -> KeysOkP (e_model s) -> PolND (e_model s) ->
  src_step s OSave = (s1, Ok true) ->
  forall sec pt, is_pg sec = true ->
    m_get_policy (e_model (fst (src_step s1 OLoad))) sec pt = m_get_policy (e_model s) sec pt.
Proof. exact src_c09_roundtrip. Qed.
Print Assumptions c09_src_roundtrip.
Theorem c09_src_save_succeeds : forall s,
  is_bundled (e_adapter s) = true -> ad_is_filtered (e_adapter s) = false ->
  assoc s_p (e_model s) <> None -> snd (src_step s OSave) = Ok true.
Proof. exact src_c09_save_succeeds. Qed.
Print Assumptions c09_src_save_succeeds.

(* ---------- B. the translated MemoryAdapter itself: save_policy ; load_policy into the emptied model gives back
   every p and g policy list, rule for rule and in the same order; never a panic ---------- *)
Theorem c09_src_keys_polnd_store : forall md, KeysOkP md -> PolND md -> store_sets md /\ pg_keys_disjoint md.
Proof. exact keys_polnd_store. Qed.
Print Assumptions c09_src_keys_polnd_store.

Theorem c09_src_mem_save : forall l f md, KeysOkP md -> PolND md ->
  gen_mem_save_policy l f md = Some ((mem_lines md, f, md), tt).
Proof. exact src_c09_mem_save. Qed.
Print Assumptions c09_src_mem_save.

Theorem c09_src_mem_roundtrip : forall l f md, KeysOkP md -> PolND md ->
  exists L md',
    gen_mem_save_policy l f md = Some ((L, f, md), tt) /\
    gen_mem_load_policy L f (m_clear_policy md) = Some ((L, false, md'), tt) /\
    forall sec pt, is_pg sec = true -> m_get_policy md' sec pt = m_get_policy md sec pt.
Proof. exact src_c09_mem_roundtrip. Qed.
Print Assumptions c09_src_mem_roundtrip.

(* c09_sync_iff_reload, left to right, through the translated load_policy (lines_wf: every stored line has its
   section and policy type - true of every state of a MemoryAdapter, PinChecks/PcAdaptersGen.v gen_mem_wf_invariant) *)
Theorem c09_src_mem_reload : forall l f md, SyncLM l md -> lines_wf l ->
  exists md', gen_mem_load_policy l f (m_clear_policy md) = Some ((l, false, md'), tt) /\
    forall sec pt, is_pg sec = true -> mpol md' sec pt = mpol md sec pt.
Proof. exact src_c09_mem_reload. Qed.
Print Assumptions c09_src_mem_reload.

(* ---------- C. the text clause (c09_line_file, c09_line_string, c09_save_load_file, c09_save_load_string,
   c09_loader_is_parser) ---------- *)
Theorem c09_src_line_file : forall pt vs,
  ptype_safe pt = true -> forallb csv_safe vs = true -> vs <> [] ->
  gen_parse_csv_line (src_render_line_file pt vs) = Some (Some (pt :: vs)).
Proof. exact src_c09_line_file. Qed.
Print Assumptions c09_src_line_file.

Theorem c09_src_line_string : forall pt vs,
  ptype_safe pt = true -> forallb csv_safe vs = true -> vs <> [] ->
  gen_parse_csv_line (src_render_line_string pt vs) = Some (Some (pt :: vs)).
Proof. exact src_c09_line_string. Qed.
Print Assumptions c09_src_line_string.

(* whole store: loading the saved text into any store is loading the store's lines *)
Theorem c09_src_save_load_string : forall md md0 fl, model_text_safe md = true ->
  gen_str_load_policy (src_save_text_string md) fl md0 =
  Some ((src_save_text_string md, false, fold_left load_line (text_lines md) md0), tt).
Proof. exact src_c09_save_load_string. Qed.
Print Assumptions c09_src_save_load_string.

Theorem c09_src_save_load_file : forall md md0, model_text_safe md = true ->
  src_file_load (src_save_text_file md) md0 = fold_left load_line (text_lines md) md0.
Proof. exact src_c09_save_load_file. Qed.
Print Assumptions c09_src_save_load_file.

Theorem c09_src_loader_is_parser : forall l, Some (load_line_tokens l) = gen_parse_csv_line l.
Proof. exact src_c09_loader_is_parser. Qed.
Print Assumptions c09_src_loader_is_parser.

(* the renderers over the translated csv_field are the model's *)
Theorem c09_src_render_line_file_eq : forall pt r, src_render_line_file pt r = render_line_file pt r.
Proof. exact src_render_line_file_eq. Qed.
Print Assumptions c09_src_render_line_file_eq.
Theorem c09_src_file_load_eq : forall content md,
  src_file_load content md = fold_left load_line (parsed_lines content) md.
Proof. exact src_file_load_eq. Qed.
Print Assumptions c09_src_file_load_eq.

(* ---------- non-vacuity, through the generated code ---------- *)
(* the invariant holds of ex_s0 (Proofs/C09P.v: a model with p, p2, g; a MemoryAdapter with rules for all three) ... *)
Example c09_src_ex_initial :
  e_auto_save ex_s0 = true /\ keys_ok_b (e_model ex_s0) = true /\ adapter_sync_b ex_s0 = true.
Proof. vm_compute. repeat split; reflexivity. Qed.
(* ... and after each of the 17 calls of every kind run by the translated source *)
Example c09_src_ex_history :
  forallb c09_op ex_ops = true /\
  forallb (fun n => adapter_sync_b (src_run_ops ex_s0 (firstn n ex_ops))) (seq 0 (S (length ex_ops))) = true.
Proof. vm_compute. split; reflexivity. Qed.
(* round trip through the translated save_policy / load_policy on the three adapters *)
Example c09_src_ex_roundtrip :
  forallb (fun a =>
    let s := upd_adapter ex_s0 a in
    match src_step s OSave with
    | (s1, Ok true) =>
      forallb (fun k => rules_eqb (m_get_policy (e_model (fst (src_step s1 OLoad))) (fst k) (snd k))
                                  (m_get_policy (e_model ex_s0) (fst k) (snd k)))
              [(s_p, T "p"); (s_p, T "p2"); (s_g, T "g")]
    | _ => false end) [AMemory [] false; AFile [] false; AString [] false] = true /\
  pol_nodup_b (e_model ex_s0) = true.
Proof. vm_compute. split; reflexivity. Qed.
(* the translated MemoryAdapter alone *)
Example c09_src_ex_mem_roundtrip :
  keys_ok_b (e_model ex_s0) = true /\ pol_nodup_b (e_model ex_s0) = true /\
  src_mem_roundtrip_b (e_model ex_s0) [(s_p, T "p"); (s_p, T "p2"); (s_g, T "g")] = true /\
  option_map (fun x => length (fst (fst (fst x)))) (gen_mem_save_policy [] false (e_model ex_s0)) = Some 4.
Proof. vm_compute. repeat split; reflexivity. Qed.
(* the text clause on a store with quoting-relevant values *)
Example c09_src_ex_text_safe : model_text_safe src_ex_text_store = true.
Proof. vm_compute. reflexivity. Qed.
Example c09_src_ex_text : src_save_text_file src_ex_text_store =
  T "p, alice,""x,y"",a b" ++ [nl] ++ T "p, bob,/d/*,k=v" ++ [nl] ++ T "p2, r.sub" ++ [nl] ++
  T "g, alice,""admin, root""" ++ [nl].
Proof. vm_compute. reflexivity. Qed.
Example c09_src_ex_text_line :
  gen_parse_csv_line (src_render_line_file (T "p") [T "alice"; T "x,y"; T "a b"]) =
  Some (Some [T "p"; T "alice"; T "x,y"; T "a b"]).
Proof. vm_compute. reflexivity. Qed.
Example c09_src_ex_text_roundtrip :
  option_map (fun x => snd (fst x)) (gen_str_load_policy (src_save_text_string src_ex_text_store) true src_ex_text_store0)
    = Some src_ex_text_store /\
  src_file_load (src_save_text_file src_ex_text_store) src_ex_text_store0 = src_ex_text_store.
Proof. vm_compute. split; reflexivity. Qed.
