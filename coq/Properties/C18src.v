(* C18 stated about the TRANSLATED SOURCE.  `src_step` / `src_run_ops` (Proofs/SrcStepP.v) dispatch OSetModel,
   OSetAdapter, OSetRoleManager, OSetEffector, OAddFunction, OLoad and the toggles to gen_set_model, gen_set_adapter,
   gen_set_role_manager, gen_set_effector, gen_add_function, gen_load_policy, gen_enable_... of Gen/EnforcerGen.v,
   regenerated every run from src/enforcer.rs (management calls: Gen/InternalGen.v, Gen/ApiGen.v from
   src/internal_api.rs, src/rbac_api.rs, src/management_api.rs); `src_ask` / `src_new_enforcer` (Proofs/SrcQueryP.v)
   are the query interface over the translated enforcement loops (Gen/EnforceGen.v) and Enforcer::new with the
   translated initial load.  src_fresh_from, src_fresh_of, src_run_all_ok, src_obs_eq are the twins of
   Model/SpecC18.fresh_from, fresh_of, run_all_ok and Proofs/C18P.obs_eq: the fresh enforcer is built by the
   translated source too.  Vocabulary as in Properties/C18.v.
   Statements only; proofs in Proofs/C18SrcP.v (Properties/C18.v composed with Properties/SrcStep.v). *)
From CV Require Import Model.Base Model.Expr Model.Enforce Model.Engine Model.SpecC18.
From CV Require Import Proofs.ExprP Proofs.ExModels Proofs.C18P Proofs.C18Q.
From CV Require Import Proofs.SrcStepP Proofs.SrcQueryP Proofs.C18SrcP.

(* ---- equivalent states answer every query identically, decisions included ---- *)
Theorem c18_src_equiv_same_answers : forall ptab s1 s2 q, st_equiv s1 s2 -> src_ask ptab s1 q = src_ask ptab s2 q.
Proof. exact src_c18_equiv_same_answers. Qed.
Print Assumptions c18_src_equiv_same_answers.

(* the executable predicate on a pair of observed answers holds *)
Theorem c18_src_pred_holds : forall ptab s1 s2 q, st_equiv s1 s2 ->
  c18_pred (src_ask ptab s1 q) (src_ask ptab s2 q) = true.
Proof. exact src_c18_pred_holds. Qed.
Print Assumptions c18_src_pred_holds.

(* ---- set_model ---- *)
Theorem c18_src_set_model : forall s d s' b,
  src_step s (OSetModel d) = (s', Ok b) ->
  e_auto_build s = true ->
  ad_is_filtered (e_adapter s) = false ->
  no_leftover (f_gfuns (e_fs s)) (d_model d) = true ->
  exists sf, src_fresh_from d (e_adapter s) s' = (sf, Ok true) /\ st_equiv s' sf /\
             e_adapter sf = e_adapter s' /\ e_model sf = e_model s' /\
             f_rm (e_fs sf) = f_rm (e_fs s').
Proof. exact src_c18_set_model. Qed.
Print Assumptions c18_src_set_model.

(* against the enforcer built NOW from the re-parsed definition and the adapter the state holds after the call *)
Theorem c18_src_set_model_now : forall s d s' b,
  src_step s (OSetModel d) = (s', Ok b) ->
  clean_def d = true ->
  e_auto_build s = true ->
  ad_unscripted (e_adapter s) = true ->
  no_leftover (f_gfuns (e_fs s)) (d_model d) = true ->
  exists sf, src_fresh_of s' = (sf, Ok true) /\ st_equiv s' sf /\
             e_adapter sf = e_adapter s' /\ e_model sf = e_model s' /\
             f_rm (e_fs sf) = f_rm (e_fs s').
Proof. exact src_c18_set_model_now. Qed.
Print Assumptions c18_src_set_model_now.

(* ---- set_adapter ---- *)
Theorem c18_src_set_adapter : forall s a s' b,
  src_step s (OSetAdapter a) = (s', Ok b) ->
  e_auto_build s = true ->
  ad_is_filtered a = false ->
  gfuns_exactb (f_gfuns (e_fs s)) (e_model s) = true ->
  exists sf, src_fresh_from (cur_def s) a s' = (sf, Ok true) /\ st_equiv s' sf /\
             e_adapter sf = e_adapter s' /\ e_model sf = e_model s' /\
             f_rm (e_fs sf) = f_rm (e_fs s').
Proof. exact src_c18_set_adapter. Qed.
Print Assumptions c18_src_set_adapter.

(* ---- set_role_manager, set_effector, add_function: no reload happens, so the memory must already be what the
   adapter would load (Synced) ---- *)
Theorem c18_src_set_role_manager : forall s mx s' b,
  src_step s (OSetRoleManager mx) = (s', Ok b) ->
  Synced s -> e_auto_build s = true -> ad_is_filtered (e_adapter s) = false ->
  no_leftover (f_gfuns (e_fs s)) (e_model s) = true ->
  exists sf, src_fresh_from (cur_def s') (e_adapter s') s' = (sf, Ok true) /\ st_equiv s' sf /\
             f_rm_max (e_fs sf) = mx.
Proof. exact src_c18_set_role_manager. Qed.
Print Assumptions c18_src_set_role_manager.

Theorem c18_src_set_effector : forall s s' b,
  src_step s OSetEffector = (s', Ok b) ->
  Synced s -> ad_is_filtered (e_adapter s) = false ->
  gfuns_exactb (f_gfuns (e_fs s)) (e_model s) = true ->
  exists sf, src_fresh_from (cur_def s') (e_adapter s') s' = (sf, Ok true) /\ st_equiv s' sf.
Proof. exact src_c18_set_effector. Qed.
Print Assumptions c18_src_set_effector.

Theorem c18_src_add_function : forall s n u s' b,
  src_step s (OAddFunction n u) = (s', Ok b) ->
  Synced s -> ad_is_filtered (e_adapter s) = false ->
  gfuns_exactb (f_gfuns (e_fs s)) (e_model s) = true ->
  exists sf, src_fresh_from (cur_def s') (e_adapter s') s' = (sf, Ok true) /\ st_equiv s' sf /\
             f_ufuns (e_fs sf) = (n, u) :: f_ufuns (e_fs s).
Proof. exact src_c18_add_function. Qed.
Print Assumptions c18_src_add_function.

(* ---- sequences of reconfiguration calls ---- *)
(* the invariant `Settled` is kept by every successful reconfiguration call of the translated source *)
Theorem c18_src_settled_run : forall ops s,
  Settled s -> forallb reconf_ok ops = true -> src_run_all_ok s ops = true ->
  Settled (src_run_ops s ops).
Proof. exact src_c18_settled_run. Qed.
Print Assumptions c18_src_settled_run.

(* MAIN for sequences: after ANY sequence of successful set_model / set_adapter / set_role_manager / set_effector /
   add_function / load_policy / toggle calls on a freshly constructed enforcer, every query is answered as by the
   enforcer built now from the model store, the adapter and the components *)
Theorem c18_src_sequences : forall ptab d a w s0 b0 ops,
  src_new_enforcer d a w = (s0, Ok b0) ->
  ad_unscripted a = true -> pg_lines a = true -> ad_is_filtered a = false ->
  forallb reconf_ok ops = true -> src_run_all_ok s0 ops = true ->
  let s := src_run_ops s0 ops in
  let safe := fun f => safe_name (f_gfuns (e_fs s)) (e_model s) f = true in
  (forall k m, assoc k (e_mexprs s) = Some m -> calls_in safe m) ->
  (forall t e', ptab t = Some e' -> calls_in safe e') ->
  exists sf, src_fresh_from (cur_def s) (e_adapter s) s = (sf, Ok true) /\ src_obs_eq ptab s sf.
Proof. exact src_c18_sequences. Qed.
Print Assumptions c18_src_sequences.

(* non-vacuity, through the generated code: the hypotheses of the set_model / set_adapter theorems hold of x_rbac,
   those of the three non-reloading theorems of a state reached through management calls, and the six-call
   reconfiguration sequence of Properties/C18.v succeeds call by call *)
Example c18_src_set_model_nonvacuous :
  snd (src_step x_rbac (OSetModel rbac2_def)) = Ok true /\ e_auto_build x_rbac = true /\
  ad_is_filtered (e_adapter x_rbac) = false /\ clean_def rbac2_def = true /\
  no_leftover (f_gfuns (e_fs x_rbac)) (d_model rbac2_def) = true.
Proof. vm_compute. repeat split; reflexivity. Qed.
Example c18_src_set_adapter_nonvacuous :
  snd (src_step x_rbac (OSetAdapter (mem x_lines2))) = Ok true /\ e_auto_build x_rbac = true /\
  ad_is_filtered (mem x_lines2) = false /\
  gfuns_exactb (f_gfuns (e_fs x_rbac)) (e_model x_rbac) = true.
Proof. vm_compute. repeat split; reflexivity. Qed.
Example c18_src_synced_nonvacuous :
  src_run_ops x_rbac [OAdd s_p s_p [bob; data2; read]; OAdd s_g s_g [bob; admin];
                      ORemove s_p s_p [root; data2; write]] = x_managed /\
  syncedb x_managed = true /\ ad_is_filtered (e_adapter x_managed) = false /\
  gfuns_exactb (f_gfuns (e_fs x_managed)) (e_model x_managed) = true.
Proof. vm_compute. repeat split; reflexivity. Qed.
Example c18_src_sequence_nonvacuous :
  src_new_enforcer rbac_def (mem x_lines) false = (x_rbac, Ok true) /\
  forallb reconf_ok x_ops = true /\ src_run_all_ok x_rbac x_ops = true /\
  (let s := src_run_ops x_rbac x_ops in
   snd (src_fresh_from (cur_def s) (e_adapter s) s) = Ok true /\
   src_ask no_ptab s (QEnforce k_req) = src_ask no_ptab (fst (src_fresh_from (cur_def s) (e_adapter s) s)) (QEnforce k_req)).
Proof. vm_compute. repeat split; reflexivity. Qed.
