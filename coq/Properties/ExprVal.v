(* What makes the finite validation of Model/Expr.v against the real rhai engine (Gen/RhaiExamples.v) meaningful for
   ALL ASTs: the printed text denotes the AST; eval is stable in its fuel; the short-circuit laws; what the
   comparison operators answer, kind by kind.  Proofs: Proofs/ExprLexP.v, Proofs/ExprParseP.v, Proofs/ExprValP.v. *)
From CV Require Import Model.Base Model.PathMatch Model.Expr Model.Enforce.
From CV Require Import Proofs.ExprParse Proofs.ExprLexP Proofs.ExprParseP Proofs.ExprValP.
From Coq Require Import ZArith.

(* ---------------------------------------------------------------- (a) the text denotes the AST *)
(* reading back what print_expr writes gives the AST, for every well-formed AST (identifiers are identifiers, integers
   have at most 20 digits, the base of a property access is not a bare negation, `eval` on a variable is EEval) *)
Theorem print_expr_readback : forall e, wf_expr e = true -> parse_expr (print_expr e) = Some e.
Proof. exact parse_print. Qed.
Print Assumptions print_expr_readback.

Example print_expr_readback_ex :
  wf_expr ex_matcher = true /\
  print_expr ex_matcher =
  T "r.sub == p.sub && (keyMatch(r.obj, p.obj) && !(r.m.age in [-5, 2147483647])) || eval(p.rule) && ""a\""b\\c"" >= !false".
Proof. split; vm_compute; reflexivity. Qed.

Theorem print_expr_injective_wf :
  forall e1 e2, wf_expr e1 = true -> wf_expr e2 = true -> print_expr e1 = print_expr e2 -> e1 = e2.
Proof. exact print_expr_inj. Qed.
Print Assumptions print_expr_injective_wf.

(* the lexer alone: the printed text is the token-level print *)
Theorem print_expr_tokens : forall e, wf_expr e = true -> lex LIdle (print_expr e) = Some (tprint_at 0 e).
Proof. exact lex_print_expr. Qed.
Print Assumptions print_expr_tokens.

(* without well-formedness the printer is NOT injective: `!r.b.f` is both (!r.b).f and !(r.b.f) *)
Theorem print_expr_injective_refuted : exists e1 e2, e1 <> e2 /\ print_expr e1 = print_expr e2.
Proof. exact ExprValP.print_expr_injective_refuted. Qed.
Print Assumptions print_expr_injective_refuted.

(* eval(p.rule) is EEval and also a call of the name `eval` *)
Theorem print_expr_eval_call_refuted :
  exists e1 e2, e1 <> e2 /\ print_expr e1 = print_expr e2 /\ wf_expr e1 = true.
Proof. exact ExprValP.print_expr_eval_call_refuted. Qed.
Print Assumptions print_expr_eval_call_refuted.

(* print_Z keeps 20 digits *)
Theorem print_expr_bigint_refuted : exists e1 e2, e1 <> e2 /\ print_expr e1 = print_expr e2.
Proof. exact ExprValP.print_expr_bigint_refuted. Qed.
Print Assumptions print_expr_bigint_refuted.

(* ---------------------------------------------------------------- (b) eval and its fuel *)
(* more fuel never changes a value or a panic *)
Theorem eval_fuel_monotone : forall call ptab sc fuel fuel' e,
  fuel <= fuel' -> eval call ptab sc fuel e <> EErr -> eval call ptab sc fuel' e = eval call ptab sc fuel e.
Proof. exact eval_fuel_mono. Qed.
Print Assumptions eval_fuel_monotone.

Example eval_fuel_monotone_ex :
  eval (fun _ _ => None) ex_ptab ex_sc 2 (EEval (T "p") (T "rule")) = EV (VBool true) /\
  eval (fun _ _ => None) ex_ptab ex_sc eval_fuel (EEval (T "p") (T "rule")) = EV (VBool true).
Proof. split; vm_compute; reflexivity. Qed.

(* an error may be the fuel running out: the same is false of EErr *)
Theorem eval_fuel_err_refuted :
  exists call ptab sc e, eval call ptab sc 0 e = EErr /\ eval call ptab sc 1 e = EV (VBool true).
Proof. exact ExprValP.eval_fuel_err_refuted. Qed.
Print Assumptions eval_fuel_err_refuted.

(* an AST whose eval-nesting (through the scope and the parse table) is at most n is evaluated by fuel n as by any
   larger fuel; the enforcer's fuel eval_fuel = 4 suffices up to depth 4; an eval-free AST needs none *)
Theorem eval_nest_depth : forall call ptab sc n e,
  nest_ok ptab sc n e = true -> forall k, eval call ptab sc (n + k) e = eval call ptab sc n e.
Proof. exact eval_nest_ok. Qed.
Print Assumptions eval_nest_depth.

Theorem eval_fuel_suffices : forall call ptab sc e fuel,
  nest_ok ptab sc eval_fuel e = true -> eval_fuel <= fuel ->
  eval call ptab sc fuel e = eval call ptab sc eval_fuel e.
Proof. exact ExprValP.eval_fuel_suffices. Qed.
Print Assumptions eval_fuel_suffices.

Example eval_fuel_suffices_ex :
  nest_ok ex_ptab ex_sc 2 (EEval (T "p") (T "rule")) = true /\
  nest_ok ex_ptab ex_sc 1 (EEval (T "p") (T "rule")) = false /\
  nest_ok ex_ptab ex_sc eval_fuel (EEval (T "p") (T "rule")) = true.
Proof. repeat split; vm_compute; reflexivity. Qed.

Theorem eval_free_needs_no_fuel : forall ptab sc e, ExprP.no_eval e = true -> nest_ok ptab sc 0 e = true.
Proof. exact no_eval_nest_ok. Qed.
Print Assumptions eval_free_needs_no_fuel.

(* ---------------------------------------------------------------- (c) short circuit *)
(* a false left operand decides `&&`, a true one `||`, whatever the right operand is (unknown variable, unknown
   function, wrong types, a panicking function: it is not evaluated) *)
Theorem and_short_circuit : forall call ptab sc fuel a b,
  eval call ptab sc fuel a = EV (VBool false) -> eval call ptab sc fuel (EAnd a b) = EV (VBool false).
Proof. exact and_false_l. Qed.
Print Assumptions and_short_circuit.

Theorem or_short_circuit : forall call ptab sc fuel a b,
  eval call ptab sc fuel a = EV (VBool true) -> eval call ptab sc fuel (EOr a b) = EV (VBool true).
Proof. exact or_true_l. Qed.
Print Assumptions or_short_circuit.

Example short_circuit_ex :
  eval (fun _ _ => Some EPanic) (fun _ => None) [] 0 (EAnd (ELit (SBool false)) (ECall (T "boom") [])) = EV (VBool false) /\
  eval (fun _ _ => Some EPanic) (fun _ => None) [] 0 (EAnd (ELit (SBool true)) (ECall (T "boom") [])) = EPanic.
Proof. split; vm_compute; reflexivity. Qed.

(* otherwise the right operand is evaluated and must be a bool *)
Theorem and_or_right : forall call ptab sc fuel a b,
  (eval call ptab sc fuel a = EV (VBool true) -> eval call ptab sc fuel (EAnd a b) = as_bool (eval call ptab sc fuel b)) /\
  (eval call ptab sc fuel a = EV (VBool false) -> eval call ptab sc fuel (EOr a b) = as_bool (eval call ptab sc fuel b)).
Proof. exact and_or_right_l. Qed.
Print Assumptions and_or_right.

(* a left operand that is no bool is an error, an error stays an error, a panic a panic - whatever the right one *)
Theorem and_or_left_decides : forall call ptab sc fuel a b,
  (forall v, eval call ptab sc fuel a = EV v -> is_vbool v = false ->
             eval call ptab sc fuel (EAnd a b) = EErr /\ eval call ptab sc fuel (EOr a b) = EErr) /\
  (eval call ptab sc fuel a = EErr -> eval call ptab sc fuel (EAnd a b) = EErr /\ eval call ptab sc fuel (EOr a b) = EErr) /\
  (eval call ptab sc fuel a = EPanic -> eval call ptab sc fuel (EAnd a b) = EPanic /\ eval call ptab sc fuel (EOr a b) = EPanic).
Proof. exact andor_left_decides. Qed.
Print Assumptions and_or_left_decides.

Theorem not_not_as_bool : forall call ptab sc fuel a,
  eval call ptab sc fuel (ENot (ENot a)) = as_bool (eval call ptab sc fuel a).
Proof. exact not_not. Qed.
Print Assumptions not_not_as_bool.

(* ---------------------------------------------------------------- (d) the operators, kind by kind *)
(* ==, !=, <, <=, >, >=, &&, ||, !, in answer a bool or fail *)
Theorem bool_operators : forall call ptab sc fuel e v,
  bool_op e = true -> eval call ptab sc fuel e = EV v -> is_vbool v = true.
Proof. exact bool_op_sound. Qed.
Print Assumptions bool_operators.

Example bool_operators_ex :
  bool_op (EIn (ELit (SInt 1)) [ELit (SStr (T "a")); ELit (SInt 1)]) = true /\
  eval (fun _ _ => None) (fun _ => None) [] 0 (EIn (ELit (SInt 1)) [ELit (SStr (T "a")); ELit (SInt 1)]) = EV (VBool true) /\
  bool_op (EProp (ELit (SInt 1)) (T "f")) = false.
Proof. repeat split; vm_compute; reflexivity. Qed.

(* == and != never fail on two values; == is equality of values (so false across kinds) *)
Theorem eq_neq_total : forall call ptab sc fuel a b x y,
  eval call ptab sc fuel a = EV x -> eval call ptab sc fuel b = EV y ->
  eval call ptab sc fuel (EEq a b) = EV (VBool (veqb x y)) /\
  eval call ptab sc fuel (ENeq a b) = EV (VBool (negb (veqb x y))).
Proof. exact eq_total. Qed.
Print Assumptions eq_neq_total.

Theorem veqb_is_equality : forall x y, veqb x y = true <-> x = y.
Proof. exact veqb_eq. Qed.
Print Assumptions veqb_is_equality.

Example eq_neq_total_ex :
  eval (fun _ _ => None) (fun _ => None) [(T "r_m", VMap [(T "age", SInt 30)])] 0
       (EEq (EVar (T "r") (T "m")) (ELit (SInt 30))) = EV (VBool false) /\
  veqb (VMap [(T "age", SInt 30)]) (VMap [(T "age", SInt 30)]) = true /\
  veqb (VMap [(T "age", SInt 30)]) (VMap [(T "age", SStr (T "30"))]) = false.
Proof. repeat split; vm_compute; reflexivity. Qed.

(* a comparison fails exactly on two maps, never panics, is false across kinds and on (), and within strings,
   ints and bools is the comparison of the kind's order *)
Theorem cmp_errors_exactly_on_maps : forall c x y,
  (cmp_values c x y = EErr <-> kind x = 4 /\ kind y = 4) /\ cmp_values c x y <> EPanic.
Proof. exact cmp_values_err_panic. Qed.
Print Assumptions cmp_errors_exactly_on_maps.

Theorem cmp_across_kinds : forall c x y, kind x <> kind y -> cmp_values c x y = EV (VBool false).
Proof. exact cmp_values_cross. Qed.
Print Assumptions cmp_across_kinds.

Theorem cmp_within_kind : forall c x y,
  kind x = kind y -> orderable x = true -> cmp_values c x y = EV (VBool (cmp_holds c (vcompare x y))).
Proof. exact cmp_values_ordered. Qed.
Print Assumptions cmp_within_kind.

Example cmp_kinds_ex :
  cmp_values CLt (VStr (T "Z")) (VStr (T "a")) = EV (VBool true) /\
  cmp_values CLt (VInt 1) (VStr (T "a")) = EV (VBool false) /\
  cmp_values CLe VUnit VUnit = EV (VBool false) /\
  cmp_values CLe (VMap []) (VMap []) = EErr.
Proof. repeat split; vm_compute; reflexivity. Qed.

(* within a kind >= is the negation of < ; across kinds it is not (both are false) *)
Theorem ge_is_not_lt_within_kind : forall x y,
  kind x = kind y -> orderable x = true ->
  exists b, cmp_values CLt x y = EV (VBool b) /\ cmp_values CGe x y = EV (VBool (negb b)).
Proof. exact ge_not_lt. Qed.
Print Assumptions ge_is_not_lt_within_kind.

Theorem ge_is_not_lt_refuted :
  exists x y, cmp_values CLt x y = EV (VBool false) /\ cmp_values CGe x y = EV (VBool false).
Proof. exact ExprValP.ge_is_not_lt_refuted. Qed.
Print Assumptions ge_is_not_lt_refuted.

(* equal strings / ints / bools are <= and >= each other; () == () but not () <= () *)
Theorem eq_implies_le_ge : forall x y,
  veqb x y = true -> orderable x = true ->
  cmp_values CLe x y = EV (VBool true) /\ cmp_values CGe x y = EV (VBool true) /\
  cmp_values CLt x y = EV (VBool false) /\ cmp_values CGt x y = EV (VBool false).
Proof. exact eq_le_ge. Qed.
Print Assumptions eq_implies_le_ge.

Example eq_implies_le_ge_ex :
  veqb (VStr (T "a")) (VStr (T "a")) = true /\ orderable (VStr (T "a")) = true /\
  kind (VInt 1) = kind (VInt 2) /\ orderable (VInt 1) = true /\ orderable VUnit = false /\ orderable (VMap []) = false.
Proof. repeat split; vm_compute; reflexivity. Qed.

Theorem le_refl_unit_refuted : veqb VUnit VUnit = true /\ cmp_values CLe VUnit VUnit = EV (VBool false).
Proof. exact ExprValP.le_refl_unit_refuted. Qed.
Print Assumptions le_refl_unit_refuted.

(* the string order (bytes, as Rust's str Ord) is a strict total order *)
Theorem tcompare_total_order : forall a b c,
  (tcompare a b = Eq <-> a = b) /\ tcompare b a = CompOpp (tcompare a b) /\
  (tcompare a b = Lt -> tcompare b c = Lt -> tcompare a c = Lt).
Proof. exact tcompare_order. Qed.
Print Assumptions tcompare_total_order.

Example tcompare_total_order_ex :
  tcompare (T "ab") (T "abc") = Lt /\ tcompare (T "Z") (T "a") = Lt /\
  tcompare [ascii_of_nat 195; ascii_of_nat 169] (T "z") = Gt.     (* "e acute" (UTF-8 C3 A9) > "z" *)
Proof. repeat split; vm_compute; reflexivity. Qed.
