(* C04, part 2: the management entry points of Engine.step as one generic
   "basic operation"; what the adapter answer decides; the role-link tail. *)
From CV Require Import Model.Base Model.Effector Model.RoleGraph Model.Expr Model.Enforce
     Model.Engine Model.SpecC04.
From CV Require Import Proofs.ListAux Proofs.BaseP Proofs.RoleGraphP Proofs.C04SetP.
From Coq Require Import Lia.

(* ================= what a management call never touches ================= *)
Definition frame (s s' : estate) : Prop :=
  e_mexprs s' = e_mexprs s /\ e_enabled s' = e_enabled s /\ e_auto_save s' = e_auto_save s /\
  e_auto_build s' = e_auto_build s /\ e_auto_notify s' = e_auto_notify s /\
  e_callbacks s' = e_callbacks s /\ e_watcher s' = e_watcher s /\
  f_rm_max (e_fs s') = f_rm_max (e_fs s) /\ f_gfuns (e_fs s') = f_gfuns (e_fs s) /\
  f_ufuns (e_fs s') = f_ufuns (e_fs s).

Lemma frame_refl : forall s, frame s s.
Proof. intros s. unfold frame. repeat split. Qed.

Lemma frame_trans : forall a b c, frame a b -> frame b c -> frame a c.
Proof.
  unfold frame. intros a b c H1 H2.
  destruct H1 as (A1 & A2 & A3 & A4 & A5 & A6 & A7 & A8 & A9 & A10).
  destruct H2 as (B1 & B2 & B3 & B4 & B5 & B6 & B7 & B8 & B9 & B10).
  repeat split; congruence.
Qed.

Lemma frame_upd_adapter : forall s ad, frame s (upd_adapter s ad).
Proof. intros. unfold frame. repeat split. Qed.
Lemma frame_upd_model : forall s md, frame s (upd_model s md).
Proof. intros. unfold frame. repeat split. Qed.
Lemma frame_upd_wlog : forall s w, frame s (upd_wlog s w).
Proof. intros. unfold frame. repeat split. Qed.
Lemma frame_set_rm : forall s m, frame s (upd_fs s (set_rm (e_fs s) m)).
Proof. intros. unfold frame. repeat split. Qed.

Lemma emit_cases : forall s ev, emit s ev = s \/ exists w, emit s ev = upd_wlog s w.
Proof. intros s ev. unfold emit. destruct (e_watcher s); [right; eexists; reflexivity|left; reflexivity]. Qed.

Lemma emit_mgmt_cases : forall s c ev, emit_mgmt s c ev = s \/ exists w, emit_mgmt s c ev = upd_wlog s w.
Proof.
  intros s c ev. unfold emit_mgmt. destruct (c && e_auto_notify s); [apply emit_cases|left; reflexivity].
Qed.

Lemma emit_mgmt_false : forall s ev, emit_mgmt s false ev = s.
Proof. reflexivity. Qed.

Lemma emit_model : forall s ev, e_model (emit s ev) = e_model s.
Proof. intros s ev. destruct (emit_cases s ev) as [->|[w ->]]; reflexivity. Qed.
Lemma emit_fs : forall s ev, e_fs (emit s ev) = e_fs s.
Proof. intros s ev. destruct (emit_cases s ev) as [->|[w ->]]; reflexivity. Qed.
Lemma emit_adapter : forall s ev, e_adapter (emit s ev) = e_adapter s.
Proof. intros s ev. destruct (emit_cases s ev) as [->|[w ->]]; reflexivity. Qed.
Lemma emit_frame : forall s ev, frame s (emit s ev).
Proof. intros s ev. destruct (emit_cases s ev) as [->|[w ->]]; [apply frame_refl|apply frame_upd_wlog]. Qed.

Lemma emit_mgmt_model : forall s c ev, e_model (emit_mgmt s c ev) = e_model s.
Proof. intros s c ev. destruct (emit_mgmt_cases s c ev) as [->|[w ->]]; reflexivity. Qed.
Lemma emit_mgmt_fs : forall s c ev, e_fs (emit_mgmt s c ev) = e_fs s.
Proof. intros s c ev. destruct (emit_mgmt_cases s c ev) as [->|[w ->]]; reflexivity. Qed.
Lemma emit_mgmt_adapter : forall s c ev, e_adapter (emit_mgmt s c ev) = e_adapter s.
Proof. intros s c ev. destruct (emit_mgmt_cases s c ev) as [->|[w ->]]; reflexivity. Qed.
Lemma emit_mgmt_frame : forall s c ev, frame s (emit_mgmt s c ev).
Proof.
  intros s c ev. destruct (emit_mgmt_cases s c ev) as [->|[w ->]]; [apply frame_refl|apply frame_upd_wlog].
Qed.

Lemma frame_auto_build : forall s s', frame s s' -> e_auto_build s' = e_auto_build s.
Proof. intros s s' H. apply H. Qed.

(* ================= role links ================= *)
(* the arguments of the link call made for one rule of a definition with
   `cnt` underscores *)
Definition link_dom (cnt : nat) (r : rule) : option text :=
  if Nat.eqb cnt 2 then None else Some (nth 2 r []).
(* delete_link succeeds exactly when the two names are equal or both are
   nodes of the domain's graph *)
Definition has_nodes (m : rmgr) (a b : text) (d : option text) : bool :=
  teqb a b || match graph_of m d with
              | Some g => has_node g a && has_node g b
              | None => false
              end.
Definition rule_link_ok (cnt : nat) (insert : bool) (m : rmgr) (r : rule) : bool :=
  Nat.leb cnt (length r) && Nat.ltb cnt 4 &&
  (insert || has_nodes m (nth 0 r []) (nth 1 r []) (link_dom cnt r)).
Definition links_okb (cnt : nat) (insert : bool) (m : rmgr) (rs : list rule) : bool :=
  forallb (rule_link_ok cnt insert m) rs.

Lemma delete_link_ok : forall m a b d, snd (delete_link m a b d) = has_nodes m a b d.
Proof.
  intros m a b d. unfold delete_link, has_nodes. destruct (teqb a b); [reflexivity|]. cbn [orb].
  destruct (graph_of m d) as [g|]; [|reflexivity].
  destruct (has_node g a && has_node g b); reflexivity.
Qed.

Lemma delete_link_keeps_nodes : forall m a b d a' b' d',
  has_nodes (fst (delete_link m a b d)) a' b' d' = has_nodes m a' b' d'.
Proof.
  intros m a b d a' b' d'. unfold delete_link. destruct (teqb a b); [reflexivity|].
  destruct (graph_of m d) as [g|] eqn:Eg; [|reflexivity].
  destruct (has_node g a && has_node g b); [|reflexivity]. cbn [fst].
  unfold has_nodes. f_equal.
  destruct (text_eq_dec (dom_key d) (dom_key d')) as [E|E].
  - rewrite <- (graph_of_key _ d' d E). rewrite graph_of_assoc_set_same.
    rewrite <- (graph_of_key m d' d E), Eg. reflexivity.
  - rewrite graph_of_assoc_set_other; [reflexivity|exact E].
Qed.

(* the exact outcome of one rule *)
Lemma link_rule_cases : forall cnt insert m r,
  snd (link_rule cnt insert m r) =
  if Nat.ltb (length r) cnt then LErr EPolicy
  else if Nat.leb 4 cnt then LErr EModel
  else if insert || has_nodes m (nth 0 r []) (nth 1 r []) (link_dom cnt r) then LOk
  else LErr ERbac.
Proof.
  intros cnt insert m r. unfold link_rule. fold (link_dom cnt r).
  destruct (Nat.ltb (length r) cnt); [reflexivity|].
  destruct (Nat.leb 4 cnt); [reflexivity|].
  destruct insert; [reflexivity|]. cbn [orb].
  rewrite <- delete_link_ok.
  destruct (delete_link m (nth 0 r []) (nth 1 r []) (link_dom cnt r)) as [m' [|]]; reflexivity.
Qed.

Lemma link_rule_ok_iff : forall cnt insert m r,
  snd (link_rule cnt insert m r) = LOk <-> rule_link_ok cnt insert m r = true.
Proof.
  intros cnt insert m r. rewrite link_rule_cases. unfold rule_link_ok.
  destruct (Nat.ltb (length r) cnt) eqn:E1.
  - apply Nat.ltb_lt in E1. assert (Nat.leb cnt (length r) = false) as -> by (apply Nat.leb_gt; lia).
    cbn [andb]. split; discriminate.
  - apply Nat.ltb_ge in E1. assert (Nat.leb cnt (length r) = true) as -> by (apply Nat.leb_le; lia).
    cbn [andb]. destruct (Nat.leb 4 cnt) eqn:E2.
    + apply Nat.leb_le in E2. assert (Nat.ltb cnt 4 = false) as -> by (apply Nat.ltb_ge; lia).
      cbn [andb]. split; discriminate.
    + apply Nat.leb_gt in E2. assert (Nat.ltb cnt 4 = true) as -> by (apply Nat.ltb_lt; lia).
      cbn [andb]. destruct (insert || has_nodes m (nth 0 r []) (nth 1 r []) (link_dom cnt r));
        split; try reflexivity; discriminate.
Qed.

Lemma link_rule_keeps_nodes : forall cnt m r a b d,
  has_nodes (fst (link_rule cnt false m r)) a b d = has_nodes m a b d.
Proof.
  intros cnt m r a b d. unfold link_rule. fold (link_dom cnt r).
  destruct (Nat.ltb (length r) cnt); [reflexivity|].
  destruct (Nat.leb 4 cnt); [reflexivity|].
  pose proof (delete_link_keeps_nodes m (nth 0 r []) (nth 1 r []) (link_dom cnt r) a b d) as K.
  destruct (delete_link m (nth 0 r []) (nth 1 r []) (link_dom cnt r)) as [m' [|]]; exact K.
Qed.

Lemma rule_link_ok_step : forall cnt insert m r r',
  rule_link_ok cnt insert (fst (link_rule cnt insert m r)) r' = rule_link_ok cnt insert m r'.
Proof.
  intros cnt insert m r r'. unfold rule_link_ok. destruct insert; [reflexivity|].
  rewrite link_rule_keeps_nodes. reflexivity.
Qed.

Lemma forallb_ext' : forall {A} (f g : A -> bool) l, (forall x, f x = g x) -> forallb f l = forallb g l.
Proof.
  intros A f g l H. induction l as [|x l IH]; cbn [forallb]; [reflexivity|]. rewrite H, IH. reflexivity.
Qed.

(* the exact condition under which the role-link update of a call succeeds:
   every rule has at least `cnt` fields, cnt < 4 (unless there is no rule at
   all), and -- for deletions -- delete_link finds both names *)
Theorem link_rules_ok_iff : forall cnt insert rs m,
  snd (link_rules cnt insert m rs) = LOk <-> links_okb cnt insert m rs = true.
Proof.
  intros cnt insert. induction rs as [|r rs IH]; intros m; cbn [link_rules links_okb forallb].
  - split; reflexivity.
  - pose proof (link_rule_ok_iff cnt insert m r) as H1.
    pose proof (fun r' => rule_link_ok_step cnt insert m r r') as H2.
    destruct (link_rule cnt insert m r) as [m' [|e]]; cbn [snd fst] in *.
    + rewrite IH. unfold links_okb.
      rewrite (forallb_ext' _ _ rs H2).
      assert (rule_link_ok cnt insert m r = true) as -> by (apply H1; reflexivity).
      reflexivity.
    + destruct (rule_link_ok cnt insert m r) eqn:E.
      * destruct H1 as [_ H1]. discriminate (H1 eq_refl).
      * cbn [andb]. split; discriminate.
Qed.

(* the role-link update of one management call, as a function of the model
   and the current manager *)
Definition links_result (md : model) (m : rmgr) (pt : text) (insert : bool) (rs : list rule) : lerr :=
  match get_ast md s_g pt with
  | None => LOk
  | Some a => if Nat.ltb (count_us (a_value a)) 2 then LErr EModel
              else snd (link_rules (count_us (a_value a)) insert m rs)
  end.
Definition links_rm (md : model) (m : rmgr) (pt : text) (insert : bool) (rs : list rule) : rmgr :=
  match get_ast md s_g pt with
  | None => m
  | Some a => if Nat.ltb (count_us (a_value a)) 2 then m
              else fst (link_rules (count_us (a_value a)) insert m rs)
  end.

Lemma il_snd : forall s pt insert rs,
  snd (incremental_links s pt insert rs) = links_result (e_model s) (f_rm (e_fs s)) pt insert rs.
Proof.
  intros s pt insert rs. unfold incremental_links, links_result.
  destruct (get_ast (e_model s) s_g pt) as [a|]; [|reflexivity].
  destruct (Nat.ltb (count_us (a_value a)) 2); [reflexivity|].
  destruct (link_rules _ insert _ rs) as [m' [|e]]; reflexivity.
Qed.

Lemma il_rm : forall s pt insert rs,
  f_rm (e_fs (fst (incremental_links s pt insert rs))) =
  links_rm (e_model s) (f_rm (e_fs s)) pt insert rs.
Proof.
  intros s pt insert rs. unfold incremental_links, links_rm.
  destruct (get_ast (e_model s) s_g pt) as [a|]; [|reflexivity].
  destruct (Nat.ltb (count_us (a_value a)) 2); [reflexivity|].
  destruct (link_rules _ insert _ rs) as [m' [|e]]; reflexivity.
Qed.

Lemma il_model : forall s pt insert rs,
  e_model (fst (incremental_links s pt insert rs)) =
  match links_result (e_model s) (f_rm (e_fs s)) pt insert rs, get_ast (e_model s) s_g pt with
  | LOk, Some a => set_ast (e_model s) s_g pt (with_handle a HCur)
  | _, _ => e_model s
  end.
Proof.
  intros s pt insert rs. unfold incremental_links, links_result.
  destruct (get_ast (e_model s) s_g pt) as [a|]; [|reflexivity].
  destruct (Nat.ltb (count_us (a_value a)) 2); [reflexivity|].
  destruct (link_rules _ insert _ rs) as [m' [|e]]; reflexivity.
Qed.

Lemma il_eqh : forall s pt insert rs, eqh (e_model (fst (incremental_links s pt insert rs))) (e_model s).
Proof.
  intros s pt insert rs. rewrite il_model.
  destruct (links_result _ _ pt insert rs); [|apply eqh_refl].
  destruct (get_ast (e_model s) s_g pt) as [a|] eqn:E; [|apply eqh_refl].
  apply eqh_set_handle, E.
Qed.

Lemma il_misc : forall s pt insert rs,
  let s' := fst (incremental_links s pt insert rs) in
  frame s s' /\ e_adapter s' = e_adapter s /\ e_wlog s' = e_wlog s /\
  e_fs s' = set_rm (e_fs s) (f_rm (e_fs s')).
Proof.
  intros s pt insert rs. unfold incremental_links.
  destruct (get_ast (e_model s) s_g pt) as [a|].
  2:{ cbn. repeat split; try apply frame_refl. destruct (e_fs s); reflexivity. }
  destruct (Nat.ltb (count_us (a_value a)) 2).
  { cbn. repeat split; try apply frame_refl. destruct (e_fs s); reflexivity. }
  destruct (link_rules _ insert _ rs) as [m' [|e]]; cbn; repeat split.
Qed.

Lemma set_rm_same : forall fs, set_rm fs (f_rm fs) = fs.
Proof. intros [a b c d]. reflexivity. Qed.

(* with no rule at all the manager is untouched *)
Lemma links_rm_nil : forall md m pt insert, links_rm md m pt insert [] = m.
Proof.
  intros md m pt insert. unfold links_rm. destruct (get_ast md s_g pt) as [a|]; [|reflexivity].
  destruct (Nat.ltb _ 2); reflexivity.
Qed.

(* ================= the generic management call ================= *)
Definition adapter_call (s : estate) (sec pt : text) (b : bop) : adapter * outcome bool :=
  if e_auto_save s then
    match b with
    | BAdd r => ad_add (e_adapter s) sec pt r
    | BAddMany rs => ad_add_many (e_adapter s) sec pt rs
    | BRemove r => ad_remove (e_adapter s) sec pt r
    | BRemoveMany rs => ad_remove_many (e_adapter s) sec pt rs
    | BFiltered idx vals => ad_remove_filtered (e_adapter s) sec pt idx vals
    end
  else (e_adapter s, Ok true).

Definition bop_event (sec pt : text) (b : bop) (rs : list rule) : event :=
  match b with
  | BAdd r => EvAdd sec pt r
  | BAddMany rs0 => EvAddMany sec pt rs0
  | BRemove r => EvRemove sec pt r
  | BRemoveMany rs0 => EvRemoveMany sec pt rs0
  | BFiltered _ _ => EvRemoveFiltered sec pt rs
  end.
Definition bop_insert (b : bop) : bool := match b with BAdd _ | BAddMany _ => true | _ => false end.
(* the filtered path is not guarded by the change flag *)
Definition bop_guard (b : bop) : bool := match b with BFiltered _ _ => false | _ => true end.

(* does the call reach the role-link update? *)
Definition links_active (guard : bool) (s : estate) (sec : text) (changed : bool) : bool :=
  teqb sec s_g && e_auto_build s && (negb guard || changed).

Definition links_tail (guard : bool) (s : estate) (sec pt : text) (changed insert : bool)
           (rs : list rule) : estate * outcome bool :=
  if links_active guard s sec changed
  then let (s', e) := incremental_links s pt insert rs in (s', lerr_out e changed)
  else (s, Ok changed).

Definition step_basic (s : estate) (sec pt : text) (b : bop) : estate * outcome bool :=
  let (ad, ares) := adapter_call s sec pt b in
  let s1 := upd_adapter s ad in
  match ares with
  | Ok true =>
    match m_apply (e_model s1) sec pt b with
    | None => (s1, Panic)
    | Some (md, changed, rs) =>
      links_tail (bop_guard b) (emit_mgmt (upd_model s1 md) changed (bop_event sec pt b rs))
                 sec pt changed (bop_insert b) rs
    end
  | other => (s1, other)
  end.

Lemma after_change_tail : forall s sec pt changed insert rs,
  after_change s sec pt changed insert rs = links_tail true s sec pt changed insert rs.
Proof.
  intros s sec pt changed insert rs. unfold after_change, links_tail, links_active.
  destruct (teqb sec s_g), (e_auto_build s), changed; reflexivity.
Qed.

(* the five entry points are instances of step_basic *)
Theorem step_is_basic : forall s o sec pt b,
  bop_of o = Some (sec, pt, b) -> step s o = step_basic s sec pt b.
Proof.
  intros s o sec pt b H.
  destruct o; cbn [bop_of] in H; try discriminate; inversion H; subst; clear H;
    cbn [step]; unfold step_basic, adapter_call.
  - unfold step_add. destruct (e_auto_save s).
    + destruct (ad_add (e_adapter s) sec pt r) as [ad [[|]|e|]]; try reflexivity.
      cbn [m_apply]. destruct (m_add_policy _ sec pt r) as [md f]. apply after_change_tail.
    + cbn [m_apply]. destruct (m_add_policy _ sec pt r) as [md f]. apply after_change_tail.
  - unfold step_add_many. destruct (e_auto_save s).
    + destruct (ad_add_many (e_adapter s) sec pt rs) as [ad [[|]|e|]]; try reflexivity.
      cbn [m_apply]. destruct (m_add_policies _ sec pt rs) as [md f]. apply after_change_tail.
    + cbn [m_apply]. destruct (m_add_policies _ sec pt rs) as [md f]. apply after_change_tail.
  - unfold step_remove. destruct (e_auto_save s).
    + destruct (ad_remove (e_adapter s) sec pt r) as [ad [[|]|e|]]; try reflexivity.
      cbn [m_apply]. destruct (m_remove_policy _ sec pt r) as [md f]. apply after_change_tail.
    + cbn [m_apply]. destruct (m_remove_policy _ sec pt r) as [md f]. apply after_change_tail.
  - unfold step_remove_many. destruct (e_auto_save s).
    + destruct (ad_remove_many (e_adapter s) sec pt rs) as [ad [[|]|e|]]; try reflexivity.
      cbn [m_apply]. destruct (m_remove_policies _ sec pt rs) as [md f]. apply after_change_tail.
    + cbn [m_apply]. destruct (m_remove_policies _ sec pt rs) as [md f]. apply after_change_tail.
  - unfold step_remove_filtered.
    assert (T : forall s2 removed rs,
               (if negb (teqb sec s_g) || negb (e_auto_build s2) then (s2, Ok removed)
                else let (s3, e) := incremental_links s2 pt false rs in (s3, lerr_out e removed))
               = links_tail false s2 sec pt removed false rs).
    { intros s2 removed rs. unfold links_tail, links_active.
      destruct (teqb sec s_g), (e_auto_build s2); reflexivity. }
    destruct (e_auto_save s).
    + destruct (ad_remove_filtered (e_adapter s) sec pt idx vals) as [ad [[|]|e|]]; try reflexivity.
      cbn [m_apply bop_guard bop_insert bop_event].
      destruct (m_remove_filtered _ sec pt idx vals) as [[[md f] rs]|]; [apply T|reflexivity].
    + cbn [m_apply bop_guard bop_insert bop_event].
      destruct (m_remove_filtered _ sec pt idx vals) as [[[md f] rs]|]; [apply T|reflexivity].
Qed.

(* ---- the adapter refuses (Ok false), fails (Err) or panics: nothing but
   the adapter itself changes, and its answer is the call's answer ---- *)
Theorem step_basic_refuse : forall s sec pt b ad r,
  adapter_call s sec pt b = (ad, r) -> r <> Ok true ->
  step_basic s sec pt b = (upd_adapter s ad, r).
Proof.
  intros s sec pt b ad r H Hr. unfold step_basic. rewrite H.
  destruct r as [[|]|e|]; try reflexivity. contradiction.
Qed.

(* ---- the adapter accepts ---- *)
Theorem step_basic_accept : forall s sec pt b ad,
  adapter_call s sec pt b = (ad, Ok true) ->
  step_basic s sec pt b =
  match get_ast (e_model s) sec pt with
  | None => (upd_adapter s ad, Ok false)
  | Some a =>
    match sp_apply b (a_policy a) with
    | None => (upd_adapter s ad, Panic)
    | Some (l', flag, rs) =>
      links_tail (bop_guard b)
                 (emit_mgmt (upd_model (upd_adapter s ad) (set_policy (e_model s) sec pt l'))
                            flag (bop_event sec pt b rs))
                 sec pt flag (bop_insert b) rs
    end
  end.
Proof.
  intros s sec pt b ad H. unfold step_basic. rewrite H.
  change (e_model (upd_adapter s ad)) with (e_model s). rewrite m_apply_spec.
  destruct (get_ast (e_model s) sec pt) as [a|] eqn:Eg.
  - destruct (sp_apply b (a_policy a)) as [[[l' flag] rs]|]; reflexivity.
  - rewrite emit_mgmt_false.
    change (upd_model (upd_adapter s ad) (e_model s)) with (upd_adapter s ad).
    unfold links_tail, links_active.
    destruct (teqb sec s_g) eqn:Es; [|reflexivity].
    destruct (e_auto_build (upd_adapter s ad)); [|reflexivity].
    destruct b as [r|rs|r|rs|idx vals]; cbn [bop_guard negb orb andb]; try reflexivity.
    apply teqb_eq in Es. subst sec. cbn [bop_payload bop_insert].
    unfold incremental_links. change (e_model (upd_adapter s ad)) with (e_model s).
    rewrite Eg. reflexivity.
Qed.

(* ---- the tail, piece by piece ---- *)
Lemma links_tail_res : forall guard s sec pt changed insert rs,
  snd (links_tail guard s sec pt changed insert rs) =
  if links_active guard s sec changed
  then lerr_out (links_result (e_model s) (f_rm (e_fs s)) pt insert rs) changed
  else Ok changed.
Proof.
  intros guard s sec pt changed insert rs. unfold links_tail.
  destruct (links_active guard s sec changed); [|reflexivity].
  rewrite <- il_snd. destruct (incremental_links s pt insert rs). reflexivity.
Qed.

Lemma links_tail_rm : forall guard s sec pt changed insert rs,
  f_rm (e_fs (fst (links_tail guard s sec pt changed insert rs))) =
  if links_active guard s sec changed
  then links_rm (e_model s) (f_rm (e_fs s)) pt insert rs
  else f_rm (e_fs s).
Proof.
  intros guard s sec pt changed insert rs. unfold links_tail.
  destruct (links_active guard s sec changed); [|reflexivity].
  rewrite <- il_rm. destruct (incremental_links s pt insert rs). reflexivity.
Qed.

Lemma links_tail_eqh : forall guard s sec pt changed insert rs,
  eqh (e_model (fst (links_tail guard s sec pt changed insert rs))) (e_model s).
Proof.
  intros guard s sec pt changed insert rs. unfold links_tail.
  destruct (links_active guard s sec changed); [|apply eqh_refl].
  pose proof (il_eqh s pt insert rs) as H. destruct (incremental_links s pt insert rs). exact H.
Qed.

Lemma links_tail_misc : forall guard s sec pt changed insert rs,
  let s' := fst (links_tail guard s sec pt changed insert rs) in
  frame s s' /\ e_adapter s' = e_adapter s /\ e_wlog s' = e_wlog s /\
  e_fs s' = set_rm (e_fs s) (f_rm (e_fs s')).
Proof.
  intros guard s sec pt changed insert rs. unfold links_tail.
  destruct (links_active guard s sec changed).
  - pose proof (il_misc s pt insert rs) as H. destruct (incremental_links s pt insert rs). exact H.
  - cbn. repeat split; try apply frame_refl. symmetry. apply set_rm_same.
Qed.

(* when the update does not run the state is exactly the model-level result *)
Lemma links_tail_inactive : forall guard s sec pt changed insert rs,
  links_active guard s sec changed = false ->
  links_tail guard s sec pt changed insert rs = (s, Ok changed).
Proof. intros guard s sec pt changed insert rs H. unfold links_tail. rewrite H. reflexivity. Qed.

(* ================= RBAC helpers ================= *)
Theorem step_rbac_ops : forall s r,
  step_rbac s r =
  match rbac_ops r with
  | (o1, None) => step s o1
  | (o1, Some o2) => seq_or (step s o1) (fun s' => step s' o2)
  end.
Proof. intros s r. destruct r; reflexivity. Qed.

(* every call issued by an RBAC helper is a basic call on p/p or g/g *)
Lemma rbac_ops_basic : forall r,
  (exists sec pt b, bop_of (fst (rbac_ops r)) = Some (sec, pt, b) /\ sec_ok sec = true) /\
  (forall o2, snd (rbac_ops r) = Some o2 ->
              exists sec pt b, bop_of o2 = Some (sec, pt, b) /\ sec_ok sec = true).
Proof.
  intros r. destruct r; cbn [rbac_ops fst snd bop_of]; split;
    try (intros o2 H; inversion H; subst; cbn [bop_of]);
    try discriminate; do 3 eexists; split; reflexivity.
Qed.

Lemma seq_or_cases : forall ra f s' res,
  seq_or ra f = (s', res) ->
  (exists a, snd ra = Ok a /\
     ((exists b, f (fst ra) = (s', Ok b) /\ res = Ok (a || b)) \/
      (f (fst ra) = (s', res) /\ forall b, res <> Ok b))) \/
  (ra = (s', res) /\ forall a, res <> Ok a).
Proof.
  intros [s0 r0] f s' res. unfold seq_or. destruct r0 as [a|e|].
  - intros H. left. exists a. split; [reflexivity|]. cbn [fst].
    destruct (f s0) as [s1 [b|e|]]; inversion H; subst.
    + left. exists b. split; reflexivity.
    + right. split; [reflexivity|]. intros b. discriminate.
    + right. split; [reflexivity|]. intros b. discriminate.
  - intros H. inversion H; subst. right. split; [reflexivity|]. intros a. discriminate.
  - intros H. inversion H; subst. right. split; [reflexivity|]. intros a. discriminate.
Qed.

(* ================= build_role_links and clear ================= *)
Lemma build_links_am_erase : forall am m,
  map (fun ka => (fst ka, with_handle (snd ka) HOwn)) (fst (fst (build_links_am am m))) =
  map (fun ka => (fst ka, with_handle (snd ka) HOwn)) am.
Proof.
  induction am as [|[k a] am IH]; intros m; cbn [build_links_am]; [reflexivity|].
  destruct (Nat.ltb (count_us (a_value a)) 2); [reflexivity|].
  destruct (link_rules _ true m (a_policy a)) as [m' [|e]]; [|reflexivity].
  specialize (IH m'). destruct (build_links_am am m') as [[am'' m''] e']. cbn [fst snd map] in *.
  rewrite IH. reflexivity.
Qed.

Lemma eqh_assoc_set : forall md sec am am',
  assoc sec md = Some am ->
  map (fun ka => (fst ka, with_handle (snd ka) HOwn)) am' =
  map (fun ka => (fst ka, with_handle (snd ka) HOwn)) am ->
  eqh (assoc_set sec am' md) md.
Proof.
  intros md sec am am' H E. unfold eqh, erase_h, map_ast.
  apply (map_assoc_set_same _ sec _ am md H). intros k'. cbn [fst snd]. rewrite E. reflexivity.
Qed.

Lemma brl_eqh : forall s, eqh (e_model (fst (build_role_links s))) (e_model s).
Proof.
  intros s. unfold build_role_links. destruct (assoc s_g (e_model s)) as [am|] eqn:E; [|apply eqh_refl].
  pose proof (build_links_am_erase am []) as H.
  destruct (build_links_am am []) as [[am' m'] e]. cbn [fst snd] in *.
  apply (eqh_assoc_set _ _ am am' E H).
Qed.

Lemma brl_misc : forall s,
  let s' := fst (build_role_links s) in
  frame s s' /\ e_adapter s' = e_adapter s /\ e_wlog s' = e_wlog s.
Proof.
  intros s. unfold build_role_links. destruct (assoc s_g (e_model s)) as [am|].
  - destruct (build_links_am am []) as [[am' m'] e]. cbn. repeat split.
  - cbn. repeat split.
Qed.

(* with empty rule lists the rebuild can only fail on a malformed definition,
   and it leaves the manager it was given *)
Lemma build_links_am_empty : forall am m,
  (forall k a, In (k, a) am -> a_policy a = []) ->
  snd (build_links_am am m) =
    (if forallb (fun ka => Nat.leb 2 (count_us (a_value (snd ka)))) am then LOk else LErr EModel) /\
  snd (fst (build_links_am am m)) = m.
Proof.
  induction am as [|[k a] am IH]; intros m H; cbn [build_links_am forallb snd].
  - split; reflexivity.
  - destruct (Nat.ltb (count_us (a_value a)) 2) eqn:E.
    + apply Nat.ltb_lt in E. assert (Nat.leb 2 (count_us (a_value a)) = false) as ->
          by (apply Nat.leb_gt; lia). split; reflexivity.
    + apply Nat.ltb_ge in E. assert (Nat.leb 2 (count_us (a_value a)) = true) as ->
          by (apply Nat.leb_le; lia). cbn [andb].
      rewrite (H k a (or_introl eq_refl)). cbn [link_rules].
      assert (H' : forall k0 a0, In (k0, a0) am -> a_policy a0 = [])
        by (intros k0 a0 Hin; apply (H k0 a0); right; exact Hin).
      destruct (IH m H') as [I1 I2].
      destruct (build_links_am am m) as [[am'' m''] e']. cbn [fst snd] in *. split; assumption.
Qed.

Definition clear_call (s : estate) : adapter * lres :=
  if e_auto_save s then ad_clear (e_adapter s) else (e_adapter s, LROk).

Theorem step_clear_refuse : forall s ad r,
  clear_call s = (ad, r) -> r <> LROk -> step_clear s = (upd_adapter s ad, lres_out r).
Proof.
  intros s ad r H Hr. unfold step_clear. fold (clear_call s). rewrite H.
  destruct r; [contradiction|reflexivity|reflexivity].
Qed.

Theorem step_clear_accept : forall s ad,
  clear_call s = (ad, LROk) ->
  step_clear s =
  let s2 := upd_model (upd_adapter s ad) (m_clear_policy (e_model s)) in
  if e_auto_build s then
    match build_role_links s2 with
    | (s3, LOk) => (emit s3 EvClear, Ok true)
    | (s3, LErr e) => (s3, Err e)
    end
  else (emit s2 EvClear, Ok true).
Proof. intros s ad H. unfold step_clear. fold (clear_call s). rewrite H. reflexivity. Qed.
