(* C05 — assembly: the property over histories, the decidable invariant,
   refutation witnesses for the side conditions, non-vacuity examples. *)
From CV Require Import Model.Base Model.Effector Model.RoleGraph Model.Expr Model.Enforce Model.Engine
     Model.SpecC05.
From CV Require Import Proofs.ListAux Proofs.BaseP Proofs.RoleGraphP Proofs.C05Links Proofs.C05Sync
     Proofs.C05Steps Proofs.C05Load Proofs.C05Main Proofs.C05Rebuild.
From Coq Require Import Lia.

(* ---------- the property in the form it is phrased ---------- *)
Theorem c05_history : forall ptab d a w ops,
  is_ok (snd (new_enforcer d a w)) = true -> ad_is_filtered a = false ->
  side_ok (fst (new_enforcer d a w)) = true ->
  hist_ok (fst (new_enforcer d a w)) ops = true ->
  let s := run_ops (fst (new_enforcer d a w)) ops in
  let s' := fst (step s OBuildRoleLinks) in
  snd (step s OBuildRoleLinks) = Ok true /\
  RoleSync s' /\
  same_observations ptab s s' /\
  (shallow (f_rm_max (e_fs s)) (f_rm (e_fs s)) ->
   same_decisions ptab s s' /\ forall q, ans_eq (ask ptab s' q) (ask ptab s q)).
Proof.
  intros ptab d a w ops Hok Hnf Hside Hh s s'.
  destruct (history_sync d a w ops Hok Hnf Hside Hh) as (Hrs & _ & Hs).
  apply side_ok_spec in Hs. destruct Hs as [Hex _]. fold s in Hrs, Hex.
  destruct (rebuild_noop ptab s Hrs Hex) as (H1 & H2 & H3 & H4).
  split; [exact H1|]. split; [exact H2|]. split; [exact H3|].
  intros Hsh. split; [apply H4, Hsh|]. apply rebuild_ask; assumption.
Qed.

Theorem c05_from_inv : forall ptab s0 ops, SyncInv s0 -> hist_ok s0 ops = true ->
  let s := run_ops s0 ops in
  let s' := fst (step s OBuildRoleLinks) in
  snd (step s OBuildRoleLinks) = Ok true /\
  SyncInv s' /\
  same_observations ptab s s' /\
  (shallow (f_rm_max (e_fs s)) (f_rm (e_fs s)) ->
   same_decisions ptab s s' /\ forall q, ans_eq (ask ptab s' q) (ask ptab s q)).
Proof.
  intros ptab s0 ops Hinv Hh s s'.
  destruct (run_ops_sync ops s0 Hinv Hh) as (Hrs & Hb & Hs). fold s in Hrs, Hb, Hs.
  pose proof Hs as Hs2. apply side_ok_spec in Hs2. destruct Hs2 as [Hex _].
  destruct (rebuild_noop ptab s Hrs Hex) as (H1 & H2 & H3 & H4).
  split; [exact H1|]. split; [|split; [exact H3|]].
  - split; [exact H2|]. split.
    + unfold s'. apply step_auto; [exact Hb|reflexivity].
    + unfold s', side_ok. rewrite (so_model _ _ _ H3). exact Hs.
  - intros Hsh. split; [apply H4, Hsh|]. apply rebuild_ask; assumption.
Qed.

(* ---------- the decidable invariant is sound ---------- *)
Lemma nodupb_sound : forall {A} (eqb : A -> A -> bool), (forall x y, eqb x y = true <-> x = y) ->
  forall l, nodupb eqb l = true -> NoDup l.
Proof.
  intros A eqb Heq. induction l as [|x l IH]; intros H; [constructor|].
  cbn [nodupb] in H. apply andb_true_iff in H. destruct H as [H1 H2].
  constructor; [|apply IH, H2]. intros Hin. apply (memb_In_gen eqb Heq) in Hin.
  rewrite Hin in H1. discriminate.
Qed.

Lemma wf_graph_b_sound : forall g, wf_graph_b g = true -> wf_graph g.
Proof.
  intros g H. unfold wf_graph_b in H. apply andb_true_iff in H. destruct H as [H H3].
  apply andb_true_iff in H. destruct H as [H1 H2]. split; [|split].
  - apply (nodupb_sound teqb teqb_eq), H1.
  - apply (nodupb_sound peqb peqb_eq), H2.
  - intros x y Hin. rewrite forallb_forall in H3. specialize (H3 (x, y) Hin). cbn [fst snd] in H3.
    apply andb_true_iff in H3. destruct H3 as [H3 Hne]. apply andb_true_iff in H3.
    destruct H3 as [Hx Hy]. apply memb_In in Hx. apply memb_In in Hy.
    apply negb_true_iff, teqb_neq in Hne. auto.
Qed.

Lemma wf_b_sound : forall m, wf_b m = true -> wf m.
Proof.
  intros m H. unfold wf_b in H. apply andb_true_iff in H. destruct H as [H1 H2]. split.
  - apply (nodupb_sound teqb teqb_eq), H1.
  - intros k g Hin. rewrite forallb_forall in H2. apply wf_graph_b_sound, (H2 (k, g) Hin).
Qed.

Theorem role_sync_b_sound : forall s, role_sync_b s = true -> RoleSync s.
Proof.
  intros s H. unfold role_sync_b in H. cbv zeta in H.
  apply andb_true_iff in H. destruct H as [H H5].
  apply andb_true_iff in H. destruct H as [H H4].
  apply andb_true_iff in H. destruct H as [H H3].
  apply andb_true_iff in H. destruct H as [H1 H2].
  rewrite forallb_forall in H2, H3, H4, H5.
  split; [split; [apply wf_b_sound, H1|split]|].
  - intros d p. split.
    + intros Hin. unfold edges_of in Hin. destruct (graph_of (f_rm (e_fs s)) d) as [g|] eqn:Hg; [|destruct Hin].
      unfold graph_of in Hg. apply assoc_In in Hg. specialize (H2 _ Hg). cbn [fst snd] in H2.
      unfold subsetb in H2. rewrite forallb_forall in H2. apply memb_peqb_In, H2, Hin.
    + intros Hin. apply links_of_am_In in Hin. specialize (H3 _ Hin). cbn [fst snd] in H3.
      apply memb_peqb_In in H3. exact H3.
  - intros k a Hin. specialize (H4 _ Hin). cbn [snd] in H4. destruct (a_handle a); try discriminate.
    reflexivity.
  - intros k a Hin. specialize (H5 _ Hin). cbn [fst snd] in H5.
    destruct (find_gfun (k, count_us (a_value a)) (f_gfuns (e_fs s))) as [[| |]|]; try discriminate.
    reflexivity.
Qed.

(* a boolean consequence used by the refutations *)
Lemma RoleSync_edges_b : forall s d p, RoleSync s ->
  memb peqb p (edges_of (f_rm (e_fs s)) d) = memb peqb p (links_of (e_model s) d).
Proof.
  intros s d p ((_ & He & _) & _). specialize (He d p). unfold links_of.
  destruct (memb peqb p (links_of_am (gsec (e_model s)) (dom_key d))) eqn:E.
  - apply memb_peqb_In. apply He. apply memb_peqb_In, E.
  - destruct (memb peqb p (edges_of (f_rm (e_fs s)) d)) eqn:E2; [|reflexivity].
    apply memb_peqb_In, He, memb_peqb_In in E2. rewrite E2 in E. discriminate.
Qed.

(* ---------- example models ---------- *)
Definition mk_ast (v : text) (toks : list text) : assertion :=
  {| a_value := v; a_tokens := toks; a_policy := []; a_handle := HOwn |}.
Definition ex_model (gdefs : list (text * text)) : model :=
  [ (s_r, [(s_r, mk_ast (T "sub, obj, act") [tok s_r (T "sub"); tok s_r (T "obj"); tok s_r (T "act")])]);
    (s_p, [(s_p, mk_ast (T "sub, obj, act") [tok s_p (T "sub"); tok s_p (T "obj"); tok s_p (T "act")])]);
    (s_g, map (fun kv => (fst kv, mk_ast (snd kv) [])) gdefs);
    (s_e, [(s_e, mk_ast (erule_text AllowOverride) [])]);
    (s_m, [(s_m, mk_ast [] [])]) ].
(* m = g(r.sub, p.sub) && r.obj == p.obj && r.act == p.act *)
Definition ex_matcher : expr :=
  EAnd (ECall (T "g") [EVar s_r (T "sub"); EVar s_p (T "sub")])
       (EAnd (EEq (EVar s_r (T "obj")) (EVar s_p (T "obj")))
             (EEq (EVar s_r (T "act")) (EVar s_p (T "act")))).
Definition ex_def (gdefs : list (text * text)) : modeldef :=
  {| d_model := ex_model gdefs; d_mexprs := [(s_m, ex_matcher)] |}.

Definition g : text := T "g".
Definition g2 : text := T "g2".
Definition rbac_defs := [(g, T "_, _")].
Definition dom_defs := [(g, T "_, _, _")].
Definition two_defs := [(g, T "_, _"); (g2, T "_, _")].
Definition ex_init (gdefs : list (text * text)) : estate :=
  fst (new_enforcer (ex_def gdefs) (AMemory [] false) false).
Definition no_ptab : text -> option expr := fun _ => None.

(* RBAC: a cycle a->b->c->a, a diamond a->{b,d}->e, a batch with one duplicate
   (rejected as a whole), removal of an absent rule, filtered removals, RBAC
   helpers, save / reload, role-manager replacement, clear, more adds *)
Definition ex_rbac_ops : list op :=
  [ OAdd s_p s_p [T "admin"; T "data"; T "read"];
    OAdd g g [T "a"; T "b"]; OAdd g g [T "b"; T "c"]; OAdd g g [T "c"; T "a"];
    OAddMany g g [[T "a"; T "d"]; [T "d"; T "e"]; [T "b"; T "e"]];
    OAddMany g g [[T "x"; T "y"]; [T "a"; T "b"]];           (* duplicate: rejected *)
    OAdd g g [T "a"; T "b"];                                    (* duplicate: no change *)
    OAdd g g [T "s"; T "s"];                                    (* reflexive rule: stored, no link *)
    ORemove g g [T "q"; T "z"];                                 (* absent *)
    ORemoveMany g g [[T "c"; T "a"]; [T "q"; T "z"]];           (* one absent: rejected *)
    ORemoveFiltered g g 1 [T "nobody"];                         (* matches nothing *)
    ORemoveFiltered g g 0 [T "d"];
    ORbac (RAddRole (T "e") (T "admin") None);
    ORbac (RAddRoles (T "u") [T "a"; T "b"] None);
    ORbac (RDeleteRole (T "u") (T "b") None);
    ORbac (RDeleteUser (T "zz"));
    OSave; OLoad;
    OSetRoleManager 5;
    OAdd g g [T "e"; T "f"];
    ORbac (RDeleteRoleAll (T "f"));
    OBuildRoleLinks;
    OLoadFiltered [] [T "a"];
    OLoad;
    OEnableAutoSave false;
    ORemove g g [T "s"; T "s"];
    OClear;
    OAdd g g [T "n"; T "m"];
    OSetAdapter (AMemory [[g; g; T "k"; T "l"]; [s_p; s_p; T "l"; T "data"; T "read"]] false);
    OSetModel (ex_def rbac_defs) ].

Example ex_rbac_init : SyncInv (ex_init rbac_defs).
Proof. apply new_enforcer_inv; vm_compute; reflexivity. Qed.
Example ex_rbac_hist_ok : hist_ok (ex_init rbac_defs) ex_rbac_ops = true.
Proof. vm_compute. reflexivity. Qed.
Example ex_rbac_sync_b : role_sync_b (run_ops (ex_init rbac_defs) ex_rbac_ops) = true.
Proof. vm_compute. reflexivity. Qed.
Example ex_rbac_sync : SyncInv (run_ops (ex_init rbac_defs) ex_rbac_ops).
Proof. apply run_ops_sync; [exact ex_rbac_init|exact ex_rbac_hist_ok]. Qed.

(* the state in the middle of that history (cycle + diamond present) *)
Definition ex_rbac_mid : estate := run_ops (ex_init rbac_defs) (firstn 16 ex_rbac_ops).
Example ex_rbac_mid_links :
  links_of (e_model ex_rbac_mid) None =
  [(T "a", T "b"); (T "b", T "c"); (T "c", T "a"); (T "a", T "d"); (T "b", T "e");
   (T "e", T "admin"); (T "u", T "a")].
Proof. vm_compute. reflexivity. Qed.
Example ex_rbac_mid_sync : SyncInv ex_rbac_mid.
Proof. apply run_ops_sync; [exact ex_rbac_init|vm_compute; reflexivity]. Qed.
Example ex_rbac_mid_shallow : shallow (f_rm_max (e_fs ex_rbac_mid)) (f_rm (e_fs ex_rbac_mid)).
Proof. apply shallow_b_sound. vm_compute. reflexivity. Qed.
Example ex_rbac_mid_decision :
  enforce no_ptab ex_rbac_mid [VStr (T "u"); VStr (T "data"); VStr (T "read")] = Ok true /\
  enforce no_ptab ex_rbac_mid [VStr (T "d"); VStr (T "data"); VStr (T "read")] = Ok false.
Proof. vm_compute. split; reflexivity. Qed.

(* a model with domains *)
Definition ex_dom_ops : list op :=
  [ OAdd g g [T "alice"; T "admin"; T "d1"]; OAdd g g [T "alice"; T "user"; T "d2"];
    OAddMany g g [[T "bob"; T "admin"; T "d2"]; [T "admin"; T "root"; T "d1"]];
    ORbac (RAddRole (T "carol") (T "admin") (Some (T "d1")));
    ORbac (RDeleteRoles (T "alice") (Some (T "d2")));
    ORemoveFiltered g g 2 [T "d2"];
    OAdd g g [T "x"; T "y"; T "DEFAULT"];
    OSave; OLoad; OSetRoleManager 3; OClear;
    OAdd g g [T "alice"; T "admin"; T "d1"] ].
Example ex_dom_init : SyncInv (ex_init dom_defs).
Proof. apply new_enforcer_inv; vm_compute; reflexivity. Qed.
Example ex_dom_sync : SyncInv (run_ops (ex_init dom_defs) ex_dom_ops).
Proof. apply run_ops_sync; [exact ex_dom_init|vm_compute; reflexivity]. Qed.
Example ex_dom_mid_links :
  links_of (e_model (run_ops (ex_init dom_defs) (firstn 5 ex_dom_ops))) (Some (T "d1")) =
  [(T "alice", T "admin"); (T "admin", T "root"); (T "carol", T "admin")].
Proof. vm_compute. reflexivity. Qed.

(* two role definitions sharing the manager, holding disjoint links *)
Definition ex_two_ops : list op :=
  [ OAdd g g [T "a"; T "b"]; OAdd g g2 [T "b"; T "c"]; OAdd g g2 [T "x"; T "y"];
    ORemove g g2 [T "x"; T "y"]; OSave; OLoad; OSetRoleManager 4;
    ORemove g g [T "a"; T "b"] ].
Example ex_two_init : SyncInv (ex_init two_defs).
Proof. apply new_enforcer_inv; vm_compute; reflexivity. Qed.
Example ex_two_sync : SyncInv (run_ops (ex_init two_defs) ex_two_ops).
Proof. apply run_ops_sync; [exact ex_two_init|vm_compute; reflexivity]. Qed.

(* ---------- refutation witnesses ---------- *)
(* (a) D25: a rule longer than its definition stands for the same link as the
   shorter one; removing it deletes the link the other still asserts. Every
   call returns Ok, defs_disjoint holds throughout. *)
Definition d25_state : estate :=
  run_ops (ex_init rbac_defs) [OAdd g g [T "a"; T "b"]; OAdd g g [T "a"; T "b"; T "x"]].
Definition d25_op : op := ORemove g g [T "a"; T "b"; T "x"].

Theorem g_exact_refuted :
  RoleSync d25_state /\ e_auto_build d25_state = true /\
  defs_disjoint (e_model d25_state) = true /\
  defs_disjoint (e_model (fst (step d25_state d25_op))) = true /\
  op_allowed d25_state d25_op = true /\
  g_exact (e_model d25_state) = false /\
  snd (step d25_state d25_op) = Ok true /\
  ~ RoleSync (fst (step d25_state d25_op)) /\
  roles_for_user (fst (step d25_state d25_op)) (T "a") None = [] /\
  roles_for_user (fst (step (fst (step d25_state d25_op)) OBuildRoleLinks)) (T "a") None = [T "b"].
Proof.
  split; [apply role_sync_b_sound; vm_compute; reflexivity|].
  repeat (split; [vm_compute; reflexivity|]).
  split; [|split; vm_compute; reflexivity].
  intros H. pose proof (RoleSync_edges_b _ None (T "a", T "b") H) as E. vm_compute in E. discriminate.
Qed.

(* (a') a rule shorter than its definition: the model stores it, the link
   update fails with EPolicy, the call reports an error although the policy
   changed, and a later rebuild fails the same way *)
Definition short_op : op := OAdd g g [T "a"].
Theorem g_exact_post_refuted :
  SyncInv (ex_init rbac_defs) /\ op_allowed (ex_init rbac_defs) short_op = true /\
  g_exact (e_model (fst (step (ex_init rbac_defs) short_op))) = false /\
  snd (step (ex_init rbac_defs) short_op) = Err EPolicy /\
  m_has_policy (e_model (fst (step (ex_init rbac_defs) short_op))) g g [T "a"] = true /\
  ~ RoleSync (fst (step (ex_init rbac_defs) short_op)) /\
  snd (step (fst (step (ex_init rbac_defs) short_op)) OBuildRoleLinks) = Err EPolicy.
Proof.
  split; [exact ex_rbac_init|].
  repeat (split; [vm_compute; reflexivity|]).
  split; [|vm_compute; reflexivity].
  intros H. pose proof (RoleSync_edges_b _ None (T "a", []) H) as E. vm_compute in E. discriminate.
Qed.

(* (b) D7: g and g2 share one role manager; removing the rule under one
   definition deletes the link the other still asserts. g_exact holds
   throughout, every call returns Ok. *)
Definition d7_state : estate :=
  run_ops (ex_init two_defs) [OAdd g g [T "a"; T "b"]; OAdd g g2 [T "a"; T "b"]].
Definition d7_op : op := ORemove g g2 [T "a"; T "b"].

Theorem defs_disjoint_refuted :
  RoleSync d7_state /\ e_auto_build d7_state = true /\
  g_exact (e_model d7_state) = true /\
  g_exact (e_model (fst (step d7_state d7_op))) = true /\
  op_allowed d7_state d7_op = true /\
  defs_disjoint (e_model d7_state) = false /\
  snd (step d7_state d7_op) = Ok true /\
  ~ RoleSync (fst (step d7_state d7_op)) /\
  m_has_policy (e_model (fst (step d7_state d7_op))) g g [T "a"; T "b"] = true /\
  has_link 10 (f_rm (e_fs (fst (step d7_state d7_op)))) (T "a") (T "b") None = false /\
  has_link 10 (f_rm (e_fs (fst (step (fst (step d7_state d7_op)) OBuildRoleLinks)))) (T "a") (T "b") None = true.
Proof.
  split; [apply role_sync_b_sound; vm_compute; reflexivity|].
  repeat (split; [vm_compute; reflexivity|]).
  split; [|repeat split; vm_compute; reflexivity].
  intros H. pose proof (RoleSync_edges_b _ None (T "a", T "b") H) as E. vm_compute in E. discriminate.
Qed.

(* set_model whose load fails: the new (empty) model is installed, the old
   role graph and the old g-functions stay *)
Definition sm_init : estate :=
  fst (new_enforcer (ex_def rbac_defs) (AScripted (AMemory [] false) [RPass; RPass; RFail]) false).
Definition sm_state : estate := run_ops sm_init [OAdd g g [T "a"; T "b"]].
Definition sm_op : op := OSetModel (ex_def rbac_defs).

Theorem set_model_failed_load_refuted :
  SyncInv sm_state /\ op_allowed sm_state sm_op = false /\
  snd (step sm_state sm_op) = Err EAdapter /\
  side_ok (fst (step sm_state sm_op)) = true /\
  ~ RoleSync (fst (step sm_state sm_op)) /\
  m_get_policy (e_model (fst (step sm_state sm_op))) g g = [] /\
  ask no_ptab (fst (step sm_state sm_op)) (QHasLink (T "a") (T "b") None) = AnsBool true.
Proof.
  split.
  { apply run_ops_sync; [apply new_enforcer_inv; vm_compute; reflexivity|vm_compute; reflexivity]. }
  repeat (split; [vm_compute; reflexivity|]).
  split; [|split; vm_compute; reflexivity].
  intros H. pose proof (RoleSync_edges_b _ None (T "a", T "b") H) as E. vm_compute in E. discriminate.
Qed.

(* with automatic building off the graph goes stale by design; switching it
   on again does not repair it, and removing the rule then fails with ERbac
   although the policy changed *)
Definition stale_state : estate :=
  run_ops (ex_init rbac_defs) [OEnableAutoBuild false; OAdd g g [T "a"; T "b"]; OEnableAutoBuild true].
Theorem auto_build_off_stale :
  side_ok stale_state = true /\ e_auto_build stale_state = true /\ ~ RoleSync stale_state /\
  snd (step stale_state (ORemove g g [T "a"; T "b"])) = Err ERbac /\
  m_has_policy (e_model (fst (step stale_state (ORemove g g [T "a"; T "b"])))) g g [T "a"; T "b"] = false.
Proof.
  repeat (split; [vm_compute; reflexivity|]).
  split; [|split; vm_compute; reflexivity].
  intros H. pose proof (RoleSync_edges_b _ None (T "a", T "b") H) as E. vm_compute in E. discriminate.
Qed.

(* at or beyond the hierarchy limit has_link depends on the order in which the
   edges were inserted (the BFS depth counter advances when the queue drains
   to one element), and a rebuild inserts definition by definition: with the
   limit set to 2, the chain a -> b -> d is found after the rebuild but not
   before. The invariant and both side conditions hold. *)
Definition deep_state : estate :=
  run_ops (ex_init two_defs)
    [ OSetRoleManager 2; OAdd s_p s_p [T "d"; T "data"; T "read"];
      OAdd g g2 [T "a"; T "b"]; OAdd g g [T "a"; T "c"]; OAdd g g [T "b"; T "d"] ].
Definition deep_req : list value := [VStr (T "a"); VStr (T "data"); VStr (T "read")].

Theorem deep_rebuild_refuted :
  SyncInv deep_state /\
  shallow_b (f_rm_max (e_fs deep_state)) (f_rm (e_fs deep_state)) = false /\
  ask no_ptab deep_state (QHasLink (T "a") (T "d") None) = AnsBool false /\
  ask no_ptab (fst (step deep_state OBuildRoleLinks)) (QHasLink (T "a") (T "d") None) = AnsBool true /\
  enforce no_ptab deep_state deep_req = Ok false /\
  enforce no_ptab (fst (step deep_state OBuildRoleLinks)) deep_req = Ok true.
Proof.
  split.
  { apply run_ops_sync; [exact ex_two_init|vm_compute; reflexivity]. }
  repeat split; vm_compute; reflexivity.
Qed.

(* non-vacuity of the rebuild theorems on the cycle + diamond state *)
Example ex_rebuild_noop :
  let s := ex_rbac_mid in
  let s' := fst (step s OBuildRoleLinks) in
  same_observations no_ptab s s' /\ same_decisions no_ptab s s' /\
  (forall q, ans_eq (ask no_ptab s' q) (ask no_ptab s q)).
Proof.
  cbv zeta. destruct ex_rbac_mid_sync as (Hrs & _ & Hs).
  apply side_ok_spec in Hs. destruct Hs as [Hex _].
  destruct (rebuild_noop no_ptab ex_rbac_mid Hrs Hex) as (_ & _ & H3 & H4).
  split; [exact H3|]. split; [apply H4, ex_rbac_mid_shallow|].
  apply rebuild_ask; [exact Hrs|exact Hex|exact ex_rbac_mid_shallow].
Qed.
