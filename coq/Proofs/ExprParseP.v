(* Part 2 of the read-back proof: the precedence parser of Proofs/ExprParse.v turns the token-level print
   `tprint_at` (Proofs/ExprLexP.v) back into the AST; with part 1:
       wf_expr e = true -> parse_expr (print_expr e) = Some e. *)
From CV Require Import Model.Base Model.PathMatch Model.Expr.
From CV Require Import Proofs.BaseP Proofs.ExprP Proofs.ExprParse Proofs.ExprLexP.
From Coq Require Import Lia ZArith.

Lemma length_cons {A} (x : A) l : length (x :: l) = S (length l).
Proof. reflexivity. Qed.
#[local] Hint Rewrite @app_length @length_cons : lenr.
Ltac len := autorewrite with lenr in *; lia.

(* ====================================================================== shape of the token-level print *)
Definition prec (e : expr) : nat :=
  match e with
  | EOr _ _ => 1 | EAnd _ _ => 2 | EEq _ _ | ENeq _ _ => 3 | EIn _ _ => 4 | ECmp _ _ _ => 5 | ENot _ => 6
  | _ => 7
  end.

Lemma tprint_le e ctx : ctx <= prec e -> tprint_at ctx e = tprint_at 0 e.
Proof.
  intros H. destruct e; cbn [tprint_at prec] in *; try reflexivity; unfold twrap;
    match goal with |- context [Nat.ltb ?k ctx] => destruct (Nat.ltb_spec k ctx); [lia|] end; reflexivity.
Qed.

Lemma tprint_gt e ctx : prec e < ctx -> ctx <= 7 -> tprint_at ctx e = TLP :: tprint_at 0 e ++ [TRP].
Proof.
  intros H H7. destruct e; cbn [tprint_at prec] in *; try lia; unfold twrap;
    match goal with |- context [Nat.ltb ?k ctx] => destruct (Nat.ltb_spec k ctx); [|lia] end; reflexivity.
Qed.

(* a printed expression starts with a token that starts an operand *)
Definition okstart (ts : list token) : bool :=
  match ts with (TStr _ | TInt _ | TId _ | TLP | TBang) :: _ => true | _ => false end.
Definition hd_ok (ts : list token) : bool :=
  match ts with (TStr _ | TInt _ | TId _ | TLP) :: _ => true | _ => false end.

Lemma okstart_app a b : okstart a = true -> okstart (a ++ b) = true.
Proof. destruct a as [|t a]; [discriminate|]. destruct t; intros H; try discriminate H; reflexivity. Qed.
Lemma hd_ok_app a b : hd_ok a = true -> hd_ok (a ++ b) = true.
Proof. destruct a as [|t a]; [discriminate|]. destruct t; intros H; try discriminate H; reflexivity. Qed.

Lemma okstart_twrap ctx k ts : okstart ts = true -> okstart (twrap ctx k ts) = true.
Proof. unfold twrap. destruct (Nat.ltb k ctx); [reflexivity|auto]. Qed.

Lemma tprint_okstart e : forall ctx, okstart (tprint_at ctx e) = true.
Proof.
  induction e as [v|p f|a f IHa|a b IHa IHb|a b IHa IHb|c a b IHa IHb|a b IHa IHb
                  |a b IHa IHb|a IHa|a xs IHa IHxs|f args IHargs|p f] using expr_ind';
    intros ctx; cbn [tprint_at]; try reflexivity;
    try (apply okstart_twrap; try reflexivity; apply okstart_app, IHa).
  - destruct v as [s|z|[|]]; reflexivity.
  - apply okstart_app, IHa.
Qed.

(* ... and an atom, or anything in parentheses, not with `!` *)
Lemma not_is_not_prec a : is_not a = false -> prec a = 7 \/ prec a < 6.
Proof. destruct a; cbn; intros H; try discriminate H; lia. Qed.

Lemma tprint_hd_ok e : forall ctx, wf_expr e = true -> prec e = 7 \/ prec e < ctx -> hd_ok (tprint_at ctx e) = true.
Proof.
  induction e as [v|p f|a f IHa|a b IHa IHb|a b IHa IHb|c a b IHa IHb|a b IHa IHb
                  |a b IHa IHb|a IHa|a xs IHa IHxs|f args IHargs|p f] using expr_ind';
    intros ctx Hwf Hn; cbn [tprint_at wf_expr prec] in *;
    repeat match goal with H : _ && _ = true |- _ => apply andb_true_iff in H; destruct H end;
    try reflexivity;
    try (unfold twrap; match goal with |- context [Nat.ltb ?k ctx] => destruct (Nat.ltb_spec k ctx) end;
         [reflexivity|lia]).
  - destruct v as [s|z|[|]]; reflexivity.
  - apply hd_ok_app, IHa; [assumption|]. apply not_is_not_prec.
    match goal with H : negb _ = true |- _ => apply negb_true_iff in H; exact H end.
Qed.

(* ====================================================================== what may follow an operand *)
Definition nodot (r : list token) : bool := match r with TDot :: _ => false | _ => true end.
Definition nocmp (r : list token) : bool :=
  match r with t :: _ => match cmp_of t with Some _ => false | None => true end | [] => true end.
Definition noin (r : list token) : bool :=
  match r with TId x :: TLB :: _ => negb (teqb x s_in) | _ => true end.
Definition noeq (r : list token) : bool := match r with (TEqEq | TNe) :: _ => false | _ => true end.
Definition noand (r : list token) : bool := match r with TAndAnd :: _ => false | _ => true end.
Definition noor (r : list token) : bool := match r with TOrOr :: _ => false | _ => true end.

Definition c_un (r : list token) : bool := nodot r.
Definition c_cmp (r : list token) : bool := nodot r && nocmp r.
Definition c_in (r : list token) : bool := c_cmp r && noin r.
Definition c_eq (r : list token) : bool := c_in r && noeq r.
Definition c_or (r : list token) : bool := c_eq r && noand r.
(* after a whole expression: the end, `)`, `]` or `,` *)
Definition stop (r : list token) : bool := match r with [] | (TRP | TRB | TComma) :: _ => true | _ => false end.

Lemma stop_c_or r : stop r = true -> c_or r = true /\ noor r = true.
Proof. destruct r as [|t r]; [split; reflexivity|]. destruct t; intros H; try discriminate H; split; reflexivity. Qed.

Section Stops.
  Variable rec : list token -> pres.
  Lemma post_loop_stop n a r : nodot r = true -> post_loop n a r = Some (a, r).
  Proof. destruct r as [|t r]; [destruct n; reflexivity|]. destruct t; intros H; try discriminate H; destruct n; reflexivity. Qed.
  Lemma cmp_loop_stop n a r : nocmp r = true -> cmp_loop rec n a r = Some (a, r).
  Proof. destruct r as [|t r]; [destruct n; reflexivity|]. destruct t; intros H; try discriminate H; destruct n; reflexivity. Qed.
  Lemma in_loop_stop n a r : noin r = true -> in_loop rec n a r = Some (a, r).
  Proof.
    destruct r as [|t r]; [destruct n; reflexivity|]. destruct t; intros H; try (destruct n; reflexivity).
    destruct r as [|t' r]; [destruct n; reflexivity|]. destruct t'; try (destruct n; reflexivity).
    cbn [noin] in H. apply negb_true_iff in H. destruct n; cbn [in_loop]; rewrite H; reflexivity.
  Qed.
  Lemma eq_loop_stop n a r : noeq r = true -> eq_loop rec n a r = Some (a, r).
  Proof. destruct r as [|t r]; [destruct n; reflexivity|]. destruct t; intros H; try discriminate H; destruct n; reflexivity. Qed.
  Lemma and_loop_stop n a r : noand r = true -> and_loop rec n a r = Some (a, r).
  Proof. destruct r as [|t r]; [destruct n; reflexivity|]. destruct t; intros H; try discriminate H; destruct n; reflexivity. Qed.
  Lemma or_loop_stop n a r : noor r = true -> or_loop rec n a r = Some (a, r).
  Proof. destruct r as [|t r]; [destruct n; reflexivity|]. destruct t; intros H; try discriminate H; destruct n; reflexivity. Qed.
End Stops.

(* ====================================================================== the statements, level by level *)
(* w: a token list that denotes e.  The nested parser is `p_expr f` with f at least the number of tokens in sight;
   `C` statements leave the left-associative loop open (what follows decides how it goes on) *)
Definition PrimS (w : list token) (e : expr) : Prop :=
  forall f rest, length (w ++ rest) <= f -> p_prim (p_expr f) (w ++ rest) = Some (e, rest).
Definition PostC (w : list token) (e : expr) : Prop :=
  forall f rest, length (w ++ rest) <= f ->
  exists n, length rest <= n /\ p_post (p_expr f) (w ++ rest) = post_loop n e rest.
Definition UnS (w : list token) (e : expr) : Prop :=
  forall f rest, c_un rest = true -> length (w ++ rest) <= f -> p_un (p_expr f) (w ++ rest) = Some (e, rest).
Definition CmpS (w : list token) (e : expr) : Prop :=
  forall f rest, c_cmp rest = true -> length (w ++ rest) <= f -> p_cmp (p_expr f) (w ++ rest) = Some (e, rest).
Definition InS (w : list token) (e : expr) : Prop :=
  forall f rest, c_in rest = true -> length (w ++ rest) <= f -> p_in (p_expr f) (w ++ rest) = Some (e, rest).
Definition EqS (w : list token) (e : expr) : Prop :=
  forall f rest, c_eq rest = true -> length (w ++ rest) <= f -> p_eq (p_expr f) (w ++ rest) = Some (e, rest).
Definition AndC (w : list token) (e : expr) : Prop :=
  forall f rest, c_eq rest = true -> length (w ++ rest) <= f ->
  exists n, length rest <= n /\ p_and (p_expr f) (w ++ rest) = and_loop (p_expr f) n e rest.
Definition OrC (w : list token) (e : expr) : Prop :=
  forall f rest, c_or rest = true -> length (w ++ rest) <= f ->
  exists n, length rest <= n /\ p_or (p_expr f) (w ++ rest) = or_loop (p_expr f) n e rest.

Definition Lv (j : nat) (w : list token) (e : expr) : Prop :=
  match j with
  | 1 => OrC w e | 2 => AndC w e | 3 => EqS w e | 4 => InS w e | 5 => CmpS w e | 6 => UnS w e | 7 => PostC w e
  | _ => True
  end.

(* the whole-expression statements that nested positions use *)
Definition OrS (e : expr) : Prop :=
  forall f rest, stop rest = true -> length (tprint_at 0 e ++ rest) <= f ->
  p_or (p_expr f) (tprint_at 0 e ++ rest) = Some (e, rest).
Definition RecS (e : expr) : Prop :=
  forall f rest, stop rest = true -> length (tprint_at 0 e ++ rest) < f ->
  p_expr f (tprint_at 0 e ++ rest) = Some (e, rest).

Lemma OrS_RecS e : OrS e -> RecS e.
Proof.
  intros H f rest Hs Hl. destruct f as [|f]; [lia|]. cbn [p_expr]. apply H; [exact Hs|lia].
Qed.

(* ---- the ladder: a statement at one level gives the statement at the next looser level *)
Ltac split_conds :=
  repeat match goal with
         | H : c_or _ = true |- _ => unfold c_or in H
         | H : c_eq _ = true |- _ => unfold c_eq in H
         | H : c_in _ = true |- _ => unfold c_in in H
         | H : c_cmp _ = true |- _ => unfold c_cmp in H
         | H : c_un _ = true |- _ => unfold c_un in H
         | H : _ && _ = true |- _ => apply andb_true_iff in H; destruct H
         end.

Lemma lad_prim_post w e : PrimS w e -> PostC w e.
Proof.
  intros H f rest Hl. exists (length rest). split; [lia|].
  unfold p_post. rewrite (H f rest Hl). reflexivity.
Qed.

Lemma p_un_hd_ok rec ts : hd_ok ts = true -> p_un rec ts = p_post rec ts.
Proof. destruct ts as [|t ts]; [discriminate|]. destruct t; intros H; try discriminate H; reflexivity. Qed.

Lemma lad76 w e : hd_ok w = true -> PostC w e -> UnS w e.
Proof.
  intros Hh H f rest Hc Hl. rewrite p_un_hd_ok by (apply hd_ok_app, Hh).
  destruct (H f rest Hl) as [n [_ Hn]]. rewrite Hn. apply post_loop_stop. exact Hc.
Qed.

Lemma lad65 w e : UnS w e -> CmpS w e.
Proof.
  intros H f rest Hc Hl. split_conds. unfold p_cmp. rewrite (H f rest) by assumption.
  apply cmp_loop_stop. assumption.
Qed.

Lemma lad54 w e : CmpS w e -> InS w e.
Proof.
  intros H f rest Hc Hl. unfold c_in in Hc. apply andb_true_iff in Hc. destruct Hc as [Hc Hi].
  unfold p_in. rewrite (H f rest) by assumption. apply in_loop_stop. assumption.
Qed.

Lemma lad43 w e : InS w e -> EqS w e.
Proof.
  intros H f rest Hc Hl. unfold c_eq in Hc. apply andb_true_iff in Hc. destruct Hc as [Hc Hi].
  unfold p_eq. rewrite (H f rest) by assumption. apply eq_loop_stop. assumption.
Qed.

Lemma lad32 w e : EqS w e -> AndC w e.
Proof.
  intros H f rest Hc Hl. exists (length rest). split; [lia|].
  unfold p_and. rewrite (H f rest) by assumption. reflexivity.
Qed.

Lemma lad21 w e : AndC w e -> OrC w e.
Proof.
  intros H f rest Hc Hl. unfold c_or in Hc. apply andb_true_iff in Hc. destruct Hc as [Hc Ha].
  exists (length rest). split; [lia|].
  unfold p_or. destruct (H f rest Hc Hl) as [n [_ Hn]]. rewrite Hn.
  rewrite and_loop_stop by assumption. reflexivity.
Qed.

Lemma Lv_le k j w e : Lv k w e -> 1 <= j -> j <= k -> k <= 7 -> (k = 7 -> hd_ok w = true) -> Lv j w e.
Proof.
  intros H H1 Hjk H7 Hh.
  assert (S76 : PostC w e -> hd_ok w = true -> UnS w e) by (intros; apply lad76; assumption).
  pose proof (lad65 w e) as S65. pose proof (lad54 w e) as S54. pose proof (lad43 w e) as S43.
  pose proof (lad32 w e) as S32. pose proof (lad21 w e) as S21.
  assert (Hk : k = 1 \/ k = 2 \/ k = 3 \/ k = 4 \/ k = 5 \/ k = 6 \/ k = 7) by lia.
  assert (Hj : j = 1 \/ j = 2 \/ j = 3 \/ j = 4 \/ j = 5 \/ j = 6 \/ j = 7) by lia.
  repeat (destruct Hk as [Hk|Hk]); subst k; repeat (destruct Hj as [Hj|Hj]); subst j; try lia;
    cbn [Lv] in *; auto 10.
Qed.

(* an expression in parentheses *)
Lemma paren_prim e : OrS e -> PrimS (TLP :: tprint_at 0 e ++ [TRP]) e.
Proof.
  intros H f rest Hl. cbn [app]. rewrite <- app_assoc. cbn [app p_prim].
  destruct f as [|f]; [autorewrite with lenr in Hl; lia|]. cbn [p_expr].
  rewrite (H f (TRP :: rest) eq_refl) by len. reflexivity.
Qed.

Lemma OrC_OrS e : OrC (tprint_at 0 e) e -> OrS e.
Proof.
  intros H f rest Hs Hl. destruct (stop_c_or rest Hs) as [Hc Hn].
  destruct (H f rest Hc Hl) as [n [_ Hn']]. rewrite Hn'. apply or_loop_stop, Hn.
Qed.

(* the statements about one expression, at every context it may be printed in *)
Definition P (e : expr) : Prop :=
  forall ctx j, 1 <= j -> j <= ctx -> ctx <= 7 -> Lv j (tprint_at ctx e) e.

Lemma assemble e :
  wf_expr e = true -> Lv (prec e) (tprint_at 0 e) e -> P e.
Proof.
  intros Hwf Hnat ctx j H1 Hj H7.
  assert (Hp : 1 <= prec e <= 7) by (destruct e; cbn; lia).
  assert (Hh7 : prec e = 7 -> hd_ok (tprint_at 0 e) = true) by (intros E; apply tprint_hd_ok; auto).
  destruct (Nat.le_gt_cases ctx (prec e)) as [Hle|Hgt].
  - rewrite (tprint_le e ctx Hle). apply (Lv_le (prec e)); auto; lia.
  - rewrite (tprint_gt e ctx Hgt H7).
    assert (HO : OrS e) by (apply OrC_OrS; apply (Lv_le (prec e) 1); auto; lia).
    apply (Lv_le 7); auto; try lia. cbn [Lv]. apply lad_prim_post, paren_prim, HO.
Qed.

Lemma P_OrS e : P e -> OrS e.
Proof. intros H. apply OrC_OrS. rewrite <- (tprint_le e 1) by (destruct e; cbn; lia). apply (H 1 1); lia. Qed.

(* ====================================================================== lists *)
Lemma tsep_cons x xs :
  tsep (map (tprint_at 0) (x :: xs)) = tprint_at 0 x ++ concat (map (fun y => TComma :: tprint_at 0 y) xs).
Proof.
  revert x. induction xs as [|y ys IH]; intros x.
  - cbn. rewrite app_nil_r. reflexivity.
  - change (tsep (map (tprint_at 0) (x :: y :: ys))) with (tprint_at 0 x ++ TComma :: tsep (map (tprint_at 0) (y :: ys))).
    rewrite IH. reflexivity.
Qed.

Definition close_tok (paren : bool) : token := if paren then TRP else TRB.

Lemma p_items_ok f paren xs : Forall RecS xs -> forall n acc rest,
  length (concat (map (fun y => TComma :: tprint_at 0 y) xs) ++ close_tok paren :: rest) <= n -> n < f ->
  p_items (p_expr f) n paren acc (concat (map (fun y => TComma :: tprint_at 0 y) xs) ++ close_tok paren :: rest) =
  Some (rev acc ++ xs, rest).
Proof.
  induction xs as [|x xs IH]; intros HF n acc rest Hn Hf.
  - cbn [map concat app]. rewrite app_nil_r. destruct paren; destruct n; reflexivity.
  - inversion HF as [|x' xs' Hx Hxs]; subst.
    cbn [map concat]. rewrite <- app_assoc. cbn [app p_items].
    cbn [map concat] in Hn. rewrite <- app_assoc in Hn. cbn [app] in Hn.
    destruct n as [|n]; [autorewrite with lenr in Hn; lia|]. cbn [p_items].
    rewrite (Hx f) by (try (destruct xs; destruct paren; reflexivity); len).
    rewrite IH by (try assumption; len). cbn [rev]. rewrite <- app_assoc. reflexivity.
Qed.

Lemma p_list_ok f paren xs rest : Forall RecS xs ->
  length (tsep (map (tprint_at 0) xs) ++ close_tok paren :: rest) < f ->
  p_list (p_expr f) paren (tsep (map (tprint_at 0) xs) ++ close_tok paren :: rest) = Some (xs, rest).
Proof.
  intros HF Hl. destruct xs as [|x xs].
  - cbn [map tsep app p_list]. destruct paren; reflexivity.
  - inversion HF as [|x' xs' Hx Hxs]; subst. rewrite tsep_cons in *. rewrite <- app_assoc in *.
    unfold p_list.
    pose proof (tprint_okstart x 0) as Hs.
    destruct (tprint_at 0 x) as [|t w] eqn:E; [discriminate|].
    assert (Hc : is_close paren t = false) by (destruct t; destruct paren; try discriminate Hs; reflexivity).
    cbn [app]. rewrite Hc. change (t :: w ++ ?r) with ((t :: w) ++ r). rewrite <- E.
    rewrite (Hx f) by (try (destruct xs; destruct paren; reflexivity); rewrite E; cbn [app] in Hl; len).
    apply (p_items_ok f paren xs Hxs _ [x] rest); [lia|]. cbn [app] in Hl. len.
Qed.

(* ====================================================================== the constructors *)
Lemma name_ok_not_bool x : name_ok x = true -> teqb x s_true = false /\ teqb x s_false = false.
Proof.
  unfold name_ok. intros H. apply andb_true_iff in H. destruct H as [H H2].
  apply andb_true_iff in H. destruct H as [_ H1].
  apply negb_true_iff in H1. apply negb_true_iff in H2. auto.
Qed.

Lemma cmp_of_tok c : cmp_of (cmp_tok c) = Some c.
Proof. destruct c; reflexivity. Qed.

Lemma P_ELit v : wf_expr (ELit v) = true -> P (ELit v).
Proof.
  intros Hwf. apply assemble; [exact Hwf|]. cbn [prec Lv]. apply lad_prim_post.
  intros f rest Hl. destruct v as [s|z|[|]]; reflexivity.
Qed.

Lemma P_EVar p f : wf_expr (EVar p f) = true -> P (EVar p f).
Proof.
  intros Hwf. apply assemble; [exact Hwf|]. cbn [prec Lv]. apply lad_prim_post.
  intros fu rest Hl. cbn [wf_expr] in Hwf. apply andb_true_iff in Hwf. destruct Hwf as [Hp Hf].
  destruct (name_ok_not_bool p Hp) as [H1 H2].
  cbn [tprint_at app p_prim]. rewrite H1, H2. reflexivity.
Qed.

Lemma P_EEval p f : wf_expr (EEval p f) = true -> P (EEval p f).
Proof.
  intros Hwf.
  assert (HV : RecS (EVar p f)) by (apply OrS_RecS, P_OrS, P_EVar; exact Hwf).
  apply assemble; [exact Hwf|]. cbn [prec Lv]. apply lad_prim_post.
  intros fu rest Hl. cbn [tprint_at app p_prim].
  change (teqb s_eval s_true) with false. change (teqb s_eval s_false) with false. cbn iota.
  pose proof (p_list_ok fu true [EVar p f] rest (Forall_cons _ HV (Forall_nil _))) as HL.
  cbn [map tsep tprint_at app close_tok] in HL. rewrite HL by (cbn [tprint_at app] in Hl; len).
  change (teqb s_eval s_eval) with true. reflexivity.
Qed.

Lemma P_RecS_list xs :
  Forall (fun x => wf_expr x = true -> P x) xs -> forallb wf_expr xs = true -> Forall RecS xs.
Proof.
  induction xs as [|x xs IH]; intros HF Hw; [constructor|].
  inversion HF as [|x' xs' Hx Hxs]; subst. cbn [forallb] in Hw.
  apply andb_true_iff in Hw. destruct Hw as [Hwx Hwxs].
  constructor; [apply OrS_RecS, P_OrS, Hx, Hwx|apply IH; assumption].
Qed.

Lemma P_ECall f args :
  wf_expr (ECall f args) = true -> Forall (fun x => wf_expr x = true -> P x) args -> P (ECall f args).
Proof.
  intros Hwf HF. apply assemble; [exact Hwf|]. cbn [prec Lv]. apply lad_prim_post.
  intros fu rest Hl. cbn [wf_expr] in Hwf.
  apply andb_true_iff in Hwf. destruct Hwf as [Hwf Hargs].
  apply andb_true_iff in Hwf. destruct Hwf as [Hn He]. apply negb_true_iff in He.
  destruct (name_ok_not_bool f Hn) as [H1 H2].
  pose proof (P_RecS_list args HF Hargs) as HR.
  cbn [tprint_at] in *. cbn [app] in *. rewrite <- app_assoc in *. cbn [app p_prim] in *. rewrite H1, H2.
  pose proof (p_list_ok fu true args rest HR) as HL. cbn [close_tok] in HL. rewrite HL by len.
  rewrite He. reflexivity.
Qed.

Lemma P_EProp a f : wf_expr (EProp a f) = true -> P a -> P (EProp a f).
Proof.
  intros Hwf Ha. apply assemble; [exact Hwf|]. cbn [prec Lv tprint_at].
  cbn [wf_expr] in Hwf. apply andb_true_iff in Hwf. destruct Hwf as [Hwf Hf].
  apply andb_true_iff in Hwf. destruct Hwf as [Hwa Hnn]. apply negb_true_iff in Hnn.
  assert (E : tprint_at 6 a = tprint_at 7 a).
  { destruct (not_is_not_prec a Hnn) as [H7|H6].
    - rewrite (tprint_le a 6), (tprint_le a 7) by lia. reflexivity.
    - rewrite (tprint_gt a 6), (tprint_gt a 7) by lia. reflexivity. }
  intros fu rest Hl. rewrite E in *. rewrite <- app_assoc in *. cbn [app] in *.
  pose proof (Ha 7 7 ltac:(lia) ltac:(lia) ltac:(lia)) as H7. cbn [Lv] in H7.
  destruct (H7 fu (TDot :: TId f :: rest) Hl) as [n [Hn Hp]].
  rewrite Hp. destruct n as [|n]; [autorewrite with lenr in Hn; lia|]. cbn [post_loop].
  exists n. split; [len|reflexivity].
Qed.

Lemma P_ENot a : wf_expr (ENot a) = true -> P a -> P (ENot a).
Proof.
  intros Hwf Ha. apply assemble; [exact Hwf|].
  change (tprint_at 0 (ENot a)) with (TBang :: tprint_at 7 a). cbn [prec Lv].
  intros fu rest Hc Hl. cbn [app p_un] in *.
  pose proof (Ha 7 6 ltac:(lia) ltac:(lia) ltac:(lia)) as H6. cbn [Lv] in H6.
  rewrite (H6 fu rest Hc) by len. reflexivity.
Qed.

Lemma P_ECmp c a b : wf_expr (ECmp c a b) = true -> P a -> P b -> P (ECmp c a b).
Proof.
  intros Hwf Ha Hb. apply assemble; [exact Hwf|].
  change (tprint_at 0 (ECmp c a b)) with (tprint_at 6 a ++ cmp_tok c :: tprint_at 6 b). cbn [prec Lv].
  pose proof (Ha 6 6 ltac:(lia) ltac:(lia) ltac:(lia)) as HA. cbn [Lv] in HA.
  pose proof (Hb 6 6 ltac:(lia) ltac:(lia) ltac:(lia)) as HB. cbn [Lv] in HB.
  intros fu rest Hc Hl. rewrite <- app_assoc in *. cbn [app] in *.
  unfold c_cmp in Hc. apply andb_true_iff in Hc. destruct Hc as [Hd Hn].
  unfold p_cmp. rewrite (HA fu (cmp_tok c :: tprint_at 6 b ++ rest)) by (try (destruct c; reflexivity); len).
  cbn [length cmp_loop]. rewrite cmp_of_tok. rewrite (HB fu rest Hd) by len.
  apply cmp_loop_stop, Hn.
Qed.

Lemma in_loop_step rec n acc r :
  in_loop rec (S n) acc (TId s_in :: TLB :: r) =
  match p_list rec false r with Some (xs, r') => in_loop rec n (EIn acc xs) r' | None => None end.
Proof. reflexivity. Qed.

Lemma P_EIn a xs :
  wf_expr (EIn a xs) = true -> P a -> Forall (fun x => wf_expr x = true -> P x) xs -> P (EIn a xs).
Proof.
  intros Hwf Ha HF. apply assemble; [exact Hwf|].
  change (tprint_at 0 (EIn a xs)) with (tprint_at 6 a ++ TId s_in :: TLB :: tsep (map (tprint_at 0) xs) ++ [TRB]).
  cbn [prec Lv]. cbn [wf_expr] in Hwf. apply andb_true_iff in Hwf. destruct Hwf as [Hwa Hxs].
  pose proof (P_RecS_list xs HF Hxs) as HR.
  pose proof (lad65 _ _ (Ha 6 6 ltac:(lia) ltac:(lia) ltac:(lia))) as HA.
  intros fu rest Hc Hl. rewrite <- app_assoc in *. cbn [app] in *. rewrite <- app_assoc in *. cbn [app] in *.
  unfold c_in in Hc. apply andb_true_iff in Hc. destruct Hc as [Hcc Hn].
  unfold p_in. rewrite (HA fu (TId s_in :: TLB :: tsep (map (tprint_at 0) xs) ++ TRB :: rest)) by (try reflexivity; len).
  cbn [length]. rewrite in_loop_step.
  pose proof (p_list_ok fu false xs rest HR) as HL. cbn [close_tok] in HL. rewrite HL by len.
  apply in_loop_stop, Hn.
Qed.

Lemma P_EEq_gen (mk : expr -> expr -> expr) (t : token) a b :
  (mk = EEq /\ t = TEqEq) \/ (mk = ENeq /\ t = TNe) ->
  wf_expr a = true -> wf_expr b = true -> P a -> P b ->
  EqS (tprint_at 6 a ++ t :: tprint_at 6 b) (mk a b).
Proof.
  intros Hk Hwa Hwb Ha Hb.
  pose proof (lad54 _ _ (lad65 _ _ (Ha 6 6 ltac:(lia) ltac:(lia) ltac:(lia)))) as HA.
  pose proof (lad54 _ _ (lad65 _ _ (Hb 6 6 ltac:(lia) ltac:(lia) ltac:(lia)))) as HB.
  intros fu rest Hc Hl. rewrite <- app_assoc in *. cbn [app] in *.
  unfold c_eq in Hc. apply andb_true_iff in Hc. destruct Hc as [Hci Hn].
  unfold p_eq.
  rewrite (HA fu (t :: tprint_at 6 b ++ rest)) by (try (destruct Hk as [[_ E]|[_ E]]; subst t; reflexivity); len).
  destruct Hk as [[E1 E2]|[E1 E2]]; subst mk t; cbn [length eq_loop];
    rewrite (HB fu rest Hci) by len; apply eq_loop_stop, Hn.
Qed.

Lemma P_EEq a b : wf_expr (EEq a b) = true -> P a -> P b -> P (EEq a b).
Proof.
  intros Hwf Ha Hb. apply assemble; [exact Hwf|].
  cbn [wf_expr] in Hwf. apply andb_true_iff in Hwf. destruct Hwf as [Hwa Hwb].
  change (tprint_at 0 (EEq a b)) with (tprint_at 6 a ++ TEqEq :: tprint_at 6 b). cbn [prec Lv].
  apply (P_EEq_gen EEq TEqEq); auto.
Qed.

Lemma P_ENeq a b : wf_expr (ENeq a b) = true -> P a -> P b -> P (ENeq a b).
Proof.
  intros Hwf Ha Hb. apply assemble; [exact Hwf|].
  cbn [wf_expr] in Hwf. apply andb_true_iff in Hwf. destruct Hwf as [Hwa Hwb].
  change (tprint_at 0 (ENeq a b)) with (tprint_at 6 a ++ TNe :: tprint_at 6 b). cbn [prec Lv].
  apply (P_EEq_gen ENeq TNe); auto.
Qed.

Lemma P_EAnd a b : wf_expr (EAnd a b) = true -> P a -> P b -> P (EAnd a b).
Proof.
  intros Hwf Ha Hb. apply assemble; [exact Hwf|].
  change (tprint_at 0 (EAnd a b)) with (tprint_at 2 a ++ TAndAnd :: tprint_at 3 b). cbn [prec Lv].
  pose proof (Ha 2 2 ltac:(lia) ltac:(lia) ltac:(lia)) as HA. cbn [Lv] in HA.
  pose proof (Hb 3 3 ltac:(lia) ltac:(lia) ltac:(lia)) as HB. cbn [Lv] in HB.
  intros fu rest Hc Hl. rewrite <- app_assoc in *. cbn [app] in *.
  destruct (HA fu (TAndAnd :: tprint_at 3 b ++ rest) eq_refl Hl) as [n [Hn Hp]].
  rewrite Hp. destruct n as [|n]; [autorewrite with lenr in Hn; lia|]. cbn [and_loop].
  rewrite (HB fu rest Hc) by len. exists n. split; [len|reflexivity].
Qed.

Lemma P_EOr a b : wf_expr (EOr a b) = true -> P a -> P b -> P (EOr a b).
Proof.
  intros Hwf Ha Hb. apply assemble; [exact Hwf|].
  change (tprint_at 0 (EOr a b)) with (tprint_at 1 a ++ TOrOr :: tprint_at 2 b). cbn [prec Lv].
  pose proof (Ha 1 1 ltac:(lia) ltac:(lia) ltac:(lia)) as HA. cbn [Lv] in HA.
  pose proof (Hb 2 2 ltac:(lia) ltac:(lia) ltac:(lia)) as HB. cbn [Lv] in HB.
  intros fu rest Hc Hl. rewrite <- app_assoc in *. cbn [app] in *.
  unfold c_or in Hc. apply andb_true_iff in Hc. destruct Hc as [Hce Hna].
  destruct (HA fu (TOrOr :: tprint_at 2 b ++ rest) eq_refl Hl) as [n [Hn Hp]].
  rewrite Hp. destruct n as [|n]; [autorewrite with lenr in Hn; lia|]. cbn [or_loop].
  destruct (HB fu rest Hce ltac:(len)) as [m [_ Hm]]. rewrite Hm, and_loop_stop by exact Hna.
  exists n. split; [len|reflexivity].
Qed.

Theorem P_all e : wf_expr e = true -> P e.
Proof.
  induction e as [v|p f|a f IHa|a b IHa IHb|a b IHa IHb|c a b IHa IHb|a b IHa IHb
                  |a b IHa IHb|a IHa|a xs IHa IHxs|f args IHargs|p f] using expr_ind';
    intros Hwf; pose proof Hwf as Hwf0; cbn [wf_expr] in Hwf;
    repeat match goal with H : _ && _ = true |- _ => apply andb_true_iff in H; destruct H end.
  - apply P_ELit, Hwf0.
  - apply P_EVar, Hwf0.
  - apply P_EProp; auto.
  - apply P_EEq; auto.
  - apply P_ENeq; auto.
  - apply P_ECmp; auto.
  - apply P_EAnd; auto.
  - apply P_EOr; auto.
  - apply P_ENot; auto.
  - apply P_EIn; auto.
  - apply P_ECall; auto.
  - apply P_EEval, Hwf0.
Qed.

Theorem parse_tokens_tprint e : wf_expr e = true -> parse_tokens (tprint_at 0 e) = Some e.
Proof.
  intros Hwf. unfold parse_tokens. cbn [p_expr].
  pose proof (P_OrS e (P_all e Hwf) (length (tprint_at 0 e)) [] eq_refl) as H.
  rewrite app_nil_r in H. rewrite H by lia. reflexivity.
Qed.

(* the read-back theorem *)
Theorem parse_print e : wf_expr e = true -> parse_expr (print_expr e) = Some e.
Proof.
  intros Hwf. unfold parse_expr. rewrite (lex_print_expr e Hwf). apply parse_tokens_tprint, Hwf.
Qed.

Corollary print_expr_inj e1 e2 :
  wf_expr e1 = true -> wf_expr e2 = true -> print_expr e1 = print_expr e2 -> e1 = e2.
Proof.
  intros H1 H2 E. pose proof (parse_print e1 H1) as P1. rewrite E, (parse_print e2 H2) in P1.
  injection P1 as P1. symmetry. exact P1.
Qed.
