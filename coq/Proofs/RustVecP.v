(* General facts about the loop combinator and the Vec / LinkedHashSet
   operations of Gen/RustVec.v, used by PinChecks/PcStoreGen.v.

   A. `rs_for` (a fold_left over an explicit loop state) satisfies the
      recursive equations of a `for` loop.
   B. Four loop shapes, each characterised ONCE by induction from a POINTWISE
      description of the loop body (no induction is ever done on a generated
      term):
        scan    the body leaves the state alone until an element makes it
                stop (break / return) or panic        -> first such element
        select  the body updates the state on the elements that pass a
                partial test                           -> fold over the selected
        fold    the body always updates the state      -> fold_left
        foldopt the body updates the state with a partial function of the
                element                                -> fold over map_opt
   C. The RustVec operations in the model's vocabulary (reqb, rremove,
      tset_insert, ...), and the model's own recursive functions as instances
      of the shapes of B (select_filtered, column, rmem, fmatch). *)
From CV Require Import Model.Base Model.Enforce Model.Engine Gen.RustStr Gen.RustVec.
From CV Require Import Proofs.BaseP Proofs.C04SetP.
From Coq Require Import Lia.

(* ================================================================== *)
(* A. the loop equations                                               *)
Section LoopEquations.
  Context {A S R : Type} (body : A -> S -> flow S R).

  Lemma ls_fold_none : forall l, fold_left (ls_step body) l None = None.
  Proof. induction l as [|x l IH]; [reflexivity|]. cbn [fold_left ls_step]. exact IH. Qed.

  Lemma ls_fold_stopped : forall l st, ls_stopped st = true ->
    fold_left (ls_step body) l (Some st) = Some st.
  Proof.
    induction l as [|x l IH]; intros st Hs; [reflexivity|].
    cbn [fold_left ls_step]. rewrite Hs. apply IH, Hs.
  Qed.

  Lemma ls_fold_returned : forall l st r, ls_returned st = Some r ->
    fold_left (ls_step body) l (Some st) = Some st.
  Proof.
    induction l as [|x l IH]; intros st r Hr; [reflexivity|].
    cbn [fold_left ls_step]. rewrite Hr. destruct (ls_stopped st); apply (IH st r Hr).
  Qed.

  Lemma rs_for_nil : forall s, rs_for body [] s = Done s.
  Proof. reflexivity. Qed.

  Lemma rs_for_cons : forall x l s,
    rs_for body (x :: l) s =
    match body x s with
    | LNext s' => rs_for body l s'
    | LBreak s' => Done s'
    | LReturn r => Returned r
    | LPanic => Panicked
    end.
  Proof.
    intros x l s. unfold rs_for. cbn [fold_left ls_step ls_stopped ls_returned ls_vars].
    destruct (body x s) as [s'|s'|r|].
    - reflexivity.
    - rewrite ls_fold_stopped by reflexivity. reflexivity.
    - rewrite (ls_fold_returned l _ r) by reflexivity. reflexivity.
    - rewrite ls_fold_none. reflexivity.
  Qed.
End LoopEquations.

(* ================================================================== *)
(* B. loop shapes                                                      *)

(* what the loop yields when an iteration ends in c and c is not LNext *)
Definition flow_stop {S R} (c : flow S R) : loop_result S R :=
  match c with
  | LNext s => Done s
  | LBreak s => Done s
  | LReturn r => Returned r
  | LPanic => Panicked
  end.
Definition flow_is_next {S R} (c : flow S R) : bool :=
  match c with LNext _ => true | _ => false end.

(* the verdict of the first element whose check is not `Some false`:
   Some true = an element stops the loop, None = an element panics (first),
   Some false = every element is passed over *)
Fixpoint scan {A} (chk : A -> option bool) (l : list A) : option bool :=
  match l with
  | [] => Some false
  | x :: l' => match chk x with
               | Some false => scan chk l'
               | Some true => Some true
               | None => None
               end
  end.

Lemma rs_for_scan : forall {A S R} (body : A -> S -> flow S R) (chk : A -> option bool) (s : S) (stop : flow S R),
  (forall x, body x s = match chk x with Some true => stop | Some false => LNext s | None => LPanic end) ->
  flow_is_next stop = false ->
  forall l, rs_for body l s =
            match scan chk l with Some true => flow_stop stop | Some false => Done s | None => Panicked end.
Proof.
  intros A S R body chk s stop Hbody Hstop l. induction l as [|x l IH]; [reflexivity|].
  rewrite rs_for_cons, Hbody. cbn [scan]. destruct (chk x) as [[|]|].
  - destruct stop as [s'|s'|r|]; [discriminate Hstop|reflexivity|reflexivity|reflexivity].
  - exact IH.
  - reflexivity.
Qed.

Lemma scan_total : forall {A} (p : A -> bool) l, scan (fun x => Some (p x)) l = Some (existsb p l).
Proof.
  intros A p l. induction l as [|x l IH]; [reflexivity|].
  cbn [scan existsb]. destruct (p x); [reflexivity|exact IH].
Qed.

(* the elements that pass a partial test, in order; None = the test panics on some element *)
Fixpoint select_opt {A} (chk : A -> option bool) (l : list A) : option (list A) :=
  match l with
  | [] => Some []
  | x :: l' =>
    match chk x with
    | None => None
    | Some b => match select_opt chk l' with
                | None => None
                | Some s => Some (if b then x :: s else s)
                end
    end
  end.

Lemma rs_for_select : forall {A S R} (body : A -> S -> flow S R) (chk : A -> option bool) (upd : S -> A -> S),
  (forall x s, body x s = match chk x with Some true => LNext (upd s x) | Some false => LNext s | None => LPanic end) ->
  forall l s, rs_for body l s =
              match select_opt chk l with Some sel => Done (fold_left upd sel s) | None => Panicked end.
Proof.
  intros A S R body chk upd Hbody l. induction l as [|x l IH]; intros s; [reflexivity|].
  rewrite rs_for_cons, Hbody. cbn [select_opt]. destruct (chk x) as [[|]|].
  - rewrite IH. destruct (select_opt chk l) as [sel|]; reflexivity.
  - rewrite IH. destruct (select_opt chk l) as [sel|]; reflexivity.
  - reflexivity.
Qed.

(* in the Rust loop the panic happens at the FIRST element whose test panics,
   after the earlier ones were examined; select_opt says None as soon as SOME
   element panics: the same inputs *)
Lemma select_opt_None : forall {A} (chk : A -> option bool) l,
  select_opt chk l = None <-> exists l1 x l2, l = l1 ++ x :: l2 /\ chk x = None /\ (forall y, In y l1 -> chk y <> None).
Proof.
  intros A chk l. induction l as [|x l IH]; cbn [select_opt].
  - split; [discriminate|]. intros [l1 [x [l2 [H _]]]]. destruct l1; discriminate H.
  - destruct (chk x) as [b|] eqn:E.
    + destruct (select_opt chk l) as [sel|] eqn:Es.
      * split; [discriminate|]. intros [l1 [y [l2 [H [Hy Hl1]]]]]. destruct l1 as [|z l1].
        { cbn [app] in H. injection H as -> _. rewrite E in Hy. discriminate. }
        cbn [app] in H. injection H as -> ->.
        assert (C : Some sel = None); [|discriminate C]. apply IH.
        exists l1, y, l2. split; [reflexivity|]. split; [exact Hy|]. intros w Hw. apply Hl1. right. exact Hw.
      * split; [|reflexivity]. intros _. destruct (proj1 IH eq_refl) as [l1 [y [l2 [H [Hy Hl1]]]]].
        exists (x :: l1), y, l2. split; [rewrite H; reflexivity|]. split; [exact Hy|].
        intros w [<-|Hw]; [rewrite E; discriminate|apply Hl1, Hw].
    + split; [|reflexivity]. intros _. exists [], x, l. split; [reflexivity|]. split; [exact E|]. intros y [].
Qed.

Lemma select_opt_Some : forall {A} (chk : A -> option bool) l sel,
  select_opt chk l = Some sel ->
  (forall x, In x l -> chk x <> None) /\ sel = filter (fun x => match chk x with Some true => true | _ => false end) l.
Proof.
  intros A chk l. induction l as [|x l IH]; intros sel H; cbn [select_opt] in H.
  - inversion H. split; [intros x []|reflexivity].
  - destruct (chk x) as [b|] eqn:E; [|discriminate].
    destruct (select_opt chk l) as [s|]; [|discriminate]. destruct (IH s eq_refl) as [H1 H2].
    inversion H; subst sel. split.
    + intros y [<-|Hy]; [rewrite E; discriminate|apply H1, Hy].
    + cbn [filter]. rewrite E. destruct b; rewrite <- H2; reflexivity.
Qed.

Lemma rs_for_fold : forall {A S R} (body : A -> S -> flow S R) (f : S -> A -> S),
  (forall x s, body x s = LNext (f s x)) ->
  forall l s, rs_for body l s = Done (fold_left f l s).
Proof.
  intros A S R body f Hbody l. induction l as [|x l IH]; intros s; [reflexivity|].
  rewrite rs_for_cons, Hbody. apply IH.
Qed.

Fixpoint map_opt {A B} (g : A -> option B) (l : list A) : option (list B) :=
  match l with
  | [] => Some []
  | x :: l' => match g x with
               | None => None
               | Some y => match map_opt g l' with None => None | Some ys => Some (y :: ys) end
               end
  end.

Lemma rs_for_foldopt : forall {A B S R} (body : A -> S -> flow S R) (g : A -> option B) (f : S -> B -> S),
  (forall x s, body x s = match g x with Some y => LNext (f s y) | None => LPanic end) ->
  forall l s, rs_for body l s =
              match map_opt g l with Some ys => Done (fold_left f ys s) | None => Panicked end.
Proof.
  intros A B S R body g f Hbody l. induction l as [|x l IH]; intros s; [reflexivity|].
  rewrite rs_for_cons, Hbody. cbn [map_opt]. destruct (g x) as [y|]; [|reflexivity].
  rewrite IH. destruct (map_opt g l) as [ys|]; reflexivity.
Qed.

(* accumulations met in the store functions *)
Lemma fold_push : forall {A} (sel acc : list A), fold_left (fun s x => s ++ [x]) sel acc = acc ++ sel.
Proof.
  intros A sel. induction sel as [|x sel IH]; intros acc; cbn [fold_left].
  - rewrite app_nil_r. reflexivity.
  - rewrite IH, <- app_assoc. reflexivity.
Qed.

Definition is_nil {A} (l : list A) : bool := match l with [] => true | _ :: _ => false end.

Lemma fold_flag_push : forall {A} (sel acc : list A) (b : bool),
  fold_left (fun (s : bool * list A) x => let (_, a) := s in (true, a ++ [x])) sel (b, acc)
  = (b || negb (is_nil sel), acc ++ sel).
Proof.
  intros A sel. induction sel as [|x sel IH]; intros acc b; cbn [fold_left is_nil negb].
  - rewrite app_nil_r, orb_false_r. reflexivity.
  - rewrite IH, <- app_assoc, orb_true_r. reflexivity.
Qed.

(* enumerate *)
Fixpoint enum_from {A} (k : nat) (l : list A) : list (nat * A) :=
  match l with
  | [] => []
  | x :: l' => (k, x) :: enum_from (S k) l'
  end.

Lemma combine_seq_enum_from : forall {A} (l : list A) k, combine (seq k (length l)) l = enum_from k l.
Proof.
  intros A l. induction l as [|x l IH]; intros k; [reflexivity|].
  cbn [length seq combine enum_from]. rewrite IH. reflexivity.
Qed.

Lemma rs_enumerate_enum_from : forall {A} (l : list A), rs_enumerate l = enum_from 0 l.
Proof. intros A l. apply combine_seq_enum_from. Qed.

(* ================================================================== *)
(* C. the operations and the model's functions                         *)

Lemma rs_is_empty_nil : forall s : text, rs_is_empty s = match s with [] => true | _ :: _ => false end.
Proof. intros [|c s]; reflexivity. Qed.

Lemma rs_vec_is_empty_nil : forall {A} (v : list A), rs_vec_is_empty v = is_nil v.
Proof. intros A [|x v]; reflexivity. Qed.

Lemma teqb_nil_r : forall v : text, teqb v [] = match v with [] => true | _ :: _ => false end.
Proof. intros [|c v]; reflexivity. Qed.

Lemma rs_vec_eq_reqb : forall a b, rs_vec_eq a b = reqb a b.
Proof.
  unfold rs_vec_eq, reqb. induction a as [|x a IH]; intros [|y b]; try reflexivity.
  cbn [length combine forallb list_eqb fst snd Nat.eqb]. rewrite <- IH. unfold rs_eq.
  destruct (teqb x y), (Nat.eqb (length a) (length b)); reflexivity.
Qed.

Lemma rs_oset_remove_rremove : forall s r, rs_oset_remove s r = rremove r s.
Proof.
  intros s r. unfold rs_oset_remove, rremove. apply filter_ext. intros x. rewrite rs_vec_eq_reqb. reflexivity.
Qed.

Lemma rs_set_insert_tset : forall s x, rs_set_insert s x = tset_insert s x.
Proof. intros s x. rewrite tset_insert_eq. reflexivity. Qed.

(* the model's selection is the `select` shape over the model's field filter *)
Lemma select_filtered_select_opt : forall idx vals l,
  select_filtered idx vals l = select_opt (fun r => fmatch vals (skipn idx r)) l.
Proof.
  intros idx vals l. induction l as [|r l IH]; [reflexivity|].
  cbn [select_filtered select_opt]. rewrite IH. reflexivity.
Qed.

(* the model's column is the `foldopt` shape's map_opt over nth_error *)
Lemma column_map_opt : forall idx l, column idx l = map_opt (fun r => nth_error r idx) l.
Proof.
  intros idx l. induction l as [|r l IH]; [reflexivity|].
  cbn [column map_opt]. rewrite IH. destruct (nth_error r idx); [|reflexivity].
  destruct (map_opt (fun r0 : rule => nth_error r0 idx) l); reflexivity.
Qed.

(* one step of the inner loop of the filter, as the source has it: the i-th
   filter value v against field idx + i of the rule.
   Some true = mismatch (the loop breaks), Some false = go on, None = the index
   idx + i is out of range AND v is not empty (an empty v never looks at the rule) *)
Definition fcheck (idx : nat) (r : rule) (iv : nat * text) : option bool :=
  let (i, v) := iv in
  match v with
  | [] => Some false
  | _ :: _ => match nth_error r (idx + i) with
              | None => None
              | Some f => Some (negb (teqb f v))
              end
  end.

(* the model's tail-walking filter is the scan of fcheck over the enumerated filter *)
Lemma scan_fcheck : forall idx r vals k,
  scan (fcheck idx r) (enum_from k vals) = option_map negb (fmatch vals (skipn (idx + k) r)).
Proof.
  intros idx r vals. induction vals as [|v vs IH]; intros k; [reflexivity|].
  cbn [enum_from scan fcheck fmatch]. rewrite teqb_nil_r. destruct v as [|c v].
  - rewrite IH, tl_skipn, Nat.add_succ_r. reflexivity.
  - rewrite (skipn_nth_error (idx + k) r). destruct (nth_error r (idx + k)) as [f|]; [|reflexivity].
    destruct (teqb f (c :: v)); cbn [negb]; [|reflexivity].
    rewrite IH, Nat.add_succ_r. reflexivity.
Qed.

Lemma scan_fcheck0 : forall idx r vals,
  scan (fcheck idx r) (enum_from 0 vals) = option_map negb (fmatch vals (skipn idx r)).
Proof. intros idx r vals. rewrite scan_fcheck, Nat.add_0_r. reflexivity. Qed.

Lemma rmem_existsb : forall r l, rmem r l = existsb (reqb r) l.
Proof. reflexivity. Qed.

(* what m_remove_filtered does to the rule list of the assertion: the early
   return on an empty filter, the selection (None = panic, nothing removed
   yet), the flag, the removal of the selected rules one by one *)
Definition remove_filtered_spec (idx : nat) (vals : list text) (policy : list rule)
  : option (list rule * (bool * list rule)) :=
  match vals with
  | [] => Some (policy, (false, []))
  | _ :: _ =>
    match select_filtered idx vals policy with
    | None => None
    | Some rem => Some (fold_left (fun l r => rremove r l) rem policy, (negb (is_nil rem), rem))
    end
  end.
